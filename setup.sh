#!/bin/bash
# MANIFEST.setup_cmd: build the Lean model, proofs and driver from files on disk (offline).
set -e
# the generated tables always describe the tree under test, whatever is committed
"$(dirname "$0")/tools/regen_tables.sh"
cd "$(dirname "$0")/lean"
lake build PulserModel Proofs Properties pmdriver pm_layout pm_geom pm_ham pm_meas pm_wave pm_mod pm_codec pm_switch
