#!/bin/bash
# tools/reseed_all.sh — re-run every confirmed seeded change against the quick check of the
# property it breaks (scratch worktrees; /repo untouched); writes seeded/RESULTS.txt
cd /verif
out=seeded/RESULTS.txt; : > $out.tmp
for d in seeded/*/; do
  name=$(basename $d); prop=${name%%-*}
  [ -f $d/patch.diff ] || continue
  res=$(tools/try_patch.sh $d/patch.diff $prop 2>&1 | grep -E "^== |PATCH-DOES-NOT-APPLY" | tr '\n' ' ')
  echo "$name $res" >> $out.tmp
done
mv $out.tmp $out
