#!/usr/bin/env python3
"""Regenerate the seeded-changes table of DESIGN.md §9.4 from seeded/*/meta.json."""
import json
from pathlib import Path

V = Path("/verif")
rows = ["| seeded change | breaks | needs | confirmed | caught by (quick tier) |", "|---|---|---|---|---|"]
for d in sorted(x for x in (V / "seeded").iterdir() if x.is_dir()):
    m = json.loads((d / "meta.json").read_text())
    caught = ", ".join(m.get("caught_by") or []) or "— (missed)"
    rows.append(f"| `{m['name']}` | {m.get('property')} | {(m.get('needs') or '')[:110]} | {'yes' if m.get('confirmed') else 'NO'} | {caught} |")
table = "\n".join(rows)
p = V / "DESIGN.md"
s = p.read_text()
import re
if "SEED_TABLE_PLACEHOLDER" in s:
    s = s.replace("SEED_TABLE_PLACEHOLDER", "<!-- seed-table-begin -->\n" + table + "\n<!-- seed-table-end -->")
else:
    s = re.sub(r"<!-- seed-table-begin -->.*?<!-- seed-table-end -->",
               "<!-- seed-table-begin -->\n" + table.replace("\\", "\\\\") + "\n<!-- seed-table-end -->", s, flags=re.S)
p.write_text(s)
print(table)
