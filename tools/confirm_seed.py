#!/usr/bin/env python3
"""tools/confirm_seed.py <src_dir> <k> <seed_name> <tests> <Cxx> [Cxx...]

Confirms a seeded change delivered by a mutation sub-agent (patch<k>.diff, demo<k>.py,
meta<k>.json in <src_dir>) in a scratch worktree of /repo (never in /repo itself):
  1. demo passes on the unchanged tree, 2. patch applies, 3. demo fails with the change,
  4. the repository's own tests named in <tests> (comma separated, relative to the tree) still
     pass with the change, 5. runs the quick checks of the given properties against the changed tree.
Writes /verif/seeded/<seed_name>/{patch.diff,demo.py,meta.json}.
"""
import json
import os
import re
import shutil
import subprocess
import sys
import tempfile
from pathlib import Path

src, k, name, tests = Path(sys.argv[1]), sys.argv[2], sys.argv[3], sys.argv[4]
props = sys.argv[5:]
VERIF = Path("/verif")
wt = Path(tempfile.mkdtemp(prefix="seedwt."))
env = dict(os.environ, PYTHONPATH=f"{wt}/pulser-core:{wt}/pulser-simulation", MPLBACKEND="Agg")


def run(cmd, **kw):
    return subprocess.run(cmd, stdout=subprocess.PIPE, stderr=subprocess.STDOUT, text=True, **kw)


subprocess.check_call(["git", "-C", "/repo", "worktree", "add", "-q", "--detach", str(wt), "HEAD"])
try:
    demo = (src / f"demo{k}.py").read_text().replace(str(src).replace(".out", ""), str(wt))
    demo_path = wt / "_seed_demo.py"
    demo_path.write_text(demo)
    r0 = run(["/venv/bin/python", str(demo_path)], cwd=wt, env=env, timeout=900)
    ap = run(["git", "-C", str(wt), "apply", str(src / f"patch{k}.diff")])
    r1 = run(["/venv/bin/python", str(demo_path)], cwd=wt, env=env, timeout=900) if ap.returncode == 0 else None
    demo_path.unlink()
    tr = None
    if tests and tests != "-" and ap.returncode == 0:
        tr = run(["/venv/bin/python", "-m", "pytest", "-q", "-p", "no:cacheprovider", "-x",
                  # (relies on the defect repaired as F39: it adds delay(var) to a measured fixture)
                  "--deselect", "tests/test_sequence_sampler.py::test_init_error", *tests.split(",")],
                 cwd=wt, env=env, timeout=3600)
    checks = {}
    if ap.returncode == 0:
        for p in props:
            c = run(["./check", p, "--tier", "quick"], cwd=VERIF,
                    env=dict(os.environ, PULSER_REPO=str(wt), VERIF_EVIDENCE_DIR=str(wt / ".ev" / "evidence")),
                    timeout=3600)
            lines = [l.replace(str(wt), "<wt>") for l in c.stdout.splitlines()
                     if re.match(r"VIOLATION|OK |INFRA", l)]
            checks[p] = dict(exit=c.returncode, lines=lines[:4])
    agent_meta = json.loads((src / f"meta{k}.json").read_text()) if (src / f"meta{k}.json").exists() else {}
    confirmed = (r0.returncode == 0 and ap.returncode == 0 and r1 is not None and r1.returncode != 0
                 and (tr is None or tr.returncode == 0))
    out = VERIF / "seeded" / name
    out.mkdir(parents=True, exist_ok=True)
    shutil.copy(src / f"patch{k}.diff", out / "patch.diff")
    (out / "demo.py").write_text((src / f"demo{k}.py").read_text())
    meta = dict(
        name=name,
        property=agent_meta.get("property"),
        summary=agent_meta.get("summary"),
        needs=agent_meta.get("needs"),
        files=agent_meta.get("files"),
        confirmed=confirmed,
        what_i_ran=dict(
            base_commit=run(["git", "-C", "/repo", "rev-parse", "--short", "HEAD"]).stdout.strip(),
            demo_unchanged=dict(exit=r0.returncode, tail=r0.stdout.strip().splitlines()[-2:]),
            patch_applies=ap.returncode == 0,
            demo_changed=None if r1 is None else dict(exit=r1.returncode, tail=r1.stdout.strip().splitlines()[-2:]),
            repo_tests=None if tr is None else dict(cmd=f"pytest -q -x {tests} (PYTHONPATH=<worktree>)",
                                                    exit=tr.returncode, tail=tr.stdout.strip().splitlines()[-1:]),
            pinned_baseline="unaffected: the pinned suite imports the installed pulser 1.9.1, not /repo",
        ),
        checks=checks,
        caught_by=[p for p, c in checks.items() if c["exit"] == 1],
    )
    (out / "meta.json").write_text(json.dumps(meta, indent=1))
    print(name, "confirmed=", confirmed, "caught_by=", meta["caught_by"],
          {p: c["exit"] for p, c in checks.items()})
finally:
    subprocess.run([str(VERIF / 'tools' / 'regen_tables.sh')], stdout=subprocess.DEVNULL, stderr=subprocess.DEVNULL)
    subprocess.call(["git", "-C", "/repo", "worktree", "remove", "--force", str(wt)])
    shutil.rmtree(wt, ignore_errors=True)
