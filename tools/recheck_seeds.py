#!/usr/bin/env python3
"""tools/recheck_seeds.py [--jobs N] [name-substring ...]

Re-runs every kept seeded change (seeded/<name>/patch.diff) against the *current* checks: the
quick check of the property it breaks plus every check recorded for it before.  Each change is
applied in its own scratch worktree of /repo (never in /repo itself) which is removed afterwards.
Updates `checks`, `caught_by`, `patch_applies_now` and `rechecked_at` in seeded/<name>/meta.json.

The checks whose Lean tables are regenerated from the tree under test (C04 C13 C17 C18) are run
one at a time at the end; the others run `--jobs` at a time.
"""
import json
import os
import re
import subprocess
import sys
import tempfile
from concurrent.futures import ThreadPoolExecutor
from pathlib import Path

V = Path(__file__).resolve().parents[1]
SERIAL = {"C04", "C13", "C17", "C18"}
args = sys.argv[1:]
jobs = 4
if args and args[0] == "--jobs":
    jobs = int(args[1]); args = args[2:]
head = subprocess.check_output(["git", "-C", "/repo", "rev-parse", "--short", "HEAD"], text=True).strip()


def one(name: str, props: list[str]) -> dict:
    d = V / "seeded" / name
    wt = Path(tempfile.mkdtemp(prefix="seedwt."))
    subprocess.check_call(["git", "-C", "/repo", "worktree", "add", "-q", "--detach", str(wt), "HEAD"])
    res = {}
    try:
        ap = subprocess.run(["git", "-C", str(wt), "apply", str(d / "patch.diff")], capture_output=True, text=True)
        if ap.returncode != 0:
            return {"_applies": False}
        for p in props:
            c = subprocess.run(["./check", p, "--tier", "quick"], cwd=V, text=True,
                               stdout=subprocess.PIPE, stderr=subprocess.STDOUT, timeout=3600,
                               env=dict(os.environ, PULSER_REPO=str(wt), VERIF_EVIDENCE_DIR=str(wt / ".ev" / "evidence")))
            lines = [l.replace(str(wt), "<wt>")[:400] for l in c.stdout.splitlines() if re.match(r"VIOLATION|OK |INFRA", l)]
            res[p] = dict(exit=c.returncode, lines=lines[:4])
    finally:
        subprocess.run(["git", "-C", "/repo", "worktree", "remove", "--force", str(wt)])
    return res


seeds = []
for d in sorted(x for x in (V / "seeded").iterdir() if x.is_dir() and (x / "patch.diff").exists()):
    if args and not any(a in d.name for a in args):
        continue
    m = json.loads((d / "meta.json").read_text())
    props = [m.get("property") or d.name.split("-")[0]]
    for p in list(m.get("checks") or {}) + list(m.get("caught_by") or []):
        if p not in props:
            props.append(p)
    seeds.append((d.name, props))

results: dict[str, dict] = {n: {} for n, _ in seeds}


def par(item):
    n, props = item
    ps = [p for p in props if p not in SERIAL]
    return n, (one(n, ps) if ps else {})


with ThreadPoolExecutor(jobs) as ex:
    for n, r in ex.map(par, seeds):
        results[n].update(r)
        print("par", n, {k: (v["exit"] if isinstance(v, dict) else v) for k, v in r.items()}, flush=True)
for n, props in seeds:
    ps = [p for p in props if p in SERIAL]
    if ps and results[n].get("_applies", True):
        r = one(n, ps)
        results[n].update(r)
        print("ser", n, {k: (v["exit"] if isinstance(v, dict) else v) for k, v in r.items()}, flush=True)
subprocess.run([str(V / "tools" / "regen_tables.sh")], stdout=subprocess.DEVNULL, stderr=subprocess.DEVNULL)

for n, _ in seeds:
    f = V / "seeded" / n / "meta.json"
    m = json.loads(f.read_text())
    r = results[n]
    applies = r.pop("_applies", True)
    m["patch_applies_now"] = applies
    m["rechecked_at"] = head
    if applies:
        m["checks"] = r
        m["caught_by"] = [p for p, v in r.items() if v["exit"] == 1]
        m["infra"] = [p for p, v in r.items() if v["exit"] not in (0, 1)]
    f.write_text(json.dumps(m, indent=1) + "\n")
    print(n, "applies" if applies else "DOES-NOT-APPLY", "caught_by", m.get("caught_by"), "infra", m.get("infra"))
