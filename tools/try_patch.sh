#!/bin/bash
# tools/try_patch.sh <patch.diff> <Cxx> [more Cxx ...]
# Applies a seeded change in a scratch worktree of /repo (never in /repo itself), runs the quick
# checks of the given properties against it, prints their verdict lines and removes the worktree.
set -u
patch=$(readlink -f "$1"); shift
wt=$(mktemp -d /tmp/seedwt.XXXXXX)
git -C /repo worktree add -q --detach "$wt" HEAD || exit 2
if ! git -C "$wt" apply "$patch"; then echo "PATCH-DOES-NOT-APPLY"; git -C /repo worktree remove --force "$wt"; exit 2; fi
rc=0
for p in "$@"; do
  out=$(cd /verif && PULSER_REPO="$wt" VERIF_EVIDENCE_DIR="$wt/.evidence" ./check "$p" --tier quick 2>&1)
  code=$?
  echo "== $p exit=$code"
  echo "$out" | grep -E "VIOLATION|^OK|INFRA" | sed "s#$wt#<wt>#g" | head -5
  [ $code -ne 0 ] && rc=1
done
git -C /repo worktree remove --force "$wt"
/verif/tools/regen_tables.sh > /dev/null 2>&1   # the generated Lean tables describe /repo again
exit $rc
