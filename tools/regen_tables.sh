#!/bin/bash
# Regenerate the generated Lean tables from /repo (or $PULSER_REPO).
cd "$(dirname "$0")/.."
REPO="${PULSER_REPO:-/repo}"
PYTHONPATH="$REPO/pulser-core:$REPO/pulser-simulation" MPLBACKEND=Agg /venv/bin/python harness/regen_tables.py
