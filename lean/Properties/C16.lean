/-
  C16 — Waveforms and pulses honour their defining contracts  (PARTIAL, level "other").

  Only property theorems (and their non-vacuity examples) live here; helper lemmas are in
  Proofs/Waveform.lean.  Model: PulserModel/Waveform.lean — waveforms idealised to ℚ.

  What these theorems do NOT cover (validated numerically by harness/props/C16.py, listed as
  `uncovered_clauses` in the evidence): the float values of `np.blackman`, `np.kaiser`, PCHIP /
  `interp1d`, float rounding anywhere, the Kaiser `from_max_val` search, `__eq__` through
  `np.isclose`.  The Blackman window enters only through its sum `S N` and peak `peak N`.

  A division with a possibly-zero divisor is `divQ?` in the model (`none` = numpy's nan/inf), so
  no statement below silently relies on Lean's `x / 0 = 0`.

  Repairs of /repo mirrored here: b1aea695 (one-sample ramp), e02d4356 (two-sample Blackman),
  c5791488 (ArbitraryPhase on one sample).  The theorems named `…_old` are statements about the
  formulas as they were before those commits (findings F6.1–F6.3), kept as documentation.
-/
import Proofs.Waveform
namespace Pulser
namespace C16
open Wave

/-! ### `Waveform.__getitem__` -/

/-- **Index semantics.**  `_check_index` accepts exactly `-d ≤ i < d` and returns Python's
position: `i` itself when non-negative, `d + i` when negative. -/
theorem check_index_spec (d : Nat) (i : Int) (j : Nat) :
    (checkIndex d i = some j ↔
      ((0 ≤ i ∧ i < d ∧ (j : Int) = i) ∨ (i < 0 ∧ -(d : Int) ≤ i ∧ (j : Int) = d + i))) ∧
    (checkIndex d i = none ↔ (i < -(d : Int) ∨ (d : Int) ≤ i)) :=
  ⟨checkIndex_spec d i j, checkIndex_none d i⟩

example : checkIndex 5 (-2) = some 3 ∧ checkIndex 5 5 = none ∧ checkIndex 5 (-6) = none := by decide

/-- **Slice semantics.**  `_check_slice` raises exactly for a step other than `None`/`1`, and
otherwise returns CPython's adjusted bounds (`None`, negative and out-of-range start/stop), with
an empty range reported as `stop = start`; the bounds are ordered and inside the waveform. -/
theorem check_slice_spec (d : Nat) (a b st : Option Int) (s e : Nat) :
    (checkSlice d a b st = some (s, e) ↔
      (st = none ∨ st = some 1) ∧ (s : Int) = pyAdjust d a 0 ∧
      (e : Int) = max (pyAdjust d a 0) (pyAdjust d b d)) ∧
    (checkSlice d a b st = some (s, e) → s ≤ e ∧ e ≤ d) := by
  refine ⟨checkSlice_spec d a b st s e, fun h => ?_⟩
  obtain ⟨_, h1, h2⟩ := (checkSlice_spec d a b st s e).mp h
  have hA := pyAdjust_range d a 0 ⟨by omega, by omega⟩
  have hB := pyAdjust_range d b d ⟨by omega, by omega⟩
  omega

example : checkSlice 10 (some (-3)) none none = some (7, 10) ∧
    checkSlice 10 (some 8) (some 2) (some 1) = some (8, 8) ∧
    checkSlice 10 (some (-50)) (some 50) none = some (0, 10) ∧
    checkSlice 10 none none (some 2) = none := by decide

/-- The samples a slice returns are those at positions `start … stop-1` of the Python reading of
the slice, in order. -/
theorem slice_elements (l : List Rat) (a b st : Option Int) (r : List Rat)
    (h : getSlice l a b st = some r) :
    r.length = (max (pyAdjust l.length a 0) (pyAdjust l.length b l.length)
                  - pyAdjust l.length a 0).toNat ∧
    ∀ k, k < r.length → r[k]? = l[(pyAdjust l.length a 0).toNat + k]? := by
  unfold getSlice at h
  cases hc : checkSlice l.length a b st with
  | none => simp [hc] at h
  | some se =>
    obtain ⟨s, e⟩ := se
    simp [hc] at h; subst h
    obtain ⟨_, h1, h2⟩ := (checkSlice_spec _ a b st s e).mp hc
    obtain ⟨h3, h4⟩ := (check_slice_spec _ a b st s e).2 hc
    rw [sliceList_length l s e h4]
    refine ⟨by omega, fun k hk => ?_⟩
    rw [sliceList_getElem? l s e k hk]
    congr 1; omega

/-- Indexing returns the sample at Python's position. -/
theorem index_element (l : List Rat) (i : Int) (x : Rat) (h : getIndex l i = some x) :
    (0 ≤ i ∧ l[i.toNat]? = some x) ∨ (i < 0 ∧ l[((l.length : Int) + i).toNat]? = some x) := by
  unfold getIndex at h
  cases hc : checkIndex l.length i with
  | none => simp [hc] at h
  | some j =>
    simp [hc] at h
    rcases (checkIndex_spec _ i j).mp hc with ⟨h0, _, hj⟩ | ⟨h0, _, hj⟩
    · left; refine ⟨h0, ?_⟩; rw [← h]; congr 1; omega
    · right; refine ⟨h0, ?_⟩; rw [← h]; congr 1; omega

/-! ### Durations and values -/

/-- **Exactly `duration` samples** — whenever the samples are defined (finite) at all. -/
theorem samples_length (w : Wf) (s : List Rat) (h : w.samples? = some s) : s.length = w.duration :=
  samples?_length w s h

/-- Constant and custom waveforms take the documented values. -/
theorem constant_custom_values (d : Nat) (v : Rat) (xs : List Rat) :
    (Wf.const d v).samples? = some (List.replicate d v) ∧ (Wf.custom xs).samples? = some xs := by
  simp [Wf.samples?]

/-- The duration of a composite is the sum of the durations of its parts. -/
theorem composite_duration (ws : List Wf) :
    (Wf.composite ws).duration = (ws.map Wf.duration).sum := by
  simp only [Wf.duration]; exact durationList_eq ws

/-- The samples of a composite are the concatenation of the samples of its parts (and are
defined iff all of them are). -/
theorem composite_samples (ws : List Wf) :
    (Wf.composite ws).samples? = (ws.mapM Wf.samples?).map List.flatten := by
  simp only [Wf.samples?]; exact samplesList?_eq ws

example : (Wf.composite [.const 2 1, .ramp 3 0 1, .custom [5]]).samples?
    = some [1, 1, 0, (1 : Rat) / 2, 1, 5] := by decide +kernel

/-- **Ramp values.**  For `d ≥ 2` the samples are defined, sample `i` is
`start + i·(stop − start)/(d − 1)` (the `np.clip` never bites), the first is `start` and the last
is `stop`.  (`d ≥ 2` because the formula mentions `d − 1`; `d = 1` is `ramp_defined`.) -/
theorem ramp_values (d : Nat) (a b : Rat) (hd : 2 ≤ d) :
    ∃ s, (Wf.ramp d a b).samples? = some s ∧ s.length = d ∧
      (∀ i, i < d → s[i]? = some (a + (i : Rat) * (b - a) / ((d : Rat) - 1))) ∧
      s[0]? = some a ∧ s[d - 1]? = some b := by
  refine ⟨rampIdeal d a b, by simp only [Wf.samples?]; exact rampSamples?_eq_ideal a b hd,
    by simp [rampIdeal], fun i hi => rampIdeal_getElem? a b hi, ?_, ?_⟩
  · rw [rampIdeal_getElem? a b (by omega)]; simp
  · rw [rampIdeal_getElem? a b (by omega)]
    have hd' : ((d : Rat) - 1) ≠ 0 := by
      have : (2 : Rat) ≤ (d : Rat) := by exact_mod_cast hd
      intro h; linarith
    have : ((d - 1 : Nat) : Rat) = (d : Rat) - 1 := by
      rw [Nat.cast_sub (by omega)]; simp
    rw [this]; congr 1; field_simp; ring

/-- **Every ramp has defined samples** (since /repo b1aea695 the slope divides by
`max(d − 1, 1)`): exactly `d` of them, starting at `start`; the one-sample ramp is `[start]`. -/
theorem ramp_defined (d : Nat) (a b : Rat) :
    (∃ s, (Wf.ramp d a b).samples? = some s ∧ s.length = d) ∧
    (Wf.ramp 1 a b).samples? = some [a] := by
  simp only [Wf.samples?]
  obtain ⟨s, hs⟩ := rampSamples?_isSome d a b
  exact ⟨⟨s, hs, rampSamples?_length hs⟩, rampSamples?_one a b⟩

/-- **F6.1, about the old formula** (`slope = (stop − start)/(d − 1)`, before /repo b1aea695): at
`d = 1` it divides by zero whatever `start` and `stop` are — the accepted one-sample ramp had
no finite sample (`[nan]` in numpy). -/
theorem ramp_one_counterexample_old (a b : Rat) :
    (Wf.ramp 1 a b).valid = true ∧ rampSamplesOld? 1 a b = none :=
  ⟨by simp [Wf.valid], rampSamplesOld?_one a b⟩

/-- **Window area.**  A Blackman/Kaiser waveform whose samples are defined integrates to the
requested area, whatever the window values are; and the samples are undefined exactly when the
window sums to zero. -/
theorem window_integral (be : Option Rat) (norm : List Rat) (area : Rat) :
    (∀ s, (Wf.window be norm area).samples? = some s → s.sum / 1000 = area) ∧
    ((Wf.window be norm area).samples? = none ↔ norm.sum = 0) := by
  simp only [Wf.samples?]
  exact ⟨fun s h => windowSamples?_sum h, windowSamples?_none_iff norm area⟩

/-- **F6.2, about the old window.**  `np.blackman(2)` clipped at 0 is `[0, 0]`; normalising it
(as the code did before /repo e02d4356) gives no finite sample (0/0), although the constructor
accepts the duration.  Since the repair a Blackman window of at most two samples is flat, and then
the samples are defined with the requested area (`window_integral`). -/
theorem blackman_two_counterexample_old (area : Rat) :
    (Wf.window none [0, 0] area).valid = true ∧ (Wf.window none [0, 0] area).samples? = none ∧
    (Wf.window none [1, 1] area).samples? = some [area / 2 * 1000, area / 2 * 1000] := by
  refine ⟨by simp [Wf.valid], ?_, ?_⟩
  · rw [(window_integral none [0, 0] area).2]; simp
  · simp only [Wf.samples?, windowSamples?, divQ?]
    norm_num

example : (Wf.window none [0, 1, 0] 2).samples? = some [0, 2000, 0] := by decide +kernel

/-! ### Scaling, negation, division, change of duration -/

/-- **Scaling** multiplies every sample (and keeps the duration and definedness). -/
theorem scale_mul (w : Wf) (k : Rat) :
    (w.scale k).duration = w.duration ∧
    (w.scale k).samples? = w.samples?.map (List.map (· * k)) :=
  ⟨scale_duration k w, scale_samples? k w⟩

/-- **Negation** negates every sample. -/
theorem scale_neg (w : Wf) : w.neg.samples? = w.samples?.map (List.map (- ·)) := by
  unfold Wf.neg; rw [scale_samples?]
  congr 1; funext l; apply List.map_congr_left; intro x _; ring

/-- **Division** is defined iff the divisor is non-zero and then divides every sample. -/
theorem scale_div (w : Wf) (k : Rat) :
    (w.div? k = none ↔ k = 0) ∧
    (k ≠ 0 → ∃ w', w.div? k = some w' ∧ w'.duration = w.duration ∧
      w'.samples? = w.samples?.map (List.map (· / k))) :=
  ⟨div?_none_iff w k, fun hk => div?_samples w hk⟩

example : ((Wf.composite [.ramp 3 0 1, .const 2 4]).scale (-2)).samples?
    = some [0, -1, -2, -8, -8] := by decide +kernel

/-- **Changing the duration** keeps the defining parameters and yields the new duration. -/
theorem change_duration_keeps_params (w w' : Wf) (new : Nat) (nn : List Rat)
    (h : w.changeDuration? new nn = some w') : w'.params = w.params ∧ w'.duration = new :=
  changeDuration?_spec h

example : (Wf.ramp 5 1 2).changeDuration? 9 [] = some (.ramp 9 1 2) := rfl

/-! ### Pulses -/

/-- **Phase range** (for the rational stand-in of `2*np.pi` of `fmtPhase`): `0 ≤ φ mod 2π < 2π`. -/
theorem pulse_phase_range (x : Rat) : 0 ≤ fmtPhase x ∧ fmtPhase x < twoPi := fmtPhase_range x

/-- **Pulse invariants**: an accepted pulse has equal-length waveforms, no negative amplitude
sample, and both phases in `[0, 2π)`. -/
theorem pulse_valid (amp det : List Rat) (ph post : Rat) (p : PulseM)
    (h : mkPulse amp det ph post = some p) :
    p.amp.length = p.det.length ∧ (∀ x ∈ p.amp, 0 ≤ x) ∧
    (0 ≤ p.phase ∧ p.phase < twoPi) ∧ (0 ≤ p.post ∧ p.post < twoPi) := mkPulse_spec h

example : (mkPulse [1, 2] [0, 0] (-1) 0).map (·.phase) = some (twoPi - 1) ∧
    mkPulse [1, -2] [0, 0] 0 0 = none ∧ mkPulse [1] [0, 0] 0 0 = none := by decide +kernel

/-- **A pulse is refused exactly when it must be**: `Pulse.__init__` accepts iff the two waveforms
have the same duration and no amplitude sample is negative (whatever the phases). -/
theorem pulse_accepted_iff (amp det : List Rat) (ph post : Rat) :
    (mkPulse amp det ph post).isSome ↔ (det.length = amp.length ∧ ∀ x ∈ amp, 0 ≤ x) := by
  unfold mkPulse
  by_cases h1 : det.length = amp.length
  · cases h2 : amp.any (· < 0)
    · have h3 : ∀ x ∈ amp, 0 ≤ x := by
        intro x hx
        have := (List.any_eq_false.mp h2) x hx
        exact not_lt.mp (by simpa using this)
      simp [h1]; exact h3
    · obtain ⟨x, hx, hlt⟩ := List.any_eq_true.mp h2
      have hlt' : x < 0 := by simpa using hlt
      have h3 : ¬ ∀ x ∈ amp, 0 ≤ x := fun h => absurd (h x hx) (not_le.mpr hlt')
      simp [h1, h3]
  · simp [h1]

/-- **Arbitrary phase (general branch).**  With `δ = pad(−diff(φ)·10³, (1,0), edge)` and
`φ_c = φ[0] + δ[0]·10⁻³`, the phase modulation `φ_c − cumsum(δ·10⁻³)` reproduces `φ` at every
sample (unreduced phases; the `% 2π` of `Pulse.__init__` is `pulse_phase_range`). -/
theorem arbitrary_phase_reconstructs (phi det : List Rat) (h : arbDetuning? phi = some det) :
    det.length = phi.length ∧ phaseModulation (arbPhaseC phi det) det = phi := by
  have h2 := arb_reconstructs h
  refine ⟨?_, h2⟩
  have : (phaseModulation (arbPhaseC phi det) det).length = det.length := by
    unfold phaseModulation
    have hl : ∀ (l : List Rat) (acc : Rat), (cumsumFrom acc l).length = l.length := by
      intro l; induction l with
      | nil => intro _; rfl
      | cons x xs ih => intro acc; simp [cumsumFrom, ih]
    simp [hl]
  rw [h2] at this; exact this.symm

/-- The branch is defined for every non-empty phase waveform (a one-sample phase waveform gives a
zero detuning since /repo c5791488) … -/
theorem arbitrary_phase_defined_iff (phi : List Rat) :
    arbDetuning? phi = none ↔ phi = [] := arbDetuning?_none_iff phi

/-- … whereas the old formula (F6.3) edge-padded the empty difference of a one-sample phase
waveform, an error in numpy. -/
theorem arbitrary_phase_single_sample_old (phi : List Rat) :
    arbDetuningOld? phi = none ↔ phi.length ≤ 1 := arbDetuningOld?_none_iff phi

/-- Constant and ramp branches of `ArbitraryPhase` reproduce the constant / the ideal ramp. -/
theorem arbitrary_phase_const_ramp (d : Nat) (v a b : Rat) :
    phaseModulation (arbConst d v).1 (arbConst d v).2 = List.replicate d v ∧
    (2 ≤ d → ∀ c det, arbRamp? d a b = some (c, det) → phaseModulation c det = rampIdeal d a b) :=
  ⟨arbConst_reconstructs d v, fun hd _ _ h => arbRamp_reconstructs hd h⟩

example : arbDetuning? [1, 3, 2] = some [-2000, -2000, 1000] ∧
    phaseModulation (arbPhaseC [1, 3, 2] [-2000, -2000, 1000]) [-2000, -2000, 1000] = [1, 3, 2] := by
  decide +kernel

/-! ### `BlackmanWaveform.from_max_val` -/

/-- **The search loop returns the least duration from the first guess on** whose scaling does
not exceed the maximum — for *any* window sums `S`. -/
theorem blackman_loop_least (S : Nat → Rat) (area maxVal : Rat) (fuel N : Nat)
    (h : bmSearch S area maxVal fuel = some N) :
    bmGuess area maxVal ≤ N ∧ bmStop S area maxVal N = true ∧
    ∀ M, bmGuess area maxVal ≤ M → M < N → bmStop S area maxVal M = false :=
  searchUp_spec _ _ _ h

/-- **Minimality with the closed form.**  If the window sums are `0.42·(N−1)` from some `L ≥ 2` on
(true of the ideal Blackman window for `N ≥ 4`, i.e. `L = 4`, which the monitor checks numerically;
a hypothesis here), `area, max_val > 0` and the first guess is at least `L`, then the loop terminates after exactly one step, the chosen scaling does not exceed
`max_val`, and **every** shorter duration `M ≥ L` has a scaling above `max_val` ("one nanosecond
shorter would exceed it"). -/
theorem blackman_search_minimal (S : Nat → Rat) (L : Nat) (hL : 2 ≤ L)
    (hS : ∀ N, L ≤ N → S N = bmIdealSum N)
    (area maxVal : Rat) (ha : 0 < area) (hm : 0 < maxVal) (hg : L ≤ bmGuess area maxVal)
    (fuel : Nat) (hf : 2 ≤ fuel) :
    ∃ N, bmSearch S area maxVal fuel = some N ∧ N = bmGuess area maxVal + 1 ∧
      (∃ sc, bmScaling? S area N = some sc ∧ sc ≤ maxVal) ∧
      ∀ M, L ≤ M → M < N → ∃ sc, bmScaling? S area M = some sc ∧ maxVal < sc := by
  refine ⟨_, bmSearch_ideal hL hS ha hm hg hf, rfl, ?_, ?_⟩
  · have hst := bm_guess_succ_stops hL hS ha hm hg
    obtain ⟨e1, _⟩ := bmStop_ideal (S := S) (area := area) hm (N := bmGuess area maxVal + 1) (by omega)
      (hS _ (by omega))
    refine ⟨_, e1, ?_⟩
    unfold bmStop at hst; rw [e1] at hst; simpa using hst
  · intro M hM hlt
    have hf := bm_below_guess_fails hL hS ha hm hM (by omega)
    obtain ⟨e1, _⟩ := bmStop_ideal (S := S) (area := area) hm (N := M) (by omega) (hS M hM)
    refine ⟨_, e1, ?_⟩
    unfold bmStop at hf; rw [e1] at hf
    simpa using hf

/-- **Never above the maximum.**  With window peaks in `[0, 1]`, the waveform finally chosen
(after the odd/even adjustment, as coded) has a largest sample `peak·scaling ≤ max_val`. -/
theorem blackman_from_max_val_le (S peak : Nat → Rat) (L : Nat) (hL : 2 ≤ L)
    (hS : ∀ N, L ≤ N → S N = bmIdealSum N)
    (hpk : ∀ N, 0 ≤ peak N ∧ peak N ≤ 1) (area maxVal : Rat) (ha : 0 < area) (hm : 0 < maxVal)
    (hg : L ≤ bmGuess area maxVal) (fuel : Nat) (hf : 2 ≤ fuel) :
    ∃ N sc, bmFromMaxVal S peak area maxVal fuel = some N ∧
      bmScaling? S area N = some sc ∧ peak N * sc ≤ maxVal := by
  have hs := bmSearch_ideal hL hS ha hm hg hf
  have hst := bm_guess_succ_stops hL hS ha hm hg
  obtain ⟨sc, h1, h2⟩ := bmAdjust_le (S := S) hpk ha hm (bmGuess area maxVal)
    (N := bmGuess area maxVal + 1) (by omega) (hS _ (by omega)) hst
  exact ⟨_, sc, by simp [bmFromMaxVal, hs], h1, h2⟩

/-- Non-vacuity: area π/… replaced by rationals; guess 24, chosen duration 25. -/
example : bmGuess 1 100 = 24 ∧ bmSearch bmIdealSum 1 100 5 = some 25 := by decide +kernel

/-! ### Integrals (`Waveform.integral = sum(samples) * 1e-3`) -/

/-- **Scaling scales the integral** (so negation negates it, division divides it). -/
theorem integral_scale (w : Wf) (k : Rat) :
    (w.scale k).integral? = w.integral?.map (· * k) := by
  unfold Wf.integral?
  rw [scale_samples?]
  cases w.samples? with
  | none => rfl
  | some s =>
    simp only [Option.map_some]
    rw [sum_map_mul_right]; congr 1; ring

/-- **The integral of a composite is the sum of the integrals of its parts** — for two parts
(`CompositeWaveform(w1, w2)`), whenever both are defined. -/
theorem integral_composite_two (w1 w2 : Wf) (i1 i2 : Rat)
    (h1 : w1.integral? = some i1) (h2 : w2.integral? = some i2) :
    (Wf.composite [w1, w2]).integral? = some (i1 + i2) := by
  unfold Wf.integral? at *
  simp only [Wf.samples?, samplesList?]
  cases hs1 : w1.samples? with
  | none => simp [hs1] at h1
  | some s1 =>
    cases hs2 : w2.samples? with
    | none => simp [hs2] at h2
    | some s2 =>
      simp only [hs1, Option.map_some, Option.some.injEq] at h1
      simp only [hs2, Option.map_some, Option.some.injEq] at h2
      simp only [List.append_nil, Option.map_some, List.sum_append, Option.some.injEq]
      rw [← h1, ← h2]; ring

/-- A constant waveform integrates to `duration · value / 1000`. -/
theorem integral_const (d : Nat) (v : Rat) :
    (Wf.const d v).integral? = some ((d : Rat) * v / 1000) := by
  simp [Wf.integral?, Wf.samples?, List.sum_replicate]

example : (Wf.composite [.const 2 3, .ramp 3 0 1]).integral? = some ((3 : Rat) / 400) ∧
    ((Wf.composite [.const 2 3, .ramp 3 0 1]).scale (-2)).integral? = some (-(3 : Rat) / 200) := by
  decide +kernel

/-- **Integral of a composite of any number of parts**: defined iff every part's integral is,
and then their sum. -/
theorem integral_composite (ws : List Wf) :
    (Wf.composite ws).integral? = (ws.mapM Wf.integral?).map List.sum := by
  unfold Wf.integral?
  simp only [Wf.samples?]
  induction ws with
  | nil => simp [samplesList?]
  | cons w ws ih =>
    simp only [samplesList?, List.mapM_cons]
    cases hw : w.samples? with
    | none => simp
    | some a =>
      cases hs : samplesList? ws with
      | none =>
        rw [hs] at ih
        simp only [Option.map_none] at ih
        cases hm : List.mapM (fun w => Option.map (fun s => s.sum / 1000) w.samples?) ws with
        | none => simp
        | some l => rw [hm] at ih; simp at ih
      | some b =>
        rw [hs] at ih
        simp only [Option.map_some] at ih
        cases hm : List.mapM (fun w => Option.map (fun s => s.sum / 1000) w.samples?) ws with
        | none => rw [hm] at ih; simp at ih
        | some l =>
          rw [hm] at ih
          simp only [Option.map_some, Option.some.injEq] at ih
          show some ((a ++ b).sum / 1000) = some ((a.sum / 1000 :: l).sum)
          rw [List.sum_append, List.sum_cons, ← ih]; congr 1; ring

end C16
end Pulser
