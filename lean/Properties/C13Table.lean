/-
  C13 (table part) — "after measurement every timeline-changing call is refused",
  re-checked against the *source* on every run.

  `Generated.seqMethods` is extracted by harness/tables_c13.py (ast) from
  pulser/sequence/sequence.py: (method, decorators, the `self.x(...)` methods it calls and the
  `self._schedule.<m>(...)` mutators it invokes).  The obligation: no public method can reach a
  mutation of the schedule without passing a `block_if_measured` decorator on the way.
-/
import PulserModel.Generated.Decorators
namespace Pulser
namespace C13Table
open Generated

/-- Calls on `self._schedule` that change the timeline. -/
def schedMutators : List String :=
  ["sched:add_pulse", "sched:add_delay", "sched:add_target", "sched:enable_eom",
   "sched:disable_eom", "sched:wait_for_fall", "sched:setitem"]

def lookup (tbl : List (String × List String × List String)) (m : String) :
    Option (List String × List String) :=
  (tbl.find? (·.1 == m)).map (·.2)

/-- Can `m` reach a schedule mutation without passing `block_if_measured`
(on itself or on a helper on the way)?  `fuel` bounds the call depth. -/
def unguardedReach (tbl : List (String × List String × List String)) : Nat → String → Bool
  | 0, _ => false
  | fuel + 1, m =>
    match lookup tbl m with
    | none => false
    | some (decs, calls) =>
      if decs.contains "block_if_measured" then false
      else calls.any (schedMutators.contains ·) || calls.any (unguardedReach tbl fuel)

def isPublic (m : String) : Bool := !m.startsWith "_"

/-- Public methods that could change the timeline of a measured sequence. -/
def offenders (tbl : List (String × List String × List String)) : List String :=
  ((tbl.map (·.1)).filter fun m => isPublic m && unguardedReach tbl 8 m).eraseDups

/-- **Every public method that can append to a channel's timeline is behind
`block_if_measured`** — on the decorator table of the current source. -/
theorem measured_blocks_timeline_table : offenders seqMethods = [] := by decide +kernel

/-- the table is not empty and contains the methods the property is about -/
example : (["add", "delay", "target", "align", "declare_channel", "config_slm_mask", "measure",
    "enable_eom_mode"].all fun m => (lookup seqMethods m).isSome) = true := by decide +kernel

/-- the obligation is not vacuous: dropping the decorator of `_delay` is detected -/
example : offenders [("delay", ["store"], ["_delay"]), ("_delay", [], ["sched:add_delay"])] = ["delay"] := by
  decide +kernel

end C13Table
end Pulser
