/-
  C18 — Switching device or register preserves the program.

  What is proved here, and what is not:

  * `timing_congr` (clause "strict ⇒ identical timeline", model side): the timeline and the phase
    references of a history of accepted calls depend on the device only through the channel
    parameters listed in `Switch.timingFields`; every other field of a channel configuration, the
    device's maximal sequence duration and channel reusability only decide whether a call raises.
    By induction over arbitrary histories (`Proofs.Switch.run_erase`).
  * `strict_sound` — the obligation re-checked against the source on every run: which timing
    parameters the strict comparison of the *live* `_switch_device.py` (table
    `Generated.strictParams`, extracted with `ast`) leaves uncovered: none (`[]`) since the repair
    of F5 (/repo 2c8b93c0), hence `strict_identical`: channels that pass the live strict comparison
    give identical timelines (`strict_sound_of_complete`, `strict_identical_of_complete`).
    Before the repair the list was `["min_duration", "phase_jump_time"]` (`strict_sound_old`, over
    the frozen table `Switch.oldStrictParams`), exhibited on the model by
    `strict_phase_jump_counterexample` / `strict_min_duration_counterexample`.
  * the remaining `decide` obligations pin the source text the model of
    `PulserModel/Switch.lean` mirrors (guards, `check_retarget`, replayed call list, renamed calls,
    caught exception, sample comparison).
  * `dmm_rename_counterexample` / `dmm_rename_values`: the replay renamed DMM channels but not the
    `delay` / `align` calls naming them (finding F18r) — repaired in /repo d02eba4b, the model follows.

  Not proved (monitor / correspondence only): the non-strict clause (limits of the new device), the
  register clause, samples (`sample()` arrays), parametrized sequences.
-/
import Proofs.Switch
import PulserModel.Generated.StrictParams
namespace Pulser
namespace C18
open Switch

/-! ### (a) the timing fields -/

/-- **The field tables name every channel parameter of the model**: two configurations that agree
on `timingFields ++ limitFields` are equal (no field of `ChanCfg` is outside the classification). -/
theorem timing_fields_complete {a b : ChanCfg} (h : agreeOn (timingFields ++ limitFields) a b = true) :
    a = b := eq_of_agree_all h

/-- **Only the timing fields matter** (clause: a strict switch that returns, returns the identical
timeline).  Two devices whose channels and DMMs agree pairwise on `timingFields` — limits
(`max_duration`, `max_amp`, `max_abs_detuning`, `min_avg_amp`, `max_targets`, DMM bottoms),
`max_sequence_duration` and `reusable_channels` arbitrary — give, for *every* history in which
every call is accepted on both, the same instructions on every channel, the same EOM blocks, the
same phase references and the same measurement.  (The operations carry the float-only oracle
values — fall times, sample summaries, EOM detuning options — which are therefore assumed equal on
both devices; they are functions of `mod_bandwidth` / the EOM configuration.) -/
theorem timing_congr (d₁ d₂ : Device) (nQ : Nat) (ops : List Op) (hd : devicesAgree d₁ d₂ = true)
    (h₁ : allOk (SeqState.init d₁ nQ) ops = true) (h₂ : allOk (SeqState.init d₂ nQ) ops = true) :
    timeline (run (SeqState.init d₁ nQ) ops) = timeline (run (SeqState.init d₂ nQ) ops) := by
  have e0 : erase (SeqState.init d₁ nQ) = erase (SeqState.init d₂ nQ) := by
    simp only [erase, SeqState.init, eraseDev_eq_of_agree hd]
  have e1 := run_erase _ _ h₁
  have e2 := run_erase _ _ h₂
  rw [← timeline_erase (run (SeqState.init d₁ nQ) ops), ← timeline_erase (run (SeqState.init d₂ nQ) ops),
    ← e1, ← e2, e0]

/-- The same from any pair of states that differ in limits only (e.g. in the middle of a replay). -/
theorem timing_congr_states (s₁ s₂ : SeqState) (ops : List Op) (he : erase s₁ = erase s₂)
    (h₁ : allOk s₁ ops = true) (h₂ : allOk s₂ ops = true) :
    timeline (run s₁ ops) = timeline (run s₂ ops) := by
  rw [← timeline_erase (run s₁ ops), ← timeline_erase (run s₂ ops), ← run_erase _ _ h₁, ← run_erase _ _ h₂, he]

/-- One accepted call: accepted on the limit-free device too, with the erased result — the
per-primitive form of `timing_congr`. -/
theorem accepted_call_ignores_limits (s : SeqState) (op : Op) (h : (stepRaw s op).err = none) :
    stepRaw (erase s) op = eraseRaw (stepRaw s op) := stepRaw_erase s op h

/-! ### (b) the strict comparison -/

/-- **The strict comparison of the live code leaves no timing parameter uncovered** — a `decide`
over the table regenerated from `_switch_device.py` on every run.  Any change of the comparison
(better or worse) breaks this theorem and triggers the monitor's search. -/
theorem strict_sound : strictMissing Generated.strictParams Generated.strictSampleChecks = [] := by decide

/-- Before the repair of F5 (/repo 2c8b93c0): `phase_jump_time` (`custom_phase_jump_time`) and
`min_duration` are read by the scheduler but were not compared, so `switch_device(strict=True)`
could return a different timeline. -/
theorem strict_sound_old : strictMissing oldStrictParams Generated.strictSampleChecks
    = ["min_duration", "phase_jump_time"] := by decide

/-- The repair is exactly the two parameters, compared last. -/
theorem strict_params_repaired : Generated.strictParams = oldStrictParams ++ ["min_duration", "phase_jump_time"] := by
  decide

/-- **A strict comparison with nothing uncovered is sound**, per channel: a pair of channels that
passes it has the same timing configuration (the EOM configuration is not looked at for a channel
whose EOM mode the sequence never enables). -/
theorem strict_sound_of_complete {params samples : List String} (h : strictMissing params samples = [])
    {a b : ChanCfg} (wa : retargetWF a = true) (wb : retargetWF b = true)
    (hm : strictMatch params false a b = true) : timing (noEom a) = timing (noEom b) :=
  strictMatch_sound (covers_of_missing_nil h) wa wb hm

/-- … and for a channel whose EOM mode is used: the EOM rise time is compared, the EOM buffer
parameters (`dynamicFields`) are those that only the post-replay sample comparison can see. -/
theorem strict_sound_of_complete_eom {params samples : List String} (h : strictMissing params samples = [])
    {a b : ChanCfg} (wa : retargetWF a = true) (wb : retargetWF b = true)
    (hm : strictMatch params true a b = true) (hae : a.eom.isSome = true)
    (hdyn : agreeOn dynamicFields a b = true) : timing a = timing b :=
  strictMatch_sound_eom (covers_of_missing_nil h) wa wb hm hae hdyn

/-- **Strict ⇒ identical timeline, once nothing is uncovered**: if the strict comparison covers
every timing parameter (`strictMissing … = []`) and the channels of two devices pass it pairwise,
every history accepted on both has the same timeline on both. -/
theorem strict_identical_of_complete {params samples : List String} (h : strictMissing params samples = [])
    (d₁ d₂ : Device) (nQ : Nat) (ops : List Op)
    (hc : listOk params d₁.chans d₂.chans = true) (hd : listOk params d₁.dmms d₂.dmms = true)
    (h₁ : allOk (SeqState.init d₁ nQ) ops = true) (h₂ : allOk (SeqState.init d₂ nQ) ops = true) :
    timeline (run (SeqState.init d₁ nQ) ops) = timeline (run (SeqState.init d₂ nQ) ops) := by
  apply timing_congr_states _ _ _ _ h₁ h₂
  simp only [erase, SeqState.init, eraseDev, map_timing_of_listOk h hc, map_timing_of_listOk h hd]

/-- **Strict ⇒ identical timeline, for the live comparison**: two devices whose channels pass the
strict comparison extracted from the code (`pairOk Generated.strictParams`: the guards of
`check_channels_match`, the EOM buffer parameters as seen by the sample comparison) give the same
timeline for every history accepted on both. -/
theorem strict_identical (d₁ d₂ : Device) (nQ : Nat) (ops : List Op)
    (hc : listOk Generated.strictParams d₁.chans d₂.chans = true)
    (hd : listOk Generated.strictParams d₁.dmms d₂.dmms = true)
    (h₁ : allOk (SeqState.init d₁ nQ) ops = true) (h₂ : allOk (SeqState.init d₂ nQ) ops = true) :
    timeline (run (SeqState.init d₁ nQ) ops) = timeline (run (SeqState.init d₂ nQ) ops) :=
  strict_identical_of_complete strict_sound d₁ d₂ nQ ops hc hd h₁ h₂

/-- `check_channels_match(strict=True)` (statement order of the Python) is the table-driven
comparison over the parameters it names. -/
theorem check_channels_match_spec (old new : ChanCfg) (eom : Bool) :
    checkChannelsMatch old new eom true = .ok ↔ strictMatch modelStrictParams eom old new = true :=
  checkChannelsMatch_ok_iff old new eom

/-- The retarget interval matters to `add_target` only where `check_retarget` looks at it: when
the fixed retarget time covers it, the retarget delay is the fixed time whatever the interval. -/
theorem retarget_interval_covered (c : ChanState) (ti : Int) :
    retargetDelta (eraseChan c) ti = retargetDelta c ti := retargetDelta_eff c ti

/-! ### the model mirrors the source: tables pinned by `decide` -/

theorem model_strict_params : modelStrictParams = Generated.strictParams := by decide
theorem strict_guards : Generated.strictGuards = guards := by decide
theorem check_retarget_src : Generated.checkRetargetSrc = checkRetargetSrc := by decide
theorem strict_sample_checks : Generated.strictSampleChecks = sampleArrays := by decide
theorem nonstrict_params : Generated.nonStrictParams = ["type", "basis", "addressing", "eom_config"] := by decide
theorem renamed_calls : Generated.renamedCalls
    = ["add_dmm_detuning", "align", "config_detuning_map", "config_slm_mask", "declare_channel", "delay"] := by
  decide
theorem replayed_calls : Generated.replayedCalls = "seq._calls[1:] + seq._to_build_calls" := by decide
theorem caught_by_replay_loop : Generated.caughtByReplayLoop = ["ValueError"] := by decide
theorem device_params : Generated.deviceParams = ["interaction_coeff_xy", "rydberg_level"] := by decide

/-! ### F5 on the model: the strict comparison before the repair was not sound -/

def chA : ChanCfg := { clock := 4, minDur := 16, rise := 120, pjt := 240 }
/-- identical except `custom_phase_jump_time = 0` -/
def chB : ChanCfg := { chA with pjt := 0 }
/-- identical except `min_duration = 52` (on a faster channel) -/
def chC : ChanCfg := { clock := 4, minDur := 16, rise := 12, pjt := 24 }
def chD : ChanCfg := { chC with minDur := 52 }

def devOf (c : ChanCfg) : Device := { chans := [c], dmms := [], reusable := false, maxSeqDur := none }

/-- two pulses of different phase on one channel (fall time 240 ns / 24 ns) -/
def twoPulses (fall : Nat) : List Op :=
  [.declare (.user 0) 0 none,
   .add { dur := 100, fallStd := fall, ref := 1 } (.user 0) (some .minDelay),
   .add { dur := 100, phase := 1, fallStd := fall, ref := 2 } (.user 0) (some .minDelay)]

/-- **F5** (`phase_jump_time`): the old strict comparison accepts the pair (the live one refuses it), every call is accepted
on both devices, and the second pulse starts at 580 on one and at 340 on the other. -/
theorem strict_phase_jump_counterexample :
    strictMatch oldStrictParams false chA chB = true ∧ strictMatch Generated.strictParams false chA chB = false ∧
    allOk (SeqState.init (devOf chA) 1) (twoPulses 240) = true ∧
    allOk (SeqState.init (devOf chB) 1) (twoPulses 240) = true ∧
    timeline (run (SeqState.init (devOf chA) 1) (twoPulses 240))
      ≠ timeline (run (SeqState.init (devOf chB) 1) (twoPulses 240)) := by decide +kernel

/-- **F5** (`min_duration`): the 48 ns phase-jump buffer becomes a 52 ns delay. -/
theorem strict_min_duration_counterexample :
    strictMatch oldStrictParams false chC chD = true ∧ strictMatch Generated.strictParams false chC chD = false ∧
    allOk (SeqState.init (devOf chC) 1) (twoPulses 24) = true ∧
    allOk (SeqState.init (devOf chD) 1) (twoPulses 24) = true ∧
    timeline (run (SeqState.init (devOf chC) 1) (twoPulses 24))
      ≠ timeline (run (SeqState.init (devOf chD) 1) (twoPulses 24)) := by decide +kernel

/-- (start, end) of every instruction, per declared channel. -/
def slotTimes (s : SeqState) : List (List (Int × Int)) := s.chans.map fun c => c.slots.map fun sl => (sl.ti, sl.tf)

/-- The numbers of the two F5 reproducers — the same as the implementation's
(corpus/C18/f5_*.json carry them as `expect` and the check compares them with the real run). -/
theorem f5_values :
    slotTimes (run (SeqState.init (devOf chA) 1) (twoPulses 240)) = [[(-1, 0), (0, 100), (100, 580), (580, 680)]] ∧
    slotTimes (run (SeqState.init (devOf chB) 1) (twoPulses 240)) = [[(-1, 0), (0, 100), (100, 340), (340, 440)]] ∧
    slotTimes (run (SeqState.init (devOf chC) 1) (twoPulses 24)) = [[(-1, 0), (0, 100), (100, 148), (148, 248)]] ∧
    slotTimes (run (SeqState.init (devOf chD) 1) (twoPulses 24)) = [[(-1, 0), (0, 100), (100, 152), (152, 252)]] := by
  decide +kernel

/-! ### (c) the replay: DMM channels are renamed, the calls naming them are not -/

def dmmCfg : ChanCfg := { isDmm := true, clock := 4, minDur := 16 }
def twoDmm (maxSeq : Option Nat) : Device :=
  { chans := [], dmms := [dmmCfg, dmmCfg], reusable := false, maxSeqDur := maxSeq }

/-- `config_detuning_map(dm, "dmm_1")`, `config_detuning_map(dm, "dmm_0")`, `delay(100, "dmm_0")` -/
def dmmSeq : SeqState :=
  run (SeqState.init (twoDmm none) 1)
    [.configDetMap 1 1 1, .configDetMap 0 1 1, .delay 100 (.dmm 0 0) false]

/-- Per declared channel of a switched sequence: its name and number of instructions. -/
def slotCounts (r : Except SwitchErr SeqState) : Option (List (ChName × Nat)) :=
  match r with
  | .ok s' => some (s'.chans.map fun c => (c.name, c.slots.length))
  | .error _ => none

/-- **F18r, before its repair** (`legacy` replay): switching (strict) to a device with the same two
DMMs succeeded with the first matching tried (`dmm_1 ↦ dmm_0`, `dmm_0 ↦ dmm_1`) and replayed
`delay(100, "dmm_0")` under the old name, i.e. on the image of the *other* DMM channel. -/
theorem dmm_rename_counterexample :
    (dmmSeq.chans.map fun c => (c.name, c.slots.length)) = [(.dmm 1 0, 1), (.dmm 0 0, 2)] ∧
    slotCounts (switchDevice (fun _ _ => true) dmmSeq (twoDmm (some 100000)) true (legacy := true))
      = some [(.dmm 0 0, 2), (.dmm 1 0, 1)] := by decide +kernel

/-- **After the repair** the replayed `delay` follows the renamed channel: the i-th declared channel
of the result has the instructions of the i-th declared channel of the original
(corpus/C18/f18r_dmm_renamed.json, `expect`). -/
theorem dmm_rename_values :
    slotTimes dmmSeq = [[(-1, 0)], [(-1, 0), (0, 100)]] ∧
    slotCounts (switchDevice (fun _ _ => true) dmmSeq (twoDmm (some 100000)) true)
      = some [(.dmm 0 0, 1), (.dmm 1 0, 2)] ∧
    (match switchDevice (fun _ _ => true) dmmSeq (twoDmm (some 100000)) true with
     | .ok s' => some (slotTimes s')
     | .error _ => none) = some [[(-1, 0)], [(-1, 0), (0, 100)]] := by decide +kernel

/-! ### switching the register -/

/-- The scheduler model never reads coordinates: switching to a register with the same number of
atoms is the replay of the call log on the initial state of the same device. -/
theorem switch_register_same_ids (s : SeqState) :
    switchRegister s s.nQ = s.calls.foldlM (fun st op =>
      let raw := stepRaw st op
      match raw.err with
      | some e => .error e
      | none => .ok { raw.st with chans := copyOracles s.chans raw.st.chans }) (SeqState.init s.dev s.nQ) := rfl

/-! ### non-vacuity -/

/-- `timing_congr`: two devices that differ in every limit, and a history accepted on both. -/
def exLim : ChanCfg := { chA with maxDur := some 1000, maxAmp := some 10, maxAbsDet := some 20, minAvgAmp := 1 / 2,
                                  maxTargets := some 1 }
example : devicesAgree (devOf chA) { devOf exLim with maxSeqDur := some 5000, reusable := true } = true ∧
    allOk (SeqState.init (devOf chA) 1) (twoPulses 240) = true ∧
    allOk (SeqState.init { devOf exLim with maxSeqDur := some 5000, reusable := true } 1) (twoPulses 240) = true := by
  decide +kernel

/-- `timing_fields_complete` / `strict_sound_of_complete`: the hypotheses are satisfiable. -/
example : agreeOn (timingFields ++ limitFields) chA chA = true := by decide
example : retargetWF chA = true ∧ strictMatch Generated.strictParams false chA exLim = true := by decide
example : pairOk Generated.strictParams chA exLim = true := by decide
/-- `strict_identical`: a pair of devices that passes the live comparison, a history accepted on both. -/
example : listOk Generated.strictParams (devOf chA).chans (devOf exLim).chans = true ∧
    listOk Generated.strictParams (devOf chA).dmms (devOf exLim).dmms = true ∧
    allOk (SeqState.init (devOf exLim) 1) (twoPulses 240) = true := by decide +kernel
example : checkChannelsMatch chA exLim false true = .ok ∧ checkChannelsMatch chA chB false true = .strict ∧
    checkChannelsMatch chC chD false true = .strict := by decide
/-- an accepted call on a state with limits -/
example : (stepRaw (SeqState.init (devOf exLim) 1) (.declare (.user 0) 0 none)).err = none := by decide

end C18
end Pulser
