/-
  C01 — Every scheduled pulse respects the limits of its channel and device.

  Only property theorems (and non-vacuity examples); helper lemmas are in
  Proofs/{Duration,Limits,Timeline,SeqInv}.lean.

  Float-only facts (max / average / rounded detuning of the samples) enter the model as
  the oracle record `PulseSummary`; the theorems hold for every value of it.
  "Finite samples" is the flag `PulseSummary.finite` (oracle: `np.isfinite` over the samples);
  since the repair of F31 `validate_pulse` tests it and `limits_invariant` carries it.
-/
import Proofs.SeqInv
import Properties.C02
namespace Pulser
namespace C01

/-- **Acceptance ⇔ inside every limit.**  `validate_pulse` (channel or DMM) succeeds exactly
when amplitude ≤ max, |detuning| ≤ max, average amplitude not in (0, min_avg) and, on a DMM,
detuning ≤ 0 and above the per-atom and total bottoms given the detuning-map weights — and
every sample is finite (repair of F31: NaN used to pass every comparison). -/
theorem validate_pulse_iff (c : ChanState) (σ : PulseSummary) :
    validatePulse c σ = .ok () ↔ WithinLimits c.cfg c.maxW c.sumW σ :=
  validatePulse_iff c σ

/-- **Undefined limits of virtual channels constrain nothing** (beyond finite samples). -/
theorem virtual_unconstrained (c : ChanState) (σ : PulseSummary) (hf : σ.finite = true)
    (h1 : c.cfg.maxAmp = none) (h2 : c.cfg.maxAbsDet = none) (h3 : c.cfg.minAvgAmp = 0)
    (h4 : c.cfg.isDmm = false) : validatePulse c σ = .ok () := by
  rw [validatePulse_iff]
  refine ⟨hf, fun m hm => (by rw [h1] at hm; cases hm), fun m hm => (by rw [h2] at hm; cases hm), ?_,
    fun h => (by rw [h4] at h; cases h)⟩
  rw [h3]; intro ⟨a, b⟩; exact absurd a (Rat.not_lt.mpr (Rat.le_of_lt b))

/-- ... and on a virtual DMM without bottoms only the sign of the detuning is constrained. -/
theorem virtual_dmm_unconstrained (c : ChanState) (σ : PulseSummary) (hf : σ.finite = true)
    (h1 : c.cfg.maxAmp = none) (h2 : c.cfg.maxAbsDet = none) (h3 : c.cfg.minAvgAmp = 0)
    (h5 : c.cfg.bottom = none) (h6 : c.cfg.totalBottom = none) (h7 : σ.maxDetR ≤ 0) :
    validatePulse c σ = .ok () := by
  rw [validatePulse_iff]
  refine ⟨hf, fun m hm => (by rw [h1] at hm; cases hm), fun m hm => (by rw [h2] at hm; cases hm), ?_,
    fun _ => ⟨h7, fun b hb => (by rw [h5] at hb; cases hb), fun b hb => (by rw [h6] at hb; cases hb)⟩⟩
  rw [h3]; intro ⟨a, b⟩; exact absurd a (Rat.not_lt.mpr (Rat.le_of_lt b))

/-- **Durations: accepted unchanged or lengthened to the next clock multiple.**
`validate_duration d` succeeds with `d'` iff `d ≥ min`, `d'` is the least clock multiple
`≥ d` and `d' ≤ max` (the comparison of the *rounded* value is the repair of F12). -/
theorem validate_duration_spec (c : ChanCfg) (hc : 0 < c.clock) (d d' : Nat) :
    validateDuration c d = .ok d' ↔
      c.minDur ≤ d ∧ (c.clock ∣ d' ∧ d ≤ d' ∧ d' < d + c.clock) ∧ (∀ m, c.maxDur = some m → d' ≤ m) := by
  constructor
  · intro h
    have := validateDuration_ok hc h
    exact ⟨this.1, ⟨this.2.2.2.2, this.2.2.1, this.2.2.2.1⟩, this.2.1⟩
  · intro ⟨h1, ⟨⟨k, hk⟩, h3, h4⟩, h5⟩
    subst hk
    unfold validateDuration
    rw [if_neg (by omega)]
    have hdm : overNat c.maxDur d = false :=
      overNat_false.mpr (fun m hm => by have := h5 m hm; omega)
    rw [hdm, if_neg (by simp)]
    by_cases h6 : d % c.clock ≠ 0
    · rw [if_pos h6]
      have hm := Nat.mod_lt d hc
      have key : d + (c.clock - d % c.clock) = c.clock * k := by
        have h7 : d + (c.clock - d % c.clock) = c.clock * (d / c.clock + 1) := by
          have := Nat.div_add_mod d c.clock
          rw [Nat.mul_add, Nat.mul_one]; omega
        rw [h7]
        have hlt1 : c.clock * (d / c.clock + 1) < c.clock * (k + 1) := by
          rw [← h7, Nat.mul_add, Nat.mul_one]; omega
        have hlt2 : c.clock * k < c.clock * (d / c.clock + 1 + 1) := by
          rw [Nat.mul_add c.clock (d / c.clock + 1) 1, ← h7, Nat.mul_one]; omega
        have a1 := Nat.lt_of_mul_lt_mul_left hlt1
        have a2 := Nat.lt_of_mul_lt_mul_left hlt2
        have : d / c.clock + 1 = k := by omega
        rw [this]
      rw [key, overNat_false.mpr h5, if_neg (by simp)]
    · rw [if_neg h6]
      have h7 : d % c.clock = 0 := by omega
      have h8 : c.clock ∣ d := Nat.dvd_of_mod_eq_zero h7
      obtain ⟨j, hj⟩ := h8
      have : j = k := by
        subst hj
        have a1 : c.clock * j < c.clock * (k + 1) := by rw [Nat.mul_add, Nat.mul_one]; omega
        have a2 : c.clock * k < c.clock * (j + 1) := by rw [Nat.mul_add, Nat.mul_one]; omega
        have := Nat.lt_of_mul_lt_mul_left a1
        have := Nat.lt_of_mul_lt_mul_left a2
        omega
      subst this; rw [hj]

/-- Unchanged exactly when the requested duration is a clock multiple. -/
theorem validate_duration_unchanged (c : ChanCfg) (hc : 0 < c.clock) (d d' : Nat)
    (h : validateDuration c d = .ok d') : d' = d ↔ c.clock ∣ d := by
  have := validateDuration_ok hc h
  constructor
  · intro e; rw [← e]; exact this.2.2.2.2
  · intro ⟨k, hk⟩
    obtain ⟨j, hj⟩ := this.2.2.2.2
    subst hk hj
    have a1 : c.clock * j < c.clock * (k + 1) := by rw [Nat.mul_add, Nat.mul_one]; omega
    have a2 := Nat.le_of_mul_le_mul_left this.2.2.1 hc
    have := Nat.lt_of_mul_lt_mul_left a1
    have : j = k := by omega
    rw [this]

/-- **Limits invariant.**  In every reachable state every scheduled pulse — added by the
user, an EOM pulse, or a detuned delay inserted by the scheduler — has a duration that
is a clock multiple between the channel's minimum and maximum duration, and every
user/EOM pulse (`ref ≠ 0`) is inside the channel limits that held when it was validated. -/
theorem limits_invariant (dev : Device) (nQ : Nat) (hd : DevOk dev) (s : SeqState)
    (hr : C02.Reach dev nQ s) :
    ∀ c ∈ s.chans, ∀ sl ∈ c.slots, ∀ p, sl.kind = .pulse p →
      c.cfg.clock ∣ p.dur ∧ c.cfg.minDur ≤ p.dur ∧ (∀ m, c.cfg.maxDur = some m → p.dur ≤ m) ∧
      (p.ref ≠ 0 → WithinLimits c.cfg c.maxW c.sumW p.sum) := by
  intro c hc sl hsl p hp
  have hinv := C02.timeline_inv dev nQ hd s hr c hc
  obtain ⟨t0, t1⟩ := C02.timeline_tiles hinv
  obtain ⟨i, hi, rfl⟩ := List.mem_iff_getElem.mp hsl
  cases i with
  | zero =>
    obtain ⟨h1, _, _⟩ := t0 hi
    rw [h1] at hp; cases hp
  | succ k =>
    obtain ⟨e1, e2, e3, e4, e5⟩ := t1 k hi
    rw [hp] at e5
    obtain ⟨f1, f2, f3, f4⟩ := e5
    have hprev := (C02.boundaries_clock_aligned hinv k (by omega)).1
    refine ⟨?_, f2, f4.2, f4.1⟩
    have h1 : (c.cfg.clock : Int) ∣ (p.dur : Int) := by
      have : (p.dur : Int) = c.slots[k + 1].tf - c.slots[k].tf := by omega
      rw [this]; exact Int.dvd_sub e3 hprev
    exact Int.ofNat_dvd.mp h1

/-- **The whole sequence never exceeds the device's maximum duration.** -/
theorem seq_duration_invariant (dev : Device) (nQ : Nat) (hd : DevOk dev) (s : SeqState)
    (hr : C02.Reach dev nQ s) :
    ∀ c ∈ s.chans, ∀ sl ∈ c.slots, ∀ m, dev.maxSeqDur = some m → sl.tf ≤ (m : Int) := by
  intro c hc sl hsl m hm
  have hinv := C02.timeline_inv dev nQ hd s hr c hc
  obtain ⟨t0, t1⟩ := C02.timeline_tiles hinv
  obtain ⟨i, hi, rfl⟩ := List.mem_iff_getElem.mp hsl
  cases i with
  | zero => obtain ⟨_, _, h3⟩ := t0 hi; rw [h3]; omega
  | succ k => exact (t1 k hi).2.2.2.1 m hm

/-- **No spurious rejection by the validation step**: a pulse inside every limit whose
duration is acceptable is adjusted (or kept) — never refused — provided its waveforms can
be resized when the duration has to change and the pulse *as lengthened* is still inside
every limit (since the repair of F37 the lengthened pulse is validated too: a Blackman keeps
its area, an interpolated waveform is re-sampled). The scheduled record carries the summary of
the pulse as scheduled. -/
theorem accepts_within_limits (c : ChanState) (p : PulseIn) (r : Option Rat) (d' : Nat)
    (hw : WithinLimits c.cfg c.maxW c.sumW p.sum) (hd : validateDuration c.cfg p.dur = .ok d')
    (hres : d' = p.dur ∨ (p.resizable = true ∧ WithinLimits c.cfg c.maxW c.sumW p.sumAdj)) :
    ∃ pr, validateAndAdjust c p r = .ok pr ∧ pr.dur = d' ∧
      pr.sum = (if d' ≠ p.dur then p.sumAdj else p.sum) := by
  unfold validateAndAdjust
  rw [(validatePulse_iff c p.sum).mpr hw, hd]
  simp only
  have : ¬ (d' ≠ p.dur ∧ (!p.resizable) = true) := by
    rcases hres with h | h
    · exact fun ⟨a, _⟩ => a h
    · rw [h.1]; simp
  rw [if_neg this]
  by_cases hdd : d' ≠ p.dur
  · rcases hres with h | h
    · exact absurd h hdd
    · rw [if_pos hdd, (validatePulse_iff c p.sumAdj).mpr h.2]
      exact ⟨_, rfl, rfl, rfl⟩
  · rw [if_neg hdd]
    exact ⟨_, rfl, rfl, rfl⟩

/-- **The lengthened pulse is validated as scheduled** (repair of F37): when the duration has
to change, acceptance implies that the summary of the *lengthened* pulse is inside every limit
— and that is the summary the scheduled record carries. -/
theorem adjusted_pulse_validated (c : ChanState) (p : PulseIn) (r : Option Rat) (pr : PulseRec)
    (hc : 0 < c.cfg.clock) (h : validateAndAdjust c p r = .ok pr) :
    WithinLimits c.cfg c.maxW c.sumW pr.sum ∧ (pr.dur ≠ p.dur → pr.sum = p.sumAdj) := by
  have hok := validateAndAdjust_ok hc h
  unfold validateAndAdjust at h
  split at h
  · cases h
  · split at h
    · cases h
    · split at h
      · cases h
      · split at h
        · cases h
        · rename_i u2 hv2
          injection h with h; subst h
          refine ⟨?_, fun hne => by simp only at hne ⊢; rw [if_pos hne]⟩
          simp only
          split
          · rename_i hdd; rw [if_pos hdd] at hv2; exact (validatePulse_iff c p.sumAdj).mp hv2
          · exact hok.2.2

/-! ### Non-vacuity -/

def exChan : ChanState :=
  { name := .user 0, chId := 0,
    cfg := { clock := 4, minDur := 16, maxDur := some 1002, maxAmp := some 10, maxAbsDet := some 20 } }

example : WithinLimits exChan.cfg exChan.maxW exChan.sumW
    { maxAmp := 10, avgAmp := 5, maxAbsDetR := 20, maxDetR := 20, minDetR := -20 } := by
  refine ⟨rfl, ?_, ?_, ?_, ?_⟩ <;> simp [exChan] <;> decide

example : validateDuration exChan.cfg 101 = .ok 104 := by rfl
example : validateDuration exChan.cfg 1001 = .error .durTooLong := by rfl  -- F12 repaired
example : validateDuration exChan.cfg 1000 = .ok 1000 := by rfl

/-- the reachable state of `C02.exOps` contains pulses, so `limits_invariant` speaks about something -/
example : ((run (SeqState.init C02.exDev 2) C02.exOps).chans.map
    (·.slots.filterMap fun s => s.pulse?.map (·.dur))) = [[104, 52]] := by decide +kernel

end C01
end Pulser
