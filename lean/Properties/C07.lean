/-
  C07 — Phase references (virtual-Z) are additive and applied to every pulse.

  Phases are exact rationals; `fmtPhase` reduces modulo the rational value of the
  float `2*np.pi`, as the code does (Python's `%` on floats is an exact `fmod`).
  Hence "equal modulo 2π" reads `∃ k : Int, a = b - k * twoPi`.

  The Ramsey clause (a shift of φ between two π/2 pulses gives cos²(φ/2)) is a statement
  about the emulator's ODE integration and is validated numerically by the harness only.
-/
import Proofs.Phase
import Proofs.Protocol
import Proofs.SeqInv
import Proofs.RefsInv
import Properties.C02
import Proofs.AddSpec
import Proofs.BasesInv
import Mathlib.Tactic.Ring
namespace Pulser
namespace C07

/-- References and pulse phases always lie in `[0, 2π)`. -/
theorem phase_range (x : Rat) : 0 ≤ fmtPhase x ∧ fmtPhase x < twoPi := fmtPhase_range x

/-- **Additivity, one step.**  A phase shift `phi` on a qubit makes its current reference
`(old + phi) mod 2π`, recorded at the time the qubit was last used, which becomes the
time of its latest phase shift; the tracker stays well formed. -/
theorem shift_adds (q : QRef) (phi : Rat) (h : TrOk q) :
    (∃ k : Int, (q.incrementPhase phi).lastPhase = q.lastPhase + phi - k * twoPi) ∧
    (q.incrementPhase phi).lastTime = q.lastUsed ∧ TrOk (q.incrementPhase phi) := by
  obtain ⟨h1, h2, _, h4⟩ := incrementPhase_spec q phi h
  refine ⟨?_, h2, h4⟩
  rw [h1]; exact fmtPhase_eq_mod _

/-- **Additivity over any list of shifts**: after applying the shifts `φ₁ … φₙ` (explicit
shifts, post-phase-shifts, drift corrections — whatever the calls pass to
`increment_phase`), the reference equals the initial one plus their sum, modulo 2π. -/
theorem shifts_add_up (q : QRef) (h : TrOk q) (phis : List Rat) :
    TrOk (phis.foldl QRef.incrementPhase q) ∧
    ∃ k : Int, (phis.foldl QRef.incrementPhase q).lastPhase = q.lastPhase + phis.sum - k * twoPi := by
  induction phis generalizing q with
  | nil => exact ⟨h, 0, by simp⟩
  | cons phi rest ih =>
    obtain ⟨⟨k1, e1⟩, _, ok1⟩ := shift_adds q phi h
    obtain ⟨ok2, k2, e2⟩ := ih (q.incrementPhase phi) ok1
    refine ⟨ok2, k1 + k2, ?_⟩
    simp only [List.foldl_cons, List.sum_cons]
    rw [e2, e1]; push_cast; ring

/-- Using a qubit (`update_last_used`) never changes its reference. -/
theorem use_keeps_ref (q : QRef) (t : Int) (h : TrOk q) :
    (q.updateLastUsed t).lastPhase = q.lastPhase ∧ TrOk (q.updateLastUsed t) :=
  ⟨(updateLastUsed_spec q t h).1, (updateLastUsed_spec q t h).2.2⟩

/-- The time of the latest phase shift is the greatest recorded time. -/
theorem last_time_is_latest (q : QRef) (h : TrOk q) : ∀ e ∈ q.tr, e.1 ≤ q.lastTime :=
  lastTime_is_max q h

/-- **Every pulse is scheduled with its programmed phase plus the reference**: the pulse
record produced by `_validate_and_adjust_pulse` carries `(programmed + reference) mod 2π`. -/
theorem pulse_phase (c : ChanState) (p : PulseIn) (ref : Rat) (pr : PulseRec)
    (h : validateAndAdjust c p (some ref) = .ok pr) :
    pr.phase = fmtPhase (p.phase + ref) ∧ ∃ k : Int, pr.phase = p.phase + ref - k * twoPi := by
  unfold validateAndAdjust at h
  split at h
  · cases h
  · split at h
    · cases h
    · split at h
      · cases h
      · split at h
        · cases h
        · injection h with h; subst h
          exact ⟨rfl, fmtPhase_eq_mod _⟩

/-- ... and, without drift correction, that is the phase of the slot appended to the timeline. -/
theorem scheduled_phase {ms : Option Nat} {c : ChanState} {others : List ChanState}
    {p : PulseRec} {barriers : List Int} {proto : Protocol} {blk : Bool} {slot : Slot}
    (h : makeNextPulseSlot ms c others p barriers proto none blk = .ok slot) :
    ∃ p', slot.kind = .pulse p' ∧ p'.phase = p.phase ∧ p'.post = p.post := by
  unfold makeNextPulseSlot at h
  cases hl : c.last with
  | error e => simp [hl] at h
  | ok last =>
    simp only [hl] at h
    split at h
    · cases h
    · split at h
      · cases h
      · injection h with h; subst h; exact ⟨_, rfl, rfl, rfl⟩

/-- **Barrier.**  No pulse is ever scheduled to start before the time of the latest phase
shift of any of its targets (the `phase_barrier_ts` handed to the scheduler), whatever
the protocol. -/
theorem barrier {ms : Option Nat} {c : ChanState} {others : List ChanState}
    {p : PulseRec} {barriers : List Int} {proto : Protocol} {drift : Option Drift} {blk : Bool}
    {slot last : Slot} (hc : 0 < c.cfg.clock) (hl : c.last = .ok last)
    (h : makeNextPulseSlot ms c others p barriers proto drift blk = .ok slot) :
    ∀ b ∈ barriers, b ≤ slot.ti := by
  obtain ⟨delay, _, h1, _, _, _, _, _, _, hneed⟩ := makeNextPulseSlot_spec hc hl h
  have hcm := (curMaxOf_ge others last barriers proto).2
  have hmax : ∀ (l : List Int) (x : Int), ∀ b ∈ l, b ≤ maxList x l := by
    intro l
    induction l with
    | nil => intro x b hb; cases hb
    | cons a rest ih =>
      intro x b hb
      have e : maxList x (a :: rest) = maxList (max x a) rest := rfl
      rw [e]
      rcases List.mem_cons.mp hb with hh | hh
      · subst hh; have := maxList_ge (max x b) rest; omega
      · exact ih _ b hh
  intro b hb
  have h3 := hmax barriers last.tf b hb
  have h4 := hneed.2.2
  have hm := Int.le_max_left (curMaxOf others last barriers proto - last.tf)
    (phaseJumpBuffer c last.tf
      (fmtPhase (correctedPhase p drift (curMaxOf others last barriers proto))) proto)
  omega

theorem setRefs_getRefs_other (s : SeqState) (b b' : Basis) (l : List QRef) (hb : b' ≠ b) :
    (s.setRefs b l).getRefs b' = s.getRefs b' := by
  unfold SeqState.setRefs SeqState.getRefs
  simp only
  congr 1
  induction s.refs with
  | nil => rfl
  | cons x rest ih =>
    simp only [List.map_cons, List.find?_cons]
    by_cases hx : (x.1 == b) = true
    · have hxb : x.1 = b := by simpa using hx
      have h1 : (b == b') = false := by simpa using (Ne.symm hb)
      have h2 : (x.1 == b') = false := by rw [hxb]; exact h1
      rw [if_pos hx]
      simp only [h1, h2]
      exact ih
    · rw [if_neg hx]
      cases hxb' : (x.1 == b') with
      | true => rfl
      | false => exact ih

theorem mapRefs_getRefs_other (s : SeqState) (b b' : Basis) (qs : List Nat) (f : QRef → QRef)
    (hb : b' ≠ b) : (s.mapRefs b qs f).getRefs b' = s.getRefs b' := by
  unfold SeqState.mapRefs
  cases hg : s.getRefs b with
  | none => rfl
  | some l => exact setRefs_getRefs_other s b b' _ hb

/-- **At the level of the API call**: when `seq.add(pulse, channel, protocol)` succeeds on a
sequence satisfying the timeline invariant (every reachable one), the pulse instruction appended
to the channel carries the programmed phase plus the channel's phase reference — the common
reference of its target atoms in the channel's basis, as it was before the call — reduced to
`[0, 2π)`, keeps its post-phase-shift, and does not start before the time of the latest phase
shift of any of its targets. -/
theorem add_phase_and_barrier (s : SeqState) (hi : SeqInv s) (p : PulseIn) (n : ChName)
    (proto : Protocol) (hok : (addCore s p n (some proto) none).err = none) :
    ∃ (c c' : ChanState) (last slot : Slot) (pr : PulseRec),
      s.getChan n = some c ∧ c.last = .ok last ∧
      (addCore s p n (some proto) none).st.getChan n = some c' ∧ c'.last = .ok slot ∧
      slot.kind = .pulse pr ∧ pr.post = p.post ∧
      pr.phase = fmtPhase (p.phase +
        (match (if c.cfg.isDmm = true then none else (s.lastPhases c.cfg.basis last.targets).head?) with
         | some r => r | none => 0)) ∧
      ∀ b ∈ s.lastTimes c.cfg.basis last.targets, b ≤ slot.ti := by
  obtain ⟨c, c', last, slot, pr0, ref, hgc, hl, href, hpr, hm, hget, hl'⟩ := addCore_ok_spec hi hok
  have hci := hi c (getChan_mem hgc).1
  obtain ⟨p', hk, hph, hpost⟩ := scheduled_phase (makeNext_blk_indep hm)
  have hbar := barrier hci.1 hl hm
  refine ⟨c, c', last, slot, p', hgc, hl, hget, hl', hk, ?_, ?_, hbar⟩
  · rw [hpost]
    unfold validateAndAdjust at hpr
    split at hpr
    · cases hpr
    · split at hpr
      · cases hpr
      · split at hpr
        · cases hpr
        · split at hpr
          · cases hpr
          · injection hpr with hpr; subst hpr; rfl
  · rw [hph, ← href]
    unfold validateAndAdjust at hpr
    split at hpr
    · cases hpr
    · split at hpr
      · cases hpr
      · split at hpr
        · cases hpr
        · split at hpr
          · cases hpr
          · injection hpr with hpr; subst hpr; rfl

/-- **Bases are separate**: a phase shift in basis `b` leaves the references of every other
basis untouched. -/
theorem basis_separation (s : SeqState) (phi : Rat) (qs : List Nat) (b b' : Basis) (hb : b' ≠ b) :
    (s.phaseShift phi qs b).st.getRefs b' = s.getRefs b' := by
  unfold SeqState.phaseShift
  by_cases h1 : (s.getRefs b).isNone = true
  · rw [if_pos h1]; rfl
  · rw [if_neg h1]
    simp only
    generalize (if qs.isEmpty = true then s.allQubits else qs) = qs'
    by_cases h2 : (qs'.any fun x => decide (x ≥ s.nQ)) = true
    · rw [if_pos h2]; rfl
    · rw [if_neg h2]
      exact mapRefs_getRefs_other s b b' qs' _ hb

/-- **Every phase tracker of every reachable sequence is well formed** (times strictly
increasing, nothing recorded after the qubit's last use): by induction over arbitrary call
histories, failing calls included.  This is what makes `shift_adds` apply to every reference
of every reachable state. -/
theorem trackers_invariant (dev : Device) (nQ : Nat) (s : SeqState) (hr : C02.Reach dev nQ s) :
    RefsOk s := by
  obtain ⟨evs, rfl⟩ := hr
  have key : ∀ (evs : List Ev) (s : SeqState), RefsOk s → RefsOk (runEv s evs) := by
    intro evs
    induction evs with
    | nil => intro s h; exact h
    | cons ev rest ih =>
      intro s h
      refine ih _ ?_
      cases ev with
      | call op => exact stepRaw_refs s op h
      | oracle n d du fs fe => exact h
  exact key evs _ (by intro p hp; simp [SeqState.init] at hp)

/-- **The phase references of the basis of every declared channel exist**, in every reachable state
(declaring a channel creates them, no call removes them): the references a pulse is added to are
always there. -/
theorem bases_addressed (dev : Device) (nQ : Nat) (s : SeqState) (hr : C02.Reach dev nQ s) :
    ∀ c ∈ s.chans, (s.getRefs c.cfg.basis).isSome = true := by
  obtain ⟨evs, rfl⟩ := hr
  intro c hc
  exact (Keys.hasB_iff _).mp
    (runEv_bases _ evs (by intro c hc; simp [SeqState.init] at hc) c hc)

theorem find_map_same (refs : List (Basis × List QRef)) (b : Basis) (l : List QRef)
    (h : (refs.find? (·.1 == b)).isSome = true) :
    (refs.map fun x => if (x.1 == b) = true then (b, l) else x).find? (·.1 == b) = some (b, l) := by
  induction refs with
  | nil => simp at h
  | cons x rest ih =>
    simp only [List.map_cons, List.find?_cons] at h ⊢
    by_cases hx : (x.1 == b) = true
    · rw [if_pos hx]; simp
    · rw [if_neg hx]
      simp only [hx] at h ⊢
      exact ih h

theorem setRefs_getRefs_same (s : SeqState) (b : Basis) (l l0 : List QRef) (h : s.getRefs b = some l0) :
    (s.setRefs b l).getRefs b = some l := by
  unfold SeqState.setRefs SeqState.getRefs at *
  simp only
  have : (s.refs.find? (·.1 == b)).isSome = true := by
    cases hf : s.refs.find? (·.1 == b) with
    | none => rw [hf] at h; cases h
    | some p => rfl
  rw [find_map_same s.refs b l this]; rfl

/-- **A phase shift at the level of the sequence.**  After `phase_shift(phi, targets, basis)`
returns normally, the current reference of every targeted qubit is its previous reference
plus `phi` (mod 2π), and the reference of every other qubit of that basis is unchanged. -/
theorem phase_shift_adds (s : SeqState) (phi : Rat) (qs : List Nat) (b : Basis) (l : List QRef)
    (hok : RefsOk s) (hne : qs ≠ []) (hl : s.getRefs b = some l)
    (hsucc : (s.phaseShift phi qs b).err = none) :
    ∃ l', (s.phaseShift phi qs b).st.getRefs b = some l' ∧ l'.length = l.length ∧
      ∀ q (hq : q < l.length) (hq' : q < l'.length),
        (qs.contains q = true → ∃ k : Int, l'[q].lastPhase = l[q].lastPhase + phi - k * twoPi) ∧
        (qs.contains q = false → l'[q] = l[q]) := by
  unfold SeqState.phaseShift at hsucc ⊢
  have h1 : ¬ (s.getRefs b).isNone = true := by rw [hl]; simp
  rw [if_neg h1] at hsucc ⊢
  have hqs : (if qs.isEmpty = true then s.allQubits else qs) = qs := by
    have : qs.isEmpty = false := by cases qs <;> simp_all
    simp [this]
  simp only [hqs] at hsucc ⊢
  by_cases h2 : (qs.any fun x => decide (x ≥ s.nQ)) = true
  · rw [if_pos h2] at hsucc; simp [fail] at hsucc
  · rw [if_neg h2]
    show ∃ l', (s.mapRefs b qs fun x => x.incrementPhase phi).getRefs b = some l' ∧ _
    unfold SeqState.mapRefs
    simp only [hl]
    refine ⟨_, setRefs_getRefs_same s b _ l hl, by simp, ?_⟩
    intro q hq hq'
    have hTr : TrOk l[q] := by
      unfold SeqState.getRefs at hl
      cases hf : s.refs.find? (·.1 == b) with
      | none => rw [hf] at hl; cases hl
      | some p =>
        rw [hf] at hl; injection hl with hl; subst hl
        exact hok p (List.mem_of_find?_eq_some hf) _ (List.getElem_mem _)
    simp only [List.getElem_map, List.getElem_zipIdx, Nat.zero_add]
    constructor
    · intro hc
      rw [if_pos hc]
      exact (shift_adds l[q] phi hTr).1
    · intro hc
      rw [if_neg (by rw [hc]; simp)]

/-! ### Non-vacuity -/

example : TrOk ({} : QRef) := TrOk_default

/-- shifts 1/4, 1/2, 1/8 on a fresh reference add up to 7/8 (no wrap) -/
example : (([1/4, 1/2, 1/8] : List Rat).foldl QRef.incrementPhase {}).lastPhase = 7/8 := by
  decide +kernel

/-- a shift of 7 wraps: 7 − 2π(float) -/
example : (QRef.incrementPhase {} 7).lastPhase = 7 - twoPi := by decide +kernel

end C07
end Pulser
