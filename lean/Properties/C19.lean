/-
  C19 — Layouts number traps canonically; registers, maps and layouts agree.

  Only property theorems (and their non-vacuity examples) live here; helper
  lemmas are in Proofs/Layout.lean.  Model: PulserModel/Layout.lean.

  Coordinates are integers in micro-units (the value `np.round(x, 6)` of the code,
  times 10⁶); the rounding itself and the float representation (dtype, `-0.0`) are
  outside the model and are tied by the harness (correspondence + monitor).

  Clauses of the property and the theorems that carry them
    "IDs depend only on the set of coordinates, ascending x, y, z"   ids_perm_invariant, ids_ascending,
                                                                     lexLt_2d, lexLt_3d, trap_lookup_perm_invariant
    "equality and static hash are order-independent"                 eq_hash_perm_invariant, eq_iff_same_traps
    "a register from trap IDs places each qubit exactly on its trap" define_register_places, define_register_accepts
    "… also for a register constructed directly with layout= /
     trap_ids=: it is accepted iff every qubit is exactly on the
     trap it claims, and then the look-up returns those IDs"         direct_register_iff, direct_register_places,
                                                                     direct_lookup_inverse
    "looking those coordinates up returns the same IDs"              lookup_inverse, lookup_inverse_built,
                                                                     lookup_sound, layout_coords_distinct
    "a mappable register places the chosen qubits in declared order" mappable_order, mappable_places
    "a detuning map gives each qubit the weight of the trap at its
     position (zero if none), independent of ordering"               weight_lookup, weight_zero,
                                                                     weight_perm_invariant, sorted_weights_perm_invariant,
                                                                     sorted_weights_aligned
-/
import Proofs.Layout
namespace Pulser
namespace C19
open Layout

/-! ### Trap numbering -/

/-- **Trap IDs depend only on the set of coordinates.**  Two layouts given the same
coordinates in any order have the same `sorted_coords`, i.e. the same trap at every
ID.  (No distinctness hypothesis is needed: the order is total on coordinates, so
even coinciding coordinates sort to the same list.) -/
theorem ids_perm_invariant {l₁ l₂ : List Coord} (h : l₁.Perm l₂) : sortLex l₁ = sortLex l₂ :=
  sortLex_eq_of_perm h

example : sortLex [[5000000, 0], [0, 1000000], [0, -1000000]]
    = sortLex [[0, -1000000], [5000000, 0], [0, 1000000]] :=
  ids_perm_invariant (by decide)

example : sortLex [[5000000, 0], [0, 1000000], [0, -1000000]]
    = [[0, -1000000], [0, 1000000], [5000000, 0]] := by decide

/-- **The numbering is the ascending one**: the traps are exactly the given
coordinates, and with distinct coordinates trap `i` is strictly before trap `j` in
(x, then y, then z) order whenever `i < j`. -/
theorem ids_ascending {l : List Coord} (hn : l.Nodup) :
    (sortLex l).Perm l ∧ (sortLex l).Pairwise (fun a b => lexLt a b = true) :=
  ⟨sortLex_perm l, sortLex_strict hn⟩

example : [[5000000, 0], [0, 1000000], [0, -1000000]].Nodup := by decide

/-- The order used is "ascending x, then y" … -/
theorem lexLt_2d (x y x' y' : Int) :
    lexLt [x, y] [x', y'] = true ↔ x < x' ∨ (x = x' ∧ y < y') := by
  simp [lexLt]

/-- … "then z". -/
theorem lexLt_3d (x y z x' y' z' : Int) :
    lexLt [x, y, z] [x', y', z'] = true ↔
      x < x' ∨ (x = x' ∧ (y < y' ∨ (y = y' ∧ z < z'))) := by
  simp [lexLt]

example : lexLt [0, 5, 9] [0, 6, -3] = true := by decide

/-- Looking a coordinate up gives the same trap ID whatever order the layout was
given in. -/
theorem trap_lookup_perm_invariant {L₁ L₂ : Layout} (h : L₁.coords.Perm L₂.coords)
    (cs : List Coord) : trapsFromCoords L₁ cs = trapsFromCoords L₂ cs := by
  have hs : L₁.sorted = L₂.sorted := ids_perm_invariant h
  induction cs with
  | nil => rfl
  | cons c rest ih => simp only [trapsFromCoords, hs, ih]

example : trapsFromCoords ⟨2, [[5, 0], [0, 1], [0, -1]]⟩ [[0, 1], [5, 0]] = .ok [1, 2] := by decide

/-- **Equality and the static hash are order-independent**: what `_safe_hash`
digests (`Layout.key`) is the same for two orderings of the same coordinates, and
`==` holds. -/
theorem eq_hash_perm_invariant {L₁ L₂ : Layout} (hd : L₁.dim = L₂.dim)
    (h : L₁.coords.Perm L₂.coords) : L₁.key = L₂.key ∧ L₁.eqv L₂ = true := by
  have hk : L₁.key = L₂.key := by
    unfold Layout.key Layout.sorted
    rw [hd, ids_perm_invariant h]
  exact ⟨hk, by simp [Layout.eqv, hk]⟩

/-- … and conversely two layouts are equal only if they have the same traps. -/
theorem eq_iff_same_traps (L₁ L₂ : Layout) :
    L₁.eqv L₂ = true ↔ L₁.dim = L₂.dim ∧ L₁.coords.Perm L₂.coords := by
  constructor
  · intro h
    have hk : L₁.key = L₂.key := by simpa [Layout.eqv] using h
    have h1 : L₁.dim = L₂.dim := congrArg Prod.fst hk
    have h2 : L₁.sorted = L₂.sorted := congrArg Prod.snd hk
    refine ⟨h1, ?_⟩
    have p1 := sortLex_perm L₁.coords
    have p2 := sortLex_perm L₂.coords
    unfold Layout.sorted at h2
    exact p1.symm.trans (h2 ▸ p2)
  · rintro ⟨hd, hp⟩
    exact (eq_hash_perm_invariant hd hp).2

example : (Layout.mk 2 [[5, 0], [0, 1]]).eqv (Layout.mk 2 [[0, 1], [5, 0]]) = true := by decide
example : (Layout.mk 2 [[5, 0], [0, 1]]).eqv (Layout.mk 2 [[0, 1], [5, 1]]) = false := by decide

/-! ### Registers from trap IDs -/

/-- **Defining a register from trap IDs places each qubit exactly on that trap**:
when `define_register(*ids, qubit_ids=qids)` succeeds, the `k`-th qubit sits at the
coordinates of trap `ids[k]`, the qubit ids are the given ones (or `q0, q1, …`), the
recorded trap ids are `ids`, and all of them are IDs of the layout. -/
theorem define_register_places {L : Layout} {ids : List Nat} {qids : Option (List QId)} {r : Reg}
    (h : defineRegister L ids qids = .ok r) :
    r.qubits.map (·.2) = ids.map L.trapCoord ∧
    r.qubits.map (·.1) = (match truthy qids with
      | some qs => qs
      | none => defaultIds ids.length) ∧
    r.trapIds = ids ∧ r.dim = L.dim ∧ (∀ i ∈ ids, i < L.nTraps) := by
  obtain ⟨_, h2, _, h4, h5, h6, h7⟩ := defineRegister_ok h
  exact ⟨h6, h7, h5, h4, h2⟩

/-- … and it succeeds for every selection of distinct, existing trap IDs (no
spurious rejection). -/
theorem define_register_accepts (L : Layout) {ids : List Nat} (hn : ids.Nodup)
    (hb : ∀ i ∈ ids, i < L.nTraps) (hne : ids ≠ []) :
    ∃ r, defineRegister L ids none = .ok r := by
  have hall : (ids.all fun i => decide (i < L.nTraps)) = true := by simpa using hb
  have hz : ((defaultIds ids.length).zip (ids.map L.trapCoord)).isEmpty = false := by
    cases ids with
    | nil => exact absurd rfl hne
    | cons i is => simp [defaultIds, List.range_succ_eq_map]
  have hlen : ids.length = ((defaultIds ids.length).zip (ids.map L.trapCoord)).length := by
    simp [defaultIds_length]
  refine ⟨{ dim := L.dim, qubits := (defaultIds ids.length).zip (ids.map L.trapCoord),
            trapIds := ids }, ?_⟩
  simp [defineRegister, hn, hall, truthy, place, hz, validateLayout, ← hlen, all_zip_trapCoord]

example : defineRegister ⟨2, [[5, 0], [0, 1], [0, -1]]⟩ [2, 0] none
    = .ok ⟨2, [("q0", [5, 0]), ("q1", [0, -1])], [2, 0]⟩ := by decide

/-- **Looking those coordinates up returns the same IDs** (layouts whose rounded
coordinates are distinct). -/
theorem lookup_inverse {L : Layout} (hn : L.coords.Nodup) {ids : List Nat}
    {qids : Option (List QId)} {r : Reg} (h : defineRegister L ids qids = .ok r) :
    trapsFromCoords L (r.qubits.map (·.2)) = .ok ids := by
  obtain ⟨_, h2, _, _, _, h6, _⟩ := defineRegister_ok h
  rw [h6]
  exact trapsFromCoords_map L (sortLex_nodup hn) ids h2

example : trapsFromCoords ⟨2, [[5, 0], [0, 1], [0, -1]]⟩ [[5, 0], [0, -1]] = .ok [2, 0] := by decide

/-- Without the distinctness hypothesis the conclusion fails (the near-tie collapse of
F13c: traps `(0,0)` and `(1e-8,0)` round to the same coordinate; both qubits would look up
to trap 1) … -/
example : trapsFromCoords ⟨2, [[0, 0], [0, 0], [3000000, 0]]⟩ [[0, 0], [0, 0]] = .ok [1, 1] := by
  decide

/-- … but such a layout cannot be constructed: **a constructed layout has pairwise distinct
rounded coordinates** (and 2 or 3 dimensions), so trap IDs and rounded coordinates are in
bijection. -/
theorem layout_coords_distinct {cs : List Coord} {L : Layout} (h : mkLayout cs = .ok L) :
    L.coords = cs ∧ L.coords.Nodup ∧ (L.dim = 2 ∨ L.dim = 3) := by
  unfold mkLayout at h
  split at h
  · cases h
  · rename_i c rest
    split at h
    · cases h
    · split at h
      · cases h
      · rename_i hdim
        split at h
        · cases h
        · rename_i hn
          cases h
          refine ⟨rfl, by simpa using hn, ?_⟩
          simp only [bne_iff_ne, ne_eq, Bool.and_eq_true, decide_eq_true_eq, not_and,
            Decidable.not_not] at hdim
          by_cases h2 : c.length = 2
          · exact .inl h2
          · exact .inr (hdim h2)

example : mkLayout [[0, 0], [0, 0], [3000000, 0]] = .err .notUnique := by decide
example : mkLayout [[5, 0], [0, 1], [0, -1]] = .ok ⟨2, [[5, 0], [0, 1], [0, -1]]⟩ := by decide

/-- Hence for every layout that can be constructed, looking up the coordinates of a register
defined from trap IDs returns those IDs. -/
theorem lookup_inverse_built {cs : List Coord} {L : Layout} (hL : mkLayout cs = .ok L)
    {ids : List Nat} {qids : Option (List QId)} {r : Reg} (h : defineRegister L ids qids = .ok r) :
    trapsFromCoords L (r.qubits.map (·.2)) = .ok ids :=
  lookup_inverse (layout_coords_distinct hL).2.1 h

/-- Whatever IDs a look-up returns, those traps are at the coordinates asked for. -/
theorem lookup_sound {L : Layout} {cs : List Coord} {is : List Nat}
    (h : trapsFromCoords L cs = .ok is) : is.map L.trapCoord = cs := by
  induction cs generalizing is with
  | nil => simp [trapsFromCoords] at h; subst h; rfl
  | cons c rest ih =>
    unfold trapsFromCoords at h
    split at h
    · cases h
    · rename_i i hi
      split at h
      · rename_i js hjs
        cases h
        have := lookupLast_some hi
        simp [Layout.trapCoord, List.getD, this, ih hjs]
      · cases h

/-! ### Registers constructed directly with `layout=` / `trap_ids=` -/

/-- **A register may only claim traps it sits on**: `Register(qubits, layout=L, trap_ids=ids)`
(also `Register3D`, `from_coordinates(…, layout=, trap_ids=)`, deserialisation) is accepted if and
only if it has qubits, the dimensionalities agree, the trap IDs are distinct, existing, one per
qubit, and every qubit is *exactly* on the trap it claims (no tolerance: the caller's raw
coordinate must be the rounded coordinate of the trap). -/
theorem direct_register_iff (L : Layout) (dim : Nat) (qs : List (QId × RPos)) (ids : List Nat) :
    (∃ r, mkRegisterDirect L dim qs ids = .ok r) ↔
      qs ≠ [] ∧ L.dim = dim ∧ ids.Nodup ∧ ids.length = qs.length ∧ (∀ i ∈ ids, i < L.nTraps) ∧
      qs.map (·.2) = ids.map (fun t => (L.trapCoord t).map (fun (z : Int) => (z : Rat))) := by
  constructor
  · rintro ⟨r, h⟩
    obtain ⟨h1, h2, h3, h4, h5, h6, _⟩ := mkRegisterDirect_ok h
    exact ⟨h1, h2, h3, h4, h5, allOnTraps_spec L qs ids h4 h6⟩
  · rintro ⟨h1, h2, h3, h4, h5, h6⟩
    refine ⟨_, mkRegisterDirect_accepts h1 h2 h3 h4 h5 ?_⟩
    -- from the list equation back to the pointwise test
    clear h1 h3 h5
    induction qs generalizing ids with
    | nil => cases ids <;> rfl
    | cons q qs ih =>
      cases ids with
      | nil => simp at h4
      | cons i is =>
        simp only [List.map_cons, List.cons.injEq] at h6
        simp only [allOnTraps, onTrap, h6.1, BEq.rfl, Bool.true_and]
        exact ih is (by simpa using h4) h6.2

/-- … so whatever way a register with layout information came to be, **each qubit is exactly on
its trap**, the recorded trap IDs are the claimed ones and they are IDs of the layout. -/
theorem direct_register_places {L : Layout} {dim : Nat} {qs : List (QId × RPos)} {ids : List Nat}
    {r : Reg} (h : mkRegisterDirect L dim qs ids = .ok r) :
    r.qubits.map (·.2) = ids.map L.trapCoord ∧ r.qubits.map (·.1) = qs.map (·.1) ∧
    r.trapIds = ids ∧ r.dim = L.dim ∧ (∀ i ∈ ids, i < L.nTraps) := by
  obtain ⟨_, h2, _, h4, h5, _, rfl⟩ := mkRegisterDirect_ok h
  have hle : (ids.map L.trapCoord).length ≤ (qs.map (·.1)).length := by
    simp only [List.length_map]; omega
  have hle' : (qs.map (·.1)).length ≤ (ids.map L.trapCoord).length := by
    simp only [List.length_map]; omega
  exact ⟨List.map_snd_zip hle, List.map_fst_zip hle', rfl, h2.symm, h5⟩

/-- … and **looking its coordinates up returns the trap IDs it carries**. -/
theorem direct_lookup_inverse {L : Layout} (hn : L.coords.Nodup) {dim : Nat}
    {qs : List (QId × RPos)} {ids : List Nat} {r : Reg}
    (h : mkRegisterDirect L dim qs ids = .ok r) :
    trapsFromCoords L (r.qubits.map (·.2)) = .ok ids := by
  obtain ⟨h1, _, _, _, h5⟩ := direct_register_places h
  rw [h1]
  exact trapsFromCoords_map L (sortLex_nodup hn) ids h5

example : mkRegisterDirect ⟨2, [[40000000, 0], [0, 3000000]]⟩ 2 [("a", [40000000, 0])] [1]
    = .ok ⟨2, [("a", [40000000, 0])], [1]⟩ := by decide +kernel
/-- 3·10⁻⁴ µm off a trap at x = 40 µm is not on the trap … -/
example : mkRegisterDirect ⟨2, [[40000000, 0], [0, 3000000]]⟩ 2 [("a", [40000300, 0])] [1]
    = .err .layoutMismatch := by decide +kernel
/-- … nor is a position that merely rounds to the trap's coordinate. -/
example : mkRegisterDirect ⟨2, [[40000000, 0], [0, 3000000]]⟩ 2 [("a", [400000000001 / 10000, 0])] [1]
    = .err .layoutMismatch := by decide +kernel

/-! ### Mappable registers -/

/-- **A mappable register places the chosen qubits on the mapped traps in declared
order**: a successful `build_register(qubits)` yields the first `len(qubits)` declared
qubit ids, in the declared order (whatever the order of the dict), each at the trap
the dict assigns to it. -/
theorem mappable_order {M : Mappable} {mapping : List (QId × Nat)} {r : Reg}
    (hn : M.qids.Nodup) (h : buildRegister M mapping = .ok r) :
    r.qubits.map (·.1) = M.qids.take mapping.length ∧
    r.qubits.map (·.2) =
      (M.qids.take mapping.length).map (fun q => M.layout.trapCoord ((mapping.lookup q).getD 0)) := by
  unfold buildRegister at h
  simp only at h
  split at h
  · cases h
  · split at h
    · cases h
    · rename_i _ h2
      have hs : sameSet (mapping.map (·.1)) (M.qids.take mapping.length) = true := by
        simpa using h2
      have hf : M.qids.filter (fun q => (mapping.map (·.1)).contains q)
          = M.qids.take mapping.length := by
        rw [← filter_mem_take_of_nodup hn mapping.length]
        exact List.filter_congr (fun q _ => sameSet_contains hs q)
      have hnt : (M.qids.take mapping.length).Nodup := hn.sublist (List.take_sublist _ _)
      rw [hf, dedup_of_nodup hnt] at h
      obtain ⟨_, _, h3, _, _, h6, h7⟩ := defineRegister_ok h
      simp only [List.map_map] at h3 h6 h7
      have hne : M.qids.take mapping.length ≠ [] := by
        intro e; rw [e] at h3; exact h3 rfl
      refine ⟨?_, ?_⟩
      · rw [h7]
        cases hq : M.qids.take mapping.length with
        | nil => exact absurd hq hne
        | cons a l => simp [truthy, Function.comp_def]
      · rw [h6]; simp [Function.comp_def]

/-- … i.e. qubit `q` mapped to trap `t` sits on trap `t`. -/
theorem mappable_places {M : Mappable} {mapping : List (QId × Nat)} {r : Reg}
    (hn : M.qids.Nodup) (hk : (mapping.map (·.1)).Nodup)
    (h : buildRegister M mapping = .ok r) {q : QId} {t : Nat} (hm : (q, t) ∈ mapping) :
    (q, M.layout.trapCoord t) ∈ r.qubits := by
  obtain ⟨h1, h2⟩ := mappable_order hn h
  have hz : r.qubits = (M.qids.take mapping.length).zip
      ((M.qids.take mapping.length).map
        (fun q => M.layout.trapCoord ((mapping.lookup q).getD 0))) :=
    List.zip_of_prod h1 h2
  -- `q` is among the first `len(mapping)` declared ids
  have hq : q ∈ M.qids.take mapping.length := by
    unfold buildRegister at h
    simp only at h
    split at h
    · cases h
    · split at h
      · cases h
      · rename_i _ h2'
        have hs : sameSet (mapping.map (·.1)) (M.qids.take mapping.length) = true := by
          simpa using h2'
        have := sameSet_contains hs q
        have hc : (mapping.map (·.1)).contains q = true := by
          simp only [List.contains_iff_mem, List.mem_map]
          exact ⟨(q, t), hm, rfl⟩
        rw [hc] at this
        simpa using this.symm
  have := mem_zip_map_self
    (fun q => M.layout.trapCoord ((mapping.lookup q).getD 0)) hq
  rw [lookup_of_mem_nodup hk hm] at this
  rw [hz]
  simpa using this

example : buildRegister ⟨⟨2, [[5, 0], [0, 1], [0, -1]]⟩, ["a", "b", "c"]⟩ [("b", 0), ("a", 2)]
    = .ok ⟨2, [("a", [5, 0]), ("b", [0, -1])], [2, 0]⟩ := by decide

example : buildRegister ⟨⟨2, [[5, 0], [0, 1], [0, -1]]⟩, ["a", "b", "c"]⟩ [("c", 0), ("a", 2)]
    = .err .notPrefix := by decide

/-! ### Weight (detuning) maps -/

/-- Traps of a map are *separated* when no two different traps are `isclose` to each
other (`rtol = 0`, `atol = 1e-6`: more than one micro-unit apart in some component). -/
def Separated (m : WeightMap) : Prop :=
  ∀ a ∈ m.traps, ∀ b ∈ m.traps, closeCoord a.1 b.1 = true → a.1 = b.1

/-- **A detuning map gives each qubit the weight of the trap at its position**: a
qubit sitting at the coordinates `c` of a trap declared with weight `w` gets exactly
`w` (traps with distinct rounded coordinates, separated by more than the look-up
tolerance). -/
theorem weight_lookup {m : WeightMap} (hn : (m.traps.map (·.1)).Nodup) (hs : Separated m)
    {c : Coord} {w : Rat} (hm : (c, w) ∈ m.traps) : m.weightOf c = w := by
  rw [weightOf_eq_unsorted]
  have : m.traps.filter (fun tw => closeCoord tw.1 c) = [(c, w)] := by
    apply filter_eq_singleton (nodup_of_nodup_map_fst hn) hm (closeCoord_self c)
    intro x hx hc
    exact eq_of_fst_eq hn hx hm (hs x hx (c, w) hm hc)
  rw [this]
  simp [Rat.add_zero]

/-- **… and zero if there is none** within the tolerance. -/
theorem weight_zero {m : WeightMap} {p : Coord}
    (h : ∀ tw ∈ m.traps, closeCoord tw.1 p = false) : m.weightOf p = 0 := by
  rw [weightOf_eq_unsorted]
  have : m.traps.filter (fun tw => closeCoord tw.1 p) = [] := by
    rw [List.filter_eq_nil_iff]
    intro a ha
    simp [h a ha]
  rw [this]
  rfl

/-- **Independent of ordering**: two maps that list the same (trap, weight) pairs in
different orders give every position the same weight … -/
theorem weight_perm_invariant {m₁ m₂ : WeightMap} (h : m₁.traps.Perm m₂.traps) (p : Coord) :
    m₁.weightOf p = m₂.weightOf p := by
  rw [weightOf_eq_unsorted, weightOf_eq_unsorted]
  exact sum_perm ((h.filter _).map _)

/-- … and, with distinct trap coordinates, have the same `sorted_coords`,
`sorted_weights`, hence the same hash and `==`. -/
theorem sorted_weights_perm_invariant {m₁ m₂ : WeightMap} (hd : m₁.dim = m₂.dim)
    (h : m₁.traps.Perm m₂.traps) (hn : (m₁.traps.map (·.1)).Nodup) :
    m₁.sortedWeights = m₂.sortedWeights ∧ m₁.key = m₂.key := by
  have : m₁.sortedTraps = m₂.sortedTraps := sortPairs_eq_of_perm h hn
  simp [WeightMap.key, WeightMap.sortedWeights, WeightMap.sortedCoords, this, hd]

/-- `sorted_weights[i]` is the weight of the trap with ID `i`: the traps of a map are
numbered like those of a layout with the same coordinates, and the (coordinate,
weight) pairs by trap ID are exactly the declared pairs. -/
theorem sorted_weights_aligned (m : WeightMap) :
    m.sortedCoords = sortLex (m.traps.map (·.1)) ∧
    m.sortedCoords.zip m.sortedWeights = m.sortedTraps ∧
    m.sortedTraps.Perm m.traps :=
  ⟨map_fst_sortPairs m.traps, (List.zip_of_prod rfl rfl).symm, sortPairs_perm m.traps⟩

def exMap : WeightMap := ⟨2, [([50000000, 0], 7 / 10), ([0, 0], 3 / 10)]⟩

example : (exMap.traps.map (·.1)).Nodup := by decide
example : exMap.sortedWeights = [3 / 10, 7 / 10] := by decide +kernel
example : exMap.weightOf [50000000, 0] = 7 / 10 := by decide +kernel
example : exMap.weightOf [20000000, 0] = 0 := by decide +kernel
example : (WeightMap.mk 2 exMap.traps.reverse).weightOf [0, 0] = exMap.weightOf [0, 0] :=
  weight_perm_invariant (List.reverse_perm _) _

/-- The tolerance of the look-up is one micro-unit per component, whatever the size of the
coordinate (F19 repaired: there used to be a relative term, and a qubit 3·10⁻⁴ µm away from
the trap at x = 50 µm received its weight). -/
example : exMap.weightOf [50000300, 0] = 0 := by decide +kernel
example : exMap.weightOf [50000001, 0] = 7 / 10 := by decide +kernel
example : exMap.weightOf [50000002, 0] = 0 := by decide +kernel

end C19
end Pulser
