/-
  C04 — Sequence serialisation round-trips and is schema-valid.

  What is carried here:
  * `defaults_agree`, `top_level_agree`, `coverage_complete`, `expr_ops_agree` — `decide`
    over the table GENERATED on every run from the live serializer / deserializer source,
    the live `Sequence` signatures and sequence-schema.json
    (PulserModel/Generated/AbstractOps.lean): the obligation is re-checked against the
    source each time the check runs;
  * `roundtrip_ops` — on the model's op language, decoding the encoding of a call log gives
    the canonical form of that log (for ANY table whose flags agree; instantiated with the
    generated one), `canon_idem`, hence `roundtrip_equiv`;
  * `roundtrip_expr` — expression trees survive the abstract JSON shape.

  What is NOT carried by a theorem (correspondence only, harness/props/C04.py):
  * that the canonical form behaves like the original log — hoisting `declare_channel`
    before the operations of other channels needs a commutation lemma over the whole
    scheduler (`declare_commutes`), not proved; `roundtrip_behaviour_partial` covers the
    logs that are already in canonical order;
  * schema validity proper (value types, nesting): `jsonschema` in the harness — the Lean
    side only knows the key sets; devices, registers, layouts, waveforms: C17 / harness;
  * the legacy JSON encoder/decoder: harness only.
-/
import Proofs.Serialize
namespace Pulser
namespace C04
open Serialize Generated.AbstractOps

/-- **Encoder, decoder and schema agree on every abstract operation** — for each branch of
`serialize_abstract_sequence` (rows of the generated table):
(1) every key the encoder elides at value `v` is re-inserted by the decoder with the same `v`;
(2) every key the decoder reads without default is always emitted;
(3) the decoder only defaults keys the encoder knows;
(4) every emitted key is permitted by the (closed) schema definition of the operation;
(5) every schema-`required` key is always emitted;
(6) every emitted key is read back (nothing is dropped);
(7) where both sides use the same `Sequence` method, a key carries the same argument on
    both sides and is elided at that method's live default;
(8) the decoder and the schema know the operation. -/
theorem defaults_agree : tableOk table = true := by decide +kernel

/-- The same for the top-level keys of the document (`device`, `register`, `layout`,
`channels`, `variables`, `operations`, `measurement`, `magnetic_field`, `slm_mask_targets`, …):
required keys are always written, written keys are allowed, keys read unconditionally
are always written, conditional keys are read conditionally. -/
theorem top_level_agree : topOk = true := by decide +kernel

/-- Every stored `Sequence` call has an encoder branch; every operation the decoder or the
schema know can be produced. -/
theorem coverage_complete : coverageOk = true := by decide +kernel

/-- Operators of parametrized objects (`OpSupport`, rounding included since the repair of
finding F-C04-1): the expression each one serialises to is accepted by the decoder and
allowed by the schema — no exception list. -/
theorem expr_ops_agree : exprOk [] = true := by decide +kernel

/-- The optional booleans of the model's op language survive elision and re-insertion in
the generated table (a consequence of clause (1) for these keys, checked directly). -/
theorem flags_agree : flagsOk table = true := by decide +kernel

/-- **Round trip on the model's op language**: for any table whose flags agree, decoding the
encoding of a call log succeeds and yields `canon log` — all channel declarations first
(without initial target), then every other call in its original order and with its original
arguments (an initial target as a `target` call at the position of its declaration; elided
defaults re-inserted), the measurement last.  `≈` is `Serialize.Equiv`: equality of
canonical forms. -/
theorem roundtrip_ops (T : List OpRow) (h : flagsOk T = true) (log : List Op) :
    decode T (encode T log) = some (canon log) := by
  unfold decode encode
  simp only [decode_encode_ops h log, Option.map_some, canon, channels_decl log]

/-- … in particular for the table extracted from the source now. -/
theorem roundtrip_ops_live (log : List Op) : decode table (encode table log) = some (canon log) :=
  roundtrip_ops table flags_agree log

/-- Canonical forms are fixed points: decoding an encoding, encoding again and decoding
gives the same program (serialisation is idempotent after one round trip). -/
theorem canon_idem (log : List Op) : canon (canon log) = canon log := Serialize.canon_idem log

/-- The decoded program is `≈` the original one. -/
theorem roundtrip_equiv (log dec : List Op) (h : decode table (encode table log) = some dec) :
    Equiv dec log := by
  rw [roundtrip_ops_live] at h
  injection h with h
  subst h
  exact Serialize.canon_idem log

/-- Behaviour, for the logs that are already in canonical order (declarations first and
without initial targets, measurement last — what every *deserialised* sequence looks like):
the decoded program is literally the same program, hence runs to the same state.  For other
logs the statement needs `declare_commutes` (a declaration commutes with operations on
other channels), which is left to the correspondence check. -/
theorem roundtrip_behaviour_partial (s : SeqState) (log dec : List Op) (hc : canon log = log)
    (h : decode table (encode table log) = some dec) : run s dec = run s log := by
  rw [roundtrip_ops_live, hc] at h
  injection h with h
  rw [h]

/-- **Expression trees round-trip** through the JSON shape (`{"variable"}`,
`{"expression": op, "lhs", "rhs"}`), given distinct function names none of which is
`"neg"`; with C08 (`build` = replay with evaluated arguments) a parametrized sequence and
its decoded copy build the same sequence for every assignment. -/
theorem roundtrip_expr (names : FnNames) (hn : NamesOk names) (e : Param.Expr) (a : AExpr)
    (h : encExpr names e = some a) : decExpr names a = some e := expr_roundtrip hn e a h

/-! ### Non-vacuity -/

def exLog : List Op :=
  [.declare (.user 0) 0 none,
   .delay 100 (.user 0) false,                   -- at_rest at its default: elided
   .declare (.user 1) 1 (some [1]),              -- late declaration with initial target
   .delay 52 (.user 1) true,                     -- at_rest not at its default: written
   .align [.user 0, .user 1] true,
   .measure .digital,
   .phaseShift (1/2) [0] .digital]               -- (allowed after measure)

example : (encode table exLog).channels = [(.user 0, 0), (.user 1, 1)] := by decide +kernel
example : (encode table exLog).ops =
    [.delay (.user 0) 100 none, .target (.user 1) [1], .delay (.user 1) 52 (some true),
     .align [.user 0, .user 1] none, .phaseShift (1/2) [0] .digital] := by decide +kernel
example : decode table (encode table exLog) =
    some [.declare (.user 0) 0 none, .declare (.user 1) 1 none, .delay 100 (.user 0) false,
          .target [1] (.user 1), .delay 52 (.user 1) true, .align [.user 0, .user 1] true,
          .phaseShift (1/2) [0] .digital, .measure .digital] := by decide +kernel
-- the canonical form differs from the log (so `≈` is not `=`), and is a fixed point
example : canon exLog ≠ exLog := by decide +kernel
example : canon (canon exLog) = canon exLog := by decide +kernel
-- a table in which the decoder defaulted `at_rest` differently would break the round trip
def badTable : List OpRow :=
  table.map fun r => if r.op = "delay" then { r with decOptional := [("at_rest", "True")] } else r
example : flagsOk badTable = false := by decide +kernel
example : tableOk badTable = false := by decide +kernel
example : decode badTable (encode badTable [.delay 100 (.user 0) false]) =
    some [.delay 100 (.user 0) true] := by decide +kernel
-- expressions
def exNames : FnNames := [(0, "abs"), (1, "sin")]
example : encExpr exNames (.add (.mul (.const 2) (.var 0 0)) (.fn 1 (.neg (.var 1 2)))) =
    some (.binary "add" (.binary "mul" (.lit 2) (.index (.varRef 0) 0))
           (.unary "sin" (.unary "neg" (.index (.varRef 1) 2)))) := by decide +kernel
example : NamesOk exNames := by
  refine ⟨by decide, ?_⟩
  intro p hp
  simp only [exNames, List.mem_cons, List.mem_nil_iff, or_false] at hp
  rcases hp with rfl | rfl <;> decide
-- the hypothesis of roundtrip_behaviour_partial is satisfiable by a non-trivial log
example : canon (canon exLog) = canon exLog ∧ (canon exLog).length = 8 := by decide +kernel

end C04
end Pulser
