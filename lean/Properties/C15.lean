/-
  C15 — EOM mode: square pulses, physical off-detuning, buffers, drift correction.

  Stated on the scheduler model.  The list of allowed off-detunings
  (`RydbergEOM.detuning_off_options`, float square roots of the beam light shifts) is an
  oracle parameter of the model; the choice among them, the shape of EOM pulses and idle
  periods, and the buffers are modelled and proved.  The emulator clause (drift correction
  ≡ zero off-detuning) is validated numerically by the harness only.

  `eom_pulses_square` / `eom_blocks_wellformed` are the statements over every reachable state
  (invariant `EIc`, Proofs/EomInv.lean + Proofs/EomSeq.lean: third pass over `stepRaw`).
-/
import Proofs.SeqInv
import Proofs.Eom
import Proofs.EomSeq
import Properties.C02
import Mathlib.Tactic.Ring
namespace Pulser
namespace C15

/-- **The off-detuning is the allowed value closest to the requested optimum** (the first one
on ties, as `argmin`) — see `Pulser.closest_option` in Proofs/Eom.lean, restated here. -/
theorem closest_option (opts : List Rat) (x : Rat) (i : Nat) (h : closestIdx opts x = some i) :
    ∃ hi : i < opts.length,
      (∀ j (hj : j < opts.length), absd opts[i] x ≤ absd opts[j] x) ∧
      (∀ j (hj : j < opts.length), j < i → absd opts[i] x < absd opts[j] x) :=
  Pulser.closest_option opts x i h

/-- The chosen off-detuning is a member of the allowed set. -/
theorem detuning_off_allowed (c : ChanState) (e : EomIn) (d : Rat)
    (h : processEomParams c e = .ok d) : d ∈ e.opts := by
  unfold processEomParams at h
  split at h
  · cases h
  · split at h
    · cases h
    · split at h
      · cases h
      · rename_i i hi
        split at h
        · rename_i detOff σ h1 h2
          split at h
          · cases h
          · injection h with h; subst h
            exact List.mem_of_getElem? h1
        · cases h

/-- **While idling in EOM mode with a non-zero off-detuning the channel plays a detuned
delay**: `add_delay` appends a constant pulse of zero amplitude and detuning `detuning_off`
carrying the phase of the last pulse — never a plain delay. -/
theorem eom_idle_detuned {ms : Option Nat} {c c' : ChanState} {d : Nat} {b : EomBlock}
    (hb : c.eom.getLast? = some b) (hopen : b.tf = none) (hoff : b.detOff ≠ 0)
    (h : addDelay ms c d = .ok c') :
    ∃ sl p, c'.slots = c.slots ++ [sl] ∧ sl.kind = .pulse p ∧ p.dd = true ∧ p.const = true ∧
      p.amp = 0 ∧ p.det = b.detOff ∧ p.phase = fmtPhase c.lastPulsePhase := by
  unfold addDelay at h
  cases hl : c.last with
  | error e => simp [hl, bind, Except.bind] at h
  | ok last =>
    cases hv : validateDuration c.cfg d with
    | error e => simp [hl, hv, bind, Except.bind] at h
    | ok d' =>
      cases hc : checkDuration ms (last.tf + (d' : Int)) with
      | error e => simp [hl, hv, hc, bind, Except.bind] at h
      | ok u =>
        simp only [hl, hv, hc, bind, Except.bind, hb] at h
        have hcond : (b.tf.isNone && decide (b.detOff ≠ 0)) = true := by simp [hopen, hoff]
        rw [if_pos hcond] at h
        cases hm : mkDetunedDelay c d' b.detOff c.lastPulsePhase with
        | error e => rw [hm] at h; cases h
        | ok p =>
          rw [hm] at h; injection h with h; subst h
          refine ⟨_, p, rfl, rfl, ?_⟩
          unfold mkDetunedDelay at hm
          split at hm
          · cases hm
          · injection hm with hm; subst hm; exact ⟨rfl, rfl, rfl, rfl, rfl⟩

/-- Validation keeps the constant-pulse description of a pulse. -/
theorem validate_keeps_setpoint (c : ChanState) (p : PulseIn) (ref : Option Rat) (pr : PulseRec)
    (h : validateAndAdjust c p ref = .ok pr) :
    pr.const = p.const ∧ pr.amp = p.amp ∧ pr.det = p.det ∧ pr.dd = p.dd := by
  unfold validateAndAdjust at h
  split at h
  · cases h
  · split at h
    · cases h
    · split at h
      · cases h
      · split at h
        · cases h
        · injection h with h; subst h; exact ⟨rfl, rfl, rfl, rfl⟩

/-- **Every EOM pulse is square with exactly the block's setpoint**: the pulse that
`add_eom_pulse` hands to the scheduler is the constant pulse `(amp_on, detuning_on)` of the
current (latest) EOM block, and validation keeps those values. -/
theorem eom_pulse_setpoint (c : ChanState) (b : EomBlock) (p : PulseIn) (ref : Option Rat)
    (pr : PulseRec) (hp : p.const = true ∧ p.amp = b.amp ∧ p.det = b.detOn)
    (h : validateAndAdjust c p ref = .ok pr) :
    pr.const = true ∧ pr.amp = b.amp ∧ pr.det = b.detOn := by
  obtain ⟨h1, h2, h3, _⟩ := validate_keeps_setpoint c p ref pr h
  exact ⟨h1.trans hp.1, h2.trans hp.2.1, h3.trans hp.2.2⟩

/-- **Enabling**: the new EOM block starts at the channel's end *after* the fall wait and
the buffer, carries the requested setpoint and the chosen off-detuning, and is open. -/
theorem enable_opens_block {ms : Option Nat} {c : ChanState} {amp detOn detOff : Rat} {sb sw : Bool}
    (h : (enableEom ms c amp detOn detOff sb sw).err = none) :
    ∃ last, (enableEom ms c amp detOn detOff sb sw).c.last = .ok last ∧
      (enableEom ms c amp detOn detOff sb sw).c.eom.getLast? =
        some ⟨last.tf, none, amp, detOn, detOff⟩ := by
  unfold enableEom at h ⊢
  simp only at h ⊢
  generalize (if (!sb && decide (c.getDuration false ≠ 0)) = true then _ else _ : CRes) = r at h ⊢
  unfold CRes.bind at h ⊢
  cases hr : r.err with
  | some e => simp [hr] at h
  | none =>
    simp only [hr] at h ⊢
    unfold CRes.lift at h ⊢
    cases hl : r.c.last with
    | error e => simp [hl, bind, Except.bind] at h
    | ok last =>
      simp only [hl, bind, Except.bind]
      refine ⟨last, ?_, by simp⟩
      unfold ChanState.last at hl ⊢
      exact hl

/-- **Disabling** closes the latest block at the channel's end at that moment. -/
theorem closeLastBlock_spec (l : List EomBlock) (b : EomBlock) (tf : Int) (h : l.getLast? = some b) :
    (closeLastBlock l tf).getLast? = some { b with tf := some tf } ∧
    (closeLastBlock l tf).length = l.length := by
  unfold closeLastBlock
  rw [List.getLast?_eq_head?_reverse] at h
  cases hr : l.reverse with
  | nil => rw [hr] at h; cases h
  | cons x rest =>
    rw [hr] at h; injection h with h; subst h
    have hl : l.length = rest.length + 1 := by
      have := congrArg List.length hr; simpa using this
    simp [hl]

/-- **While a channel is in EOM mode every pulse on it is square with exactly the block's
setpoint, and the idle pulses sit at the block's off-detuning — in every reachable state.**
For every EOM block `b` of every channel (open or closed, the latest setpoint or an earlier
one) and every pulse `p` that starts inside `[b.ti, b.tf)`: both waveforms are constant and
`(amp, det)` is `(b.amp, b.detOn)` or `(0, b.detOff)`.  Whatever the history: failing calls,
oracle answers, setpoint modifications, buffers and retargets included. -/
theorem eom_pulses_square (dev : Device) (nQ : Nat) (hd : DevOk dev) (hde : DevOkE dev)
    (s : SeqState) (hr : C02.Reach dev nQ s) :
    ∀ c ∈ s.chans, ∀ b ∈ c.eom, ∀ sl ∈ c.slots, ∀ p, sl.kind = .pulse p →
      b.ti ≤ sl.ti → (∀ t, b.tf = some t → sl.ti < t) →
      p.const = true ∧ ((p.amp = b.amp ∧ p.det = b.detOn) ∨ (p.amp = 0 ∧ p.det = b.detOff)) := by
  obtain ⟨evs, rfl⟩ := hr
  have h0 : SeqInv (SeqState.init dev nQ) := by intro c hc; simp [SeqState.init] at hc
  have he0 : ∀ c ∈ (SeqState.init dev nQ).chans, EIc c := by intro c hc; simp [SeqState.init] at hc
  intro c hc b hb sl hsl p hp h1 h2
  exact (runEv_EI (s := SeqState.init dev nQ) hd hde h0 he0 evs c hc).sq sl hsl p hp b hb ⟨h1, h2⟩

/-- **EOM blocks are well formed in every reachable state**: a closed block ended at or before
the channel's current end, only the latest block can be open (so "in EOM mode" means exactly
"the latest block is open"), and a channel without an EOM — a DMM in particular — never has
a block. -/
theorem eom_blocks_wellformed (dev : Device) (nQ : Nat) (hd : DevOk dev) (hde : DevOkE dev)
    (s : SeqState) (hr : C02.Reach dev nQ s) :
    ∀ c ∈ s.chans,
      (∀ b ∈ c.eom, ∀ t, b.tf = some t → t ≤ c.getDuration false) ∧
      (∀ b ∈ c.eom.dropLast, b.tf ≠ none) ∧
      (c.cfg.eom = none → c.eom = []) ∧ (c.cfg.isDmm = true → c.eom = []) := by
  obtain ⟨evs, rfl⟩ := hr
  have h0 : SeqInv (SeqState.init dev nQ) := by intro c hc; simp [SeqState.init] at hc
  have he0 : ∀ c ∈ (SeqState.init dev nQ).chans, EIc c := by intro c hc; simp [SeqState.init] at hc
  intro c hc
  have h := runEv_EI (s := SeqState.init dev nQ) hd hde h0 he0 evs c hc
  exact ⟨h.closed, h.onlyLast, h.noCfg, fun hd => h.noCfg (h.dmm hd)⟩

/-- **The drift corrected when EOM mode is enabled is the one accumulated over the buffer**: the
phase shift applied by `enable_eom_mode(correct_phase_drift=True)` is `detuning_off` times the length
of the buffer instruction (in µs) — nothing is counted for the wait that precedes the buffer
(repair of F40: the drift used to start at the end of the previous pulse's fall time, i.e.
before the adjusted wait had elapsed). -/
theorem enable_drift_over_buffer (detOff : Rat) (buf : Slot) (h : 0 ≤ buf.ti) :
    -(({ rate := -detOff, ti := max buf.ti 0 } : Drift).calc buf.tf) =
      detOff * ((buf.tf : Rat) - (buf.ti : Rat)) / 1000 := by
  have hm : max buf.ti 0 = buf.ti := Int.max_eq_left h
  unfold Drift.calc
  simp only [hm]
  ring

/-! ### Non-vacuity -/

example : closestIdx [3, -1, 5/2, 1] 2 = some 2 := by decide +kernel
example : closestIdx [1, 3] 2 = some 0 := by decide +kernel   -- first on ties

def cfgE : ChanCfg :=
  { clock := 4, minDur := 16, rise := 40, pjt := 80,
    eom := some { rise := 20, bufferTime := 80, customBuffer := false } }
def exDev : Device := { chans := [cfgE], dmms := [], reusable := false, maxSeqDur := none }
def eIn : EomIn := { amp := 2, detOn := 1, optimal := -3, opts := [0, -5/2], offSums := [{}, {}] }

/-- enable on a non-empty channel (fall wait + buffer), an EOM pulse, a detuned idle period -/
def exS : SeqState :=
  let s0 := run (SeqState.init exDev 1)
    [.declare (.user 0) 0 none, .add { dur := 100, fallStd := 60, ref := 1 } (.user 0) (some .minDelay)]
  let s1 := { s0 with chans := s0.chans.map fun c =>
    { c with ddOracle := [((-5/2, 80), (0, 30)), ((-5/2, 52), (0, 30))] } }
  run s1 [.enableEom (.user 0) eIn, .addEom (.user 0) 100 0 0 (some .minDelay) false 0 30 2,
          .delay 52 (.user 0) false]

example : (exS.chans.map fun c => (c.slots.map fun s => (s.ti, s.tf, s.isPulse), c.eom.map (·.detOff))) =
    [([(-1, 0, false), (0, 100, true), (100, 160, false), (160, 240, true), (240, 340, true),
       (340, 392, true)], [-5/2])] := by decide +kernel

def exEvs : List Ev :=
  [.call (.declare (.user 0) 0 none),
   .call (.add { dur := 100, fallStd := 60, ref := 1 } (.user 0) (some .minDelay)),
   .oracle (.user 0) (-5/2) 80 0 30, .oracle (.user 0) (-5/2) 52 0 30,
   .call (.enableEom (.user 0) eIn),
   .call (.addEom (.user 0) 100 0 0 (some .minDelay) false 0 30 2),
   .call (.delay 52 (.user 0) false)]

/-- The hypotheses of `eom_pulses_square` are met: the device satisfies `DevOk` and `DevOkE`, the
state is reachable (with two oracle answers arriving as events), it has an open block starting
at 240, and the pulses at 240 (EOM pulse) and 340 (idle pulse at the off-detuning) start inside it. -/
example : DevOk exDev ∧ DevOkE exDev ∧
    C02.Reach exDev 1 (runEv (SeqState.init exDev 1) exEvs) ∧
    ((runEv (SeqState.init exDev 1) exEvs).chans.map fun c =>
        c.eom.map fun b => (b.ti, b.tf, b.amp, b.detOn, b.detOff)) =
      ([[(240, none, 2, 1, -5/2)]] : List (List (Int × Option Int × Rat × Rat × Rat))) ∧
    ((runEv (SeqState.init exDev 1) exEvs).chans.map fun c =>
        (c.slots.filterMap fun sl => sl.pulse?.map fun p => (sl.ti, p.const, p.amp, p.det))) =
      ([[(0, false, 0, 0), (160, true, 0, -5/2), (240, true, 2, 1), (340, true, 0, -5/2)]] :
        List (List (Int × Bool × Rat × Rat))) :=
  ⟨by unfold DevOk; decide, by unfold DevOkE; decide, ⟨exEvs, rfl⟩, by decide +kernel, by decide +kernel⟩

end C15
end Pulser
