/-
  C10 — Phase-jump time and retarget intervals are honoured.

  Stated on the scheduler model (PulserModel/Schedule.lean).  In EOM mode the wait is at least
  twice the larger of the channel's and the EOM's rise times (after the repair of F17: the code
  used the channel's only, which is too short when the EOM is the slower modulator).
-/
import Proofs.Protocol
import Proofs.SeqInv
import Proofs.ConflictSeq
import Proofs.AddSpec
import Properties.C02
import Properties.C07
namespace Pulser
namespace C10

/-- **Phase-jump gap.**  Unless added with 'no-delay', a pulse whose phase differs from the
phase of the previous (non detuned-delay) pulse `lp` of the channel starts at least
`max(phase_jump_time, 2·max(rise_time, EOM rise_time)·[EOM mode]) + fall_time(lp)` after `lp` ended. -/
theorem phase_jump_gap {ms : Option Nat} {c : ChanState} {others : List ChanState}
    {p : PulseRec} {barriers : List Int} {proto : Protocol} {drift : Option Drift} {blk : Bool}
    {slot last ls : Slot} {lp : PulseRec}
    (hc : 0 < c.cfg.clock) (hl : c.last = .ok last)
    (h : makeNextPulseSlot ms c others p barriers proto drift blk = .ok slot)
    (hproto : proto ≠ .noDelay) (hlp : c.lastPulseSlot true = some (ls, lp))
    (hph : lp.phase ≠ fmtPhase (correctedPhase p drift (curMaxOf others last barriers proto))) :
    ls.tf + ((max c.cfg.pjt (if c.inEomMode then 2 * max c.cfg.rise c.modeRise else 0) : Nat) : Int)
      + (lp.fall c.inEomMode : Nat) ≤ slot.ti := by
  obtain ⟨delay, p', h1, _, _, _, _, _, _, hneed⟩ := makeNextPulseSlot_spec hc hl h
  have hb : phaseJumpBuffer c last.tf
      (fmtPhase (correctedPhase p drift (curMaxOf others last barriers proto))) proto =
      ((max c.cfg.pjt (if c.inEomMode then 2 * max c.cfg.rise c.modeRise else 0) : Nat) : Int)
        + (lp.fall c.inEomMode : Nat) - (last.tf - ls.tf) := by
    unfold phaseJumpBuffer
    rw [if_pos hproto, hlp]
    simp only
    rw [if_pos hph]
  have := hneed.2.2
  have hm := Int.le_max_right (curMaxOf others last barriers proto - last.tf)
    (phaseJumpBuffer c last.tf
      (fmtPhase (correctedPhase p drift (curMaxOf others last barriers proto))) proto)
  omega

/-- **Phase-jump gap at the level of the API call.**  When `seq.add(pulse, channel, protocol)`
succeeds with 'min-delay' or 'wait-for-all' and the pulse as scheduled has a phase different from
the channel's previous (non detuned-delay) pulse `lp`, the appended pulse starts at least
`max(phase_jump_time, 2·max(rise_time, EOM rise_time)·[EOM mode]) + fall_time(lp)` after `lp` ended. -/
theorem add_phase_jump_gap (s : SeqState) (hi : SeqInv s) (p : PulseIn) (n : ChName)
    (proto : Protocol) (hproto : proto ≠ .noDelay)
    (hok : (addCore s p n (some proto) none).err = none) :
    ∃ (c c' : ChanState) (slot : Slot) (pr : PulseRec),
      s.getChan n = some c ∧ (addCore s p n (some proto) none).st.getChan n = some c' ∧
      c'.last = .ok slot ∧ slot.kind = .pulse pr ∧
      ∀ ls lp, c.lastPulseSlot true = some (ls, lp) → lp.phase ≠ pr.phase →
        ls.tf + ((max c.cfg.pjt (if c.inEomMode then 2 * max c.cfg.rise c.modeRise else 0) : Nat) : Int)
          + (lp.fall c.inEomMode : Nat) ≤ slot.ti := by
  obtain ⟨c, c', last, slot, pr0, ref, hgc, hl, _, hpr, hm, hget, hl'⟩ := addCore_ok_spec hi hok
  have hci := hi c (getChan_mem hgc).1
  obtain ⟨p', hk, hph, _⟩ := C07.scheduled_phase (makeNext_blk_indep hm)
  refine ⟨c, c', slot, p', hgc, hget, hl', hk, ?_⟩
  intro ls lp hlp hne
  apply phase_jump_gap hci.1 hl hm hproto hlp
  -- the phase compared by the scheduler is the (already reduced) phase of the pulse
  have hred : fmtPhase pr0.phase = pr0.phase := by
    unfold validateAndAdjust at hpr
    split at hpr
    · cases hpr
    · split at hpr
      · cases hpr
      · split at hpr
        · cases hpr
        · split at hpr
          · cases hpr
          · injection hpr with hpr; subst hpr; exact fmtPhase_idem _
  show lp.phase ≠ fmtPhase (correctedPhase pr0 none _)
  unfold correctedPhase
  rw [hred, ← hph]; exact hne

/-- **Retargeting to the same atoms inserts nothing** (after the repair of F4). -/
theorem same_target_noop (ms : Option Nat) (c : ChanState) (qs : List Nat)
    (hne : c.slots.isEmpty = false) (hs : sameTargets c qs = true) :
    addTarget ms c qs = (⟨c, none⟩ : CRes) := by
  unfold addTarget
  rw [hne, hs]
  simp

theorem lastTarget_le {ms : Option Nat} {c : ChanState} {last : Slot} (hi : ChanInv ms c)
    (hl : c.last = .ok last) : c.lastTarget ≤ last.tf := by
  obtain ⟨rest, hr⟩ := last_ok hl
  have hinv := hi.2; rw [hr] at hinv
  have hd := InvR_DescTf hinv
  have h0 := (InvR_head hinv).2
  unfold ChanState.lastTarget
  rw [hr]
  cases hf : (last :: rest).find? Slot.isTarget with
  | none => exact h0
  | some s =>
    have hm := List.mem_of_find?_eq_some hf
    rcases List.mem_cons.mp hm with h | h
    · subst h; exact Int.le_refl _
    · exact DescTf_le hd s h

/-- What a real retarget appends, given the state `c` *after* the fall-time wait:
the new target instruction starts at the channel end, lasts at least `fixed_retarget_t`
(and at least the minimum duration when it is not empty), and ends at least
`min_retarget_interval` after the end of the previous target instruction. -/
theorem retarget_spec {ms : Option Nat} {c c' : ChanState} {qs : List Nat} {last : Slot}
    (hi : ChanInv ms c) (hl : c.last = .ok last)
    (h : (match (if retargetDelta c last.tf ≠ 0 then c.adjust (retargetDelta c last.tf).toNat else .ok 0) with
          | .error e => (.error e : Except Err ChanState)
          | .ok delta =>
            match checkDuration ms (last.tf + (delta : Int)) with
            | .error e => .error e
            | .ok _ => .ok { c with slots := c.slots ++ [(⟨.target, last.tf, last.tf + (delta : Int), qs⟩ : Slot)] })
          = .ok c') :
    ∃ delta : Nat, c'.slots = c.slots ++ [⟨.target, last.tf, last.tf + (delta : Int), qs⟩] ∧
      c.cfg.fixedRetarget ≤ delta ∧ (delta = 0 ∨ c.cfg.minDur ≤ delta) ∧
      (c.cfg.minRetarget : Int) ≤ last.tf + delta - c.lastTarget := by
  have hlt := lastTarget_le hi hl
  split at h
  · cases h
  · rename_i delta hd
    split at h
    · cases h
    · injection h with h; subst h
      refine ⟨delta, rfl, ?_⟩
      have hrd : retargetDelta c last.tf =
          (if c.cfg.fixedRetarget ≠ 0 then
            max (min (max ((c.cfg.minRetarget : Int) - (last.tf - c.lastTarget)) 0) c.cfg.minRetarget)
              (c.cfg.fixedRetarget : Int)
           else min (max ((c.cfg.minRetarget : Int) - (last.tf - c.lastTarget)) 0) c.cfg.minRetarget) := rfl
      by_cases hz : retargetDelta c last.tf ≠ 0
      · rw [if_pos hz] at hd
        have ha := adjustDuration_ok hi.1 hd
        refine ⟨?_, .inr ha.1, ?_⟩
        · have := ha.2.1
          split at hrd <;> omega
        · have := ha.2.1
          split at hrd <;> omega
      · rw [if_neg hz] at hd
        injection hd with hd
        subst hd
        have hz' : retargetDelta c last.tf = 0 := by omega
        refine ⟨?_, .inl rfl, ?_⟩
        · split at hrd <;> omega
        · split at hrd <;> omega

/-- **A retarget begins only after the previous pulse has fully ramped down**: the fall wait
that precedes it brings the channel end to at least `get_duration(include_fall_time)`. -/
theorem retarget_after_fall {ms : Option Nat} {c c1 : ChanState} {l1 : Slot} (hc : 0 < c.cfg.clock)
    (h : waitForFall ms c = .ok c1) (hl1 : c1.last = .ok l1) (hne : c.slots ≠ []) :
    c.getDuration true ≤ l1.tf := by
  unfold waitForFall at h
  simp only at h
  have hlast : ∃ last, c.last = .ok last := by
    unfold ChanState.last
    cases hg : c.slots.getLast? with
    | none => simp at hg; exact absurd hg hne
    | some x => exact ⟨x, rfl⟩
  obtain ⟨last, hl⟩ := hlast
  have hd0 : c.getDuration false = last.tf := by
    obtain ⟨rest, hr⟩ := last_ok hl
    unfold ChanState.getDuration; rw [hr]; rfl
  split at h
  · rename_i hpos
    cases ha : c.adjust (c.getDuration true - c.getDuration false).toNat with
    | error e => simp [ha, bind, Except.bind] at h
    | ok d =>
      simp only [ha, bind, Except.bind] at h
      obtain ⟨x, d', e1, _, e3, _, e5, _, _⟩ := addDelay_last hc hl h
      have hx : c1.last = .ok x := last_snoc c1 _ x e1
      rw [hx] at hl1; injection hl1 with hl1; subst hl1
      have := adjustDuration_ok hc ha
      omega
  · rename_i hpos
    injection h with h; subst h
    rw [hl] at hl1; injection hl1 with hl1; subst hl1
    omega

/-- **The retarget rule holds in every reachable state**, whatever the history (failing calls
and oracle answers included): every target instruction `t` of a channel other than its initial
one — `pre` are the instructions before it — lasts at least `fixed_retarget_t`, and its end is
at least `min_retarget_interval` after the end of the target instruction before it. -/
theorem retarget_rule (dev : Device) (nQ : Nat) (hd : DevOk dev) (s : SeqState)
    (hr : C02.Reach dev nQ s) {c : ChanState} (hc : c ∈ s.chans) (pre post : List Slot) (t : Slot)
    (hs : c.slots = pre ++ t :: post) (ht : t.isTarget = true) (hpre : pre ≠ []) :
    (c.cfg.fixedRetarget : Int) ≤ t.tf - t.ti ∧
    (c.cfg.minRetarget : Int) ≤ t.tf - lastTargetOf pre.reverse := by
  obtain ⟨evs, rfl⟩ := hr
  have h0 : SeqInv (SeqState.init dev nQ) := by intro c hc; simp [SeqState.init] at hc
  have hr0 : RTAll (SeqState.init dev nQ) := by intro c hc; simp [SeqState.init] at hc
  have hrt := runEv_RT (s := SeqState.init dev nQ) hd h0 hr0 evs c hc
  unfold RTc at hrt
  rw [hs, List.reverse_append, List.reverse_cons, List.append_assoc] at hrt
  have := RT_suffix _ _ _ hrt
  exact this.1 (by simpa using hpre) ht

/-- **Every retarget begins only after the previous pulse has fully ramped down — in every
reachable state**: for a target instruction `t` and the most recent pulse `q` before it,
`q.tf + fall_time(q) ≤ t.ti` (standard-mode fall time: retargets happen outside EOM mode),
given hypothesis A1 on the oracle fall times (`FallsOk`: `fallStd ≤ 2·rise_time`). -/
theorem retarget_waits_for_fall (dev : Device) (nQ : Nat) (hd : DevOk dev) (s : SeqState)
    (hr : C02.Reach dev nQ s) (hf : FallsOk s) {c : ChanState} (hc : c ∈ s.chans)
    (pre post : List Slot) (t q : Slot) (pq : PulseRec)
    (hs : c.slots = pre ++ t :: post) (ht : t.isTarget = true)
    (hq : firstPulse pre.reverse = some (q, pq)) :
    q.tf + (pq.fallStd : Nat) ≤ t.ti := by
  obtain ⟨evs, rfl⟩ := hr
  have h0 : SeqInv (SeqState.init dev nQ) := by intro c hc; simp [SeqState.init] at hc
  have hl0 : LPCAll (SeqState.init dev nQ) := by intro c hc; simp [SeqState.init] at hc
  have hl := runEv_LPC (s := SeqState.init dev nQ) hd h0 hl0 evs hf c hc
  unfold LPCc at hl
  rw [hs, List.reverse_append, List.reverse_cons, List.append_assoc] at hl
  have := LPC_suffix _ _ hl
  exact this.1 ht q pq hq

/-! ### Non-vacuity -/

def cfgL : ChanCfg :=
  { clock := 4, minDur := 16, rise := 120, pjt := 240, isLocal := true, minRetarget := 220,
    fixedRetarget := 100, basis := .digital }
def exDev : Device := { chans := [cfgL], dmms := [], reusable := false, maxSeqDur := none }

def exS : SeqState :=
  run (SeqState.init exDev 3)
    [.declare (.user 0) 0 (some [0]),
     .add { dur := 100, fallStd := 200, ref := 1 } (.user 0) (some .minDelay),
     .target [0] (.user 0),        -- same atoms: nothing inserted
     .target [1] (.user 0),        -- waits for the fall (200), then retargets (>= 100, >= 220 after -0)
     .add { dur := 52, phase := 1, ref := 2 } (.user 0) (some .minDelay)]

example : (exS.chans.map (·.slots.map fun s => (s.ti, s.tf))) =
    [[(-1, 0), (0, 100), (100, 300), (300, 400), (400, 540), (540, 592)]] := by decide +kernel

/-- `retarget_rule` and `retarget_waits_for_fall` apply to the retarget at (300, 400): it lasts
100 ≥ fixed_retarget_t = 100, ends 400 ≥ 220 after the initial target's end (0), and starts at
300 = 100 + 200, the end of the pulse plus its fall time. -/
example : C02.Reach exDev 3 exS ∧
    (exS.chans.head?.map fun c => (c.slots.drop 3).head?.map fun t => (t.isTarget, t.ti, t.tf)) =
      some (some (true, 300, 400)) ∧
    (exS.chans.head?.map fun c => (firstPulse (c.slots.take 3).reverse).map fun x => (x.1.tf, x.2.fallStd)) =
      some (some (100, 200)) :=
  ⟨C02.Reach.of_run exDev 3 _, by decide +kernel, by decide +kernel⟩

end C10
end Pulser
