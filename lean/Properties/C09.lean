/-
  C09 — A sequence is exactly the effect of its successful calls.

  `stepRaw` (PulserModel/Sequence.lean) follows the Python statement order and returns the
  state *as the object is left* when a call raises, so atomicity is a statement about the
  model that can fail — and did, for the (operation, error) pairs that were the known findings
  F2.1–F2.19 until they were repaired in /repo (validation before mutation, the declaration
  undone, the scheduler restored when a compound operation is refused halfway); the
  `…_not_atomic_old` witnesses below show what the unwrapped steps leave behind.
-/
import Proofs.Atomic
import Proofs.AtomicDelay
import Proofs.SeqInv
import Proofs.ReplayLog
import Proofs.TargetsInv
import Proofs.BasesInv
import Properties.C02
namespace Pulser
namespace C09

def isQuery : Op → Bool
  | .getDuration .. | .estimate .. | .phaseRef .. => true
  | _ => false

/-- **Read-only operations never change the sequence** (duration and delay-estimate
queries, phase-reference look-ups), whether they return or raise. -/
theorem query_pure (s : SeqState) (op : Op) (h : isQuery op = true) : (stepRaw s op).st = s := by
  cases op <;> simp [isQuery] at h
  · simp only [stepRaw]; repeat' split
    all_goals rfl
  · simp only [stepRaw]
    repeat' split
    all_goals first | rfl | exact estimateCore_st _ _ _ _
  · simp only [stepRaw]; repeat' split
    all_goals rfl

/-- The (operation, error) pairs for which a refused call is proved to leave nothing behind: every
operation and every error, except `noBasis`/`unknownQubit` raised after a pulse was appended, which
no reachable state produces.  (Until the repairs of F2.x — validation before mutation for `delay`,
the declaration undone when its initial target is refused, the scheduler restored when a compound
operation is refused halfway — the complement was the list of known findings F2.1–F2.19.) -/
def early (op : Op) (e : Err) : Bool :=
  match op with
  | .add .. | .addDmm .. | .addEom .. => e != .noBasis && e != .unknownQubit
  | _ => true

theorem store_st_of_err {op : Op} {r : Raw} {e : Err} (h : (store op r).err = some e) :
    r.err = some e ∧ (store op r).st = r.st := by
  unfold store at h ⊢
  cases hr : r.err with
  | none => simp [hr] at h
  | some e1 => simp [hr] at h ⊢; exact h

theorem markNonEmpty_st_of_err {r : Raw} {e : Err} (h : (markNonEmpty r).err = some e) :
    r.err = some e ∧ (markNonEmpty r).st = r.st := by
  unfold markNonEmpty at h ⊢
  cases hr : r.err with
  | none => simp [hr] at h
  | some e1 => simp [hr] at h ⊢; exact h

/-- **A call that raises leaves the sequence exactly as it was** — for every operation and every
error (`early` only excludes `noBasis` / `unknownQubit` raised by an `add` after the pulse was
appended, which no reachable state produces): `declare_channel` with or without initial target,
`config_detuning_map`, `target`, `add` / `add_eom_pulse` / `add_dmm_detuning`, `delay`, `align`,
`enable_eom_mode`, `modify_eom_setpoint`, `disable_eom_mode`, `phase_shift`, `measure`, and the
queries.  (Before the repairs of F2.x this held only for the errors raised before the first
mutation; the unwrapped steps below show what was left behind.) -/
theorem failed_call_atomic (s : SeqState) (op : Op) (e : Err)
    (h : (stepRaw s op).err = some e) (he : early op e = true) : (stepRaw s op).st = s := by
  cases op with
  | declare name chId init =>
    cases init with
    | some qs =>
      simp only [stepRaw] at h ⊢
      by_cases g0 : s.measured.isSome = true
      · rw [if_pos g0]; rfl
      · rw [if_neg g0] at h ⊢
        cases name with
        | dmm i k => rfl
        | user u =>
          simp only at h ⊢
          by_cases g1 : (s.getChan (ChName.user u)).isSome = true
          · rw [if_pos g1]; rfl
          · rw [if_neg g1] at h ⊢
            cases hc : s.dev.chans[chId]? with
            | none => rfl
            | some cfg =>
              simp only [hc] at h ⊢
              by_cases g2 : (!s.available false chId cfg) = true
              · rw [if_pos g2]
                repeat' split
                all_goals rfl
              · rw [if_neg g2] at h ⊢
                obtain ⟨h1, h2⟩ := store_st_of_err h
                rw [h2]
                by_cases hl : (!cfg.isLocal) = true
                · rw [if_pos hl] at h1; simp [done] at h1
                · rw [if_neg hl] at h1 ⊢
                  exact Raw.orRollback_st_of_err h1
    | none =>
      simp only [stepRaw] at h ⊢
      repeat' split
      all_goals first
        | rfl
        | (rename_i hh; simp_all [store, done])
  | configDetMap dmmId w1 w2 =>
    simp only [stepRaw] at h ⊢
    repeat' split
    all_goals first
      | rfl
      | (simp_all [store, done])
  | target qs n =>
    simp only [stepRaw] at h ⊢
    obtain ⟨h1, h2⟩ := store_st_of_err h
    rw [h2]
    exact Raw.orRollback_st_of_err h1
  | add p n proto =>
    simp only [stepRaw] at h ⊢
    obtain ⟨h1, h2⟩ := store_st_of_err h
    obtain ⟨h3, h4⟩ := markNonEmpty_st_of_err h1
    rw [h2, h4]
    simp only [early, Bool.and_eq_true, bne_iff_ne, ne_eq] at he
    by_cases g0 : s.measured.isSome = true
    · rw [if_pos g0]; rfl
    · rw [if_neg g0] at h3 ⊢
      cases hc : s.validateChannel n true with
      | error e1 => rfl
      | ok c =>
        simp only [hc] at h3 ⊢
        by_cases g1 : c.cfg.isDmm = true
        · rw [if_pos g1]; rfl
        · rw [if_neg g1] at h3 ⊢
          exact addCore_atomic h3 he.1 he.2
  | addDmm p n proto =>
    simp only [stepRaw] at h ⊢
    obtain ⟨h1, h2⟩ := store_st_of_err h
    obtain ⟨h3, h4⟩ := markNonEmpty_st_of_err h1
    rw [h2, h4]
    simp only [early, Bool.and_eq_true, bne_iff_ne, ne_eq] at he
    by_cases g0 : s.measured.isSome = true
    · rw [if_pos g0]; rfl
    · rw [if_neg g0] at h3 ⊢
      cases hc : s.validateChannel n false with
      | error e1 => rfl
      | ok c =>
        simp only [hc] at h3 ⊢
        by_cases g1 : (!c.cfg.isDmm) = true
        · rw [if_pos g1]; rfl
        · rw [if_neg g1] at h3 ⊢
          exact addCore_atomic h3 he.1 he.2
  | addEom n dur phase post proto corr fs fe ref =>
    simp only [stepRaw] at h ⊢
    obtain ⟨h1, h2⟩ := store_st_of_err h
    obtain ⟨h3, h4⟩ := markNonEmpty_st_of_err h1
    rw [h2, h4]
    simp only [early, Bool.and_eq_true, bne_iff_ne, ne_eq] at he
    by_cases g0 : s.measured.isSome = true
    · rw [if_pos g0]; rfl
    · rw [if_neg g0] at h3 ⊢
      cases hc : s.validateChannel n false with
      | error e1 => rfl
      | ok c =>
        simp only [hc] at h3 ⊢
        cases hb : c.eom.getLast? with
        | none => rfl
        | some b =>
          simp only [hb] at h3 ⊢
          by_cases g1 : b.tf.isSome = true
          · rw [if_pos g1]; rfl
          · rw [if_neg g1] at h3 ⊢
            exact addCore_atomic h3 he.1 he.2
  | phaseShift phi qs b =>
    simp only [stepRaw] at h ⊢
    obtain ⟨h1, h2⟩ := store_st_of_err h
    rw [h2]; exact (phaseShift_atomic h1).1
  | measure b =>
    simp only [stepRaw] at h ⊢
    obtain ⟨h1, h2⟩ := store_st_of_err h
    rw [h2]
    by_cases g0 : s.measured.isSome = true
    · rw [if_pos g0]; rfl
    · rw [if_neg g0] at h1 ⊢
      by_cases g1 : (!measBasisOk s b) = true
      · rw [if_pos g1]; rfl
      · rw [if_neg g1] at h1
        simp [done] at h1
  | delay d n atRest =>
    simp only [stepRaw] at h ⊢
    obtain ⟨h1, h2⟩ := store_st_of_err h
    rw [h2]
    exact Raw.orRollback_st_of_err h1
  | align chs atRest =>
    simp only [stepRaw] at h ⊢
    obtain ⟨h1, h2⟩ := store_st_of_err h
    rw [h2]
    exact Raw.orRollback_st_of_err h1
  | disableEom n corr =>
    simp only [stepRaw] at h ⊢
    obtain ⟨h1, h2⟩ := store_st_of_err h
    rw [h2]
    exact Raw.orRollback_st_of_err h1
  | enableEom n e' =>
    simp only [stepRaw] at h ⊢
    repeat' split
    all_goals first
      | rfl
      | (rename_i hh; simp_all [fail]; done)
      | (apply Raw.orRollback_st_of_err (e := e); simp_all)
  | modifyEom n e' =>
    simp only [stepRaw] at h ⊢
    repeat' split
    all_goals first
      | rfl
      | (rename_i hh; simp_all [fail]; done)
      | (apply Raw.orRollback_st_of_err (e := e); simp_all)
  | getDuration ch fall => exact (query_pure s (.getDuration ch fall) rfl)
  | estimate p n proto => exact (query_pure s (.estimate p n proto) rfl)
  | phaseRef q b => exact (query_pure s (.phaseRef q b) rfl)

/-! ### Reachable states: no exception at all -/

theorem phaseShift_ok {s : SeqState} {phi : Rat} {qs : List Nat} {b : Basis}
    (hb : (s.getRefs b).isSome = true) (hq : ∀ q ∈ qs, q < s.nQ) :
    (s.phaseShift phi qs b).err = none := by
  unfold SeqState.phaseShift
  have h1 : ¬ (s.getRefs b).isNone = true := by
    cases h : s.getRefs b with
    | none => rw [h] at hb; simp at hb
    | some l => simp
  rw [if_neg h1]
  simp only
  have h2 : ¬ ((if qs.isEmpty = true then s.allQubits else qs).any fun x => decide (x ≥ s.nQ)) = true := by
    intro h
    obtain ⟨q, hqm, hqge⟩ := List.any_eq_true.mp h
    have hge : q ≥ s.nQ := by simpa using hqge
    by_cases he : qs.isEmpty = true
    · rw [if_pos he] at hqm
      have := List.mem_range.mp (by simpa [SeqState.allQubits] using hqm)
      omega
    · rw [if_neg he] at hqm
      have := hq q hqm
      omega
  rw [if_neg h2]
  rfl

/-- `_add` on a state whose channel's basis is addressed and whose targets are atoms of the register:
whatever it raises, nothing has been changed. -/
theorem addCore_atomic_ok {s : SeqState} {p : PulseIn} {n : ChName} {proto : Option Protocol}
    {drift : Option Drift} {e : Err} (h : (addCore s p n proto drift).err = some e)
    (hbas : ∀ c, s.getChan n = some c → Keys.HasB c.cfg.basis s)
    (htg : ∀ c, s.getChan n = some c → TgtOk s.nQ c) : (addCore s p n proto drift).st = s := by
  unfold addCore at h ⊢
  cases proto with
  | none => rfl
  | some proto =>
    simp only at h ⊢
    cases hc : s.getChan n with
    | none => rfl
    | some c =>
      simp only [hc] at h ⊢
      cases hl : c.last with
      | error e1 => rfl
      | ok last =>
        simp only [hl] at h ⊢
        split
        · rfl
        · rename_i hph
          simp only [hph, if_false] at h
          generalize (if c.cfg.isDmm = true then none else
            (s.lastPhases c.cfg.basis last.targets).head?) = phaseRef at h ⊢
          cases hpr : validateAndAdjust c p phaseRef with
          | error e1 => rfl
          | ok pr =>
            simp only [hpr] at h ⊢
            cases hadd : addPulse s.dev.maxSeqDur c (s.others n) pr
                (s.lastTimes c.cfg.basis last.targets) proto drift with
            | error e1 => rfl
            | ok c' =>
              simp only [hadd] at h ⊢
              obtain ⟨sl, hsl⟩ := addPulse_last_ok hadd
              simp only [hsl] at h ⊢
              generalize totalShift pr.post drift sl.ti = total at h ⊢
              by_cases ht : total ≠ 0
              · rw [if_pos ht] at h
                -- the post-phase-shift cannot fail here
                exfalso
                have hb0 : Keys.HasB c.cfg.basis
                    ((s.setChan c').mapRefs c.cfg.basis last.targets (·.updateLastUsed sl.tf)) :=
                  Keys.mapRefs_hasB _ _ _ (by
                    have := hbas c hc
                    unfold Keys.HasB at this ⊢
                    exact this)
                have hm := mapRefs_chans (s.setChan c') c.cfg.basis last.targets (·.updateLastUsed sl.tf)
                have hok := phaseShift_ok (phi := total) (qs := last.targets) (b := c.cfg.basis)
                  ((Keys.hasB_iff _).mp hb0) (by
                    intro q hq
                    rw [hm.2.2]
                    exact htg c hc _ (last_tgts hl) q hq)
                simp only [Bool.false_eq_true, if_false] at h
                rw [hok] at h; cases h
              · rw [if_neg ht] at h
                simp only [done] at h; cases h

/-- **On every reachable sequence a call that raises leaves the sequence exactly as it was** — every
operation, every error, no exception: in a reachable state the basis of every declared channel has
its phase references and every instruction acts on atoms of the register (`BasesOk`, `TgtOk`:
Proofs/BasesInv.lean, Proofs/TargetsInv.lean), so the only errors `failed_call_atomic` leaves out
cannot be raised after the pulse was appended. -/
theorem failed_call_atomic_reachable (dev : Device) (nQ : Nat) (hd : DevOk dev) (s : SeqState)
    (hr : C02.Reach dev nQ s) (op : Op) (e : Err) (h : (stepRaw s op).err = some e) :
    (stepRaw s op).st = s := by
  obtain ⟨evs, rfl⟩ := hr
  have h0 : SeqInv (SeqState.init dev nQ) := by intro c hc; simp [SeqState.init] at hc
  have hb : BasesOk (runEv (SeqState.init dev nQ) evs) :=
    runEv_bases _ evs (by intro c hc; simp [SeqState.init] at hc)
  have ht : ∀ c ∈ (runEv (SeqState.init dev nQ) evs).chans, TgtOk nQ c :=
    runEv_TG (s := SeqState.init dev nQ) hd h0 rfl (by intro c hc; simp [SeqState.init] at hc) evs
  have hnq : (runEv (SeqState.init dev nQ) evs).nQ = nQ :=
    runEv_nQ (s := SeqState.init dev nQ) hd h0 evs
  generalize runEv (SeqState.init dev nQ) evs = s at *
  by_cases he : early op e = true
  · exact failed_call_atomic s op e h he
  · -- `add` family with `noBasis` / `unknownQubit`
    have hbas : ∀ n c, s.getChan n = some c → Keys.HasB c.cfg.basis s :=
      fun n c hc => hb c (getChan_mem hc).1
    have htg : ∀ n c, s.getChan n = some c → TgtOk s.nQ c :=
      fun n c hc => by rw [hnq]; exact ht c (getChan_mem hc).1
    cases op with
    | add p n proto =>
      simp only [stepRaw] at h ⊢
      obtain ⟨h1, h2⟩ := store_st_of_err h
      obtain ⟨h3, h4⟩ := markNonEmpty_st_of_err h1
      rw [h2, h4]
      by_cases g0 : s.measured.isSome = true
      · rw [if_pos g0]; rfl
      · rw [if_neg g0] at h3 ⊢
        cases hc : s.validateChannel n true with
        | error e1 => rfl
        | ok c =>
          simp only [hc] at h3 ⊢
          by_cases g1 : c.cfg.isDmm = true
          · rw [if_pos g1]; rfl
          · rw [if_neg g1] at h3 ⊢
            exact addCore_atomic_ok h3 (hbas n) (htg n)
    | addDmm p n proto =>
      simp only [stepRaw] at h ⊢
      obtain ⟨h1, h2⟩ := store_st_of_err h
      obtain ⟨h3, h4⟩ := markNonEmpty_st_of_err h1
      rw [h2, h4]
      by_cases g0 : s.measured.isSome = true
      · rw [if_pos g0]; rfl
      · rw [if_neg g0] at h3 ⊢
        cases hc : s.validateChannel n false with
        | error e1 => rfl
        | ok c =>
          simp only [hc] at h3 ⊢
          by_cases g1 : (!c.cfg.isDmm) = true
          · rw [if_pos g1]; rfl
          · rw [if_neg g1] at h3 ⊢
            exact addCore_atomic_ok h3 (hbas n) (htg n)
    | addEom n dur phase post proto corr fs fe ref =>
      simp only [stepRaw] at h ⊢
      obtain ⟨h1, h2⟩ := store_st_of_err h
      obtain ⟨h3, h4⟩ := markNonEmpty_st_of_err h1
      rw [h2, h4]
      by_cases g0 : s.measured.isSome = true
      · rw [if_pos g0]; rfl
      · rw [if_neg g0] at h3 ⊢
        cases hc : s.validateChannel n false with
        | error e1 => rfl
        | ok c =>
          simp only [hc] at h3 ⊢
          cases hbk : c.eom.getLast? with
          | none => rfl
          | some b =>
            simp only [hbk] at h3 ⊢
            by_cases g1 : b.tf.isSome = true
            · rw [if_pos g1]; rfl
            · rw [if_neg g1] at h3 ⊢
              exact addCore_atomic_ok h3 (hbas n) (htg n)
    | declare _ _ _ => simp [early] at he
    | configDetMap _ _ _ => simp [early] at he
    | target _ _ => simp [early] at he
    | delay _ _ _ => simp [early] at he
    | align _ _ => simp [early] at he
    | phaseShift _ _ _ => simp [early] at he
    | enableEom _ _ => simp [early] at he
    | modifyEom _ _ => simp [early] at he
    | disableEom _ _ => simp [early] at he
    | measure _ => simp [early] at he
    | getDuration _ _ => simp [early] at he
    | estimate _ _ _ => simp [early] at he
    | phaseRef _ _ => simp [early] at he

/-- Every call of the history succeeds (queries included). -/
def AllOk : SeqState → List Op → Prop
  | _, [] => True
  | s, op :: rest => (stepRaw s op).err = none ∧ NodupOpts op ∧ AllOk (stepRaw s op).st rest

/-- **The state of a sequence is reproducible from its record of successful calls.**
For every history of successful calls from a fresh sequence, replaying the recorded calls
(`_calls`: each building call as stored — `enable_eom_mode` / `modify_eom_setpoint` with the
off-detuning that was chosen; queries are not recorded) on a fresh sequence of the same device
and register yields exactly the same state.  This is what `build()` of a non-parametrized
sequence and `switch_register` to an identical register do.
(Histories containing a call that raises *non-atomically* — the known findings F2.x — are
outside this theorem: there the state is no function of the record; see the counterexamples.) -/
theorem replay_log (dev : Device) (nQ : Nat) (ops : List Op) (h : AllOk (SeqState.init dev nQ) ops) :
    run (SeqState.init dev nQ) (run (SeqState.init dev nQ) ops).calls = run (SeqState.init dev nQ) ops := by
  -- invariant: a state equals the replay of its own record on the fresh sequence
  have key : ∀ (ops : List Op) (s : SeqState), s.dev = dev → s.nQ = nQ →
      run (SeqState.init dev nQ) s.calls = s → AllOk s ops →
      run (SeqState.init dev nQ) (run s ops).calls = run s ops := by
    intro ops
    induction ops with
    | nil => intro s _ _ hs _; exact hs
    | cons op rest ih =>
      intro s hd hq hs hok
      obtain ⟨h1, h2, h3⟩ := hok
      have hrun : run s (op :: rest) = run (stepRaw s op).st rest := rfl
      rw [hrun]
      rcases step_record s op h1 h2 with ⟨_, hst⟩ | ⟨op', hc, hdev, hnq, hrep⟩
      · rw [hst] at h3 ⊢
        exact ih s hd hq hs h3
      · apply ih (stepRaw s op).st (hdev.trans hd) (hnq.trans hq) _ h3
        rw [hc, run_append, hs]
        show (stepRaw s op').st = (stepRaw s op).st
        rw [hrep]
  exact key ops (SeqState.init dev nQ) rfl rfl rfl h

/-- Every call of the history either succeeds or is refused with an error of the atomic class
(`early`): what a user does when a call raises — catch the exception and carry on. -/
def AllOkOrRefused : SeqState → List Op → Prop
  | _, [] => True
  | s, op :: rest =>
    (((stepRaw s op).err = none ∧ NodupOpts op) ∨ ∃ e, (stepRaw s op).err = some e ∧ early op e = true) ∧
      AllOkOrRefused (stepRaw s op).st rest

/-- **A sequence is exactly the effect of its successful calls** — also when calls were refused in
between: for every history in which each call either succeeds or raises an error of the atomic
class, the state equals the replay of the recorded (successful) calls on a fresh sequence.
(`replay_log` is the special case without refusals.) -/
theorem replay_log_with_refusals (dev : Device) (nQ : Nat) (ops : List Op)
    (h : AllOkOrRefused (SeqState.init dev nQ) ops) :
    run (SeqState.init dev nQ) (run (SeqState.init dev nQ) ops).calls = run (SeqState.init dev nQ) ops := by
  have key : ∀ (ops : List Op) (s : SeqState), s.dev = dev → s.nQ = nQ →
      run (SeqState.init dev nQ) s.calls = s → AllOkOrRefused s ops →
      run (SeqState.init dev nQ) (run s ops).calls = run s ops := by
    intro ops
    induction ops with
    | nil => intro s _ _ hs _; exact hs
    | cons op rest ih =>
      intro s hd hq hs hok
      obtain ⟨h12, h3⟩ := hok
      have hrun : run s (op :: rest) = run (stepRaw s op).st rest := rfl
      rw [hrun]
      rcases h12 with ⟨h1, h2⟩ | ⟨e, he, hearly⟩
      · rcases step_record s op h1 h2 with ⟨_, hst⟩ | ⟨op', hc, hdev, hnq, hrep⟩
        · rw [hst] at h3 ⊢
          exact ih s hd hq hs h3
        · apply ih (stepRaw s op).st (hdev.trans hd) (hnq.trans hq) _ h3
          rw [hc, run_append, hs]
          show (stepRaw s op').st = (stepRaw s op).st
          rw [hrep]
      · -- the refused call left nothing behind
        have hst := failed_call_atomic s op e he hearly
        rw [hst] at h3 ⊢
        exact ih s hd hq hs h3
  exact key ops (SeqState.init dev nQ) rfl rfl rfl h

/-- One more API call keeps a state reachable. -/
theorem reach_step {dev : Device} {nQ : Nat} {s : SeqState} (hr : C02.Reach dev nQ s) (op : Op) :
    C02.Reach dev nQ (stepRaw s op).st := by
  obtain ⟨evs, rfl⟩ := hr
  refine ⟨evs ++ [Ev.call op], ?_⟩
  unfold runEv
  rw [List.foldl_append]
  rfl

/-- **The state of a sequence is reproducible from its record of successful calls — for every history
of calls whatsoever**: whatever is called on a fresh sequence (any operations, any arguments, calls that
succeed and calls that are refused for any reason, in any order), the state equals the replay of the
recorded calls on a fresh sequence.  No hypothesis on the history is left except that the list of
allowed off-detunings handed to an EOM call has no duplicates (`NodupOpts`, a well-formedness condition
on the oracle data of the model, which the implementation's `detuning_off_options` meets). -/
theorem replay_log_total (dev : Device) (nQ : Nat) (hd : DevOk dev) (ops : List Op)
    (hn : ∀ op ∈ ops, NodupOpts op) :
    run (SeqState.init dev nQ) (run (SeqState.init dev nQ) ops).calls = run (SeqState.init dev nQ) ops := by
  have key : ∀ (ops : List Op) (s : SeqState), C02.Reach dev nQ s → s.dev = dev → s.nQ = nQ →
      run (SeqState.init dev nQ) s.calls = s → (∀ op ∈ ops, NodupOpts op) →
      run (SeqState.init dev nQ) (run s ops).calls = run s ops := by
    intro ops
    induction ops with
    | nil => intro s _ _ _ hs _; exact hs
    | cons op rest ih =>
      intro s hr hdv hq hs hno
      have hrun : run s (op :: rest) = run (stepRaw s op).st rest := rfl
      rw [hrun]
      have hno' : ∀ o ∈ rest, NodupOpts o := fun o ho => hno o (List.mem_cons_of_mem _ ho)
      have hr' := reach_step hr op
      cases herr : (stepRaw s op).err with
      | none =>
        rcases step_record s op herr (hno op List.mem_cons_self) with ⟨_, hst⟩ | ⟨op', hc, hdev, hnq, hrep⟩
        · rw [hst] at hr' ⊢
          exact ih s hr hdv hq hs hno'
        · apply ih (stepRaw s op).st hr' (hdev.trans hdv) (hnq.trans hq) _ hno'
          rw [hc, run_append, hs]
          show (stepRaw s op').st = (stepRaw s op).st
          rw [hrep]
      | some e =>
        have hst := failed_call_atomic_reachable dev nQ hd s hr op e herr
        rw [hst] at hr' ⊢
        exact ih s hr hdv hq hs hno'
  exact key ops (SeqState.init dev nQ) ⟨[], rfl⟩ rfl rfl rfl hn

/-! ### What the repairs of F2.x changed: the unwrapped steps were not atomic -/

def exCfg : ChanCfg := { clock := 4, minDur := 16, rise := 120, pjt := 240 }
def exDev : Device := { chans := [exCfg], dmms := [], reusable := false, maxSeqDur := none }

/-- a pulse with a 240 ns fall time has been added -/
def sPulse : SeqState :=
  run (SeqState.init exDev 1)
    [.declare (.user 0) 0 none, .add { dur := 100, fallStd := 240, ref := 1 } (.user 0) (some .minDelay)]

/-- F2.1, as it was: on the unchecked path (`_delay` without the duration pre-check)
`delay(3, at_rest=True)` raises (3 < min_duration) but the 240 ns fall-time wait stays. -/
theorem delay_at_rest_not_atomic_old :
    (delayCore sPulse 3 (.user 0) true).err = some .durTooShort ∧
    (delayCore sPulse 3 (.user 0) true).st ≠ sPulse := by decide +kernel

/-- ... and after the repair (the duration is validated before the fall wait is appended) the
refused call leaves the sequence as it was. -/
theorem delay_at_rest_atomic :
    (stepRaw sPulse (.delay 3 (.user 0) true)).err = some .durTooShort ∧
    (stepRaw sPulse (.delay 3 (.user 0) true)).st = sPulse := by decide +kernel

/-- F2.9, repaired: `declare_channel(initial_target=[])` raises and nothing stays declared (the
channel used to stay behind: the declaration is rolled back when the target is refused). -/
theorem declare_bad_target_atomic :
    let dev : Device := { chans := [{ exCfg with isLocal := true }], dmms := [], reusable := false,
                          maxSeqDur := none }
    (stepRaw (SeqState.init dev 2) (.declare (.user 0) 0 (some []))).err = some .emptyTargets ∧
    ((stepRaw (SeqState.init dev 2) (.declare (.user 0) 0 (some []))).st = SeqState.init dev 2) := by
  decide +kernel

/-- F2.3, as it was: `delay(d, at_rest=True)` refused because the *sequence* becomes too long kept
the wait for the fall time (the scheduler step without the restoring wrapper). -/
theorem delay_over_max_seq_not_atomic_old :
    let dev : Device := { exDev with maxSeqDur := some 400 }
    let s := run (SeqState.init dev 1)
      [.declare (.user 0) 0 none, .add { dur := 100, fallStd := 240, ref := 1 } (.user 0) (some .minDelay)]
    (delayChecked s 100 (.user 0) true).err = some .overMaxSeq ∧
    (delayChecked s 100 (.user 0) true).st ≠ s := by
  decide +kernel

/-- ... and repaired: the refused call leaves the sequence as it was. -/
theorem delay_over_max_seq_atomic :
    let dev : Device := { exDev with maxSeqDur := some 400 }
    let s := run (SeqState.init dev 1)
      [.declare (.user 0) 0 none, .add { dur := 100, fallStd := 240, ref := 1 } (.user 0) (some .minDelay)]
    (stepRaw s (.delay 100 (.user 0) true)).err = some .overMaxSeq ∧
    (stepRaw s (.delay 100 (.user 0) true)).st = s := by
  decide +kernel

/-! ### Non-vacuity -/
/-- the hypotheses of `failed_call_atomic_reachable` are met by the example device and a state reached
by two calls, on which a refused call exists (`delay_at_rest_atomic`) -/
example : DevOk exDev ∧ C02.Reach exDev 1 sPulse :=
  ⟨by constructor <;> intro c hc <;> simp [exDev, exCfg] at hc ⊢ <;> (try subst hc) <;> decide,
   C02.Reach.of_run _ _ _⟩

/-- a history with two refused calls in between (a delay below the minimum duration, a channel
declared on a bad initial target) meets the hypothesis of `replay_log_with_refusals` -/
example : AllOkOrRefused (SeqState.init exDev 1)
    [.declare (.user 0) 0 none, .add { dur := 100, fallStd := 240, ref := 1 } (.user 0) (some .minDelay),
     .delay 3 (.user 0) true, .delay 100 (.user 0) true] := by
  refine ⟨.inl ⟨by decide +kernel, trivial⟩, .inl ⟨by decide +kernel, trivial⟩,
    .inr ⟨.durTooShort, by decide +kernel, by decide⟩, .inl ⟨by decide +kernel, trivial⟩, trivial⟩

example : AllOk (SeqState.init exDev 1)
    [.declare (.user 0) 0 none, .add { dur := 100, fallStd := 240, ref := 1 } (.user 0) (some .minDelay),
     .getDuration none true, .delay 100 (.user 0) true] := by
  refine ⟨by decide +kernel, trivial, by decide +kernel, trivial, by decide +kernel, trivial,
    by decide +kernel, trivial, trivial⟩

example : (stepRaw sPulse (.add { dur := 3, ref := 2 } (.user 0) (some .minDelay))).err
    = some .durTooShort := by decide +kernel
example : early (.add { dur := 3, ref := 2 } (.user 0) (some .minDelay)) .durTooShort = true := by
  decide

end C09
end Pulser
