/-
  C02 — Channel timelines are gap-free, non-overlapping and clock-aligned.

  Only property theorems (and their non-vacuity examples) live here; helper
  lemmas are in Proofs/Timeline.lean and Proofs/SeqInv.lean.

  Model: PulserModel/{Schedule,Sequence}.lean (mutation-order-faithful `stepRaw`).
  Reachability: any finite list of API calls applied to a fresh sequence; a call
  that raises leaves whatever the Python object would be left with, and the
  history goes on from there (`run`).
-/
import Proofs.SeqInv
import Proofs.TargetsInv
namespace Pulser
namespace C02

/-- States reachable from a fresh sequence by any finite history of API calls, with oracle
answers (fall times of scheduler-made detuned-delay pulses, any values) arriving at any time. -/
def Reach (dev : Device) (nQ : Nat) (s : SeqState) : Prop :=
  ∃ evs : List Ev, s = runEv (SeqState.init dev nQ) evs

/-- A plain call history (no oracle answer needed) is a history. -/
theorem Reach.of_run (dev : Device) (nQ : Nat) (ops : List Op) :
    Reach dev nQ (run (SeqState.init dev nQ) ops) :=
  ⟨ops.map Ev.call, (runEv_calls _ ops).symm⟩

/-- **Timeline invariant.**  In every reachable state, on every channel: the
first instruction is the initial target `(-1, 0)`; consecutive instructions
tile the time axis (`tiᵢ₊₁ = tfᵢ`, `ti ≤ tf`); every boundary is a multiple of
the clock period; a pulse occupies exactly its duration (which is at least the
minimum duration); a delay or a non-zero retarget lasts at least the minimum
duration; targets only change at target instructions. -/
theorem timeline_inv (dev : Device) (nQ : Nat) (hd : DevOk dev) (s : SeqState)
    (hr : Reach dev nQ s) : ∀ c ∈ s.chans, ChanInv dev.maxSeqDur c := by
  obtain ⟨ops, rfl⟩ := hr
  have h0 : SeqInv (SeqState.init dev nQ) := by
    intro c hc; simp [SeqState.init] at hc
  have h := runEv_SG (s := SeqState.init dev nQ) hd h0 ops
  intro c hc
  have := h.1 c hc
  rw [h.2.1] at this
  exact this

/-- The invariant in index form (forward order of the instruction list). -/
theorem timeline_tiles {ms : Option Nat} {c : ChanState} (h : ChanInv ms c) :
    (∀ (h0 : 0 < c.slots.length), InitSlot c.slots[0]) ∧
    ∀ (i : Nat) (hi : i + 1 < c.slots.length),
      SlotOk (c.ctx ms) (c.slots[i]'(by omega)) (c.slots[i + 1]) := by
  obtain ⟨_, hinv⟩ := h
  -- general statement on a reversed list
  have key : ∀ (r : List Slot), InvR (c.ctx ms) r →
      (∀ (h0 : 0 < r.length), InitSlot (r[r.length - 1]'(by omega))) ∧
      ∀ (j : Nat) (hj : j + 1 < r.length), SlotOk (c.ctx ms) (r[j + 1]) (r[j]'(by omega)) := by
    intro r
    induction r with
    | nil => intro _; exact ⟨fun h0 => absurd h0 (by simp), fun j hj => absurd hj (by simp)⟩
    | cons a rest ih =>
      intro hr
      cases rest with
      | nil => exact ⟨fun _ => hr, fun j hj => absurd hj (by simp)⟩
      | cons b rest' =>
        obtain ⟨h1, h2⟩ := hr
        obtain ⟨ih1, ih2⟩ := ih h2
        refine ⟨fun _ => ?_, fun j hj => ?_⟩
        · have := ih1 (by simp)
          simpa using this
        · cases j with
          | zero => simpa using h1
          | succ k =>
            have := ih2 k (by simpa using hj)
            simp only [List.getElem_cons_succ] at this ⊢
            exact this
  obtain ⟨k1, k2⟩ := key c.slots.reverse hinv
  refine ⟨fun h0 => ?_, fun i hi => ?_⟩
  · have := k1 (by simpa using h0)
    simpa [List.getElem_reverse] using this
  · have hlen : c.slots.reverse.length = c.slots.length := List.length_reverse
    have := k2 (c.slots.length - 2 - i) (by omega)
    simp only [List.getElem_reverse] at this
    have e1 : c.slots.length - 1 - (c.slots.length - 2 - i + 1) = i := by omega
    have e2 : c.slots.length - 1 - (c.slots.length - 2 - i) = i + 1 := by omega
    simpa [e1, e2] using this

/-- Every boundary is a non-negative multiple of the clock period. -/
theorem boundaries_clock_aligned {ms : Option Nat} {c : ChanState} (h : ChanInv ms c) :
    ∀ (i : Nat) (hi : i < c.slots.length), (c.cfg.clock : Int) ∣ c.slots[i].tf ∧ 0 ≤ c.slots[i].tf := by
  obtain ⟨t0, t1⟩ := timeline_tiles h
  intro i
  induction i with
  | zero =>
    intro hi
    obtain ⟨_, _, h3⟩ := t0 hi
    rw [h3]; exact ⟨Int.dvd_zero _, Int.le_refl _⟩
  | succ k ih =>
    intro hi
    obtain ⟨e1, e2, e3, _⟩ := t1 k hi
    have := (ih (by omega)).2
    exact ⟨e3, by omega⟩

/-- **Instruction times never move**: whatever a call does (including raising),
every channel keeps its position and name, and its previous instruction list is
a prefix of the new one. -/
theorem append_only (s : SeqState) (hd : DevOk s.dev) (hi : SeqInv s) (op : Op) :
    ∀ (i : Nat) (c : ChanState), s.chans[i]? = some c →
      ∃ c', (stepRaw s op).st.chans[i]? = some c' ∧ c'.name = c.name ∧ c.slots <+: c'.slots := by
  intro i c hc
  obtain ⟨c', h1, h2⟩ := (stepRaw_RG hd hi op).2.2.2 i c hc
  exact ⟨c', h1, h2.2.1, h2.2.2.1⟩

/-- The same over whole histories. -/
theorem append_only_run (s : SeqState) (hd : DevOk s.dev) (hi : SeqInv s) (ops : List Ev) :
    ∀ (i : Nat) (c : ChanState), s.chans[i]? = some c →
      ∃ c', (runEv s ops).chans[i]? = some c' ∧ c'.name = c.name ∧ c.slots <+: c'.slots := by
  intro i c hc
  obtain ⟨c', h1, h2⟩ := (runEv_SG hd hi ops).2.2.2 i c hc
  exact ⟨c', h1, h2.2.1, h2.2.2.1⟩

/-- The reported duration of a channel is the end of its last instruction. -/
theorem duration_eq_last_tf (c : ChanState) (last : Slot) (h : c.last = .ok last) :
    c.getDuration false = last.tf := by
  obtain ⟨rest, hr⟩ := last_ok h
  unfold ChanState.getDuration
  rw [hr]; rfl

/-- ... and the duration of an empty schedule is 0. -/
theorem duration_empty (c : ChanState) (h : c.slots = []) (f : Bool) : c.getDuration f = 0 := by
  unfold ChanState.getDuration; rw [h]; rfl

/-- The sequence duration is an upper bound of, and attained by, the channel durations. -/
theorem seq_duration_is_max (s : SeqState) (f : Bool) :
    (∀ c ∈ s.chans, c.getDuration f ≤ maxList 0 (s.chans.map (·.getDuration f))) ∧
    (maxList 0 (s.chans.map (·.getDuration f)) = 0 ∨
      ∃ c ∈ s.chans, c.getDuration f = maxList 0 (s.chans.map (·.getDuration f))) := by
  have key : ∀ (l : List Int) (x : Int), (x ≤ maxList x l) ∧ (∀ y ∈ l, y ≤ maxList x l) ∧
      (maxList x l = x ∨ maxList x l ∈ l) := by
    intro l
    induction l with
    | nil => intro x; exact ⟨Int.le_refl _, fun y hy => absurd hy (by simp), .inl rfl⟩
    | cons a rest ih =>
      intro x
      obtain ⟨h1, h2, h3⟩ := ih (max x a)
      have hm : maxList x (a :: rest) = maxList (max x a) rest := rfl
      rw [hm]
      refine ⟨by omega, ?_, ?_⟩
      · intro y hy
        rcases List.mem_cons.mp hy with hy | hy
        · subst hy; omega
        · exact h2 y hy
      · rcases h3 with h3 | h3
        · rw [h3]
          by_cases hxa : x ≤ a
          · right; rw [Int.max_eq_right hxa]; exact List.mem_cons_self
          · left; rw [Int.max_eq_left (by omega)]
        · right; exact List.mem_cons_of_mem _ h3
  obtain ⟨_, k2, k3⟩ := key (s.chans.map (·.getDuration f)) 0
  refine ⟨fun c hc => k2 _ (List.mem_map_of_mem hc), ?_⟩
  rcases k3 with k3 | k3
  · exact .inl k3
  · obtain ⟨c, hc, he⟩ := List.mem_map.mp k3
    exact .inr ⟨c, hc, he⟩

/-- **Every instruction acts on atoms of the register**, in every reachable state: target lists only
come from the register itself (global channels), from a validated `target` / initial target, or are
copied from the previous instruction of the channel. -/
theorem targets_in_register (dev : Device) (nQ : Nat) (hd : DevOk dev) (s : SeqState)
    (hr : Reach dev nQ s) : ∀ c ∈ s.chans, ∀ sl ∈ c.slots, ∀ q ∈ sl.targets, q < nQ := by
  obtain ⟨evs, rfl⟩ := hr
  have h0 : SeqInv (SeqState.init dev nQ) := by intro c hc; simp [SeqState.init] at hc
  have ht := runEv_TG (s := SeqState.init dev nQ) hd h0 rfl
    (by intro c hc; simp [SeqState.init] at hc) evs
  intro c hc sl hsl q hq
  exact ht c hc sl.targets (List.mem_map_of_mem hsl) q hq

/-! ### Non-vacuity: a concrete device and history meet the hypotheses -/

def exCfg : ChanCfg := { clock := 4, minDur := 16, rise := 120, pjt := 240, maxDur := some 1000 }
def exDev : Device := { chans := [exCfg], dmms := [], reusable := false, maxSeqDur := none }

example : DevOk exDev := by
  refine ⟨?_, ?_⟩ <;> intro c hc <;> simp [exDev, exCfg] at hc
  subst hc; decide

/-- A reachable state with a pulse, an automatically inserted phase-jump delay and a second pulse. -/
def exOps : List Op :=
  [ .declare (.user 0) 0 none,
    .add { dur := 101, fallStd := 200, sum := {} } (.user 0) (some .minDelay),
    .add { dur := 52, phase := 1, sum := {} } (.user 0) (some .minDelay) ]

example : ((run (SeqState.init exDev 2) exOps).chans.map (·.slots.map fun s => (s.ti, s.tf))) =
    [[(-1, 0), (0, 104), (104, 544), (544, 596)]] := by decide +kernel

end C02
end Pulser
