/-
  C05 — The emulated Hamiltonian equals the documented formula (PARTIAL).

  What is proved here, over an ideal scalar ring (any commutative ring `K` with an involutive
  conjugation; `Cx R`, pairs over a commutative ring `R`, is one): the index / sign / factor
  structure of `Hamiltonian._construct_hamiltonian` as modelled in
  `PulserModel/Hamiltonian.lean`:

  * `tensor_index`, `tensor_entries`   — register tensor order (Kronecker = digit-wise);
  * `H_code_eq_H_doc`                  — half-Hamiltonian + dagger = documented formula,
                                         every entry, any number of atoms / levels;
  * `H_code_hermitian`, `H_doc_hermitian`;
  * `vdw_entries`, `vdw_diagonal`, `xy_exchange_entries`, `xy_exchange_only_swaps`;
  * `eigenbasis_order`, `eigenbasis_nodup` — documented state ordering.

  What is NOT proved (validated numerically by harness/props/C05.py): that the float64 QuTiP
  matrix equals the formula (exp, 1/R^6, spline evaluation of the coefficients), that the model
  corresponds to the python code, and that the per-atom values are what the sequence programs.
  Helper lemmas: Proofs/Hamiltonian.lean.
-/
import Proofs.Hamiltonian

namespace Pulser
namespace Ham
namespace C05

variable {K : Type} [CommRing K]

/-! ### documented state ordering -/

/-- **State ordering.** `r,g` / `g,h` / `r,g,h` (qutrit) / `u,d`, whatever the order in which the
bases are listed; the default basis when nothing is addressed. -/
theorem eigenbasis_order :
    eigenbasisOf [.groundRydberg] false = [.r, .g]
    ∧ eigenbasisOf [.digital] false = [.g, .h]
    ∧ eigenbasisOf [.groundRydberg, .digital] false = [.r, .g, .h]
    ∧ eigenbasisOf [.digital, .groundRydberg] false = [.r, .g, .h]
    ∧ eigenbasisOf [.XY] true = [.u, .d]
    ∧ eigenbasisOf [] false = [.r, .g]
    ∧ eigenbasisOf [] true = [.u, .d] := by decide

/-- The levels of an eigenbasis are distinct. -/
theorem eigenbasis_nodup (used : List Basis) (inXY : Bool) : (eigenbasisOf used inXY).Nodup := by
  unfold eigenbasisOf
  exact List.Nodup.filter _ (by decide)

example : (eigenbasisOf [.digital, .groundRydberg] false).length = 3 := by decide

/-! ### register tensor order -/

/-- **Tensor order, general form.**  Between the configurations `s` and `t` (atom 0 most
significant) the entry of `qutip.tensor([F 0, …, F (n-1)])` is `Π_j (F j)[s j, t j]`: factor `j`
acts on atom `j`, no factor is swapped. -/
theorem tensor_entries (d n : Nat) (F : Nat → Mat K) (s t : Nat → Nat)
    (hs : ∀ j, j < n → s j < d) (ht : ∀ j, j < n → t j < d) :
    tensorN d n F (idxOf d n s) (idxOf d n t) = prodN n (fun j => F j (s j) (t j)) :=
  tensorN_idxOf d n F s t hs ht

/-- **`tensor_index`.**  The Kronecker-product definition of "operator `A` on atom `i`"
(`_build_operator`) equals the entry-wise definition: for basis states number `k, l < d^n`,
`A[digit_i k, digit_i l]` if all other digits agree, else `0`. -/
theorem tensor_index (d n i : Nat) (A : Mat K) (hd : 0 < d) (hi : i < n) (k l : Nat)
    (hk : k < d ^ n) (hl : l < d ^ n) :
    buildOp d n [(i, A)] k l = embedEntry d n i A k l := by
  have e := buildOp_one d n i A (fun j => digit d n j k) (fun j => digit d n j l) hi
    (fun j _ => digit_lt d n j k hd) (fun j _ => digit_lt d n j l hd)
  rw [idxOf_digit d n k hd hk, idxOf_digit d n l hd hl] at e
  rw [e]
  unfold embedEntry agreeOff
  by_cases h : ∀ j, j < n → j ≠ i → digit d n j k = digit d n j l
  · simp
  · simp [h]

/-- Digits and indices are inverse to each other (so the two theorems above speak about every
entry of the `d^n × d^n` matrix, and about nothing else). -/
theorem index_digits (d n : Nat) (hd : 0 < d) :
    (∀ k, k < d ^ n → idxOf d n (fun j => digit d n j k) = k)
    ∧ (∀ s : Nat → Nat, (∀ j, j < n → s j < d) →
        idxOf d n s < d ^ n ∧ ∀ j, j < n → digit d n j (idxOf d n s) = s j) :=
  ⟨fun k hk => idxOf_digit d n k hd hk,
   fun s hs => ⟨idxOf_lt d n s hs, fun j hj => digit_idxOf d n s hs j hj⟩⟩

/-! ### code = documentation -/

/-- **`H_code_eq_H_doc`.**  Every entry of the matrix assembled as `_construct_hamiltonian` does
(coefficient `Ω/2·e^{-iφ}` on `σ_ab` and `-δ/2` on `σ_bb`, global operators as sums over the
register, local ones per atom, interaction `U/2·n_i n_j` resp. `U·σ_ud σ_du` over pairs with
masked atoms skipped, all via Kronecker products, then `+ dagger`) equals the documented formula
`Σ_i Σ_basis Ω_i/2 (e^{-iφ_i}|a⟩⟨b|_i + h.c.) − δ_i |b⟩⟨b|_i + Σ_{i<j} U_ij (…)` read entry-wise in
register tensor order — for every number of atoms and levels.  Hypotheses: the conjugation is an
involutive ring homomorphism, `half + half = 1`, detunings / pair coefficients / `half` are real. -/
theorem H_code_eq_H_doc [HasConj K] (L : ConjLaws K) (c : HamIn K) (R : RealIn c) (hd : 0 < c.d) (k l : Nat)
    (hk : k < c.d ^ c.n) (hl : l < c.d ^ c.n) : H_code c k l = H_doc c k l := by
  have e := H_code_idxOf L c R (fun j => digit c.d c.n j k) (fun j => digit c.d c.n j l)
    (fun j _ => digit_lt c.d c.n j k hd) (fun j _ => digit_lt c.d c.n j l hd)
  rw [idxOf_digit c.d c.n k hd hk, idxOf_digit c.d c.n l hd hl] at e
  exact e

/-- The same between configurations (no digits involved). -/
theorem H_code_eq_H_doc_config [HasConj K] (L : ConjLaws K) (c : HamIn K) (R : RealIn c) (s t : Nat → Nat)
    (hs : ∀ j, j < c.n → s j < c.d) (ht : ∀ j, j < c.n → t j < c.d) :
    H_code c (idxOf c.d c.n s) (idxOf c.d c.n t) = H_docC c s t :=
  H_code_idxOf L c R s t hs ht

/-- **Hermitian (code).** `ham + ham.dag()` is hermitian at every sample, whatever was sampled. -/
theorem H_code_hermitian [HasConj K] (L : ConjLaws K) (c : HamIn K) (k l : Nat) :
    H_code c l k = conj (H_code c k l) := H_code_herm L c k l

/-- **Hermitian (documented formula).** -/
theorem H_doc_hermitian [HasConj K] (L : ConjLaws K) (c : HamIn K) (R : RealIn c) (hd : 0 < c.d) (k l : Nat)
    (hk : k < c.d ^ c.n) (hl : l < c.d ^ c.n) : H_doc c l k = conj (H_doc c k l) := by
  rw [← H_code_eq_H_doc L c R hd k l hk hl, ← H_code_eq_H_doc L c R hd l k hl hk]
  exact H_code_herm L c k l

/-! ### interaction terms -/

/-- **van der Waals term.** `U/2 · n_i n_j` (Kronecker product) plus its conjugate has the entries
of `U n_i n_j`, `n = |r⟩⟨r|` — the factor `0.5` of `make_vdw_term` is undone by `+ dagger`. -/
theorem vdw_entries [HasConj K] (L : ConjLaws K) (c : HamIn K) (R : RealIn c) (i j : Nat) (s t : Nat → Nat)
    (hi : i < c.n) (hj : j < c.n) (hne : i ≠ j)
    (hs : ∀ j, j < c.n → s j < c.d) (ht : ∀ j, j < c.n → t j < c.d) :
    Mat.add (vdwTerm c i j) (Mat.dagger (vdwTerm c i j)) (idxOf c.d c.n s) (idxOf c.d c.n t)
      = docVdw c i j s t :=
  vdwTerm_pair L c R i j s t hi hj hne hs ht

/-- **`n_i n_j` is diagonal**: with distinct levels, a non-zero entry of the van der Waals term sits
between equal configurations, and on the diagonal it is `U` exactly when both atoms are in `r`. -/
theorem vdw_diagonal (c : HamIn K) (hnd : c.eb.Nodup) (i j : Nat) (s t : Nat → Nat)
    (hi : i < c.n) (hj : j < c.n) :
    (docVdw c i j s t ≠ 0 → ∀ k, k < c.n → s k = t k)
    ∧ docVdw c i j s s = if isSt c.eb (s i) .r ∧ isSt c.eb (s j) .r then c.U i j else 0 := by
  refine ⟨docVdw_agree c hnd i j s t hi hj, ?_⟩
  unfold docVdw
  have hag : agreeOff c.n [i, j] s s := fun _ _ _ => rfl
  by_cases h1 : isSt c.eb (s i) .r <;> by_cases h2 : isSt c.eb (s j) .r <;> simp [hag, h1, h2]

/-- **XY exchange term.** `U · σ_ud(i) σ_du(j)` (Kronecker product, no factor 1/2) plus its
conjugate has the entries of `U (|u⟩⟨d|_i |d⟩⟨u|_j + h.c.)`. -/
theorem xy_exchange_entries [HasConj K] (L : ConjLaws K) (c : HamIn K) (R : RealIn c) (i j : Nat)
    (s t : Nat → Nat) (hi : i < c.n) (hj : j < c.n) (hne : i ≠ j)
    (hs : ∀ j, j < c.n → s j < c.d) (ht : ∀ j, j < c.n → t j < c.d) :
    Mat.add (xyTerm c i j) (Mat.dagger (xyTerm c i j)) (idxOf c.d c.n s) (idxOf c.d c.n t)
      = docXY c i j s t :=
  xyTerm_pair L c R i j s t hi hj hne hs ht

/-- **The exchange only swaps**: a non-zero entry connects `|..u_i..d_j..⟩` and `|..d_i..u_j..⟩`,
all other atoms unchanged. -/
theorem xy_exchange_only_swaps (c : HamIn K) (i j : Nat) (s t : Nat → Nat)
    (h : docXY c i j s t ≠ 0) :
    agreeOff c.n [i, j] s t ∧
      ((isSt c.eb (s i) .u ∧ isSt c.eb (s j) .d ∧ isSt c.eb (t i) .d ∧ isSt c.eb (t j) .u)
       ∨ (isSt c.eb (s i) .d ∧ isSt c.eb (s j) .u ∧ isSt c.eb (t i) .u ∧ isSt c.eb (t j) .d)) := by
  unfold docXY at h
  by_cases hag : agreeOff c.n [i, j] s t
  · refine ⟨hag, ?_⟩
    by_cases h1 : isSt c.eb (s i) .u ∧ isSt c.eb (t i) .d ∧ isSt c.eb (s j) .d ∧ isSt c.eb (t j) .u
    · exact Or.inl ⟨h1.1, h1.2.2.1, h1.2.1, h1.2.2.2⟩
    · by_cases h2 : isSt c.eb (s i) .d ∧ isSt c.eb (t i) .u ∧ isSt c.eb (s j) .u ∧ isSt c.eb (t j) .d
      · exact Or.inr ⟨h2.1, h2.2.2.1, h2.2.1, h2.2.2.2⟩
      · simp [hag, h1, h2] at h
  · simp [hag] at h

/-- A masked atom is decoupled while the mask is on: every pair containing it contributes 0. -/
theorem masked_pair_decoupled (c : HamIn K) (i j : Nat) (s t : Nat → Nat) (hxy : c.xy = true)
    (hon : c.maskOn = true) (hm : c.mask i = true ∨ c.mask j = true) : docPair c i j s t = 0 := by
  unfold docPair
  rcases hm with hm | hm <;> simp [hxy, hon, hm]

/-! ### non-vacuity: concrete instances over `Cx Rat` (pairs of rationals)

`exIsing`: 2 atoms, levels `r,g`; a global pulse Ω=3, δ=1/2, φ=π/2 and a local pulse on atom 1
with Ω=2, δ=-1, e^{-iφ}=(3-4i)/5; U=7.  `exAll`: the qutrit `r,g,h` with a Raman pulse on atom 0.
`exXY`: 3 atoms, levels `u,d`, atom 1 masked, U_ij = i+2j. -/

abbrev Q := Cx Rat

def z : Drive Q := ⟨0, 0, 1⟩

def exIsing : HamIn Q where
  n := 2
  eb := [.r, .g]
  xy := false
  half := ⟨1/2, 0⟩
  glob := fun β => match β with
    | .groundRydberg => ⟨⟨3, 0⟩, ⟨1/2, 0⟩, ⟨0, -1⟩⟩
    | _ => z
  loc := fun β q => match β, q with
    | .groundRydberg, 1 => ⟨⟨2, 0⟩, ⟨-1, 0⟩, ⟨3/5, -4/5⟩⟩
    | _, _ => z
  U := fun _ _ => ⟨7, 0⟩
  mask := fun _ => false
  maskOn := false

def exAll : HamIn Q := { exIsing with
  eb := [.r, .g, .h]
  loc := fun β q => match β, q with
    | .digital, 0 => ⟨⟨4, 0⟩, ⟨3, 0⟩, ⟨0, 1⟩⟩
    | _, _ => z }

def exXY (on : Bool) : HamIn Q where
  n := 3
  eb := [.u, .d]
  xy := true
  half := ⟨1/2, 0⟩
  glob := fun β => match β with
    | .XY => ⟨⟨2, 0⟩, ⟨1, 0⟩, ⟨3/5, 4/5⟩⟩
    | _ => z
  loc := fun _ _ => z
  U := fun i j => ⟨(i + 2 * j : Nat), 0⟩
  mask := fun q => q == 1
  maskOn := on

theorem realIsing : RealIn exIsing where
  half_real := by decide +kernel
  half_add := by decide +kernel
  gdet_real := by intro β; cases β <;> decide +kernel
  ldet_real := by intro β; cases β <;> decide +kernel
  U_real := by decide +kernel

theorem realAll : RealIn exAll where
  half_real := by decide +kernel
  half_add := by decide +kernel
  gdet_real := by intro β; cases β <;> decide +kernel
  ldet_real := by intro β; cases β <;> decide +kernel
  U_real := by decide +kernel

theorem realXY (on : Bool) : RealIn (exXY on) := by
  cases on <;> exact
    { half_real := by decide +kernel
      half_add := by decide +kernel
      gdet_real := by intro β; cases β <;> decide +kernel
      ldet_real := by intro β; cases β <;> decide +kernel
      U_real := by decide +kernel }

/-- `tensor_index`, 2 atoms with 2 and 3 levels: `|g⟩⟨r|` on atom 0 connects `|rg⟩ → |gg⟩`
(basis states 1 → 3 for `d = 2`; 1 → 4 for `d = 3`), the same operator on atom 1 does not, and the
entry-wise definition says the same. -/
example : (buildOp 2 2 [(0, sigma [.r, .g] .g .r)] : Mat Q) 3 1 = 1
    ∧ (embedEntry 2 2 0 (sigma [.r, .g] .g .r) : Mat Q) 3 1 = 1
    ∧ (buildOp 2 2 [(1, sigma [.r, .g] .g .r)] : Mat Q) 3 1 = 0
    ∧ (buildOp 2 2 [(1, sigma [.r, .g] .g .r)] : Mat Q) 1 0 = 1
    ∧ (buildOp 3 2 [(0, sigma [.r, .g, .h] .g .r)] : Mat Q) 4 1 = 1
    ∧ (embedEntry 3 2 0 (sigma [.r, .g, .h] .g .r) : Mat Q) 4 1 = 1
    ∧ (buildOp 3 2 [(1, sigma [.r, .g, .h] .g .r)] : Mat Q) 4 1 = 0 := by decide +kernel

example : ∀ k l, k < 3 ^ 2 → l < 3 ^ 2 →
    (buildOp 3 2 [(1, sigma [.r, .g, .h] .h .g)] : Mat Q) k l
      = embedEntry 3 2 1 (sigma [.r, .g, .h] .h .g) k l :=
  fun k l hk hl => tensor_index 3 2 1 _ (by decide) (by decide) k l hk hl

/-- `tensor_entries` / `index_digits`: configuration (1,0,2) of three qutrits is state number 11. -/
example : idxOf 3 3 (fun j => [1, 0, 2].getD j 0) = 11
    ∧ digit 3 3 0 11 = 1 ∧ digit 3 3 1 11 = 0 ∧ digit 3 3 2 11 = 2 := by decide

/-- `H_code_eq_H_doc` applies to the three instances, and the common value is not trivially 0:
off-diagonal entries carry `Ω/2 e^{∓iφ}` of the right atom, the diagonal `U − Σδ`. -/
example : ∀ k l, k < 2 ^ 2 → l < 2 ^ 2 → H_code exIsing k l = H_doc exIsing k l :=
  fun k l hk hl => H_code_eq_H_doc Cx.conjLaws exIsing realIsing (by decide) k l hk hl

example : ∀ k l, k < 3 ^ 2 → l < 3 ^ 2 → H_code exAll k l = H_doc exAll k l :=
  fun k l hk hl => H_code_eq_H_doc Cx.conjLaws exAll realAll (by decide) k l hk hl

example (on : Bool) : ∀ k l, k < 2 ^ 3 → l < 2 ^ 3 → H_code (exXY on) k l = H_doc (exXY on) k l :=
  fun k l hk hl => H_code_eq_H_doc Cx.conjLaws (exXY on) (realXY on) (by cases on <;> decide) k l hk hl

example : H_code exIsing 0 0 = ⟨7, 0⟩ ∧ H_doc exIsing 0 0 = ⟨7, 0⟩              -- U − δ_0 − δ_1 = 7 − 1/2 + 1/2
    ∧ H_code exIsing 1 0 = ⟨3/5, -23/10⟩ ∧ H_doc exIsing 1 0 = ⟨3/5, -23/10⟩     -- atom 1: (3/2)(−i) + (3−4i)/5
    ∧ H_code exIsing 2 0 = ⟨0, -3/2⟩ ∧ H_doc exIsing 0 2 = ⟨0, 3/2⟩               -- atom 0: global only
    ∧ H_code exIsing 1 1 = ⟨-1/2, 0⟩ ∧ H_code exIsing 2 2 = ⟨1/2, 0⟩
    ∧ H_code exIsing 3 0 = 0 := by decide +kernel

example : H_code exAll 6 3 = ⟨0, 2⟩ ∧ H_doc exAll 6 3 = ⟨0, 2⟩                   -- |h⟩⟨g| on atom 0: 4/2·e^{-iφ}, e^{-iφ} = i
    ∧ H_code exAll 3 3 = ⟨-7/2, 0⟩ ∧ H_doc exAll 3 3 = ⟨-7/2, 0⟩                  -- |g r⟩: −3 (digital δ on g) − 1/2
    ∧ H_code exAll 0 0 = ⟨6, 0⟩ := by decide +kernel

/-- Hermiticity on the instances (both theorems apply; entries are genuinely complex). -/
example : H_doc exIsing 0 1 = conj (H_doc exIsing 1 0) :=
  H_doc_hermitian Cx.conjLaws exIsing realIsing (by decide) 1 0 (by decide) (by decide)

example : H_code exAll 3 6 = conj (H_code exAll 6 3) := H_code_hermitian Cx.conjLaws exAll 6 3

example : H_doc exIsing 1 0 ≠ H_doc exIsing 0 1 := by decide +kernel

/-- Interaction terms: `vdw_entries` / `vdw_diagonal` on `exIsing` (only `|rr⟩⟨rr|`, value U = 7,
although the code's coefficient is 7/2); `xy_exchange_entries` / `xy_exchange_only_swaps` on `exXY`
(pair (0,2), U = 4, connects the configurations `(u,·,d)` ↔ `(d,·,u)`, i.e. states 1 ↔ 4 and
3 ↔ 6), and the masked pairs (0,1), (1,2) vanish while the mask is on. -/
example : vdwTerm exIsing 0 1 0 0 = ⟨7/2, 0⟩
    ∧ Mat.add (vdwTerm exIsing 0 1) (Mat.dagger (vdwTerm exIsing 0 1)) 0 0 = ⟨7, 0⟩
    ∧ docVdw exIsing 0 1 (fun _ => 0) (fun _ => 0) = ⟨7, 0⟩
    ∧ docVdw exIsing 0 1 (fun j => if j = 0 then 0 else 1) (fun j => if j = 0 then 0 else 1) = 0 := by
  decide +kernel

example : exIsing.eb.Nodup ∧ exAll.eb.Nodup ∧ (exXY true).eb.Nodup := by decide

example : Mat.add (xyTerm (exXY true) 0 2) (Mat.dagger (xyTerm (exXY true) 0 2)) 1 4 = ⟨4, 0⟩
    ∧ Mat.add (xyTerm (exXY true) 0 2) (Mat.dagger (xyTerm (exXY true) 0 2)) 4 1 = ⟨4, 0⟩
    ∧ Mat.add (xyTerm (exXY true) 0 2) (Mat.dagger (xyTerm (exXY true) 0 2)) 3 6 = ⟨4, 0⟩
    ∧ Mat.add (xyTerm (exXY true) 0 2) (Mat.dagger (xyTerm (exXY true) 0 2)) 1 2 = 0
    ∧ docXY (exXY true) 0 2 (fun j => digit 2 3 j 1) (fun j => digit 2 3 j 4) = ⟨4, 0⟩ := by
  decide +kernel

example : H_code (exXY true) 1 4 = ⟨4, 0⟩ ∧ H_code (exXY true) 2 4 = 0 ∧ H_code (exXY true) 1 2 = 0
    ∧ H_code (exXY false) 2 4 = ⟨2, 0⟩ ∧ H_code (exXY false) 1 2 = ⟨5, 0⟩
    ∧ docPair (exXY true) 0 1 (fun j => digit 2 3 j 2) (fun j => digit 2 3 j 4) = 0
    ∧ docPair (exXY false) 0 1 (fun j => digit 2 3 j 2) (fun j => digit 2 3 j 4) = ⟨2, 0⟩ := by
  decide +kernel

end C05
end Ham
end Pulser
