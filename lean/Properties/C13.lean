/-
  C13 — Which building operations are accepted follows the documented typestate.

  The rules are stated outright on the model's `stepRaw` (PulserModel/Sequence.lean),
  for every state (the guards only read the mode of the sequence, so no reachability
  hypothesis is needed).  The model covers the non-parametrized API without the SLM
  mask; the parametrized clause and `config_slm_mask` are covered by the harness
  monitor only (and by the decorator table, see Generated/).
-/
import PulserModel.Sequence
import PulserModel.Param
namespace Pulser
namespace C13

/-- The timeline-changing calls (everything except phase shifts and queries). -/
def changesTimeline : Op → Bool
  | .declare .. | .configDetMap .. | .target .. | .add .. | .addDmm .. | .addEom .. | .delay ..
  | .align .. | .enableEom .. | .modifyEom .. | .disableEom .. | .measure .. => true
  | _ => false

/-- **After measurement every timeline-changing call is refused**, and leaves the
sequence untouched. -/
theorem measured_blocks_timeline (s : SeqState) (op : Op) (hm : s.measured.isSome = true)
    (ht : changesTimeline op = true) :
    (stepRaw s op).err = some .measured ∧ (stepRaw s op).st = s := by
  have hne : s.measured ≠ none := by
    intro h; rw [h] at hm; simp at hm
  cases op <;> simp [changesTimeline] at ht <;>
    simp [stepRaw, hm, hne, fail, store, markNonEmpty, targetCore, delayCore, delayChecked, Raw.orRollback]

/-- **A channel name can be declared once on any device.** -/
theorem name_once (s : SeqState) (n chId : Nat) (init : Option (List Nat))
    (hm : s.measured.isSome = false) (h : (s.getChan (.user n)).isSome = true) :
    (stepRaw s (.declare (.user n) chId init)).err = some .nameInUse := by
  simp [stepRaw, hm, h, fail]

/-- **On a device without reusable channels each channel can be declared once**
(once a mode is set, i.e. as soon as anything has been declared). -/
theorem declare_once (s : SeqState) (n chId : Nat) (init : Option (List Nat)) (cfg : ChanCfg)
    (hm : s.measured.isSome = false) (hn : (s.getChan (.user n)).isSome = false)
    (hc : s.dev.chans[chId]? = some cfg) (hr : s.dev.reusable = false)
    (hmode : s.inXY = true ∨ s.inIsing = true)
    (hocc : s.occupied false chId = true) :
    ∃ e, (stepRaw s (.declare (.user n) chId init)).err = some e ∧ e.isTypestate = true := by
  have hav : s.available false chId cfg = false := by
    unfold SeqState.available
    rcases hmode with h | h <;> simp [h, hocc, hr]
  simp only [stepRaw, hm, hn, hc, hav]
  simp only [Bool.false_eq_true, if_false, Bool.not_false, if_true]
  split
  · exact ⟨_, rfl, rfl⟩
  · split
    · exact ⟨_, rfl, rfl⟩
    · exact ⟨_, rfl, rfl⟩

/-- ... and likewise each DMM can be configured once. -/
theorem dmm_once (s : SeqState) (dmmId : Nat) (w1 w2 : Rat) (cfg : ChanCfg)
    (hm : s.measured.isSome = false) (hc : s.dev.dmms[dmmId]? = some cfg)
    (hr : s.dev.reusable = false) (hx : s.inXY = false) (hi : s.inIsing = true)
    (hocc : s.occupied true dmmId = true) :
    (stepRaw s (.configDetMap dmmId w1 w2)).err = some .notAvailable := by
  have hav : s.available true dmmId cfg = false := by
    unfold SeqState.available; simp [hx, hi, hocc, hr]
  simp [stepRaw, hm, hc, hx, hav, fail]

/-- **Microwave (XY) channels never coexist with other channels**: in XY mode a non-XY
channel is refused, outside it (Ising mode) an XY channel is refused. -/
theorem xy_exclusive (s : SeqState) (n chId : Nat) (init : Option (List Nat)) (cfg : ChanCfg)
    (hm : s.measured.isSome = false) (hn : (s.getChan (.user n)).isSome = false)
    (hc : s.dev.chans[chId]? = some cfg)
    (h : (s.inXY = true ∧ cfg.basis ≠ .xy) ∨ (s.inXY = false ∧ s.inIsing = true ∧ cfg.basis = .xy)) :
    (stepRaw s (.declare (.user n) chId init)).err = some .xyConflict := by
  have hav : s.available false chId cfg = false := by
    unfold SeqState.available
    rcases h with ⟨h1, h2⟩ | ⟨h1, h2, h3⟩
    · simp [h1, h2]
    · simp [h1, h2, h3]
  simp only [stepRaw, hm, hn, hc, hav]
  rcases h with ⟨h1, h2⟩ | ⟨h1, h2, h3⟩
  · simp [h1, h2, fail]
  · simp [h1, h3, fail]

/-- ... nor with DMMs. -/
theorem xy_excludes_dmm (s : SeqState) (dmmId : Nat) (w1 w2 : Rat) (cfg : ChanCfg)
    (hm : s.measured.isSome = false) (hc : s.dev.dmms[dmmId]? = some cfg) (hx : s.inXY = true) :
    (stepRaw s (.configDetMap dmmId w1 w2)).err = some .xyConflict := by
  simp [stepRaw, hm, hc, hx, fail]

/-- **While a channel is in EOM mode ordinary pulses and retargets are refused on it.** -/
theorem eom_only_eom_ops (s : SeqState) (n : ChName) (c : ChanState) (hm : s.measured.isSome = false)
    (hc : s.getChan n = some c) (he : c.inEomMode = true) :
    (∀ p proto, (stepRaw s (.add p n proto)).err = some .inEom) ∧
    (∀ qs, (stepRaw s (.target qs n)).err = some .inEom) ∧
    (∀ e, (stepRaw s (.enableEom n e)).err = some .alreadyInEom) := by
  refine ⟨fun p proto => ?_, fun qs => ?_, fun e => ?_⟩
  · simp [stepRaw, hm, SeqState.validateChannel, hc, he, fail, store, markNonEmpty]
  · simp [stepRaw, targetCore, hm, SeqState.validateChannel, hc, he, fail, store, Raw.orRollback]
  · simp [stepRaw, hm, SeqState.validateChannel, hc, he, fail]

/-- **EOM pulses and EOM controls are refused outside EOM mode.** -/
theorem eom_pulse_needs_eom (s : SeqState) (n : ChName) (c : ChanState)
    (hm : s.measured.isSome = false) (hc : s.getChan n = some c) (he : c.inEomMode = false) :
    (∀ d ph po pr co fs fe r, (stepRaw s (.addEom n d ph po pr co fs fe r)).err = some .notInEom) ∧
    (∀ e, (stepRaw s (.modifyEom n e)).err = some .notInEom) ∧
    (∀ co, (stepRaw s (.disableEom n co)).err = some .notInEom) := by
  have hb : ∀ b, c.eom.getLast? = some b → b.tf.isSome = true := by
    intro b hb
    unfold ChanState.inEomMode at he
    rw [hb] at he
    cases h : b.tf <;> simp_all
  refine ⟨fun d ph po pr co fs fe r => ?_, fun e => ?_, fun co => ?_⟩
  · cases hl : c.eom.getLast? with
    | none => simp [stepRaw, hm, SeqState.validateChannel, hc, hl, fail, store, markNonEmpty]
    | some b => simp [stepRaw, hm, SeqState.validateChannel, hc, hl, hb b hl, fail, store, markNonEmpty]
  · simp [stepRaw, hm, SeqState.validateChannel, hc, he, fail]
  · simp [stepRaw, hm, SeqState.validateChannel, hc, he, fail, store, Raw.orRollback]

/-- **A local channel needs a target before its first pulse** (a channel without any
instruction refuses pulses, delays and EOM pulses with "no target"). -/
theorem local_needs_target (s : SeqState) (n : ChName) (c : ChanState) (p : PulseIn)
    (proto : Protocol) (hm : s.measured.isSome = false) (hc : s.getChan n = some c)
    (hd : c.cfg.isDmm = false) (he : c.inEomMode = false) (hs : c.slots = []) :
    (stepRaw s (.add p n (some proto))).err = some .noTarget := by
  have hl : c.last = .error .noTarget := by unfold ChanState.last; rw [hs]; rfl
  simp [stepRaw, hm, SeqState.validateChannel, hc, he, hd, addCore, hl, fail, store, markNonEmpty]

/-- Operations on a name that was never declared are refused. -/
theorem undeclared_refused (s : SeqState) (n : ChName) (hm : s.measured.isSome = false)
    (hc : s.getChan n = none) :
    (∀ p proto, (stepRaw s (.add p n proto)).err = some .notDeclared) ∧
    (∀ d r, (stepRaw s (.delay d n r)).err = some .notDeclared) ∧
    (∀ qs, (stepRaw s (.target qs n)).err = some .notDeclared) := by
  refine ⟨fun p proto => ?_, fun d r => ?_, fun qs => ?_⟩
  · simp [stepRaw, hm, SeqState.validateChannel, hc, fail, store, markNonEmpty]
  · simp [stepRaw, delayCore, delayChecked, hm, SeqState.validateChannel, hc, fail, store, Raw.orRollback]
  · simp [stepRaw, targetCore, hm, SeqState.validateChannel, hc, fail, store, Raw.orRollback]

/-! ### Non-vacuity -/

def exDev : Device :=
  { chans := [{ clock := 4, minDur := 16, isLocal := true, basis := .digital },
              { clock := 4, minDur := 16, basis := .xy }],
    dmms := [], reusable := false, maxSeqDur := none }

def s1 : SeqState := run (SeqState.init exDev 2) [.declare (.user 0) 0 none]

example : s1.measured.isSome = false ∧ (s1.getChan (.user 0)).isSome = true ∧ s1.inIsing = true ∧
    s1.occupied false 0 = true := by decide +kernel

example : (stepRaw s1 (.add { dur := 100 } (.user 0) (some .minDelay))).err = some .noTarget := by
  decide +kernel

example : (stepRaw s1 (.declare (.user 1) 1 none)).err = some .xyConflict := by decide +kernel

example : (stepRaw (run s1 [.measure .digital]) (.delay 100 (.user 0) false)).err = some .measured := by
  decide +kernel

/-! ### Parametrized mode (on the template model of PulserModel/Param.lean) -/

open Param in
/-- **An ACCEPTED call that uses a (declared) variable makes the sequence parametrized; a refused
one changes nothing** — neither a call refused by a store-time check (the flag is put back, repair
of F41) nor a call with an unknown or foreign variable (repair of F3) alters the template, its
mode included. -/
theorem variable_use_parametrizes (t : Tmpl) (p : POp) (h : p.isParam = true) :
    ((tstep t p).2 = none → (tstep t p).1.param = true) ∧
    (∀ e, (tstep t p).2 = some e → (tstep t p).1 = t) ∧
    (varsDeclared t p = false → tstep t p = (t, some .unknownVariable)) := by
  unfold tstep
  by_cases hv : varsDeclared t p = true
  · simp only [h, hv, Bool.not_true, Bool.and_false, Bool.false_eq_true, if_false, if_true]
    refine ⟨?_, ?_, fun hf => by simp at hf⟩
    · split
      · intro hn; simp at hn
      · split <;> intro _ <;> rfl
    · intro e
      split
      · intro _; rfl
      · split <;> intro hn <;> simp at hn
  · have hv' : varsDeclared t p = false := by simpa using hv
    simp [h, hv']

open Param in
/-- **Once parametrized, always parametrized** (until `build`, which returns a new sequence),
**and the concrete timeline no longer changes**: every further call is checked and stored, never
executed. -/
theorem parametrized_is_sticky (t : Tmpl) (p : POp) (h : t.param = true) :
    (tstep t p).1.param = true ∧ (tstep t p).1.pre = t.pre := by
  unfold tstep
  have h1 : (if p.isParam = true then { t with param := true } else t : Tmpl) = t := by
    split
    · cases t; simp_all
    · rfl
  simp only [h1, h]
  split
  · exact ⟨h, rfl⟩
  · simp only [Bool.not_true, Bool.false_eq_true, if_false]
    split
    · exact ⟨h, rfl⟩
    · split <;> exact ⟨rfl, rfl⟩

open Param in
/-- A call without variables on a sequence that is not parametrized is executed immediately
(exactly `stepRaw`), and the sequence stays concrete. -/
theorem concrete_call_executes (t : Tmpl) (p : POp) (op : Op) (h : t.param = false)
    (hp : p.isParam = false) (hc : concretize p = some op) :
    (tstep t p).1.pre = (stepRaw t.pre op).st ∧ (tstep t p).1.param = false ∧
    (tstep t p).1.stored = t.stored := by
  unfold tstep
  simp [hp, h, hc]

end C13
end Pulser
