/-
  C11 — Emulation keeps states physical and follows the measurement conventions. (PARTIAL)

  Decided here (over exact rationals, model `PulserModel/Measure.lean`):
    * bitstring conventions of `QutipResult._weights`: atoms in register order, the one-state
      (r / h / d) ↦ 1 and every other state ↦ 0, for every dimension 2, 3, 4           (§2)
    * sampling distributions sum to one                                                 (§2)
    * detection errors: independent bit flips at the configured rates                  (§3)
    * state-preparation errors: the bad atoms loaded for a run are the ones drawn       (§3b)
    * evaluation-time bookkeeping between the V2 backend and the legacy emulator: the
      relative→µs→relative round trip, the matching tolerance, the list handed to
      `set_evaluation_times` (sorted, duplicate free, inside the sequence)              (§6)
    * re-creation of the configuration by `EmulatorBackend.__init__` is idempotent     (§7)

  NOT decided by any theorem (smoke differential in the monitor, labelled a test):
  norm / trace / positivity along `sesolve` / `mesolve`, the Rabi oscillation, zero drive,
  legacy ≡ V2 states — statements about QuTiP's adaptive ODE integrators on float64.

  Only property theorems and their non-vacuity examples live here; lemmas are in
  Proofs/Measure.lean.
-/
import Proofs.Measure
namespace Pulser
namespace C11
open Measure

/-! ## Bitstring conventions -/

/-- **Clause "bitstrings list atoms in register order with the one-state ↦ 1 and every other
state ↦ 0" (dimension 3 and 4: `all`, `*_with_error`, `all_with_error`).**  The un-normalised
weight stored at position `int(b, 2)` is the total probability of the basis states `σ` with
`σᵢ = one ↔ bᵢ = 1`, atom 0 being the first digit of `σ` and the first bit of `b`. -/
theorem weights_convention (c : WCfg) (hd : c.d ≠ 2) (hone : c.oneIdx < c.d) (probs : List Rat)
    (b : List Bool) (hb : b.length = c.n) :
    lookup (rawWeights c probs) (bitsIndex b) = weightSpec c.d c.n c.oneIdx probs b := by
  unfold rawWeights
  simp only [hd, if_false]
  rw [← hb, lookup_map_allBits, weightIx_eq_spec c.d b.length c.oneIdx hone probs b rfl]

/-- The same in dimension 2 for the digital and XY bases (`h`, resp. `d`, is the second basis
vector): `weights = probs`. -/
theorem weights_convention_d2 (n : Nat) (probs : List Rat) (b : List Bool) (hb : b.length = n) :
    lookup (rawWeights ⟨2, n, true, false, 1⟩ probs) (bitsIndex b) = weightSpec 2 n 1 probs b := by
  subst hb
  rw [← weightIx_eq_spec 2 b.length 1 (by omega) probs b rfl]
  simp [rawWeights, weightIx, selStates_two 1 (by omega), index_stateOfBits_one]

/-- The same in dimension 2 for ground-rydberg (`r` is the *first* basis vector, so the code
reverses the array: `weights = probs[::-1]`). -/
theorem weights_convention_d2_gr (n : Nat) (probs : List Rat) (hp : probs.length = 2 ^ n)
    (b : List Bool) (hb : b.length = n) :
    lookup (rawWeights ⟨2, n, true, true, 0⟩ probs) (bitsIndex b) = weightSpec 2 n 0 probs b := by
  subst hb
  rw [← weightIx_eq_spec 2 b.length 0 (by omega) probs b rfl]
  have hlt := bitsIndex_lt b
  simp only [rawWeights, weightIx, selStates_two 0 (by omega), if_true, List.map_cons, List.map_nil,
    List.sum_cons, List.sum_nil, add_zero]
  rw [lookup_reverse _ _ (by omega), index_stateOfBits_zero, hp]

/-- `reverse_is_complement`: the basis state read as `b` in ground-rydberg sits at position
`2ⁿ − 1 − int(b, 2)` — reversing the array is complementing every bit. -/
theorem reverse_is_complement (b : List Bool) :
    index 2 (b.map fun x => if x then 0 else 1) = 2 ^ b.length - 1 - bitsIndex b := by
  have := index_stateOfBits_zero b
  simpa [stateOfBits] using this

/-- A state whose measurement basis was not addressed reads `00…0` with certainty. -/
theorem weights_not_matching (n : Nat) (gr : Bool) (one : Nat) (p : Rat) (probs : List Rat) :
    rawWeights ⟨2, n, false, gr, one⟩ (p :: probs) = 1 :: probs.map fun _ => 0 := by
  simp [rawWeights]

/-- Non-vacuity: two atoms, ground-rydberg `[rr, rg, gr, gg]`; digital-in-`all` `[r,g,h]²`. -/
example : weights ⟨2, 2, true, true, 0⟩ [1/2, 1/4, 1/8, 1/8] = [1/8, 1/8, 1/4, 1/2] := by decide +kernel
example : weights ⟨3, 2, false, false, 2⟩ [1/9, 1/9, 1/9, 1/9, 1/9, 1/9, 1/9, 1/9, 1/9]
    = [4/9, 2/9, 2/9, 1/9] := by decide +kernel

/-- **Clause "sampling distributions sum to one".**  After the final normalisation the weights
sum to one whenever they do not all vanish. -/
theorem weights_sum_one (c : WCfg) (probs : List Rat) (h : (rawWeights c probs).sum ≠ 0) :
    (weights c probs).sum = 1 :=
  normalise_sum_one _ h

/-- ... and before normalisation nothing is lost or counted twice: every basis state is read
as exactly one bitstring (dimension 3, 4). -/
theorem weights_total (c : WCfg) (hd : c.d ≠ 2) (hone : c.oneIdx < c.d) (probs : List Rat) :
    (rawWeights c probs).sum = ((allStates c.d c.n).map fun σ => lookup probs (index c.d σ)).sum := by
  unfold rawWeights
  simp only [hd, if_false]
  exact sum_sel_partition c.d c.oneIdx hone c.n _

/-! ## Detection errors -/

/-- **Clause "detection errors flip bits at the configured rates" (1).**  The flip kernel is a
probability distribution over the detected bitstrings. -/
theorem flip_kernel_sums_one (eps epsp : Rat) (b : List Bool) :
    ((allBits b.length).map (flipKernel eps epsp b)).sum = 1 :=
  flipKernel_sum_one eps epsp b

/-- **(2)** Each detected bit, on its own, is wrong with exactly the configured rate: a true 0 is
read as 1 with probability `eps` (false positive), a true 1 as 0 with probability `epsp`. -/
theorem flip_kernel_marginal (eps epsp : Rat) (b : List Bool) (i : Nat) (hi : i < b.length) (v : Bool) :
    (((allBits b.length).filter fun c => c.getD i false == v).map (flipKernel eps epsp b)).sum =
      flip1 eps epsp (b.getD i false) v :=
  flipKernel_marginal eps epsp v b i hi

example : flip1 (1/10) (1/5) false true = 1/10 ∧ flip1 (1/10) (1/5) true false = 1/5 := by decide +kernel
example : applyKernel 1 (1/10) (1/5) [1/2, 1/2] = [11/20, 9/20] := by decide +kernel

/-! ## State-preparation errors -/

/-- **State preparation (part of "all noise configurations"; legacy ≡ V2 share this path).**  In the
state-preparation-only path of `_noisy_runs` the configuration drawn for a run is turned into a
string (to count identical runs) and back: the atoms loaded as badly prepared are exactly the
ones drawn. -/
theorem state_prep_roundtrip (eta : Rat) (u : List Rat) :
    decodeConfig (encodeConfig (drawBad eta u)) = drawBad eta u :=
  decode_encode _

/-- **Finding F36 (repaired in the tree; a statement about the OLD expression).**
`np.array(list("01")).astype(bool)` is `[True, True]` under numpy 2: every atom was marked badly
prepared in every run, whatever had been drawn. -/
theorem state_prep_old_counterexample :
    decodeConfigOld (encodeConfig (drawBad (3/10) [1/2, 1/10])) = [true, true] ∧
    drawBad (3/10) [1/2, 1/10] = [false, true] := by
  decide +kernel

/-- The configurations carry the product distribution "each atom badly prepared with probability
`eta`, independently": the weights sum to one and each atom is bad with total weight `eta`. -/
theorem state_prep_distribution (eta : Rat) (n : Nat) :
    ((allBits n).map (configWeight eta)).sum = 1 ∧
    ∀ i, i < n → (((allBits n).filter fun c => c.getD i false == true).map (configWeight eta)).sum = eta :=
  ⟨configWeight_sum_one eta n, fun i hi => configWeight_marginal eta n i hi⟩

example : configWeight (3/10) [false, true] = 21/100 := by decide +kernel

/-! ## Evaluation times between the V2 backend and the legacy emulator -/

/-- **Clause "for every … choice of evaluation times" (1).**  Over the rationals the conversion
relative → µs (`rel·T·10⁻³`) → relative (`t/T·10³`) is the identity. -/
theorem eval_time_roundtrip (T : Nat) (hT : T ≠ 0) (rel : Rat) :
    relTime T (rel * ((T : Rat) / 1000)) = rel :=
  relTime_roundtrip T hT rel

/-- The end point `T/1000` of every emulation is filed under the relative time 1 (in float64 too,
since `x / x = 1`: repair of finding F52). -/
theorem eval_time_end_point (T : Nat) (hT : T ≠ 0) : relTime T ((T : Rat) / 1000) = 1 := by
  have := relTime_roundtrip T hT 1
  simpa using this

/-- **(2)** The matching tolerance `0.5/T` used by `Observable.__call__` separates any two
distinct integer-nanosecond instants … -/
theorem tol_separates (T : Nat) (hT : T ≠ 0) (k1 k2 : Nat) (hk : k1 ≠ k2) :
    ¬ absR ((k1 : Rat) / T - (k2 : Rat) / T) ≤ timeTol T :=
  Measure.tol_separates T hT k1 k2 hk

/-- … and absorbs any conversion error below half a nanosecond. -/
theorem tol_matches (T : Nat) (rel t : Rat) (h0 : 0 ≤ t) (h1 : t ≤ 1)
    (h : absR (rel - t) ≤ timeTol T) : inTimes t [rel] (timeTol T) = true :=
  Measure.tol_matches T rel t h0 h1 h

/-- **(3) `legacy_eval_times`.**  The list `_get_legacy_evaluation_times` hands to the legacy
emulator (union of the default times — `"Full"` expanded through the sampling indices — and of
every observable's own times, in µs, clipped to the duration) is strictly ascending, hence
duplicate free, and lies inside `[0, T/1000]`. -/
theorem legacy_eval_times (dflt : DefaultTimes) (extras : List Rat) (T m : Nat) (hT : T ≠ 0)
    (hsorted : ∀ l, dflt = .times l → l.Pairwise (· < ·))
    (hd : ∀ l, dflt = .times l → ∀ x ∈ l, 0 ≤ x ∧ x ≤ 1)
    (he : ∀ x ∈ extras, 0 ≤ x ∧ x ≤ 1) (r : List Rat)
    (h : legacyEvalTimes dflt extras T m = some r) :
    r.Pairwise (· < ·) ∧ ∀ x ∈ r, 0 ≤ x ∧ x ≤ (T : Rat) / 1000 :=
  ⟨legacyEvalTimes_sorted dflt extras T m hT hsorted hd he r h,
   legacyEvalTimes_bounds dflt extras T m hT hd he r h⟩

/-- The clipping added by the repair of finding F30 makes the upper bound unconditional — this is
the statement that also survives float64 rounding (`min(x, b) ≤ b`) — and changes nothing over
the rationals for relative times in `[0, 1]`. -/
theorem legacy_eval_times_clipped (dflt : DefaultTimes) (extras : List Rat) (T m : Nat) :
    (∀ r, legacyEvalTimes dflt extras T m = some r → ∀ x ∈ r, x ≤ (T : Rat) / 1000) ∧
    (T ≠ 0 → (∀ l, dflt = .times l → ∀ x ∈ l, 0 ≤ x ∧ x ≤ 1) → (∀ x ∈ extras, 0 ≤ x ∧ x ≤ 1) →
      legacyEvalTimes dflt extras T m = legacyEvalTimesRaw dflt extras T m) :=
  ⟨fun r h => legacyEvalTimes_le dflt extras T m r h,
   fun hT hd he => legacyEvalTimes_eq_raw dflt extras T m hT hd he⟩

/-- **(4)** Hence `set_evaluation_times` never rejects it ("extends further than sequence
duration"), for *every* duration `T`, and returns it with the two end points.  (Before the repair
of F30 this failed in float64 for 13 % of the durations, e.g. `1.0·52·10⁻³ > 52/1000`.) -/
theorem legacy_pipeline_total (dflt : DefaultTimes) (extras : List Rat) (T m : Nat) (hT : T ≠ 0)
    (hd : ∀ l, dflt = .times l → ∀ x ∈ l, 0 ≤ x ∧ x ≤ 1)
    (he : ∀ x ∈ extras, 0 ≤ x ∧ x ≤ 1) (r : List Rat)
    (h : legacyEvalTimes dflt extras T m = some r) :
    ∃ r', setEvaluationTimes T r = some r' ∧ r'.Pairwise (· < ·) ∧
      ∀ y, y ∈ r' ↔ (y ∈ r ∨ y = 0 ∨ y = (T : Rat) / 1000) :=
  setEvaluationTimes_spec T r (legacyEvalTimes_bounds dflt extras T m hT hd he r h)

example : legacyEvalTimes (.times [1]) [] 52 52 = some [13/250] ∧
    setEvaluationTimes 52 [13/250] = some [0, 13/250] := by decide +kernel
example : legacyEvalTimes .full [1/2] 8 4 = some [0, 1/500, 1/250, 7/1000] := by decide +kernel

/-! ## Re-creation of the configuration -/

/-- **`config_recreate_idempotent`.**  `EmulatorBackend.__init__` re-creates the configuration
from the options the first construction stored; on the model of `EmulationConfig.__init__`
this always succeeds and changes nothing.  (The tree broke this for ≥ 2 default evaluation
times under numpy 2 — finding F10, repaired: `"Full"` is now compared as a string only.) -/
theorem config_recreate_idempotent (a c : CfgArgs) (h : cfgInit a = .ok c) : cfgInit c = .ok c :=
  cfgInit_idempotent a c h

example : cfgInit ⟨[1, 2], .times [1/4, 1], false, false, 1, 1⟩
    = .ok ⟨[1, 2], .times [1/4, 1], false, false, 1, 1⟩ := by decide +kernel
example : cfgInit ⟨[1], .times [1, 1/4], false, false, 1, 1⟩ = .error .order := by decide +kernel

end C11
end Pulser
