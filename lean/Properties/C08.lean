/-
  C08 — Building a parametrized sequence equals direct construction.

  Model: PulserModel/Param.lean (templates = concrete prefix + stored calls with expression
  arguments; `build` = replay of `_calls` on a fresh sequence, then the stored calls with
  evaluated arguments; `buildM` = the same through the mutable variable store).

  What the Lean side canNOT exhibit, by construction: aliasing between the template and
  the built sequence, stale `ParamObj._instance` caches, `Variable._count` bookkeeping —
  a functional model has no object identity.  Those clauses ("building never alters the
  template", "successive builds are independent") are carried by the correspondence check
  harness/props/C08.py on the real objects; the theorems `build_pure` / `build_independent`
  below only say that nothing in the *algorithm* (assign all variables, evaluate, replay)
  depends on earlier builds.
-/
import Proofs.Param
import Proofs.ParamStore
import Proofs.ParamReplay
namespace Pulser
namespace C08
open Param

/-- Error of a direct script, translated to the error `build` reports (index relative to
the stored calls). -/
def liftDirect (n : Nat) : Except (Nat × Err) SeqState → Except PErr SeqState
  | .ok s => .ok s
  | .error (k, e) => .error (.buildFailed (k - n) e)

/-- `build` against the direct script, given that replaying `_calls` reproduces the prefix. -/
theorem build_eq_direct_of_replay (I : Interp) (ρ : Assign) (dev : Device) (nQ : Nat)
    (userOps : List Op) (t : Tmpl) (ops : List Op)
    (hpre : runAll (SeqState.init dev nQ) userOps = .ok t.pre)
    (hrep : run (SeqState.init t.pre.dev t.pre.nQ) t.pre.calls = t.pre)
    (hcov : covers t.vars ρ = true) (hev : evalOps I ρ t.stored = some ops) :
    build I t ρ = liftDirect userOps.length (runAll (SeqState.init dev nQ) (userOps ++ ops)) := by
  have hsplit := runAll_append_ok (b := ops) hpre
  unfold build
  simp only [hcov, hev, hrep, Bool.not_true, Bool.false_eq_true, if_false]
  rw [hsplit]
  have hshift := runAllFrom_shift userOps.length 0 t.pre ops
  simp only [Nat.add_zero] at hshift
  rw [hshift]
  unfold runAll
  cases hr : runAllFrom 0 t.pre ops with
  | ok s => simp [shiftErr, liftDirect]
  | error x => obtain ⟨k, e⟩ := x; simp [shiftErr, liftDirect]

/-- **`build` returns the same sequence as issuing the same calls directly with the
evaluated values** (clause 1).  `userOps` are the concrete calls issued before the
sequence became parametrized, `t.stored` the calls stored afterwards, `ops` their
evaluation under `ρ`.  The direct construction is ONE script `userOps ++ ops` on a fresh
sequence; `build` replays the call log `_calls` of the template and then `ops`.  Both
succeed or fail together, with the same sequence resp. the same error at the same stored
call.

Hypotheses = exactly what the replay of `_calls` needs (`replay_prefix`): the prefix calls
all succeeded and are stored verbatim (`selfStored`: everything except `enable_eom_mode` /
`modify_eom_setpoint`, which store the chosen `detuning_off` instead of the requested
optimum — for those see `build_eq_direct_full`; calls that raised half-way, findings F2.x,
are excluded by `runAll … = .ok`).
Late `declare_channel` calls (issued while parametrized, hoisted by `build` before the
stored calls) are outside this statement: correspondence only. -/
theorem build_eq_direct (I : Interp) (ρ : Assign) (dev : Device) (nQ : Nat) (userOps : List Op)
    (t : Tmpl) (ops : List Op)
    (hpre : runAll (SeqState.init dev nQ) userOps = .ok t.pre)
    (hplain : ∀ op ∈ userOps, selfStored op = true)
    (hcov : covers t.vars ρ = true) (hev : evalOps I ρ t.stored = some ops) :
    build I t ρ = liftDirect userOps.length (runAll (SeqState.init dev nQ) (userOps ++ ops)) :=
  build_eq_direct_of_replay I ρ dev nQ userOps t ops hpre (replay_prefix hplain hpre) hcov hev

/-- **The same for every successful concrete prefix**, EOM calls included: with C09's
`step_record` (the stored `enable_eom_mode` / `modify_eom_setpoint` carries the chosen
off-detuning and replaying it chooses it again), the only requirement left is that the
detuning-off options of those calls are pairwise distinct (`NodupOpts`; they are values of a
strictly monotone function of the beams in the library, checked on the oracle by the harness
of C15).  Queries in the prefix are allowed. -/
theorem build_eq_direct_full (I : Interp) (ρ : Assign) (dev : Device) (nQ : Nat) (userOps : List Op)
    (t : Tmpl) (ops : List Op)
    (hpre : runAll (SeqState.init dev nQ) userOps = .ok t.pre)
    (hn : ∀ op ∈ userOps, NodupOpts op)
    (hcov : covers t.vars ρ = true) (hev : evalOps I ρ t.stored = some ops) :
    build I t ρ = liftDirect userOps.length (runAll (SeqState.init dev nQ) (userOps ++ ops)) :=
  build_eq_direct_of_replay I ρ dev nQ userOps t ops hpre (replay_prefix_full hn hpre) hcov hev

/-- The successful case, in the words of the property. -/
theorem build_ok_iff_direct_ok (I : Interp) (ρ : Assign) (dev : Device) (nQ : Nat)
    (userOps : List Op) (t : Tmpl) (ops : List Op) (s : SeqState)
    (hpre : runAll (SeqState.init dev nQ) userOps = .ok t.pre)
    (hplain : ∀ op ∈ userOps, selfStored op = true)
    (hcov : covers t.vars ρ = true) (hev : evalOps I ρ t.stored = some ops) :
    build I t ρ = .ok s ↔ runAll (SeqState.init dev nQ) (userOps ++ ops) = .ok s := by
  rw [build_eq_direct I ρ dev nQ userOps t ops hpre hplain hcov hev]
  cases runAll (SeqState.init dev nQ) (userOps ++ ops) with
  | ok s' => simp [liftDirect]
  | error x => obtain ⟨k, e⟩ := x; simp [liftDirect]

/-- The replay theorem used above, on its own: **the concrete prefix of a template is
reproduced by replaying its call log** (for successful, verbatim-stored calls). -/
theorem replay_prefix_partial {dev : Device} {nQ : Nat} {ops : List Op} {s : SeqState}
    (hs : ∀ op ∈ ops, selfStored op = true) (h : runAll (SeqState.init dev nQ) ops = .ok s) :
    run (SeqState.init s.dev s.nQ) s.calls = s := replay_prefix hs h

/-- Well-formed template: every variable of a stored call was declared by the sequence
(what `verify_variable` establishes at store time). -/
def WellFormed (t : Tmpl) : Prop := ∀ p ∈ t.stored, ∀ n ∈ p.vars, t.vars.any (·.1 == n) = true

/-- **Building never alters the template** (clause 2) — in this model `build` is a
function of the template *value*; the only thing the real method mutates on the template
side is the value store of the variables, and `buildM` returns the same result as the
pure `build` whatever that store contained before.  (Trivial for a functional model as
far as aliasing goes: see the header.) -/
theorem build_pure (I : Interp) (t : Tmpl) (st : VStore) (ρ : Assign) (hw : WellFormed t) :
    (buildM I t st ρ).2 = build I t ρ := by
  unfold buildM build
  by_cases hc : covers t.vars ρ = true
  · simp only [hc, Bool.not_true, Bool.false_eq_true, if_false]
    have hb : ∀ p ∈ t.stored, boundIn ρ p.vars :=
      fun p hp n hn => covers_bound hc (hw p hp n hn)
    have := evalOps_shadow I (st := st) t.stored hb
    unfold assignAll
    rw [this]
    cases evalOps I ρ t.stored with
    | none => rfl
    | some ops =>
      simp only
      cases runAll (run (SeqState.init t.pre.dev t.pre.nQ) t.pre.calls) ops with
      | ok s => rfl
      | error x => rfl
  · simp [hc]

/-- **Successive builds are independent and reproducible** (clause 2): the result of a
build after any earlier build (with different or identical values) is the result of that
build alone; in particular building twice with the same values gives the same sequence. -/
theorem build_independent (I : Interp) (t : Tmpl) (st : VStore) (ρ₁ ρ₂ : Assign)
    (hw : WellFormed t) :
    (buildM I t (buildM I t st ρ₁).1 ρ₂).2 = (buildM I t st ρ₂).2 := by
  rw [build_pure I t _ ρ₂ hw, build_pure I t st ρ₂ hw]

/-- Storing a call keeps the template well-formed (the stored form of a call has the
variables of the call, and `tstep` refuses a call with an undeclared variable). -/
theorem storedForm_vars (t : Tmpl) (p : POp) : (storedForm t p).vars = p.vars := by
  unfold storedForm
  repeat' split
  all_goals rfl

/-- **A mappable register is resolved to exactly the requested traps, in declared qubit
order** (clause 3): `declared` = the qubit ids of the `MappableRegister` in declaration
order (distinct), `chosen` = the `qubits` mapping given to `build` (distinct keys, any
order).  When `build_register` accepts it, the register consists of the first
`len(chosen)` declared ids, in declared order, each on the trap requested for it. -/
theorem mappable_order (declared : List Nat) (chosen reg : List (Nat × Nat))
    (hd : declared.Nodup)
    (h : buildRegister declared chosen = some reg) :
    reg.map (·.1) = declared.take chosen.length ∧
    ∀ q ∈ reg, chosen.lookup q.1 = some q.2 := by
  unfold buildRegister at h
  by_cases c1 : (chosen.map (·.1)).all (declared.contains ·) = true
  · by_cases c2 : ((chosen.map (·.1)).all ((declared.take (chosen.map (·.1)).length).contains ·) &&
        (declared.take (chosen.map (·.1)).length).all ((chosen.map (·.1)).contains ·)) = true
    · simp only [c1, c2, Bool.not_true, Bool.false_eq_true, if_false] at h
      have h2' : (∀ x ∈ chosen.map (·.1), x ∈ declared.take (chosen.map (·.1)).length) ∧
          (∀ x ∈ declared.take (chosen.map (·.1)).length, x ∈ chosen.map (·.1)) := by
        simpa only [Bool.and_eq_true, List.all_eq_true, List.contains_iff_mem] using c2
      have hf := filter_take_of_sets hd h2'.1 h2'.2
      injection h with h
      subst h
      rw [hf]
      simp only [List.length_map] at *
      refine ⟨?_, ?_⟩
      · -- every id of the first k declared ids has a trap in `chosen`
        have hall : ∀ id ∈ declared.take chosen.length, ∃ tr, chosen.lookup id = some tr := by
          intro id hid
          have := h2'.2 id hid
          rw [List.mem_map] at this
          obtain ⟨⟨a, b⟩, hab, rfl⟩ := this
          cases hl : chosen.lookup a with
          | some tr => exact ⟨tr, rfl⟩
          | none =>
            exfalso
            have := List.lookup_eq_none_iff.mp hl (a, b) hab
            simp at this
        generalize declared.take chosen.length = l at hall
        induction l with
        | nil => rfl
        | cons x rest ih =>
          obtain ⟨tr, htr⟩ := hall x List.mem_cons_self
          simp only [List.filterMap_cons, htr, Option.map_some, List.map_cons]
          rw [ih (fun id hid => hall id (List.mem_cons_of_mem _ hid))]
      · intro q hq
        rw [List.mem_filterMap] at hq
        obtain ⟨id, _, hq⟩ := hq
        cases hl : chosen.lookup id with
        | none => rw [hl] at hq; simp at hq
        | some tr => rw [hl] at hq; simp at hq; subst hq; exact hl

    · have c2' := (Bool.not_eq_true _).mp c2
      simp only [c1, c2', Bool.not_true, Bool.not_false, Bool.false_eq_true, if_false, if_true] at h
      cases h
  · have c1' := (Bool.not_eq_true _).mp c1
    simp only [c1', Bool.not_false, if_true] at h
    cases h

/-- **Index-based targeting resolves against that order** (clause 3): index `i` of the
built register is the `i`-th declared qubit id. -/
theorem index_resolves_declared_order (declared : List Nat) (chosen reg : List (Nat × Nat))
    (hd : declared.Nodup) (h : buildRegister declared chosen = some reg) (i : Nat)
    (hi : i < chosen.length) :
    resolveIndex reg i = declared[i]? := by
  have h1 := (mappable_order declared chosen reg hd h).1
  unfold resolveIndex
  have : (reg.map (·.1))[i]? = (declared.take chosen.length)[i]? := by rw [h1]
  rw [List.getElem?_map] at this
  rw [this, List.getElem?_take]
  simp [hi]

/-- **No spurious rejection at store time** (the store-time checks are implied by the
build-time checks): let `userOps` be the successful concrete calls issued before the sequence
became parametrized (not measured), `stored` the calls issued afterwards and `ops` their
evaluation under `ρ`.  If the DIRECT construction `userOps ++ ops` succeeds, then every call
of `stored`, taken in order, passes all the checks it goes through when it is stored
(`storeCheck`: `@block_if_measured` via `_param_measurement`, `_validate_channel` on the
declared channels, the EOM mode read off the stored calls by `is_in_eom_mode`, DMM / non-DMM,
protocol, `validate_duration` of a concrete `add_eom_pulse` duration, `validate_pulse` of a
concrete pulse, `_process_eom_parameters` of concrete EOM arguments, emptiness / addressing /
`max_targets` / index range of targets, the checks of `align`, the basis of a phase shift, the
measurement basis).  Hypothesis `targetsDistinct`: the indices an ARRAY variable evaluates to
are pairwise distinct — without it the statement is false
(`store_rejects_what_direct_accepts`).  Outside the statement: `declare_channel` /
`config_detuning_map` issued while parametrized (they are not in the `POp` language). -/
theorem store_no_spurious_reject (I : Interp) (ρ : Assign) (dev : Device) (nQ : Nat)
    (userOps : List Op) (pre : SeqState) (vars : List (Nat × Nat)) (stored : List POp) (ops : List Op)
    (s' : SeqState)
    (hpre : runAll (SeqState.init dev nQ) userOps = .ok pre)
    (hb : ∀ op ∈ userOps, building op = true) (hm : pre.measured = none)
    (hev : evalOps I ρ stored = some ops)
    (hdirect : runAll (SeqState.init dev nQ) (userOps ++ ops) = .ok s')
    (hnd : ∀ p ∈ stored, targetsDistinct I ρ p) :
    acceptsAll { pre := pre, stored := [], vars := vars, param := true, paramMeas := none } stored = true := by
  have hinv : PreInv pre := preInv_runAll (preInv_init dev nQ) hb hpre
  have hrun := runAll_append_ok (b := ops) hpre
  rw [hrun] at hdirect
  exact acceptsAll_of_direct I ρ (agree_init vars hinv hm) hev hdirect hnd

/-- … and an accepted call is stored by `tstep` exactly as `storeT` says (so `acceptsAll` is
"`tstep` never raises along the stored list"). -/
theorem tstep_stores_accepted {t : Tmpl} {p : POp} (hp : t.param = true) (hv : varsDeclared t p = true)
    (hc : storeCheck t p = none) : tstep t p = (storeT t p, none) := tstep_accepts hp hv hc

/-! ### Findings visible in the model -/

def exCfg : ChanCfg := { clock := 4, minDur := 16, rise := 120, pjt := 240, isLocal := true,
                         maxTargets := some 1 }
def exDev : Device := { chans := [exCfg], dmms := [], reusable := false, maxSeqDur := none }
def exPre : SeqState := run (SeqState.init exDev 2) [.declare (.user 0) 0 (some [0])]
def exT : Tmpl := { pre := exPre, vars := [(0, 1), (1, 2)] }

/-- Finding F3 (owned by C09, repaired in /repo): **a call that uses a variable this sequence
never declared is refused and leaves the template exactly as it was** — in particular it does
not turn the sequence parametrized (`verify_variable` used to set `_building = False` before
it checked the variables). -/
theorem foreign_variable_refused (t : Tmpl) (p : POp) (hp : p.isParam = true)
    (hv : varsDeclared t p = false) : tstep t p = (t, some .unknownVariable) := by
  unfold tstep
  simp [hp, hv]

/-- Finding F41 (owned by C09, repaired in /repo): **any refused call that carries a variable
leaves the template exactly as it was** — unknown variable or failed store-time check alike; in
particular a sequence that was not parametrized does not become so (`verify_parametrization`
puts `_building` back when the call raises). -/
theorem refused_call_keeps_template (t : Tmpl) (p : POp) (hp : p.isParam = true) (e : PErr)
    (h : (tstep t p).2 = some e) : (tstep t p).1 = t := by
  unfold tstep at h ⊢
  by_cases hv : varsDeclared t p = true
  · simp only [hp, hv, Bool.not_true, Bool.and_false, Bool.false_eq_true, if_false, if_true] at h ⊢
    split
    · rfl
    · rename_i hs
      rw [hs] at h
      cases p <;> simp at h
  · have hv' : varsDeclared t p = false := by simpa using hv
    simp [hp, hv']

/-- Observation (not a violation of the property as stated, which quantifies over
templates that exist): store-time checks CAN reject a call that the direct construction
with the evaluated values accepts — `target_index` with an array variable of size 2 on a
channel with `max_targets = 1` is refused when stored (the size of the variable is
compared with `max_targets`), although with values `[1, 1]` the direct call targets one
qubit and succeeds.  This is why `store_no_spurious_reject_target` below needs the
hypothesis that the evaluated indices are distinct. -/
theorem store_rejects_what_direct_accepts :
    let I : Interp := ⟨fun _ _ => none, fun _ _ => none, fun _ _ _ _ _ => none, fun _ _ => (0, 0)⟩
    let t : Tmpl := { exT with param := true }
    let p : POp := .target (.arr [.var 1 0, .var 1 1]) (.user 0)
    storeCheck t p = some .tooManyTargets ∧
    (evalOp I [(1, [1, 1])] p).map (fun op => (stepRaw t.pre op).err) = some none := by
  decide +kernel

/-! ### Non-vacuity -/

example : (POp.delay (.param (.var 7 0)) (.user 0) false).isParam = true ∧
    varsDeclared exT (.delay (.param (.var 7 0)) (.user 0) false) = false ∧ exT.param = false := by decide

def idI : Interp := ⟨fun f x => if f = 0 then some (if x < 0 then -x else x) else none,
                     fun _ _ => none, fun _ _ _ _ _ => none, fun _ _ => (0, 0)⟩

/-- a template: delay(2*x+4), target_index(arr), phase_shift_index(|y|, 1) -/
def exStored : List POp :=
  [.delay (.param (.add (.mul (.const 2) (.var 0 0)) (.const 4))) (.user 0) false,
   .target (.arr [.var 1 1]) (.user 0),
   .phaseShift (.param (.fn 0 (.neg (.var 0 0)))) [.conc 1] .groundRydberg]
def exT2 : Tmpl := { exT with stored := exStored, param := true }

example : (build idI exT2 [(0, [10]), (1, [0, 1])]).toOption.map (fun s => s.calls.length) = some 4 := by
  decide +kernel
example : evalOps idI [(0, [10]), (1, [0, 1])] exStored =
    some [.delay 24 (.user 0) false, .target [1] (.user 0), .phaseShift 10 [1] .groundRydberg] := by
  decide +kernel
-- hypotheses of build_eq_direct are satisfiable
example : runAll (SeqState.init exDev 2) [.declare (.user 0) 0 (some [0])] = .ok exT2.pre := by
  decide +kernel
example : covers exT2.vars [(0, [10]), (1, [0, 1])] = true := by decide
-- builds with different values give different sequences; rebuilding gives the same one
example : build idI exT2 [(0, [10]), (1, [0, 1])] ≠ build idI exT2 [(0, [12]), (1, [0, 1])] := by
  decide +kernel
example : (buildM idI exT2 (buildM idI exT2 [] [(0, [12]), (1, [1, 0])]).1 [(0, [10]), (1, [0, 1])]).2
    = build idI exT2 [(0, [10]), (1, [0, 1])] := by decide +kernel
-- store_no_spurious_reject: the stored list of the example is accepted call by call
example : acceptsAll { pre := exPre, stored := [], vars := exT.vars, param := true, paramMeas := none } exStored
    = true := by decide +kernel
-- a missing value is an error, not a stale value
example : build idI exT2 [(0, [10])] = .error .missingValue := by decide +kernel
-- mappable register: ids 5,6,7,8 declared; the caller gives {6 ↦ trap 3, 5 ↦ trap 9}
example : buildRegister [5, 6, 7, 8] [(6, 3), (5, 9)] = some [(5, 9), (6, 3)] := by decide
example : resolveIndex [(5, 9), (6, 3)] 1 = some 6 := by decide
example : buildRegister [5, 6, 7, 8] [(7, 3), (5, 9)] = none := by decide

end C08
end Pulser
