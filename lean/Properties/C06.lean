/-
  C06 — Sampling renders the schedule exactly (structure).

  Model: PulserModel/Sampler.lean (structural rendering of `_ChannelSchedule.get_samples`,
  `ChannelSamples.extend_duration`, `SequenceSamples.to_nested_dict`).  A sample is the
  multiset of its terms `(instruction number, index into that pulse's own samples)`; the
  phase array holds the instruction number of the pulse whose phase is painted there.
  The values of the pulses' samples are not modelled (C16).

  All theorems are for every channel state satisfying the timeline invariant `ChanInv`
  of C02 — by `C02.timeline_inv` every channel of every reachable sequence.
  Only property theorems and their non-vacuity examples live here; helper lemmas are in
  Proofs/Sampler.lean.
-/
import Proofs.Sampler
import Properties.C02
namespace Pulser
namespace C06

/-- **Amplitude inside a pulse**: at a time inside pulse instruction `i` the amplitude
sample is the single term "sample `t − ti` of that pulse" — pulses never overlap, so the
"sum of the pulses scheduled at that time" has exactly one term. -/
theorem amp_unique {ms : Option Nat} {c : ChanState} (h : ChanInv ms c) {i : Nat} {s : Slot}
    {p : PulseRec} (hs : IsPulseSlot c i s p) {t : Int} (h1 : s.ti ≤ t) (h2 : t < s.tf) :
    ampAt c t = [(i, t - s.ti)] :=
  contribAt_unique (psOk_of_inv h) hs.mem h1 h2

/-- **Amplitude elsewhere**: outside every pulse instruction the sum is empty (zero). -/
theorem amp_zero_outside {c : ChanState} {t : Int}
    (hout : ∀ i s p, IsPulseSlot c i s p → ¬ (s.ti ≤ t ∧ t < s.tf)) : ampAt c t = [] :=
  contribAt_none fun a ha => hout a.idx a.s a.p (mem_pulseSlots.mp ha)

/-- **Detuning inside a pulse** (a detuned delay of EOM mode is such a pulse: its constant
detuning is the off-detuning, `mkDetunedDelay`). -/
theorem det_unique {ms : Option Nat} {c : ChanState} (h : ChanInv ms c) {i : Nat} {s : Slot}
    {p : PulseRec} (hs : IsPulseSlot c i s p) {t : Int} (h1 : s.ti ≤ t) (h2 : t < s.tf) :
    detAt c t = [(i, t - s.ti)] :=
  contribAt_unique (psOk_of_inv h) hs.mem h1 h2

/-- **Detuning elsewhere** is zero. -/
theorem det_zero_outside {c : ChanState} {t : Int}
    (hout : ∀ i s p, IsPulseSlot c i s p → ¬ (s.ti ≤ t ∧ t < s.tf)) : detAt c t = [] :=
  contribAt_none fun a ha => hout a.idx a.s a.p (mem_pulseSlots.mp ha)

/-- **Idling in EOM mode**: what the scheduler appends while a channel idles in EOM mode with a
non-zero off-detuning (`mkDetunedDelay`, used by `add_delay` and by the EOM buffers) is a
pulse instruction — so `det_unique` / `amp_unique` apply to it — whose waveforms are the
constants amplitude 0 and detuning `detuning_off`; it is a detuned delay, whose phase the
sampler does not paint.  (That idle time in EOM mode *is* such an instruction is C15.) -/
theorem eom_idle_pulse {c : ChanState} {d : Nat} {detOff ph : Rat} {p : PulseRec}
    (h : mkDetunedDelay c d detOff ph = .ok p) :
    p.const = true ∧ p.amp = 0 ∧ p.det = detOff ∧ p.dd = true ∧ p.dur = d ∧ p.ref = 0 := by
  unfold mkDetunedDelay at h
  cases hl : c.lookupDD detOff d with
  | none => rw [hl] at h; cases h
  | some v =>
    rw [hl] at h; obtain ⟨a, b⟩ := v; injection h with h; subst h
    exact ⟨rfl, rfl, rfl, rfl, rfl, rfl⟩

/-- The same as values: for any samples `σ slot index`, the rendered amplitude is the pulse's
own sample inside a pulse and `0` outside every pulse. -/
theorem amp_value {ms : Option Nat} {c : ChanState} (h : ChanInv ms c) (σ : Nat → Int → Rat) (t : Int) :
    (∀ i s p, IsPulseSlot c i s p → s.ti ≤ t → t < s.tf →
      termsValue σ (ampAt c t) = σ i (t - s.ti)) ∧
    ((∀ i s p, IsPulseSlot c i s p → ¬ (s.ti ≤ t ∧ t < s.tf)) → termsValue σ (ampAt c t) = 0) := by
  refine ⟨fun i s p hs h1 h2 => ?_, fun hout => ?_⟩
  · rw [amp_unique h hs h1 h2]; simp [termsValue, Rat.add_zero]
  · rw [amp_zero_outside hout]; rfl

/-- **Phase over a pulse**: over the interval of a pulse that is not an ignored detuned
delay the phase array holds that pulse — the overwrite `phase[t_start:] = …` of a later
pulse starts at or after the end of the previous counted pulse, so it never clobbers an
earlier pulse's own interval; and `t_start ≤ ti`. -/
theorem phase_on_pulse {ms : Option Nat} {c : ChanState} (h : ChanInv ms c) (ign : Bool) {i : Nat}
    {s : Slot} {p : PulseRec} (hs : IsPulseSlot c i s p) (hdd : ¬ (ign = true ∧ p.dd = true))
    {t : Int} (h1 : s.ti ≤ t) (h2 : t < s.tf) : phaseAt c ign t = some i := by
  have ok := psOk_of_inv h
  have hc : counts ign (⟨i, s, p⟩ : PSlot) = true := by
    unfold counts
    cases ign <;> cases hp : p.dd <;> simp_all
  exact paintLoop_on_pulse c.cfg.pjt ign hc h1 h2 c.pulseSlots [] _ hs.mem
    (fun _ _ z hz => absurd hz (by simp)) ok.sorted (fun y hy => ⟨ok.nonneg y hy, ok.le y hy⟩)

/-- **Phase without pulses**: when no pulse counts (no pulse at all, or only ignored detuned
delays) the phase array keeps its initial zeros. -/
theorem phase_zero_without_pulse {c : ChanState} (ign : Bool)
    (hno : ∀ i s p, IsPulseSlot c i s p → ign = true ∧ p.dd = true) (t : Int) :
    phaseAt c ign t = none := by
  unfold phaseAt
  rw [paintLoop_none c.cfg.pjt ign t c.pulseSlots [] _]
  intro y hy
  obtain ⟨e1, e2⟩ := hno y.idx y.s y.p (mem_pulseSlots.mp hy)
  simp [counts, e1, e2]

/-- **Array length**: the three arrays have one sample per nanosecond of the channel's
duration (`get_duration()`), sample `t` being the rendering at `t`; and every pulse lies
inside the arrays, occupying exactly as many samples as it has (so no slice of
`get_samples` is clipped). -/
theorem array_length {ms : Option Nat} {c : ChanState} (h : ChanInv ms c) (ign : Bool) :
    ((getSamples c ign).amp.length : Int) = c.getDuration false ∧
    (getSamples c ign).det.length = (getSamples c ign).amp.length ∧
    (getSamples c ign).phase.length = (getSamples c ign).amp.length ∧
    (∀ t : Nat, t < (getSamples c ign).amp.length →
      (getSamples c ign).amp[t]? = some (ampAt c t) ∧
      (getSamples c ign).det[t]? = some ⟨detAt c t, 0⟩ ∧
      (getSamples c ign).phase[t]? = some (phaseAt c ign t)) ∧
    (∀ i s p, IsPulseSlot c i s p → 0 ≤ s.ti ∧ s.tf = s.ti + p.dur ∧ s.tf ≤ c.getDuration false) := by
  have hnn := getDuration_nonneg h
  have ok := psOk_of_inv h
  refine ⟨?_, ?_, ?_, ?_, ?_⟩
  · simp only [getSamples, List.length_map, List.length_range, ChanState.sampleLen]; omega
  · simp [getSamples]
  · simp [getSamples]
  · intro t ht
    simp only [getSamples, List.length_map, List.length_range] at ht
    simp [getSamples, ht]
  · intro i s p hs
    exact ⟨ok.nonneg _ hs.mem, ok.durEq _ hs.mem, ok.bound _ hs.mem⟩

/-- **Extending only pads**: `extend_duration(n)` succeeds exactly when `n` is not below the
current duration; the result has `n` samples, the old samples unchanged, and every new
sample is: amplitude zero, detuning the off-detuning if the channel is still in EOM mode
(else zero), phase the last phase sample (zero for an empty channel).  Slots are kept. -/
theorem extend_pads (cs : ChanSamples) (n : Int)
    (hd : cs.det.length = cs.amp.length) (hp : cs.phase.length = cs.amp.length) :
    (n < cs.duration → extendDuration cs n = none) ∧
    ((cs.duration : Int) ≤ n → ∃ e, extendDuration cs n = some e ∧
      (e.amp.length : Int) = n ∧ e.det.length = e.amp.length ∧ e.phase.length = e.amp.length ∧
      e.slots = cs.slots ∧ e.openDetOff = cs.openDetOff ∧ e.initialTargets = cs.initialTargets ∧
      (∀ t : Nat, t < cs.duration →
        e.amp[t]? = cs.amp[t]? ∧ e.det[t]? = cs.det[t]? ∧ e.phase[t]? = cs.phase[t]?) ∧
      (∀ t : Nat, cs.duration ≤ t → (t : Int) < n →
        e.amp[t]? = some [] ∧
        e.det[t]? = some ⟨[], cs.openDetOff.getD 0⟩ ∧
        e.phase[t]? = some (cs.phase.getLast?.getD none))) := by
  refine ⟨fun hlt => ?_, fun hle => ?_⟩
  · unfold extendDuration
    simp only
    rw [if_pos (by omega)]
  · unfold extendDuration
    simp only
    rw [if_neg (by omega)]
    refine ⟨_, rfl, ?_, ?_, ?_, rfl, rfl, rfl, ?_, ?_⟩
    · simp only [List.length_append, List.length_replicate, ChanSamples.duration] at *; omega
    · simp only [List.length_append, List.length_replicate, hd]
    · simp only [List.length_append, List.length_replicate, hp]
    · intro t ht
      unfold ChanSamples.duration at ht
      exact ⟨List.getElem?_append_left ht, List.getElem?_append_left (by omega),
        List.getElem?_append_left (by omega)⟩
    · intro t ht1 ht2
      unfold ChanSamples.duration at ht1
      have hk : t - cs.amp.length < (n - (cs.amp.length : Int)).toNat := by omega
      refine ⟨?_, ?_, ?_⟩
      · rw [List.getElem?_append_right ht1, List.getElem?_replicate]
        simp only [ChanSamples.duration, hk, if_true]
      · rw [List.getElem?_append_right (by omega), List.getElem?_replicate, hd]
        simp only [ChanSamples.duration, hk, if_true]
        cases cs.openDetOff <;> rfl
      · rw [List.getElem?_append_right (by omega), List.getElem?_replicate, hp]
        simp only [ChanSamples.duration, hk, if_true]

/-- `extend_pads` applies to the samples of every channel. -/
theorem extend_pads_samples (c : ChanState) (ign : Bool) :
    (getSamples c ign).det.length = (getSamples c ign).amp.length ∧
    (getSamples c ign).phase.length = (getSamples c ign).amp.length ∧
    (getSamples c ign).openDetOff = c.openDetOff := by
  simp [getSamples]

/-- **Per-atom attribution (Local channel, DMM, or `all_local`)**: at a time inside pulse
instruction `i` the channel's sample — which is that pulse alone — is added to the entry of
atom `q` in the channel's basis exactly when `q` is a target of the pulse, except that in XY
mode a masked atom receives nothing before the mask end; the detuning is multiplied by the
atom's detuning-map weight on a DMM and by 1 otherwise. -/
theorem per_qubit_attribution {ms : Option Nat} {c : ChanState} (h : ChanInv ms c) {i : Nat}
    {s : Slot} {p : PulseRec} (hs : IsPulseSlot c i s p) {t : Int} (h1 : s.ti ≤ t) (h2 : t < s.tf)
    (weights : List Rat) (allLocal : Bool) (m : SlmMask) (k : Nat)
    (hb : (c.view weights).globalBranch allLocal = false) (q : Nat) :
    ampAt c t = [(i, t - s.ti)] ∧ detAt c t = [(i, t - s.ti)] ∧
    ((∃ w, (k, w) ∈ attribAt (chanInstrs allLocal m k (c.view weights)) c.cfg.basis (some q) t) ↔
      (q ∈ s.targets ∧ ¬ (c.cfg.basis = .xy ∧ q ∈ m.targets ∧ t < m.end_))) ∧
    (∀ w, (k, w) ∈ attribAt (chanInstrs allLocal m k (c.view weights)) c.cfg.basis (some q) t →
      w = (if c.cfg.isDmm then weights.getD q 0 else 1)) := by
  have ok := psOk_of_inv h
  obtain ⟨wA, sw, hsw, wB⟩ := slotWindows_window c (c.view weights).openEom (x := ⟨i, s, p⟩) h1 h2
    ok.sorted ok.le hs.mem
  have hsw' : sw ∈ slotWindows (c.view weights).openEom (c.view weights).slots := hsw
  refine ⟨amp_unique h hs h1 h2, det_unique h hs h1 h2, ?_, ?_⟩
  · constructor
    · rintro ⟨w, hw⟩
      obtain ⟨_, _, _, hcase⟩ := (mem_attrib_local hb).mp hw
      rcases hcase with ⟨sw'', hs'', hq, e1, e2⟩ | ⟨he, _⟩
      · have hti : sw''.1.ti ≤ t := by
          split at e1
          · omega
          · exact e1
        obtain ⟨_, htg⟩ := wA sw'' hs'' hti e2
        refine ⟨by rw [← htg]; exact hq, ?_⟩
        rintro ⟨hx, hm, hlt⟩
        have : ((c.view weights).basis == Basis.xy && m.targets.contains q) = true := by
          simp [ChanState.view, hx, hm]
        rw [if_pos this] at e1
        omega
      · -- the channel has a pulse slot, so the "no pulse at all" case does not apply
        have hmem := mem_slotWindows hsw'
        cases hsl : (c.view weights).slots with
        | nil => rw [hsl] at hmem; cases hmem
        | cons a r => rw [hsl] at he; cases he
    · rintro ⟨hq, hmask⟩
      refine ⟨_, (mem_attrib_local hb).mpr ⟨rfl, rfl, rfl, .inl ⟨sw, hsw', by rw [wB.2.1]; exact hq, ?_, wB.2.2⟩⟩⟩
      split
      · rename_i hc
        have hc' : c.cfg.basis = .xy ∧ q ∈ m.targets := by
          simpa [ChanState.view] using hc
        have : ¬ t < m.end_ := fun hlt => hmask ⟨hc'.1, hc'.2, hlt⟩
        rw [wB.1]; simp only; omega
      · rw [wB.1]; exact h1
  · intro w hw
    obtain ⟨_, _, e, _⟩ := (mem_attrib_local hb).mp hw
    rw [e]; rfl

/-- **A channel left in EOM mode keeps its last targets until the end** (Local channel, DMM or
`all_local`): after the start of its last pulse-target slot, the channel's samples — beyond
its own duration these are the padding of `extend_pads`: amplitude 0, detuning the
off-detuning, last phase — keep being added to the entries of exactly the targets of that
slot, whatever the time; for a channel that is not in EOM mode the slot ends at its `tf`. -/
theorem eom_tail_attribution (allLocal : Bool) (m : SlmMask) (k : Nat) (v : ChanView)
    (hb : v.globalBranch allLocal = false) (pre : List PTSlot) (last : PTSlot)
    (hsl : v.slots = pre ++ [last]) (hxy : v.basis ≠ .xy) (q : Nat) (t : Int) (ht : last.ti ≤ t)
    (hpre : ∀ s ∈ pre, s.tf ≤ last.ti) :
    ((∃ w, (k, w) ∈ attribAt (chanInstrs allLocal m k v) v.basis (some q) t) ↔
      (q ∈ last.targets ∧ (v.openEom = true ∨ t < last.tf))) := by
  have hx : (v.basis == Basis.xy) = false := by simpa using hxy
  have hwin : ∀ sw, sw ∈ slotWindows v.openEom v.slots ↔
      ((sw ∈ pre.map fun s => (s, some s.tf)) ∨ sw = (last, if v.openEom then none else some last.tf)) := by
    intro sw
    rw [hsl]
    clear hsl hpre
    induction pre with
    | nil => simp [slotWindows]
    | cons a r ih =>
      rw [List.cons_append, slotWindows_cons]
      have : (r ++ [last]).isEmpty = false := by cases r <;> rfl
      simp only [this, Bool.false_and, Bool.false_eq_true, if_false, List.mem_cons, List.map_cons, ih]
      constructor
      · rintro (h | h | h)
        · exact .inl (.inl h)
        · exact .inl (.inr h)
        · exact .inr h
      · rintro ((h | h) | h)
        · exact .inl h
        · exact .inr (.inl h)
        · exact .inr (.inr h)
  constructor
  · rintro ⟨w, hw⟩
    obtain ⟨_, _, _, hcase⟩ := (mem_attrib_local hb).mp hw
    rcases hcase with ⟨sw, hs, hq, e1, e2⟩ | ⟨he, _⟩
    · simp only [hx, Bool.false_and, Bool.false_eq_true, if_false] at e1
      rcases (hwin sw).mp hs with hp | rfl
      · obtain ⟨s, hs', rfl⟩ := List.mem_map.mp hp
        have := hpre s hs'
        have e2' : t < s.tf := e2
        omega
      · refine ⟨hq, ?_⟩
        by_cases ho : v.openEom = true
        · exact .inl ho
        · right
          simp only [ho, Bool.false_eq_true, if_false] at e2
          exact e2
    · rw [hsl] at he; cases pre <;> cases he
  · rintro ⟨hq, ho⟩
    refine ⟨_, (mem_attrib_local hb).mpr ⟨rfl, rfl, rfl, .inl ⟨_, (hwin _).mpr (.inr rfl), hq, ?_, ?_⟩⟩⟩
    · simp only [hx, Bool.false_and, Bool.false_eq_true, if_false]; exact ht
    · rcases ho with ho | ho
      · simp only [ho, if_true]; trivial
      · split
        · trivial
        · exact ho

/-- **Per-atom attribution (Global channel, not `all_local`)**: the channel's samples are
added to the `Global` entry of its basis — i.e. to every atom — at every time from `start_t`
on (`start_t = 0` outside XY mode or without an SLM mask); before a non-zero `start_t` they
go to the `Local` entries of exactly the unmasked targets of the first pulse (to none when the
channel has no pulse), so masked atoms receive nothing while the mask is on. -/
theorem global_attribution (allLocal : Bool) (m : SlmMask) (k : Nat) (v : ChanView)
    (hb : v.globalBranch allLocal = true) (t : Int) (ht : 0 ≤ t) :
    ((∃ w, (k, w) ∈ attribAt (chanInstrs allLocal m k v) v.basis none t) ↔ startT m v ≤ t) ∧
    (∀ q, (∃ w, (k, w) ∈ attribAt (chanInstrs allLocal m k v) v.basis (some q) t) ↔
      (startT m v ≠ 0 ∧ t < startT m v ∧ (∃ s0, v.slots.head? = some s0 ∧ q ∈ s0.targets) ∧
        ¬ q ∈ m.targets)) ∧
    ((v.basis ≠ .xy ∨ m.end_ = 0) → startT m v = 0) := by
  refine ⟨?_, ?_, ?_⟩
  · constructor
    · rintro ⟨w, hw⟩; exact ((mem_attrib_global hb).mp hw).2.2.2
    · intro hle; exact ⟨1, (mem_attrib_global hb).mpr ⟨rfl, rfl, rfl, hle⟩⟩
  · intro q
    constructor
    · rintro ⟨w, hw⟩
      obtain ⟨_, _, _, a, _, b, c', d⟩ := (mem_attrib_global_local hb).mp hw
      exact ⟨a, b, c', by simpa using d⟩
    · rintro ⟨a, b, c', d⟩
      exact ⟨1, (mem_attrib_global_local hb).mpr ⟨rfl, rfl, rfl, a, ht, b, c', by simpa using d⟩⟩
  · intro hh
    unfold startT
    rcases hh with hh | hh
    · have : (v.basis == Basis.xy) = false := by simpa using hh
      rw [this]; rfl
    · split <;> simp [hh]

/-- Every accumulation statement of `to_nested_dict` of the channel at position `k` carries
`k`: in the whole dictionary, what entry `(b, q)` receives at `t` from position `k` is what
the loop body of the channel at that position adds. -/
theorem attribution_by_channel (allLocal : Bool) (m : SlmMask) (views : List ChanView) (b : Basis)
    (q : Option Nat) (t : Int) (k : Nat) (w : Rat) :
    (k, w) ∈ attribAt (nestedInstrs allLocal m views) b q t ↔
      ∃ v, views[k]? = some v ∧ (k, w) ∈ attribAt (chanInstrs allLocal m k v) b q t := by
  unfold attribAt nestedInstrs
  simp only [List.mem_filterMap]
  constructor
  · rintro ⟨i, hi, hh⟩
    obtain ⟨j, v, hv, hiv⟩ := mem_nestedInstrsFrom.mp hi
    have := chanInstrs_chan hiv b q t (k, w) hh
    simp only [Nat.zero_add] at this hiv
    subst this
    exact ⟨v, hv, i, hiv, hh⟩
  · rintro ⟨v, hv, i, hiv, hh⟩
    exact ⟨i, mem_nestedInstrsFrom.mpr ⟨k, v, hv, by simpa using hiv⟩, hh⟩

/-- **Per-atom phase, rule before the repair of F23** (`d[..][PHASE] += cs.phase`): the phase
sample of an entry is the sum of the painted phases of *every* channel written into the entry
at that time.  So over a pulse it is that pulse's phase exactly when its channel is the only
writer (with `phase_on_pulse` for the channel's own array); with a second writer of the same
basis and addressing class it was not — finding F-C06-1 (F23 of C05), now repaired. -/
theorem per_atom_phase_sum (instrs : List NInstr) (b : Basis) (q : Option Nat) (t : Int) :
    entryPhaseSum ((attribAt instrs b q t).map (·.1)) = (attribAt instrs b q t).map (·.1) ∧
    (∀ k w, attribAt instrs b q t = [(k, w)] → entryPhaseSum ((attribAt instrs b q t).map (·.1)) = [k]) := by
  refine ⟨rfl, fun k w h => ?_⟩
  rw [h]; rfl

/-- **Per-atom phase, current rule** (`_add_channel_samples`): whenever exactly one of the
channels written into an entry has a non-zero amplitude at that time, the entry's phase is
the painted phase of that channel alone — whatever the other channels' phases are; with
`phase_on_pulse` this is the phase of the pulse that channel plays at that time.  (When two
channels drive one entry at the same time the phases are still added; the format cannot
carry two phases and the property is not judged there.) -/
theorem per_atom_phase_single_drive (instrs : List NInstr) (on : Nat → Bool) (b : Basis) (q : Option Nat)
    (t : Int) (pre post : List Nat) (k0 : Nat)
    (hw : (attribAt instrs b q t).map (·.1) = pre ++ k0 :: post)
    (hk0 : on k0 = true) (hpre : ∀ k ∈ pre, on k = false) (hpost : ∀ k ∈ post, on k = false) :
    nestedPhaseAt instrs on b q t = [k0] := by
  unfold nestedPhaseAt
  rw [hw, entryPhase_single on pre post k0 hk0 hpre hpost]

/-! ### Non-vacuity: a reachable sequence meets the hypotheses -/

-- helpers of the examples are `def`s so that only property theorems are `theorem`s in this file
set_option linter.defProp false

def exGlobal : ChanCfg := { clock := 4, minDur := 16, rise := 120, pjt := 240, maxDur := some 1000 }
def exLocal : ChanCfg :=
  { clock := 4, minDur := 16, isLocal := true, basis := .digital, maxTargets := some 2 }
def exDev : Device := { chans := [exGlobal, exLocal], dmms := [], reusable := false, maxSeqDur := none }

/-- (helper of the examples, not a property theorem) -/
def exDev_ok : DevOk exDev := by
  refine ⟨?_, ?_⟩ <;> intro c hc <;> simp [exDev, exGlobal, exLocal] at hc
  rcases hc with hc | hc <;> subst hc <;> decide

/-- A pulse, the phase-jump delay inserted for the next one, a second pulse of another phase
on the global channel; two pulses on different targets on the local channel. -/
def exOps : List Op :=
  [ .declare (.user 0) 0 none,
    .add { dur := 101, fallStd := 200, ref := 1, sum := {} } (.user 0) (some .minDelay),
    .add { dur := 52, phase := 1, ref := 2, sum := {} } (.user 0) (some .minDelay),
    .declare (.user 1) 1 (some [0, 2]),
    .add { dur := 20, ref := 3, sum := {} } (.user 1) (some .noDelay),
    .target [1] (.user 1),
    .add { dur := 24, phase := 1 / 2, ref := 4, sum := {} } (.user 1) (some .noDelay) ]

def exState : SeqState := run (SeqState.init exDev 3) exOps
def exG : ChanState := exState.chans[0]!
def exL : ChanState := exState.chans[1]!

example : exG.slots.map (fun s => (s.ti, s.tf)) = [(-1, 0), (0, 104), (104, 544), (544, 596)] := by
  decide +kernel
example : exL.slots.map (fun s => (s.ti, s.tf, s.targets)) =
    [(-1, 0, [0, 2]), (0, 20, [0, 2]), (20, 20, [1]), (20, 44, [1])] := by decide +kernel

/-- The hypothesis `ChanInv` of every theorem above holds for the channels of this reachable
sequence (by `C02.timeline_inv`). -/
def exG_inv : ChanInv none exG :=
  C02.timeline_inv exDev 3 exDev_ok exState (C02.Reach.of_run exDev 3 exOps) exG (by decide +kernel)
def exL_inv : ChanInv none exL :=
  C02.timeline_inv exDev 3 exDev_ok exState (C02.Reach.of_run exDev 3 exOps) exL (by decide +kernel)

/-- Instruction 3 of the global channel is a pulse over [544, 596) that is not a detuned delay. -/
def exG_slot3 : ∃ s p, IsPulseSlot exG 3 s p ∧ s.ti = 544 ∧ s.tf = 596 ∧ p.dd = false := by
  refine ⟨exG.slots[3]!, (exG.slots[3]!).pulse?.get!, ?_⟩
  decide +kernel

/-- amp_unique / det_unique / phase_on_pulse: hypotheses met, and the conclusion computed directly. -/
example : ampAt exG 550 = [(3, 6)] := by
  obtain ⟨s, p, hs, e1, e2, _⟩ := exG_slot3
  have := amp_unique exG_inv hs (t := 550) (by omega) (by omega)
  rw [e1] at this; exact this
example : ampAt exG 550 = [(3, 6)] ∧ detAt exG 103 = [(1, 103)] ∧ phaseAt exG true 550 = some 3 := by
  decide +kernel
/-- amp_zero_outside: in the inserted delay nothing plays, and the phase switches from the first
to the second pulse at `max (544 − 240) 104 = 304`. -/
example : ampAt exG 104 = [] ∧ detAt exG 543 = [] ∧ phaseAt exG true 303 = some 1 ∧
    phaseAt exG true 304 = some 3 := by decide +kernel
example : ∀ i s p, IsPulseSlot exG i s p → ¬ (s.ti ≤ 200 ∧ (200 : Int) < s.tf) := by
  intro i s p hs
  have hm := hs.mem
  have : ∀ x ∈ exG.pulseSlots, ¬ (x.s.ti ≤ 200 ∧ (200 : Int) < x.s.tf) := by decide +kernel
  exact this _ hm
/-- eom_idle_pulse: with the fall times in the oracle table the idle pulse is made. -/
example : (mkDetunedDelay { exG with ddOracle := [((-5, 48), (10, 4))] } 48 (-5) 0).toOption.map
    (fun p => (p.const, p.amp, p.det, p.dd)) = some (true, 0, -5, true) := by decide +kernel
/-- phase_zero_without_pulse on a freshly declared channel. -/
example : phaseAt ((run (SeqState.init exDev 3) [.declare (.user 0) 0 none]).chans[0]!) true 0 = none := by
  decide +kernel
/-- array_length -/
example : (getSamples exG true).amp.length = 596 ∧ exG.getDuration false = 596 := by decide +kernel
/-- extend_pads: the local channel (44 ns) extended to 50 ns. -/
example :
    let e := extendDuration (getSamples exL true) 50
    e.map (·.amp.length) = some 50 ∧ e.bind (·.amp[43]?) = some [(3, 23)] ∧ e.bind (·.amp[44]?) = some [] ∧
    e.bind (·.det[49]?) = some ⟨[], 0⟩ ∧ e.bind (·.phase[43]?) = some (some 3) ∧
    e.bind (·.phase[49]?) = some (some 3) := by decide +kernel
example : extendDuration (getSamples exL true) 43 = none := by decide +kernel
/-- … and in EOM mode the padding is the off-detuning. -/
example : ((extendDuration { (getSamples exL true) with openDetOff := some (-5) } 45).bind (·.det[44]?)) =
    some ⟨[], -5⟩ := by decide +kernel
/-- per_qubit_attribution: at t = 30 the local channel plays instruction 3 on atom 1 only. -/
example : (exL.view []).globalBranch false = false ∧
    attribAt (chanInstrs false {} 1 (exL.view [])) .digital (some 1) 30 = [(1, 1)] ∧
    attribAt (chanInstrs false {} 1 (exL.view [])) .digital (some 0) 30 = [] ∧
    attribAt (chanInstrs false {} 1 (exL.view [])) .digital (some 0) 10 = [(1, 1)] ∧
    ampAt exL 30 = [(3, 10)] := by decide +kernel
/-- eom_tail_attribution: the local channel's last slot is [20, 44) on atom 1; left in EOM mode it
keeps feeding atom 1 (and only atom 1) afterwards, otherwise it stops at 44. -/
example :
    let v := exL.view []
    let vo : ChanView := { v with openEom := true }
    v.slots.map (fun s => (s.ti, s.tf, s.targets)) = [(0, 20, [0, 2]), (20, 44, [1])] ∧
    attribAt (chanInstrs false {} 1 v) .digital (some 1) 500 = [] ∧
    attribAt (chanInstrs false {} 1 vo) .digital (some 1) 500 = [(1, 1)] ∧
    attribAt (chanInstrs false {} 1 vo) .digital (some 0) 500 = [] ∧
    attribAt (chanInstrs false {} 1 vo) .digital (some 0) 10 = [(1, 1)] := by decide +kernel
/-- … and a channel without pulses that is left in EOM mode feeds its last targets throughout. -/
example :
    let vo : ChanView := { (exL.view []) with slots := [], openEom := true, lastTargets := [1] }
    attribAt (chanInstrs false {} 1 vo) .digital (some 1) 7 = [(1, 1)] ∧
    attribAt (chanInstrs false {} 1 vo) .digital (some 0) 7 = [] := by decide +kernel
/-- global_attribution: the global channel goes to `Global` (no mask), and under `all_local` to each atom. -/
example : (exG.view []).globalBranch false = true ∧
    attribAt (nestedInstrs false {} [exG.view [], exL.view []]) .groundRydberg none 550 = [(0, 1)] ∧
    attribAt (nestedInstrs true {} [exG.view [], exL.view []]) .groundRydberg (some 2) 550 = [(0, 1)] ∧
    attribAt (nestedInstrs true {} [exG.view [], exL.view []]) .groundRydberg none 550 = [] := by
  decide +kernel
/-- XY mask window: a global XY channel with atom 1 masked until 104. -/
example :
    let v : ChanView := { (exG.view []) with basis := .xy }
    let m : SlmMask := { targets := [1], end_ := 104 }
    attribAt (chanInstrs false m 0 v) .xy none 50 = [] ∧
    attribAt (chanInstrs false m 0 v) .xy (some 0) 50 = [(0, 1)] ∧
    attribAt (chanInstrs false m 0 v) .xy (some 1) 50 = [] ∧
    attribAt (chanInstrs false m 0 v) .xy none 104 = [(0, 1)] ∧
    attribAt (chanInstrs true m 0 v) .xy (some 1) 50 = [] ∧
    attribAt (chanInstrs true m 0 v) .xy (some 1) 550 = [(0, 1)] := by decide +kernel
/-- … and a declared global XY channel without any pulse adds nothing before the mask end
(`if not cs.slots: continue`, repair of F-C06-2) and goes to `Global` afterwards. -/
example :
    let v : ChanView := { (exG.view []) with basis := .xy, slots := [] }
    let m : SlmMask := { targets := [1], end_ := 104 }
    attribAt (chanInstrs false m 0 v) .xy (some 0) 50 = [] ∧
    attribAt (chanInstrs false m 0 v) .xy none 50 = [] ∧
    attribAt (chanInstrs false m 0 v) .xy none 104 = [(0, 1)] := by decide +kernel
/-- per_atom_phase_sum / per_atom_phase_single_drive: both channels are written into the `Local`
entry of atom 1 under `all_local`; the committed rule sums both phases, the repaired rule keeps
the phase of the channel that drives (at t = 30 the local one, position 1). -/
example :
    let ins := nestedInstrs true {} [{ (exG.view []) with basis := .digital }, exL.view []]
    (attribAt ins .digital (some 1) 30).map (·.1) = [0, 1] ∧
    nestedPhaseAt ins (fun k => k == 1) .digital (some 1) 30 = [1] ∧
    nestedPhaseAt ins (fun k => k == 0) .digital (some 1) 30 = [0] ∧
    nestedPhaseAt ins (fun _ => true) .digital (some 1) 30 = [0, 1] := by decide +kernel
/-- DMM weights: the detuning of a DMM is weighted per atom. -/
example :
    let v : ChanView := { (exG.view [1/4, 0, 3/4]) with isDmm := true }
    attribAt (chanInstrs false {} 2 v) .groundRydberg (some 2) 50 = [(2, 3/4)] ∧
    attribAt (chanInstrs false {} 2 v) .groundRydberg (some 1) 50 = [(2, 0)] := by decide +kernel

end C06
end Pulser
