/-
  C20 — Observables and results are correct functions of the emulated state.   (PARTIAL)

  Decided here (over exact rationals, model `PulserModel/Measure.lean`):
    * the `Results` store: times strictly ascending, one value per time, retrievable by
      observable or tag, a second value at the same time raises           (§4 of the model)
    * which times an observable is evaluated at: the documented rule, the rule this tree
      implements, and exactly where they differ (finding F8)                         (§5)
    * `from_operator_repr` = documented tensor-product construction, entry by entry;
      composition / linearity laws of the matrix model                             (§8, §9)
    * the default observables are their definitions: bitstring probabilities, pure = mixed,
      occupation, energy second moment and variance on pure and mixed states          (§10)

  NOT decided by any theorem (smoke differential in the monitor, labelled a test):
  that the V2 backend hands the observables the right state at the right time — that is a
  statement about QuTiP's ODE integrators on float64.

  Only property theorems and their non-vacuity examples live here; lemmas are in
  Proofs/Measure.lean.
-/
import Proofs.Measure
namespace Pulser
namespace C20
open Measure

/-! ## Results store -/

/-- A request to `Results._store_raw`. -/
structure Req where
  uuid : Nat
  tag : Nat
  time : Rat
  value : Int

/-- Any history of `_store` calls; a raising call leaves what Python leaves. -/
def runStore (s : Store) : List Req → Store
  | [] => s
  | r :: rest => runStore (storeRaw s r.uuid r.tag r.time r.value).st rest

/-- **Clause "Results hold one value per evaluation time, in ascending order".**  After any
history of store calls (including calls that raise) on a fresh `Results`, every observable's
list of times is strictly ascending (so duplicate-free) and has exactly one value per time. -/
theorem store_invariant (reqs : List Req) (u : Nat) :
    (getTimes (runStore {} reqs) u).Pairwise (· < ·) ∧
    (getTimes (runStore {} reqs) u).length = (valsOf (runStore {} reqs) u).length := by
  have h0 : StoreInv ({} : Store) := by
    intro u; simp [timesOf, valsOf, alookup, StrictAsc]
  have key : ∀ (s : Store), StoreInv s → StoreInv (runStore s reqs) := by
    induction reqs with
    | nil => intro s hs; exact hs
    | cons r rest ih => intro s hs; exact ih _ (storeRaw_inv s hs r.uuid r.tag r.time r.value)
  exact key {} h0 u

/-- **Clause "retrievable by observable or tag".**  A value stored successfully is returned
by `get_result` for the observable and is found under its tag ... -/
theorem store_retrievable (reqs : List Req) (r : Req)
    (h : (storeRaw (runStore {} reqs) r.uuid r.tag r.time r.value).err = none) :
    let s' := (storeRaw (runStore {} reqs) r.uuid r.tag r.time r.value).st
    getResult s' r.uuid r.time = .ok r.value ∧ findByObs s' r.uuid = .ok r.uuid ∧
      findByTag s' r.tag = .ok r.uuid := by
  have h0 : StoreInv ({} : Store) := by
    intro u; simp [timesOf, valsOf, alookup, StrictAsc]
  have key : ∀ (l : List Req) (s : Store), StoreInv s → StoreInv (runStore s l) := by
    intro l
    induction l with
    | nil => intro s hs; exact hs
    | cons r rest ih => intro s hs; exact ih _ (storeRaw_inv s hs r.uuid r.tag r.time r.value)
  exact store_get _ (key reqs {} h0) r.uuid r.tag r.time r.value h

/-- ... and stays retrievable, unchanged, whatever is stored (or fails to be stored) later. -/
theorem store_retrievable_later (s : Store) (hs : StoreInv s) (u0 : Nat) (t0 : Rat) (v0 : Int)
    (h0 : getResult s u0 t0 = .ok v0) (later : List Req) :
    getResult (runStore s later) u0 t0 = .ok v0 := by
  induction later generalizing s with
  | nil => exact h0
  | cons r rest ih =>
    exact ih _ (storeRaw_inv s hs r.uuid r.tag r.time r.value)
      (store_preserves s hs u0 t0 v0 h0 r.uuid r.tag r.time r.value)

/-- The tag keeps pointing at the observable as long as no *other* observable uses the same
tag (which `EmulationConfig.__init__` forbids). -/
theorem store_tag_stable (s : Store) (u tag : Nat) (h : findByTag s tag = .ok u) (r : Req)
    (hr : r.tag ≠ tag ∨ r.uuid = u) :
    findByTag (storeRaw s r.uuid r.tag r.time r.value).st tag = .ok u :=
  findByTag_preserved s u tag r.uuid r.tag r.time r.value h hr

/-- **Clause "one value per time".**  Storing again at a time that already holds a value
raises `RuntimeError` and leaves the object unchanged. -/
theorem store_twice_raises (s : Store) (r : Req) (tag' : Nat) (v' : Int)
    (h : (storeRaw s r.uuid r.tag r.time r.value).err = none) :
    (storeRaw (storeRaw s r.uuid r.tag r.time r.value).st r.uuid tag' r.time v').err = some .runtime ∧
    (storeRaw (storeRaw s r.uuid r.tag r.time r.value).st r.uuid tag' r.time v').st =
      (storeRaw s r.uuid r.tag r.time r.value).st :=
  Measure.store_twice_raises s r.uuid r.tag tag' r.time r.value v' h

/-- Non-vacuity: a concrete history with a duplicate and an out-of-order call. -/
example :
    let s := runStore {} [⟨1, 7, 1/4, 10⟩, ⟨1, 7, 1/2, 11⟩, ⟨1, 7, 1/2, 12⟩, ⟨1, 7, 1/8, 13⟩, ⟨2, 9, 1, 5⟩]
    getTimes s 1 = [1/4, 1/2] ∧ getResult s 1 (1/2) = .ok 11 ∧ findByTag s 9 = .ok 2 ∧
      (storeRaw s 1 7 (1/2) 0).err = some .runtime ∧ (storeRaw s 1 7 (1/8) 0).err = some .assertion := by
  decide +kernel

/-! ## Evaluation times of an observable -/

/-- **Clause "one value per *requested* evaluation time" — the documented rule.**
An observable with its own evaluation times is evaluated exactly at those; one without is
evaluated exactly at the configuration's default times. -/
theorem should_evaluate (dflt : DefaultTimes) (t tol : Rat) :
    (∀ own : List Rat, shouldEvaluateSpec (some own) dflt t tol = inTimes t own tol) ∧
    shouldEvaluateSpec none dflt t tol = isEvaluationTime dflt t tol :=
  ⟨fun _ => rfl, rfl⟩

/-- Membership test used for the matching (`is_time_in_evaluation_times`). -/
theorem in_times_iff (t : Rat) (l : List Rat) (tol : Rat) :
    inTimes t l tol = true ↔ (0 ≤ t ∧ t ≤ 1 ∧ ∃ x ∈ l, absR (x - t) ≤ tol) :=
  inTimes_iff t l tol

/-- **Finding F8.**  The condition written in this tree's `Observable.__call__` is *not* the
documented rule: an observable asked for at `[0.5]` is also evaluated at the default time 1. -/
theorem should_evaluate_counterexample :
    shouldEvaluateCode (some [1/2]) (.times [1]) 1 (timeTol 100) = true ∧
    shouldEvaluateSpec (some [1/2]) (.times [1]) 1 (timeTol 100) = false := by
  decide +kernel

/-- Exactly where the two differ: the tree's rule agrees with the documented one iff the
observable has no times of its own, or the time is not a default time, or it is one of its own. -/
theorem should_evaluate_divergence (own : Option (List Rat)) (dflt : DefaultTimes) (t tol : Rat) :
    shouldEvaluateCode own dflt t tol = shouldEvaluateSpec own dflt t tol ↔
      (own = none ∨ isEvaluationTime dflt t tol = false ∨
        ∃ l, own = some l ∧ inTimes t l tol = true) :=
  shouldEvaluate_code_eq_spec_iff own dflt t tol

/-- The tree's rule only ever *adds* evaluations (no requested value is lost). -/
theorem should_evaluate_code_superset (own : Option (List Rat)) (dflt : DefaultTimes) (t tol : Rat)
    (h : shouldEvaluateSpec own dflt t tol = true) : shouldEvaluateCode own dflt t tol = true :=
  shouldEvaluate_spec_imp_code own dflt t tol h

example : shouldEvaluateSpec none (.times [1/4, 1]) (1/4) (timeTol 1000) = true := by decide +kernel
example : shouldEvaluateSpec (some [1/2]) .full (1/4) (timeTol 1000) = false := by decide +kernel

/-! ## Operators from their representation -/

/-- **Clause "operators built from their representation equal the documented tensor-product
construction".**  `from_operator_repr` (Kronecker products of identities and single-qudit
operators, summed with the coefficients) has, at row `σ` and column `τ` (qudit 0 most
significant), the entry `Σ_k c_k Π_i ⟨σᵢ|o_{k,i}|τᵢ⟩`. -/
theorem operator_from_repr (d n : Nat) (fo : FullOp) (σ τ : List Nat)
    (hs : σ.length = n) (ht : τ.length = n) (hds : ∀ a ∈ σ, a < d) (hdt : ∀ a ∈ τ, a < d) :
    (fromRepr d n fo).f (index d σ) (index d τ) = fromReprEntry d n fo σ τ :=
  fromRepr_entry d n fo σ τ hs ht hds hdt

/-- The Kronecker product in index form (`qutip.tensor`). -/
theorem kron_entry (A B : Mat) (i j k l : Nat) (hk : k < B.r) (hl : l < B.c) :
    (Mat.kron A B).f (i * B.r + k) (j * B.c + l) = A.f i j * B.f k l :=
  Measure.kron_entry A B i j k l hk hl

/-- Non-vacuity: `0.5·X₀Y₁ + Z₁` on two qubits, all 16 entries. -/
example :
    let X : QuditOp := [(0, 1, 1), (1, 0, 1)]
    let Y : QuditOp := [(0, 1, ⟨0, -1⟩), (1, 0, ⟨0, 1⟩)]
    let Z : QuditOp := [(0, 0, 1), (1, 1, ⟨-1, 0⟩)]
    let fo : FullOp := [(⟨1/2, 0⟩, [(X, [0]), (Y, [1])]), (1, [(Z, [1])])]
    (fromRepr 2 2 fo).toLists =
      (allStates 2 2).map fun σ => (allStates 2 2).map fun τ => fromReprEntry 2 2 fo σ τ := by
  decide +kernel

/-- **Clause "act as matrices under composition and application".**  `(A @ B)` applied is `A`
applied after `B` (associativity of the entry-wise product). -/
theorem compose_then_apply (A B C : Mat) (i j : Nat) :
    (Mat.mul (Mat.mul A B) C).f i j = (Mat.mul A (Mat.mul B C)).f i j :=
  mul_assoc_entry A B C i j

/-- **Clause "addition, scaling".**  Expectation values are linear in the operator. -/
theorem expect_linear (z : CQ) (A B rho : Mat) (h : B.c = A.c) (hr : B.r = A.r) :
    expectDM (Mat.add (Mat.smul z A) B) rho = z * expectDM A rho + expectDM B rho := by
  rw [expectDM_add _ _ _ (by simpa [Mat.smul] using h) (by simpa [Mat.smul] using hr), expectDM_smul]

/-! ## Observables are their definitions -/

/-- **Clause "sampled bitstrings follow the state's measurement probabilities".**  The
probability `bitstring_probabilities` assigns to a bitstring is the total probability of the
basis states whose qudits are in the one-state exactly where the bitstring has a 1. -/
theorem bitstring_probs_convention (d n one : Nat) (h : one < d) (probs : List Rat)
    (bits : List Bool) (hn : bits.length = n) :
    weightIx d one probs bits = weightSpec d n one probs bits :=
  weightIx_eq_spec d n one h probs bits hn

/-- **Clause "for pure and mixed states".**  For `ρ = |ψ⟩⟨ψ|` the density-matrix formula
`Tr[Aρ]` and the state-vector formula `⟨ψ|A|ψ⟩` agree (energy, expectation, occupation …),
and so do the measurement probabilities. -/
theorem pure_eq_mixed (A psi : Mat) (hc : psi.c = 1) (hr : A.r = psi.r) :
    expectDM A (pureDM psi) = expectKet A psi ∧ probsDM (pureDM psi) = probsKet psi :=
  ⟨expectDM_pure A psi hc hr, probs_pure psi hc⟩

example :
    let psi := ketMat [⟨3/5, 0⟩, ⟨0, 4/5⟩]
    let H : Mat := Mat.ofLists 2 2 [[1, 1], [1, 2]]
    expectKet H psi = ⟨41/25, 0⟩ ∧ probsKet psi = [9/25, 16/25] := by decide +kernel

/-- **Clause "energy Tr[ρH(t)], its second moment Tr[ρH(t)²] and variance … for pure and mixed
states".**  What `EnergySecondMoment.apply` and `EnergyVariance.apply` compute in this tree
(`identity.expect(HρH†)`, minus `hamiltonian.expect(state)²`) *is* `Tr[ρH²]`, resp.
`Tr[ρH²] − Tr[ρH]²`, for every matrix `ρ` (pure or mixed) and every Hermitian `H`. -/
theorem energy_moments_are_definitions (H rho : Mat) (n : Nat) (hHr : H.r = n) (hHc : H.c = n)
    (hRc : rho.c = n) (herm : IsHermitian H n) :
    secondMomentCodeDM H rho = secondMomentDM H rho ∧ varianceCodeDM H rho = varianceDM H rho :=
  ⟨secondMomentCode_eq_def H rho n hHr hHc hRc herm, varianceCode_eq_def H rho n hHr hHc hRc herm⟩

/-- Non-vacuity on the maximally mixed qubit, `H = diag(1, 2)`: `5/2` and `1/4`. -/
example :
    let rho : Mat := Mat.ofLists 2 2 [[⟨1/2, 0⟩, 0], [0, ⟨1/2, 0⟩]]
    let H : Mat := Mat.ofLists 2 2 [[1, 0], [0, ⟨2, 0⟩]]
    secondMomentCodeDM H rho = ⟨5/2, 0⟩ ∧ varianceCodeDM H rho = ⟨1/4, 0⟩ := by
  decide +kernel

/-- **Findings F25/F26 (repaired in the tree; a statement about the OLD formulas).**  What the
tree computed before, `sqrt(Tr[(HρH†)²])`, is not `Tr[ρH²]` on a mixed state: maximally mixed
qubit, `H = diag(1, 2)`: `17/4 ≠ (5/2)²`; likewise the old subtrahend `Tr[ρ HρH†] = 5/4` is not
`Tr[ρH]² = 9/4`. -/
theorem energy_moments_old_counterexample :
    let rho : Mat := Mat.ofLists 2 2 [[⟨1/2, 0⟩, 0], [0, ⟨1/2, 0⟩]]
    let H : Mat := Mat.ofLists 2 2 [[1, 0], [0, ⟨2, 0⟩]]
    secondMomentDM H rho = ⟨5/2, 0⟩ ∧ secondMomentOldSqDM H rho = ⟨17/4, 0⟩ ∧
    energyDM H rho = ⟨3/2, 0⟩ ∧ varSubtrahendOldDM H rho = ⟨5/4, 0⟩ := by
  decide +kernel

/-- **Clause "occupation ⟨n_i⟩ … for pure and mixed states and any qudit dimension".**  The
expectation value of the number operator that `Occupation.apply` builds through
`from_operator_repr` is the definition `Σ_σ p_σ [σᵢ = one]` (`p` = diagonal of the state, qudit
`i` = `i`-th digit in register order), for every matrix `ρ`, every dimension `d` and every
number of qudits `n`. -/
theorem occupation_is_definition (d n one i : Nat) (hi : i < n) (rho : Mat) (hr : rho.r = d ^ n) :
    (expectDM (numberOp d n one [i]) rho).re = occupationSpec d n one (probsDM rho) i :=
  occupation_re d n one i hi rho hr

/-- … and the number operator itself is the diagonal projector on `σᵢ = one`. -/
theorem number_operator_entries (d n one i : Nat) (hi : i < n) (σ τ : List Nat)
    (hs : σ.length = n) (ht : τ.length = n) (hds : ∀ a ∈ σ, a < d) (hdt : ∀ a ∈ τ, a < d) :
    (numberOp d n one [i]).f (index d σ) (index d τ) = if σ = τ ∧ σ.getD i d = one then 1 else 0 :=
  numberOp_entry d n one i hi σ τ hs ht hds hdt

/-- Non-vacuity, and the two-qudit correlation `⟨n_0 n_1⟩ = Σ_σ p_σ [σ₀ = one ∧ σ₁ = one]` on a
two-qutrit instance (PARTIAL: for the correlation the general statement is not proved; its
ingredients are `operator_from_repr` and the proof pattern of `occupation_is_definition`). -/
theorem correlation_index_partial :
    let d := 3; let n := 2; let one := 2
    let rho : Mat := Mat.ofLists 9 9 ((List.range 9).map fun i => (List.range 9).map fun j =>
      if i = j then ⟨(i + 1 : Nat) / 45, 0⟩ else ⟨1 / 100, (i : Int) - j⟩)
    (List.range n).map (fun i => expectDM (numberOp d n one [i]) rho) =
      (List.range n).map (fun i => CQ.ofRat (occupationSpec d n one (probsDM rho) i)) ∧
    expectDM (numberOp d n one [0, 1]) rho = CQ.ofRat (correlationSpec d n one (probsDM rho) 0 1) := by
  decide +kernel

/-! ### `QutipState.overlap` of two pure states -/

/-- **The overlap of two kets is symmetric, non-negative, and is `|⟨a|b⟩|²`** (not the square of
the possibly complex inner product): `overlap(a, b) = overlap(b, a) ≥ 0`, and it is the product
`⟨a|b⟩·⟨b|a⟩`, the quantity `Tr(|a⟩⟨a| |b⟩⟨b|)` that the density-matrix branch computes. -/
theorem overlap_ket (A B : Mat) (h : A.r = B.r) :
    overlapKet A B = overlapKet B A ∧ 0 ≤ overlapKet A B ∧
    innerKet A B * innerKet B A = CQ.ofRat (overlapKet A B) := by
  refine ⟨?_, CQ.normSq_nonneg _, ?_⟩
  · unfold overlapKet; rw [innerKet_conj A B h, CQ.normSq_conj]
  · rw [innerKet_conj A B h]; unfold overlapKet
    ext <;> simp [CQ.normSq, CQ.ofRat] <;> ring

/-- Non-vacuity, and the case that separates `|z|²` from `z²`: `(|0⟩+|1⟩)` against `(|0⟩+i|1⟩)`
(unnormalised) has inner product `1 + i`, overlap `2`, while `(1+i)² = 2i` has real part `0`. -/
example : overlapKet (ketMat [1, 1]) (ketMat [1, ⟨0, 1⟩]) = 2 ∧
    (innerKet (ketMat [1, 1]) (ketMat [1, ⟨0, 1⟩]) * innerKet (ketMat [1, 1]) (ketMat [1, ⟨0, 1⟩])).re = 0 := by
  decide +kernel

/-- **Ket against density matrix agrees with ket against ket on pure states**: the branch
`overlap(|a⟩, ρ) = ⟨a|ρ|a⟩` of `QutipState.overlap`, at `ρ = |b⟩⟨b|`, is the ket–ket value
`|⟨a|b⟩|²` (so `Fidelity` does not depend on how a pure state happens to be stored). -/
theorem overlap_ket_dm_pure (A B : Mat) (h : A.r = B.r) (hB : B.c = 1) :
    expectKet (pureDM B) A = CQ.ofRat (overlapKet A B) := by
  rw [expectKet_pureDM A B hB]; exact (overlap_ket A B h).2.2

example : expectKet (pureDM (ketMat [1, ⟨0, 1⟩])) (ketMat [1, 1]) = ⟨2, 0⟩ := by decide +kernel

end C20
end Pulser
