/-
  C12 — A device accepts exactly the registers and layouts that fit its geometry.

  Only property theorems (and their non-vacuity examples) live here; the specification
  predicates (`Fits`, `LayoutFits`, `CoordsOk`, `ValidParams`) and helper lemmas are in
  Proofs/Geometry.lean.  Model: PulserModel/Geometry.lean.

  Clauses of the property and the theorems that carry them
    "accepts a register iff atom number, pairwise distance (and distinct), radial distance,
     dimensionality, and — from a layout — trap number, trap geometry, filling"
                                               validate_iff_fits, validate_layout_iff_fits,
                                               validate_mappable_iff, too_close_iff_distance
    "the atoms reported as offending are exactly the violating ones"
                                               culprits_exact, culprits_ordered
    "device objects with any valid combination of parameters can be constructed"
                                               device_params_ok
    "registers produced by the device-aware constructors are always accepted"
                                               NOT a theorem: float lattices and a greedy mesh
                                               search — monitor only (harness/props/C12.py)
  Idealisation: distances / norms / the filling product are exact (ℚ, ℝ for the square
  root); float64 rounding within ~1e-11 of a threshold is outside the theorems and is
  counted as float-ambiguous by the harness.
-/
import Proofs.Geometry
namespace Pulser
namespace C12
open Geom

/-- **The device accepts a register if and only if it fits**: `validate_register` raises
nothing exactly when the dimensionality is supported, there are no more atoms than the
maximum, every pair of atoms is at least the minimum distance apart (with the 1e-6 slack)
and distinct, every atom lies within the maximum radial distance and, when the register
comes from a layout, the layout fits (`LayoutFits`) and the filling fraction is within the
maximum.  (`hf`: a constructed device has a positive maximum filling, see `device_params_ok`.) -/
theorem validate_iff_fits (dev : DeviceGeom) (hf : 0 ≤ dev.maxFilling) (reg : RegG) :
    validateRegister dev reg = none ↔ Fits dev reg :=
  validateRegister_none_iff dev hf reg

/-- The same for `validate_layout`: allowed dimensionality, allowed number of traps, valid
trap geometry (distances and radial distance; no limit on the number of traps from
`max_atom_num`). -/
theorem validate_layout_iff_fits (dev : DeviceGeom) (L : LayoutG) :
    validateLayout dev L = none ↔ LayoutFits dev L :=
  validateLayout_none_iff dev L

/-- Sequence creation with a mappable register: the layout must fit and the number of
declared qubits must respect the filling fraction. -/
theorem validate_mappable_iff (dev : DeviceGeom) (hf : 0 ≤ dev.maxFilling) (L : LayoutG) (n : Nat) :
    validateMappable dev L n = none ↔
      LayoutFits dev L ∧ (n : Rat) ≤ (L.traps.length : Rat) * dev.maxFilling := by
  unfold validateMappable
  cases h : validateLayout dev L with
  | some e =>
    simp only [reduceCtorEq, false_iff, not_and]
    intro hl
    rw [(validateLayout_none_iff dev L).mpr hl] at h; cases h
  | none =>
    simp only [validateFilling_none_iff dev hf, (validateLayout_none_iff dev L).mp h, true_and]

/-- **What "too close" means**: the test on squared distances used by the model is the
test the code states on the distance itself, `√s − min_atom_distance < −1e-6 ∨ √s < 1e-6`
(closer than the minimum distance beyond the coordinate precision, or identical). -/
theorem too_close_iff_distance (m s : Rat) (hs : 0 ≤ s) :
    tooClose m s = true ↔
      (Real.sqrt (s : ℝ) - (m : ℝ) < -((eps : Rat) : ℝ) ∨ Real.sqrt (s : ℝ) < ((eps : Rat) : ℝ)) :=
  tooClose_iff_sqrt m s hs

/-- **The atoms reported as offending are exactly the violating ones.**
A distance error lists exactly the index pairs `i < j` that are too close; a radius error
lists exactly the atoms beyond the maximum radial distance; an atom-number error reports
the number of atoms, which exceeds the maximum. -/
theorem culprits_exact (dev : DeviceGeom) (ps : List Pos) (atoms : Bool) :
    (∀ pairs, validateCoords dev ps atoms = some (.distance pairs) →
      ∀ i j, (i, j) ∈ pairs ↔
        i < j ∧ j < ps.length ∧ tooClose dev.minDist (sqDist (ps.getD i []) (ps.getD j [])) = true) ∧
    (∀ ids, validateCoords dev ps atoms = some (.radius ids) →
      ∃ R, dev.maxRadial = some R ∧
        ∀ i, i ∈ ids ↔ i < ps.length ∧ (R : Rat) * R < sqNorm (ps.getD i [])) ∧
    (∀ n, validateCoords dev ps atoms = some (.atomsNumber n) →
      n = ps.length ∧ ∃ k, dev.maxAtomNum = some k ∧ k < n) := by
  refine ⟨?_, ?_, ?_⟩
  · intro pairs h i j
    unfold validateCoords at h
    split at h
    · cases h
    · split at h
      · cases h; exact mem_badPairs
      · unfold radiusCheck at h
        split at h
        · split at h <;> cases h
        · cases h
  · intro ids h
    unfold validateCoords at h
    split at h
    · cases h
    · split at h
      · cases h
      · unfold radiusCheck at h
        split at h
        · rename_i R hR
          split at h
          · cases h; exact ⟨R, hR, fun i => mem_tooFar⟩
          · cases h
        · cases h
  · intro n h
    unfold validateCoords at h
    split at h
    · rename_i hc
      cases h
      simp only [Bool.and_eq_true] at hc
      refine ⟨rfl, ?_⟩
      have := hc.2
      unfold exceeds at this
      split at this
      · rename_i k hk; exact ⟨k, hk, by simpa using this⟩
      · cases this
    · split at h
      · cases h
      · unfold radiusCheck at h
        split at h
        · split at h <;> cases h
        · cases h

/-- The culprits are listed in a fixed order: pairs in the order of `np.argwhere` on the
upper triangle (by `i`, then `j`), atoms by increasing index; nothing is listed twice. -/
theorem culprits_ordered (dev : DeviceGeom) (ps : List Pos) (R : Nat) :
    (badPairs dev ps).Pairwise (fun a b => a.1 < b.1 ∨ (a.1 = b.1 ∧ a.2 < b.2)) ∧
    (tooFar R ps).Pairwise (· < ·) := by
  constructor
  · apply List.Pairwise.filter
    unfold allPairs
    rw [List.pairwise_flatMap]
    constructor
    · intro i _
      rw [List.pairwise_map]
      apply List.Pairwise.imp _ ((List.pairwise_lt_range).filter _)
      intro a b hab
      exact .inr ⟨rfl, hab⟩
    · apply List.Pairwise.imp _ (List.pairwise_lt_range (n := ps.length))
      intro a b hab x hx y hy
      simp only [List.mem_map, List.mem_filter] at hx hy
      obtain ⟨_, _, rfl⟩ := hx
      obtain ⟨_, _, rfl⟩ := hy
      exact .inl hab
  · exact (List.pairwise_lt_range).filter _

/-- **Device objects with any valid combination of parameters can be constructed**, and
only those: `Device(**p)` / `VirtualDevice(**p)` raises nothing exactly when the documented
constraints `ValidParams p` hold (dimensions 2 or 3; Rydberg level in 50..100; non-negative
minimum distance; positive integer limits, undefined only where the device class allows;
`0 < max_layout_filling ≤ 1`; `0 < optimal ≤ max`; `min_layout_traps ≤ max_layout_traps` and
enough room for `max_atom_num` atoms; a DMM when the SLM mask is supported; distinct channel
ids, one per channel, none named like a DMM; a float `interaction_coeff_xy` with a Microwave
channel; for a `Device`: no virtual channel and fitting pre-calibrated layouts). -/
theorem device_params_ok (p : DevParams) : mkDevice p = none ↔ ValidParams p := by
  unfold mkDevice
  rw [firstErr_none_iff]
  simp only [List.mem_cons, List.not_mem_nil, or_false, forall_eq_or_imp, forall_eq,
    checkInt_none_iff, checkMinDist_none_iff, checkTraps_none_iff, checkChannelIds_none_iff]
  constructor
  · rintro ⟨h1, h2, h3, h4, h5, h6, h7, h8, h9, h10, h11, h12, h13, h14, h15, h16, h17⟩
    refine
      { dims := by by_contra h; simp [h] at h1
        ryd := by by_contra h; simp [h] at h2
        minDist := h3, maxAtom := h4, maxRadial := h5, maxSeq := h6, maxRuns := h7
        minTraps := h8, maxTraps := h9
        filling := by by_contra h; simp [h] at h10
        optimal := ?_, traps := h12
        slm := ?_, ids := h14, xy := ?_, physical := ?_ }
    · intro o ho
      rw [ho] at h11
      by_contra h; simp [h] at h11
    · intro hs hd
      simp [hs, hd] at h13
    · rintro ⟨c, hc, hx⟩
      by_contra hf
      have : (p.channels.any (·.xy) = true) := List.any_eq_true.mpr ⟨c, hc, hx⟩
      simp [this, hf] at h15
    · intro hv
      constructor
      · intro c hc
        by_contra hvc
        have : ((p.channels ++ p.dmms).any (·.virtualCh) = true) :=
          List.any_eq_true.mpr ⟨c, hc, by simpa using hvc⟩
        simp [hv, this] at h16
      · rw [← checkLayouts_none_iff]
        simpa [hv] using h17
  · intro h
    refine ⟨?_, ?_, h.minDist, h.maxAtom, h.maxRadial, h.maxSeq, h.maxRuns, h.minTraps, h.maxTraps,
      ?_, ?_, h.traps, ?_, h.ids, ?_, ?_, ?_⟩
    · simp [h.dims]
    · simp [h.ryd]
    · simp [h.filling]
    · cases ho : p.optimalLayoutFilling with
      | none => rfl
      | some o => simp [h.optimal o ho]
    · by_cases hs : p.supportsSlmMask = true
      · simp [h.slm hs]
      · simp [hs]
    · by_cases hx : p.channels.any (·.xy) = true
      · obtain ⟨c, hc, hcx⟩ := List.any_eq_true.mp hx
        simp [h.xy ⟨c, hc, hcx⟩]
      · simp [hx]
    · cases hv : p.virtualDev with
      | true => simp
      | false =>
        have := (h.physical hv).1
        have hn : (p.channels ++ p.dmms).any (·.virtualCh) = false := by
          rw [List.any_eq_false]
          intro c hc
          simp [this c hc]
        simp [hn]
    · cases hv : p.virtualDev with
      | true => simp
      | false =>
        simp only [Bool.false_eq_true, if_false]
        exact (checkLayouts_none_iff _ _).mpr (h.physical hv).2

/-! ### Non-vacuity -/

/-- A device like `AnalogDevice`: 2D, 5 µm apart, at most 6 atoms within 10 µm, layouts of
1..20 traps filled to at most one half. -/
def exDev : DeviceGeom :=
  { dims := 2, minDist := 5, maxAtomNum := some 6, maxRadial := some 10, minTraps := 1,
    maxTraps := some 20, maxFilling := 1 / 2 }

def exLayout : LayoutG := ⟨2, [[0, 0], [5, 0], [0, 5], [5, 5], [-5, 0], [0, -5]]⟩

/-- accepted: three atoms exactly 5 µm apart (3-4-5 triangle scaled), from a layout of 6 traps -/
def exReg : RegG := ⟨2, [[0, 0], [5, 0], [0, 5]], some exLayout⟩

example : validateRegister exDev exReg = none := by decide +kernel
example : Fits exDev exReg := (validate_iff_fits exDev (by decide +kernel) exReg).mp (by decide +kernel)

/-- one micro-unit inside the slack is accepted, beyond it is rejected with the exact culprits -/
example : validateRegister exDev ⟨2, [[0, 0], [4999999 / 1000000, 0], [0, 5]], none⟩ = none := by
  decide +kernel
example : validateRegister exDev ⟨2, [[0, 0], [4999998 / 1000000, 0], [0, 5], [3, 4]], none⟩
    = some (.coords (.distance [(0, 1), (1, 3), (2, 3)])) := by decide +kernel
example : validateRegister exDev ⟨2, [[0, 0], [6, 8], [0, -10], [10, 1 / 1000000]], none⟩
    = some (.coords (.radius [3])) := by decide +kernel
example : validateRegister exDev ⟨3, [[0, 0, 0], [6, 8, 0]], none⟩ = some .dimension := by decide +kernel
/-- four atoms on six traps exceed the filling of one half -/
example : validateRegister exDev ⟨2, [[0, 0], [5, 0], [0, 5], [5, 5]], some exLayout⟩
    = some (.filling 4 3) := by decide +kernel
/-- identical atoms are rejected even when the minimum distance is zero -/
example : validateRegister { exDev with minDist := 0 } ⟨2, [[1, 1], [1, 1]], none⟩
    = some (.coords (.distance [(0, 1)])) := by decide +kernel

def exParams : DevParams :=
  { virtualDev := true, dimensions := 2, rydbergLevel := 60, minAtomDistance := some 0,
    maxAtomNum := none, maxRadialDistance := none, maxSequenceDuration := none, maxRuns := none,
    minLayoutTraps := some 1, maxLayoutTraps := none, maxLayoutFilling := 1 / 2,
    optimalLayoutFilling := none, supportsSlmMask := true, channels := [⟨false, true⟩],
    dmms := [⟨false, true⟩], channelIds := none, coeffXYIsFloat := false, layouts := [] }

example : mkDevice exParams = none := by decide +kernel
example : ValidParams exParams := (device_params_ok exParams).mp (by decide +kernel)
/-- the same parameters cannot make a physical `Device`: limits undefined, virtual channels -/
example : mkDevice { exParams with virtualDev := false } = some (.noneNotAllowed "max_atom_num") := by
  decide +kernel
example : mkDevice { exParams with maxLayoutFilling := 3 / 2 } = some .maxFilling := by decide +kernel

end C12
end Pulser
