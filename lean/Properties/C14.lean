/-
  C14 — Output modulation is an area-preserving low-pass and fall times cover it
  (PARTIAL, level "other").

  Only property theorems (and their non-vacuity examples) live here; helper lemmas are in
  Proofs/Modulation.lean.  Model: PulserModel/Modulation.lean.

  Carried here: linearity and DC gain of the filter *as coded* (`ifft(fft(x)·m)` over any field
  with a primitive n-th root of unity) and of the circular-convolution reading; non-negativity
  and the max bound **under the hypothesis of a non-negative unit-sum kernel** (the real kernel
  is the inverse DFT of a sampled, truncated Gaussian and only satisfies this up to a ripple —
  that part is numeric validation); the −3 dB constant of `apply_modulation`; all the integer
  padding / slicing / length arithmetic of `Channel.modulate`, `Waveform.modulated_samples`,
  `ChannelSamples.modulate` and `sample(modulation=True)`; success of modulated sampling.  The
  repair of F14 (/repo d9bdcf58: guarded edge padding) is mirrored; `modulate_empty_old` states what
  the unguarded code did (numpy's "can't extend empty axis" modelled exactly).

  NOT carried (monitor only, `uncovered_clauses`): float FFT accuracy, the ripple bounds, the
  "below max(0.01, 0.6 % of peak) beyond the fall time" inequality, everything involving EOM blocks
  in `ChannelSamples.modulate`, and that the code's kernel `ifft(m)` is non-negative (it is not,
  exactly: see the ripple measured by the monitor).
-/
import Proofs.Modulation
import Mathlib.Analysis.SpecialFunctions.Log.Basic
import Mathlib.Analysis.Real.Sqrt
namespace Pulser
namespace C14
open Pulser.Mod Finset

/-! ### The filter -/

/-- **Linearity** of `apply_modulation` as coded, `ifft(fft(x)·m)`, in any commutative semiring
and for any tables of root-of-unity powers. -/
theorem modulate_linear {R : Type} [CommSemiring R] {n : Nat} (pw pwInv : Nat → R) (ninv : R)
    (m x y : Fin n → R) (a b : R) (i : Fin n) :
    modulateDft pw pwInv ninv m (fun j => a * x j + b * y j) i =
      a * modulateDft pw pwInv ninv m x i + b * modulateDft pw pwInv ninv m y i :=
  modulateDft_linear pw pwInv ninv m x y a b i

/-- Linearity in the circular-convolution reading. -/
theorem modulate_linear_conv {R : Type} [CommSemiring R] {n : Nat} (h x y : Fin n → R) (a b : R)
    (i : Fin n) :
    circConv h (fun j => a * x j + b * y j) i = a * circConv h x i + b * circConv h y i :=
  circConv_linear h x y a b i

/-- **The integral is preserved.**  Normalisation: forward transform `X k = Σ_j x j ω^(jk)`,
inverse transform with `ω⁻¹` and the factor `1/n` (numpy's `fft`/`ifft`).  For `ω` a primitive
n-th root of unity in a field, the output sums to `m 0 · Σ x`; so a transfer function with
`m 0 = 1` (here `exp(−0²/fc²) = 1`) preserves the sum, i.e. the integral. -/
theorem modulate_preserves_sum {K : Type} [Field K] {n : Nat} [NeZero n] (ω ωi ninv : K)
    (hω : ω ^ n = 1) (hinv : ω * ωi = 1) (hprim : ∀ k, 0 < k → k < n → ωi ^ k ≠ 1)
    (hn : ninv * (n : K) = 1) (m x : Fin n → K) (hm : m 0 = 1) :
    ∑ i, modulateDft (fun t => ω ^ t) (fun t => ωi ^ t) ninv m x i = ∑ j, x j := by
  rw [modulateDft_sum ω ωi ninv hω hinv hprim hn m x, hm, one_mul]

/-- The same in the convolution reading: the output sums to `(Σ h)·(Σ x)`. -/
theorem modulate_preserves_sum_conv {R : Type} [CommRing R] {n : Nat} [NeZero n] (h x : Fin n → R)
    (h1 : ∑ k, h k = 1) : ∑ i, circConv h x i = ∑ j, x j := by
  rw [circConv_sum, h1, one_mul]

/-- Non-vacuity of `modulate_preserves_sum`: ℚ, n = 2, ω = −1. -/
example : ∑ i, modulateDft (fun t => (-1 : ℚ) ^ t) (fun t => (-1 : ℚ) ^ t) (1 / 2)
    (fun k : Fin 2 => if k = 0 then 1 else 1 / 3) (fun j : Fin 2 => if j = 0 then 5 else 7) i = 12 := by
  have := modulate_preserves_sum (-1 : ℚ) (-1) (1 / 2) (n := 2) (by norm_num) (by norm_num)
    (by intro k h0 h2; obtain rfl : k = 1 := by omega
        norm_num) (by norm_num)
    (fun k : Fin 2 => if k = 0 then 1 else 1 / 3) (fun j : Fin 2 => if j = 0 then 5 else 7) (by simp)
  rw [this]; simp [Fin.sum_univ_two]; norm_num

/-- **The two readings agree** (convolution theorem): for `ω` with `ω^n = 1` and inverse `ωi`, the
filter as coded, `ifft(fft(x)·m)`, *is* the circular convolution of `x` with the impulse response
`kernelOf = ifft(m)`.  Hence the kernel-level statements below speak about the code's filter. -/
theorem modulate_is_convolution {K : Type} [Field K] {n : Nat} (ω ωi ninv : K) (hω : ω ^ n = 1)
    (hinv : ω * ωi = 1) (m x : Fin n → K) (i : Fin n) :
    modulateDft (fun t => ω ^ t) (fun t => ωi ^ t) ninv m x i =
      circConv (kernelOf (fun t => ωi ^ t) ninv m) x i :=
  modulateDft_eq_circConv ω ωi ninv hω hinv m x i

/-- **No negative output from non-negative input, no output above the input maximum** — for a
kernel that is non-negative and sums to one.  (Hypothesis on the kernel: true of a Gaussian,
true of the code's sampled kernel only up to the truncation ripple; see the monitor.) -/
theorem modulate_nonneg_and_bounded {K : Type} [CommRing K] [LinearOrder K] [IsStrictOrderedRing K]
    {n : Nat} [NeZero n] (h x : Fin n → K) (hh : ∀ k, 0 ≤ h k) (h1 : ∑ k, h k = 1) :
    ((∀ j, 0 ≤ x j) → ∀ i, 0 ≤ circConv h x i) ∧
    (∀ M, (∀ j, x j ≤ M) → ∀ i, circConv h x i ≤ M) :=
  ⟨fun hx i => circConv_nonneg h x hh hx i, fun M hx i => circConv_le_bound h x hh h1 M hx i⟩

/-- **Half amplitude at the bandwidth**: with `fc = bw·10⁻³/√(ln 2)` (the constant of
`apply_modulation`), the transfer function `exp(−f²/fc²)` at `f = bw·10⁻³` equals `1/2`. -/
theorem gain_at_bandwidth (bw : ℝ) (hbw : bw ≠ 0) :
    Real.exp (-(bw * 1e-3) ^ 2 / (bw * 1e-3 / Real.sqrt (Real.log 2)) ^ 2) = 1 / 2 := by
  have hl : 0 < Real.log 2 := Real.log_pos (by norm_num)
  rw [div_pow, Real.sq_sqrt hl.le]
  have hb : (bw * 1e-3) ^ 2 ≠ 0 := by
    apply pow_ne_zero; apply mul_ne_zero hbw; norm_num
  have : -(bw * 1e-3) ^ 2 / ((bw * 1e-3) ^ 2 / Real.log 2) = -Real.log 2 := by
    field_simp
  rw [this, Real.exp_neg, Real.exp_log (by norm_num)]; norm_num

/-! ### Lengths -/

/-- **One rise time at each end.**  `Channel.modulate` of `n` samples returns `n + 2·padding`
samples (`padding` = rise time of the channel, or of the EOM when `eom=True`): always without
`keep_ends`; with `keep_ends` provided `rise_time ≥ 1` — for every input, the empty one included
(since /repo d9bdcf58).  A channel without bandwidth returns its input. -/
theorem modulate_length {α : Type} [Zero α] (filt : List α → List α)
    (hf : ∀ l, (filt l).length = l.length) (c : ModCfg) (x : List α) :
    (c.filters = false → ∀ k, channelModulate filt c x k = x) ∧
    (c.filters = true → (channelModulate filt c x false).length = x.length + 2 * c.pad) ∧
    (c.filters = true → 1 ≤ c.rise → (channelModulate filt c x true).length = x.length + 2 * c.pad) :=
  ⟨fun hc k => channelModulate_nofilter filt c hc x k,
   fun hc => channelModulate_plain filt hf c hc x,
   fun hc hr => channelModulate_keep filt hf c hc hr x⟩

/-- The hypothesis `rise_time ≥ 1` of the `keep_ends` case is forced: `rise_time = 0` would return
*no* sample (`[0:-0]`; excluded on real channels by `mod_bandwidth ≤ 480 MHz`, which the monitor
checks). -/
theorem modulate_keep_ends_degenerate {α : Type} [Zero α] (filt : List α → List α) (c : ModCfg)
    (hc : c.filters = true) (hr : c.rise = 0) (x : List α) : channelModulate filt c x true = [] :=
  channelModulate_keep_zero_rise filt c hc hr x

/-- **F14, about the old code** (before /repo d9bdcf58): `Channel.modulate([], keep_ends=True)` was
numpy's empty edge-pad error, and on every other input the old and the repaired function agree. -/
theorem modulate_empty_old {α : Type} [Zero α] (filt : List α → List α) (c : ModCfg)
    (hc : c.filters = true) (hk : 0 < c.pad + c.rise) :
    channelModulateOld filt c ([] : List α) true = none ∧
    ∀ (x : List α) (k : Bool), (x ≠ [] ∨ k = false) →
      channelModulateOld filt c x k = some (channelModulate filt c x k) :=
  ⟨channelModulateOld_keep_empty filt c hc hk, fun x k h => channelModulateOld_eq filt c x k h⟩

/-- `Waveform.modulated_samples`: trimming the `n + 2·tr` modulated samples with buffers
`start, end ≤ tr` leaves `n + start + end` samples. -/
theorem modulated_samples_length {α : Type} (mod : List α) (n tr start stop : Nat)
    (hm : mod.length = n + 2 * tr) (hs : start ≤ tr) (he : stop ≤ tr) :
    (trimModulated mod tr start stop).length = n + start + stop :=
  trimModulated_length mod n tr start stop hm hs he

/-- **Modulated sampling ends at the channel duration including fall time.**  For a channel with
`n ≥ 0` plain samples in each array and a bandwidth (`rise ≥ 1`, standard padding), without
`extended_duration`, and with `get_duration(include_fall_time=True) ≤ n + 2·rise` (hypothesis A1
of DESIGN §4: fall time ≤ 2·rise time, monitored), the three arrays returned by
`sample(seq, modulation=True)` have exactly that length.  Empty channels included: their samples
are returned unchanged (/repo 0b0bffd1) and their duration including fall time is 0 (`hempty`,
a fact of `_ChannelSchedule.get_duration`). -/
theorem modulated_sampling_length {α : Type} [Zero α] (filt : List α → List α)
    (hf : ∀ l, (filt l).length = l.length) (c : ModCfg) (hc : c.filters = true) (hr : 1 ≤ c.rise)
    (hp : c.pad = c.rise) (s : CS α) (n durWithFall : Nat)
    (ha : s.amp.length = n) (hd : s.det.length = n) (hph : s.phase.length = n)
    (hfall : durWithFall ≤ n + 2 * c.rise) (hempty : n = 0 → durWithFall = 0) :
    ∃ r, sampleChannel filt c s true 0 durWithFall = some r ∧
      r.amp.length = durWithFall ∧ r.det.length = durWithFall ∧ r.phase.length = durWithFall :=
  ⟨_, by simp [sampleChannel],
    csModulate_lengths filt hf c hc hr s n durWithFall ha hd hph (by rw [hp]; exact hfall) hempty⟩

/-- A channel without bandwidth: the arrays keep their `n` samples (fall time 0: A3). -/
theorem modulated_sampling_length_nobw {α : Type} [Zero α] (filt : List α → List α) (c : ModCfg)
    (hc : c.filters = false) (s : CS α) (n : Nat)
    (ha : s.amp.length = n) (hd : s.det.length = n) (hph : s.phase.length = n) :
    ∃ r, sampleChannel filt c s true 0 n = some r ∧
      r.amp.length = n ∧ r.det.length = n ∧ r.phase.length = n :=
  ⟨_, by simp [sampleChannel],
    csModulate_nofilter_lengths filt c hc s n n ha hd hph (Nat.le_refl _)⟩

/-- With `extended_duration = E ≥ n`, `E > 0`, the arrays have length `E`. -/
theorem modulated_sampling_length_extended {α : Type} [Zero α] (filt : List α → List α)
    (hf : ∀ l, (filt l).length = l.length) (c : ModCfg) (hc : c.filters = true) (hr : 1 ≤ c.rise)
    (s : CS α) (n E d : Nat) (hE0 : E ≠ 0) (hE : n ≤ E)
    (ha : s.amp.length = n) (hd : s.det.length = n) (hph : s.phase.length = n) :
    ∃ r, sampleChannel filt c s true E d = some r ∧
      r.amp.length = E ∧ r.det.length = E ∧ r.phase.length = E := by
  have hlt : ¬ E < s.amp.length := by omega
  cases hb : s.phase.getLast? with
  | some b =>
    refine ⟨csModulate filt c
      { amp := s.amp ++ List.replicate (E - s.amp.length) 0,
        det := s.det ++ List.replicate (E - s.amp.length) 0,
        phase := s.phase ++ List.replicate (E - s.amp.length) b } (some E),
      by simp [sampleChannel, hE0, extendDuration, hlt, hb], ?_⟩
    exact csModulate_lengths filt hf c hc hr _ E E (by simp [ha]; omega) (by simp [ha, hd]; omega)
      (by simp [ha, hph]; omega) (by omega) (by omega)
  | none =>
    have hnil : s.phase = [] := List.getLast?_eq_none_iff.mp hb
    have hn0 : n = 0 := by rw [← hph, hnil]; rfl
    refine ⟨csModulate filt c
      { amp := s.amp ++ List.replicate (E - s.amp.length) 0,
        det := s.det ++ List.replicate (E - s.amp.length) 0,
        phase := List.replicate (E - s.amp.length) 0 } (some E),
      by simp [sampleChannel, hE0, extendDuration, hlt, hb], ?_⟩
    exact csModulate_lengths filt hf c hc hr _ E E (by simp [ha]; omega) (by simp [ha, hd]; omega)
      (by simp [ha, hn0]) (by omega) (by omega)

/-! ### Success -/

/-- **Modulated sampling succeeds whenever plain sampling does** — for every channel, empty ones
included (the domain restriction that F14 forced is gone since /repo d9bdcf58): both differ only
by the total step `csModulate`. -/
theorem modulated_sampling_succeeds {α : Type} [Zero α] (filt : List α → List α) (c : ModCfg)
    (s : CS α) (E d : Nat) (hplain : (sampleChannel filt c s false E d).isSome = true) :
    (sampleChannel filt c s true E d).isSome = true := by
  unfold sampleChannel at hplain ⊢
  cases h : (if E ≠ 0 then extendDuration s E else some s) with
  | none => simp [h] at hplain
  | some s1 => simp

/-- An empty channel with a bandwidth is sampled to empty arrays, modulated or not. -/
theorem modulated_sampling_empty {α : Type} [Zero α] (filt : List α → List α) (c : ModCfg) :
    (sampleChannel filt c ({ amp := [], det := [], phase := [] } : CS α) true 0 0).map
      (fun r => (r.amp, r.det, r.phase)) = some ([], [], []) := by
  simp [sampleChannel, csModulate]

/-- Non-vacuity: identity filter, rise time 2: 3 samples become 7, cut at 5; lengths as stated. -/
example : (sampleChannel (α := Int) id ⟨true, 2, 2⟩ ⟨[1, 2, 3], [4, 5, 6], [7, 7, 7]⟩ true 0 5).map
    (fun r => (r.amp, r.det, r.phase)) =
    some ([0, 0, 1, 2, 3], [4, 4, 4, 5, 6], [7, 7, 7, 7, 7]) := by decide

example : (channelModulate (α := Int) id ⟨true, 2, 2⟩ [] true, channelModulateOld (α := Int) id ⟨true, 2, 2⟩ [] true)
    = ([0, 0, 0, 0], none) := by decide

end C14
end Pulser
