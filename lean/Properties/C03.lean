import PulserModel.Sequence
