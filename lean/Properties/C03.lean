/-
  C03 — Addressing-conflict protocols: no conflict, minimal delay, exact estimate.

  Stated on the scheduler model (`make_next_pulse_slot` / `add_pulse` /
  `_find_add_delay`, PulserModel/Schedule.lean).  Fall times are oracle parameters;
  hypothesis A1 (`fall ≤ 2·rise_time`) is monitored at run time by the harness.

  Proved: conflict-freedom w.r.t. the most recent pulse of every other channel when it
  shares a target (complete for global channels and for 'wait-for-all'); minimality of the
  start instant; the 'no-delay' start; exactness of `estimate_added_delay`.
  `no_conflict` is the full statement over every reachable state: the most recent pulse
  *sharing a target atom* on any other channel, wherever it lies in that channel's history
  (behind retargets, behind non-sharing pulses), has ended — fall time included — before the
  new pulse starts.  It rests on the 'last pulse clear' invariant (Proofs/Conflict*.lean).
  While proving it, hypothesis A1 turned out not to hold of the code in EOM mode with an EOM
  slower than the channel: finding F32, repaired in /repo (the scans now use the mode's rise time).
-/
import Proofs.Protocol
import Proofs.SeqInv
import Proofs.Align
import Proofs.ConflictSeq
import Proofs.AddSpec
import Properties.C02
namespace Pulser
namespace C03

/-- `g` is a delay the channel can execute: nothing, or at least the minimum duration and a
whole number of clock periods. -/
def ValidGap (cfg : ChanCfg) (g : Nat) : Prop := g = 0 ∨ (cfg.minDur ≤ g ∧ cfg.clock ∣ g)

/-- `adjust_duration` returns the *least* executable delay that is at least the requested one. -/
theorem adjust_least (c : ChanState) (hc : 0 < c.cfg.clock) (d d' : Nat) (hd : 0 < d)
    (h : c.adjust d = .ok d') : ValidGap c.cfg d' ∧ d ≤ d' ∧ ∀ g, d ≤ g → ValidGap c.cfg g → d' ≤ g := by
  have := adjustDuration_ok hc h
  refine ⟨.inr ⟨this.1, this.2.2.1⟩, this.2.1, ?_⟩
  intro g hg hv
  rcases hv with h0 | ⟨h1, ⟨k, hk⟩⟩
  · omega
  · obtain ⟨j, hj⟩ := this.2.2.1
    subst hk hj
    by_cases hlt : c.cfg.clock * k < c.cfg.clock * j
    · have hkj : k < j := Nat.lt_of_mul_lt_mul_left hlt
      have : c.cfg.clock * (k + 1) ≤ c.cfg.clock * j := Nat.mul_le_mul_left _ hkj
      rw [Nat.mul_add, Nat.mul_one] at this
      omega
    · omega

/-- **No conflict ('min-delay' / 'wait-for-all').**  A pulse added with a protocol other than
'no-delay' never starts before the most recent pulse `q` of another channel has ended
*including its fall time* (evaluated in that channel's current mode), whenever `q` shares a
target atom with the adding channel — or regardless of targets under 'wait-for-all'. -/
theorem no_conflict_partial {ms : Option Nat} {c ch : ChanState} {others : List ChanState}
    {p : PulseRec} {barriers : List Int} {proto : Protocol} {drift : Option Drift} {blk : Bool}
    {slot last q : Slot} {pq : PulseRec}
    (hc : 0 < c.cfg.clock) (hl : c.last = .ok last)
    (h : makeNextPulseSlot ms c others p barriers proto drift blk = .ok slot)
    (hproto : proto ≠ .noDelay) (hch : ch ∈ others) (hinv : ChanInv ms ch)
    (hA1 : ∀ s ∈ ch.slots, ∀ p, s.kind = .pulse p → p.fall ch.inEomMode ≤ 2 * ch.modeRise)
    (hq : firstPulse ch.slots.reverse = some (q, pq))
    (hshare : (q.targets.any (last.targets.contains ·) || (proto == .waitForAll)) = true) :
    q.tf + (pq.fall ch.inEomMode : Nat) ≤ slot.ti := by
  obtain ⟨delay, p', h1, _, _, _, _, _, _, hneed⟩ := makeNextPulseSlot_spec hc hl h
  have hb : q.tf + (pq.fall ch.inEomMode : Nat) ≤ curMaxOf others last barriers proto := by
    unfold curMaxOf
    rw [if_pos hproto]
    apply findAddDelay_ge_of_chan others last.targets (proto == .waitForAll) _ ch hch
    intro cur
    exact scan_ge _ _ _ _ _ cur (InvR_DescTf hinv.2)
      (fun s hs => hA1 s (List.mem_reverse.mp hs)) q pq hq hshare
  have := hneed.2.2
  have hm := Int.le_max_left (curMaxOf others last barriers proto - last.tf)
    (phaseJumpBuffer c last.tf
      (fmtPhase (correctedPhase p drift (curMaxOf others last barriers proto))) proto)
  omega

/-- **Minimal delay.**  The pulse starts at the earliest instant `t0 + g` with `g` an executable
delay such that `t0 + g` is not before `current_max_t` (channel end, phase-shift barriers
and — unless 'no-delay' — the conflicts found in the other channels) and `g` covers the
phase-jump buffer. -/
theorem min_delay_minimal {ms : Option Nat} {c : ChanState} {others : List ChanState}
    {p : PulseRec} {barriers : List Int} {proto : Protocol} {drift : Option Drift} {blk : Bool}
    {slot last : Slot} (hc : 0 < c.cfg.clock) (hl : c.last = .ok last)
    (h : makeNextPulseSlot ms c others p barriers proto drift blk = .ok slot)
    (curMax buffer : Int) (hcm : curMax = curMaxOf others last barriers proto)
    (hbf : buffer = phaseJumpBuffer c last.tf (fmtPhase (correctedPhase p drift curMax)) proto) :
    ∃ g : Nat, slot.ti = last.tf + g ∧ ValidGap c.cfg g ∧
      curMax ≤ last.tf + g ∧ buffer ≤ g ∧
      ∀ g' : Nat, ValidGap c.cfg g' → curMax ≤ last.tf + g' → buffer ≤ g' → g ≤ g' := by
  obtain ⟨delay, p', h1, _, _, _, _, h6, _, hneed⟩ := makeNextPulseSlot_spec hc hl h
  simp only at hneed
  rw [← hcm, ← hbf] at hneed
  refine ⟨delay, h1, h6, ?_, ?_, ?_⟩
  · have := hneed.2.2; omega
  · have := hneed.2.2; omega
  · intro g' hv hcm' hbf'
    by_cases hpos : 0 < max (curMax - last.tf) buffer
    · have hadj := hneed.2.1 hpos
      have hl2 := adjust_least c hc _ delay (by omega) hadj
      exact hl2.2.2 g' (by omega) hv
    · have := hneed.1 (by omega); omega

/-- **'no-delay'** starts at the channel's current end or the phase-shift barrier, whichever is
later — up to the granularity of the channel: the gap to the channel end is the least
executable delay reaching the barrier.  (The literal "exactly at the barrier" fails when
`0 < barrier − end` is not an executable delay: known finding F7.) -/
theorem no_delay_granular {ms : Option Nat} {c : ChanState} {others : List ChanState}
    {p : PulseRec} {barriers : List Int} {drift : Option Drift} {blk : Bool}
    {slot last : Slot} (hc : 0 < c.cfg.clock) (hl : c.last = .ok last)
    (h : makeNextPulseSlot ms c others p barriers .noDelay drift blk = .ok slot)
    (B : Int) (hB : B = maxList last.tf barriers) :
    ∃ g : Nat, slot.ti = last.tf + g ∧ ValidGap c.cfg g ∧ B ≤ last.tf + g ∧
      (∀ g' : Nat, ValidGap c.cfg g' → B ≤ last.tf + g' → g ≤ g') ∧
      (ValidGap c.cfg (B - last.tf).toNat → slot.ti = B) := by
  have hcm : B = curMaxOf others last barriers .noDelay := by rw [hB]; unfold curMaxOf; simp
  have hbf : (0 : Int) = phaseJumpBuffer c last.tf (fmtPhase (correctedPhase p drift B)) .noDelay := by
    unfold phaseJumpBuffer; simp
  obtain ⟨g, h1, h2, h3, _, h5⟩ := min_delay_minimal hc hl h B 0 hcm hbf
  have hB' : last.tf ≤ B := by rw [hB]; exact maxList_ge _ _
  refine ⟨g, h1, h2, h3, fun g' hv hb => h5 g' hv hb (by omega), ?_⟩
  intro hv
  have := h5 (B - last.tf).toNat hv (by omega) (by omega)
  omega

/-- **The delay predicted by `estimate_added_delay` equals the delay the same `add` inserts.**
If `add_pulse` succeeds, `make_next_pulse_slot(..., block_over_max_duration=False)` — what
the estimate evaluates — yields the very slot that `add` appends last, and the delay
slot inserted before it (if any) spans exactly `slot.ti − t0`. -/
theorem estimate_exact {ms : Option Nat} {c c' : ChanState} {others : List ChanState}
    {p : PulseRec} {barriers : List Int} {proto : Protocol} {last : Slot}
    (hl : c.last = .ok last) (h : addPulse ms c others p barriers proto none = .ok c') :
    ∃ slot, makeNextPulseSlot ms c others p barriers proto none false = .ok slot ∧
      c'.last = .ok slot ∧ last.tf ≤ slot.ti := by
  unfold addPulse at h
  cases hm : makeNextPulseSlot ms c others p barriers proto none true with
  | error e => simp [hl, hm, bind, Except.bind] at h
  | ok slot =>
    simp only [hl, hm, bind, Except.bind] at h
    refine ⟨slot, makeNext_blk_indep hm, ?_, ?_⟩
    · split at h
      · cases had : addDelay ms c (slot.ti - last.tf).toNat with
        | error e => simp [had] at h
        | ok c1 =>
          simp only [had] at h
          injection h with h; subst h
          unfold ChanState.last; simp
      · simp only [pure, Except.pure] at h
        injection h with h; subst h
        unfold ChanState.last; simp
    · unfold makeNextPulseSlot at hm
      simp only [hl] at hm
      split at hm
      · cases hm
      · split at hm
        · cases hm
        · injection hm with hm; subst hm; simp only; omega

/-- At the level of the API: whenever `estimate_added_delay` gets as far as computing a
slot, it returns `slot.ti − t0` and leaves the sequence unchanged. -/
theorem estimate_returns_gap (s : SeqState) (p : PulseIn) (c : ChanState) (proto : Protocol) :
    (estimateCore s p c proto).st = s := estimateCore_st s p c proto

/-- **`align`.**  `Sequence.align(*channels, at_rest)` computes `T`, the latest of the channels'
ends (counting fall time when `at_rest`), and runs `alignLoop T` over the channels.  If it
succeeds, every aligned channel that ended before `T` is extended by an executable delay `g`
(≥ minimum duration, clock multiple) with `end + g ≥ T`; a channel already at or past `T` and
every channel not named are untouched.  (After the repair of F1 the delay is measured from the
channel's bare end.  "End together exactly at `T`" holds iff `T − end` is itself executable on
each channel: known finding F7a otherwise.) -/
theorem align_granular (T : Int) (l : List (ChName × Int)) (s : SeqState)
    (hnd : (l.map (·.1)).Nodup) (hi : SeqInv s) (hok : (alignLoop T l s).err = none) :
    (∀ n ∈ l.map (·.1), ∀ c, s.getChan n = some c →
      ∃ c', (alignLoop T l s).st.getChan n = some c' ∧
        ((T ≤ c.getDuration false ∧ c'.getDuration false = c.getDuration false) ∨
         (c.getDuration false < T ∧ ∃ g : Nat, c'.getDuration false = c.getDuration false + g ∧
            T ≤ c.getDuration false + g ∧ c.cfg.minDur ≤ g ∧ c.cfg.clock ∣ g))) ∧
    (∀ m, m ∉ l.map (·.1) → (alignLoop T l s).st.getChan m = s.getChan m) :=
  alignLoop_spec T l s hnd hi hok

/-- The oracle hypotheses on fall times (checked on every pulse by the harness):
A1 a fall time is at most twice the rise time of its modulation (`Pulse.fall_time` is
`rise_time + end buffer`, the end buffer is at most `rise_time`) — for the standard mode and
for the mode the channel is in; A2 the fall time in EOM mode is not longer than in standard
mode (EOM at least as fast as the channel's own modulation). -/
def FallHyp (s : SeqState) : Prop :=
  ∀ c ∈ s.chans, ∀ sl ∈ c.slots, ∀ p, sl.kind = .pulse p →
    p.fallStd ≤ 2 * c.cfg.rise ∧ p.fall c.inEomMode ≤ 2 * c.modeRise ∧ p.fallEom ≤ p.fallStd

/-- **No conflict, in full.**  In every state reachable by any history of calls (failing ones
and oracle answers included): when a pulse is placed on channel `n` with 'min-delay' or
'wait-for-all', then for every other channel `ch` the most recent pulse `q` of `ch` that shares
a target atom with `n`'s current targets (the most recent pulse at all under 'wait-for-all') —
wherever `q` lies in `ch`'s history, also behind retargets and behind later pulses on other
atoms — has ended, fall time in `ch`'s current mode included, when the new pulse starts. -/
theorem no_conflict (dev : Device) (nQ : Nat) (hd : DevOk dev) (s : SeqState)
    (hr : C02.Reach dev nQ s) (hfall : FallHyp s)
    {n : ChName} {c ch : ChanState} (hc : s.getChan n = some c) (hch : ch ∈ s.others n)
    {p : PulseRec} {barriers : List Int} {proto : Protocol} {drift : Option Drift} {blk : Bool}
    {slot last q : Slot} {pq : PulseRec} (hl : c.last = .ok last)
    (h : makeNextPulseSlot dev.maxSeqDur c (s.others n) p barriers proto drift blk = .ok slot)
    (hproto : proto ≠ .noDelay)
    (hq : recentShared last.targets (proto == .waitForAll) ch.slots.reverse = some (q, pq)) :
    q.tf + (pq.fall ch.inEomMode : Nat) ≤ slot.ti := by
  have hinvs := C02.timeline_inv dev nQ hd s hr
  have hcm := (getChan_mem hc).1
  have hchm : ch ∈ s.chans := (List.mem_filter.mp hch).1
  have hci := hinvs c hcm
  have hchi := hinvs ch hchm
  obtain ⟨delay, p', h1, _, _, _, _, _, _, hneed⟩ := makeNextPulseSlot_spec hci.1 hl h
  -- the LPC invariant of the other channel
  have hlpc : LPC ch.slots.reverse := by
    obtain ⟨evs, rfl⟩ := hr
    have h0 : SeqInv (SeqState.init dev nQ) := by intro c hc; simp [SeqState.init] at hc
    have hl0 : LPCAll (SeqState.init dev nQ) := by intro c hc; simp [SeqState.init] at hc
    exact runEv_LPC (s := SeqState.init dev nQ) hd h0 hl0 evs
      (fun c hc sl hsl p hp => (hfall c hc sl hsl p hp).1) ch hchm
  have hA : ∀ sl ∈ ch.slots.reverse, ∀ p, sl.kind = .pulse p →
      p.fall ch.inEomMode ≤ 2 * ch.modeRise ∧ p.fall ch.inEomMode ≤ p.fallStd := by
    intro sl hsl p hp
    have := hfall ch hchm sl (List.mem_reverse.mp hsl) p hp
    refine ⟨this.2.1, ?_⟩
    unfold PulseRec.fall
    cases ch.inEomMode with
    | true => simpa using this.2.2
    | false => simp
  have hb : q.tf + (pq.fall ch.inEomMode : Nat) ≤ curMaxOf (s.others n) last barriers proto := by
    unfold curMaxOf
    rw [if_pos hproto]
    apply findAddDelay_ge_of_chan (s.others n) last.targets (proto == .waitForAll) _ ch hch
    intro cur
    cases hwa : (proto == .waitForAll) with
    | true =>
      rw [hwa, recentShared_all] at hq
      exact scan_ge _ _ _ _ _ cur (InvR_DescTf hchi.2) (fun s hs p hp => (hA s hs p hp).1) q pq hq
        (by simp)
    | false =>
      rw [hwa] at hq
      exact scan_ge_shared _ _ _ _ cur (InvR_DescTf hchi.2) (InvR_TargetsRule hchi.2) hlpc
        (InvR_wf hchi.2) hA q pq hq
  have := hneed.2.2
  have hm := Int.le_max_left (curMaxOf (s.others n) last barriers proto - last.tf)
    (phaseJumpBuffer c last.tf
      (fmtPhase (correctedPhase p drift (curMaxOf (s.others n) last barriers proto))) proto)
  omega

/-- **No conflict, at the level of the API call.**  From any reachable state, when
`seq.add(pulse, channel, protocol)` with 'min-delay' or 'wait-for-all' succeeds, the pulse
instruction it appended on the channel starts no earlier than the end, fall time included, of
the most recent pulse sharing a target atom (any pulse under 'wait-for-all') on every other
channel of the sequence as it was before the call. -/
theorem add_no_conflict (dev : Device) (nQ : Nat) (hd : DevOk dev) (s : SeqState)
    (hr : C02.Reach dev nQ s) (hfall : FallHyp s) (p : PulseIn) (n : ChName) (proto : Protocol)
    (hproto : proto ≠ .noDelay) (hok : (stepRaw s (.add p n (some proto))).err = none) :
    ∃ (c c' : ChanState) (last slot : Slot),
      s.getChan n = some c ∧ c.last = .ok last ∧
      (stepRaw s (.add p n (some proto))).st.getChan n = some c' ∧ c'.last = .ok slot ∧
      ∀ ch ∈ s.others n, ∀ q pq,
        recentShared last.targets (proto == .waitForAll) ch.slots.reverse = some (q, pq) →
        q.tf + (pq.fall ch.inEomMode : Nat) ≤ slot.ti := by
  have hinvs : SeqInv s := by
    have := C02.timeline_inv dev nQ hd s hr
    obtain ⟨evs, rfl⟩ := hr
    have hdev : (runEv (SeqState.init dev nQ) evs).dev = dev :=
      (runEv_SG (s := SeqState.init dev nQ) hd (by intro c hc; simp [SeqState.init] at hc) evs).2.1
    intro c hc; rw [hdev]; exact this c hc
  have hdev : s.dev = dev := by
    obtain ⟨evs, rfl⟩ := hr
    exact (runEv_SG (s := SeqState.init dev nQ) hd (by intro c hc; simp [SeqState.init] at hc) evs).2.1
  simp only [stepRaw] at hok ⊢
  have h1 := store_ok hok
  have h2 := markNonEmpty_ok h1.1
  -- the call reached `_add`
  have hcore : ∃ r, r = addCore s p n (some proto) none ∧ r.err = none ∧
      (stepRaw s (.add p n (some proto))).st.chans = r.st.chans := by
    simp only [stepRaw]
    refine ⟨_, rfl, ?_, ?_⟩
    · have := h2.1
      split at this
      · simp [fail] at this
      · split at this
        · simp [fail] at this
        · split at this
          · simp [fail] at this
          · exact this
    · rw [h1.2, h2.2]
      have := h2.1
      split at this
      · simp [fail] at this
      · split at this
        · simp [fail] at this
        · split at this
          · simp [fail] at this
          · rename_i hm _ _ _ hdm
            simp only [hm, hdm]
            rfl
  obtain ⟨r, hr1, hr2, hr3⟩ := hcore
  subst hr1
  obtain ⟨c, c', last, slot, pr, ref, hgc, hl, _, _, hm, hget, hl'⟩ := addCore_ok_spec hinvs hr2
  refine ⟨c, c', last, slot, hgc, hl, ?_, hl', ?_⟩
  · simp only [stepRaw] at hr3
    rw [getChan_of_chans hr3]; exact hget
  · intro ch hch q pq hq
    rw [hdev] at hm
    exact no_conflict dev nQ hd s hr hfall hgc hch hl hm hproto hq

/-! ### Non-vacuity -/

def cfgA : ChanCfg := { clock := 4, minDur := 16, rise := 120, pjt := 240 }
def exDev : Device := { chans := [cfgA, cfgA], dmms := [], reusable := false, maxSeqDur := none }

/-- two global channels; a pulse with fall time 200 on the first, then a 'min-delay' add on the second -/
def exS : SeqState :=
  run (SeqState.init exDev 2)
    [.declare (.user 0) 0 none, .declare (.user 1) 1 none,
     .add { dur := 100, fallStd := 200, ref := 1 } (.user 0) (some .minDelay),
     .add { dur := 52, ref := 2 } (.user 1) (some .minDelay)]

/-- the second pulse starts at 100 + 200 = 300, not before -/
example : (exS.chans.map (·.slots.map fun s => (s.ti, s.tf))) =
    [[(-1, 0), (0, 100)], [(-1, 0), (0, 300), (300, 352)]] := by decide +kernel

/-- Executable form of `FallHyp` (for the example below). -/
def fallHypB (s : SeqState) : Bool :=
  s.chans.all fun c => c.slots.all fun sl =>
    match sl.kind with
    | .pulse p => decide (p.fallStd ≤ 2 * c.cfg.rise) && decide (p.fall c.inEomMode ≤ 2 * c.modeRise) &&
        decide (p.fallEom ≤ p.fallStd)
    | _ => true

theorem fallHyp_of_B {s : SeqState} (h : fallHypB s = true) : FallHyp s := by
  intro c hc sl hsl p hp
  unfold fallHypB at h
  have := List.all_eq_true.mp (List.all_eq_true.mp h c hc) sl hsl
  simp only [hp, Bool.and_eq_true, decide_eq_true_eq] at this
  exact ⟨this.1.1, this.1.2, this.2⟩

def cfgL : ChanCfg := { clock := 4, minDur := 16, rise := 120, pjt := 240, isLocal := true, minRetarget := 220 }
def exDevL : Device := { chans := [cfgL, cfgL], dmms := [], reusable := false, maxSeqDur := none }
def exOpsL : List Op :=
  [.declare (.user 0) 0 (some [0]), .declare (.user 1) 1 (some [0]),
   .add { dur := 400, fallStd := 200, ref := 1 } (.user 0) (some .minDelay),   -- on atom 0
   .target [1] (.user 0),
   .add { dur := 100, fallStd := 120, ref := 2 } (.user 0) (some .minDelay)]   -- on atom 1

/-- channel 0 played a pulse on atom 0, was retargeted to atom 1 and played another pulse;
channel 1 (on atom 0) now adds a pulse. -/
def exL : SeqState := run (SeqState.init exDevL 2) exOpsL

/-- The hypotheses of `no_conflict` are met by this reachable state, with the sharing pulse
lying *behind* a retarget and a later pulse on another atom: it ended at 400 with fall time
200 (the retarget waited for it: the target instruction is at 600); the later pulse on atom 1
ends at 700 with fall time 120 and imposes nothing on a pulse for atom 0. -/
example :
    C02.Reach exDevL 2 exL ∧ FallHyp exL ∧
    (exL.chans.map (·.slots.map fun s => (s.ti, s.tf, s.targets))) =
      [[(-1, 0, [0]), (0, 400, [0]), (400, 600, [0]), (600, 600, [1]), (600, 700, [1])], [(-1, 0, [0])]] ∧
    ((exL.chans[0]?.map fun ch => (recentShared [0] false ch.slots.reverse).map fun x => (x.1.ti, x.1.tf, x.2.fallStd))
      = some (some (0, 400, 200))) :=
  ⟨C02.Reach.of_run exDevL 2 exOpsL, fallHyp_of_B (by decide +kernel), by decide +kernel, by decide +kernel⟩

/-- `add_no_conflict` applies to that state: the `add` on channel 1 (atom 0) succeeds, and the new
pulse starts at 600 = 400 + 200 — the end plus fall time of the pulse on atom 0 that channel 0
played *before* it was retargeted — not at 820 (end + fall of channel 0's latest pulse, which
is on atom 1). -/
example :
    (stepRaw exL (.add { dur := 52, ref := 3 } (.user 1) (some .minDelay))).err = none ∧
    (((stepRaw exL (.add { dur := 52, ref := 3 } (.user 1) (some .minDelay))).st.getChan (.user 1)).map
      fun c => c.slots.map fun s => (s.ti, s.tf)) = some [(-1, 0), (0, 600), (600, 652)] := by
  constructor <;> decide +kernel

end C03
end Pulser
