/-
  C17 — Devices, registers, layouts, noise models, configs, results round-trip.

  Only property theorems (and their non-vacuity examples) live here; helper lemmas are in
  Proofs/Codec.lean, the model in PulserModel/Codec.lean, and the tables the theorems are
  instantiated with in PulserModel/Generated/Fields.lean — *regenerated from the live code on
  every run* by harness/tables_c17.py, so every `decide` below is re-checked against what the
  source says now.

  What is carried by theorems (table-driven core): channels (all four kinds, with EOM), devices
  (physical and virtual, with DMM, calibrated layouts, default noise model), layouts; key-level
  schema validity; "active noise types ⇔ parameters set"; NoiseModel ⇄ SimConfig.
  What is not: value-level schema constraints, registers, detuning maps, emulation configs,
  results, float rounding of the µK→K conversion, and the aliasing clause — correspondence and
  monitor only (see `uncovered_clauses` in the evidence).
-/
import Proofs.Codec
import PulserModel.Generated.Fields
namespace Pulser
namespace C17
open Codec

/-! ### The codec theorem, for arbitrary tables -/

/-- **Round trip** ("serialise … and deserialise to objects equal to the originals in every
field"), for *any* class whose tables satisfy the decidable side condition `TablesOk`:
encoding a record (optional fields at their default are dropped, nested values go through their
own codec) and decoding it (absent keys fall back to the decoder's default) gives the record back.
`ex` lists optional fields exempt from the same-default rule (known findings); the theorem then
only speaks about records in which such a field is not at its elided value. -/
theorem codec_roundtrip (T : Tables) (ex : List String) (sub : String → Sub) (r : Record)
    (hT : TablesOk T ex) (W : WellTyped T r) (A : AvoidsExempt T ex r) (S : SubOk sub r) :
    decode T sub (encode T sub r) = some r :=
  roundtrip sub hT W A S

/-- **Schema validity, key level** ("serialise to schema-valid JSON"): every key written is a
`property` of the matching schema definition and every `required` key is written.
(Value-level constraints — types, `const`, nullability — are checked by `jsonschema` in the
correspondence run, not here.) -/
theorem codec_schema_keys (T : Tables) (ex : List String) (sub : String → Sub) (r : Record)
    (hT : TablesOk T ex) (W : WellTyped T r) :
    (∀ k ∈ (encode T sub r).keys, k ∈ T.schemaProps) ∧
    (∀ k ∈ T.schemaRequired, k ∈ (encode T sub r).keys) := by
  have F := tablesFacts hT
  exact ⟨fun k hk => F.emitted k (encode_keys_subset sub W k hk),
         fun k hk => always_subset_encode_keys sub W k (F.schemaReq k hk)⟩

/-! ### The side conditions, re-checked against the live code on every run -/

/-- Every optional field of a `Rydberg` channel has a default, encoder and decoder use the same
one, the decoder never insists on a key the encoder may drop, emitted keys ⊆ schema properties,
schema `required` ⊆ always-emitted keys. -/
theorem tables_ok_rydberg : TablesOk Generated.rydberg := by decide +kernel
theorem tables_ok_raman : TablesOk Generated.raman := by decide +kernel
theorem tables_ok_microwave : TablesOk Generated.microwave := by decide +kernel
theorem tables_ok_dmm : TablesOk Generated.dmm := by decide +kernel
theorem tables_ok_eom : TablesOk Generated.eom := by decide +kernel
theorem tables_ok_layout : TablesOk Generated.layout := by decide +kernel
theorem tables_ok_device : TablesOk Generated.device := by decide +kernel

/-- `VirtualDevice` satisfies the side condition except for `dmm_objects`: the encoder drops it
when *empty* while the decoder falls back to the class default `(DMM(),)` (finding
"virtual-device-empty-dmm"). -/
theorem tables_ok_virtual_device : TablesOk Generated.virtualDevice ["dmm_objects"] := by
  decide +kernel

/-- All channel classes are fine and the decoder's `basis` / `bottom_detuning` dispatch picks the
class that was encoded. -/
theorem channel_tables_ok : channelTablesOk Generated.channels = true := by decide +kernel

theorem device_tables_ok : deviceTablesOk Generated.devices ["dmm_objects"] = true := by
  decide +kernel

/-- `_PARAM_TO_NOISE_TYPE` inverts `_NOISE_TYPE_PARAMS`, `leakage` is governed by `with_leakage`
alone, `_DIFF_NOISE_PARAMS` is injective and collision-free. -/
theorem noise_tables_ok : NoiseTablesOk Generated.noise := by decide +kernel

/-! ### Channels, layouts, devices of the live code -/

/-- **Channels** of every kind (Rydberg with or without EOM, Raman, Microwave, DMM) round-trip. -/
theorem channel_roundtrip {T : Tables} (hT : T ∈ Generated.channels.classes) {r : Record}
    (R : ChannelRecOk Generated.channels T r) :
    (channelSub Generated.channels).Good (.obj ((classKey, .str T.cls) :: r)) :=
  channelSub_good channel_tables_ok hT R

/-- **Layouts** round-trip. -/
theorem layout_roundtrip {l : Record} (W : WellTyped Generated.layout l) :
    (layoutSub Generated.devices).Good (.obj l) :=
  recSub_good tables_ok_layout W (fun _ _ h => by simp at h) (subOk_id l)

/-- **Physical devices** (channels, EOM, DMM, calibrated layouts, default noise model) round-trip,
for any codec `noise` of the default noise model that round-trips on the model at hand. -/
theorem device_roundtrip_physical (noise : Sub) {r : Record}
    (R : DeviceRecOk Generated.devices noise Generated.device [] r) :
    (deviceSub Generated.devices noise).Good (.obj ((classKey, .str "Device") :: r)) :=
  deviceSub_good_physical device_tables_ok noise R

/-- **Virtual devices** round-trip, provided `dmm_objects` is not empty (see
`tables_ok_virtual_device`). -/
theorem device_roundtrip_virtual (noise : Sub) {r : Record}
    (R : DeviceRecOk Generated.devices noise Generated.virtualDevice ["dmm_objects"] r) :
    (deviceSub Generated.devices noise).Good (.obj ((classKey, .str "VirtualDevice") :: r)) :=
  deviceSub_good_virtual device_tables_ok noise R

/-! ### Noise model -/

/-- **A noise model's active types are exactly those whose parameters were set**: a type is in
`noise_types` iff one of the parameters listed for it in `_NOISE_TYPE_PARAMS` was given a truthy
value. -/
theorem noise_types_iff_params (N : NoiseTables) (hN : NoiseTablesOk N) (args : Record) (t : String) :
    t ∈ activeTypes N args ↔ ∃ p ∈ N.paramsOf t, ∃ v, (p, v) ∈ args ∧ v.truthy = true := by
  have F := noiseFacts hN
  rw [mem_activeTypes]
  constructor
  · rintro ⟨kv, hm, htr, hl⟩
    exact ⟨kv.1, (paramType_iff F kv.1 t).mp hl, kv.2, hm, htr⟩
  · rintro ⟨p, hp, v, hm, htr⟩
    exact ⟨(p, v), hm, htr, (paramType_iff F p t).mpr hp⟩

/-- The same for the live tables. -/
theorem noise_types_iff_params_live (args : Record) (t : String) :
    t ∈ activeTypes Generated.noise args ↔
      ∃ p ∈ Generated.noise.paramsOf t, ∃ v, (p, v) ∈ args ∧ v.truthy = true :=
  noise_types_iff_params _ noise_tables_ok args t

/-- **NoiseModel → SimConfig → NoiseModel preserves the active noise types and every relevant
parameter** (over ℚ: the float rounding of `temperature / 1e6 * 1e6` is not modelled). -/
theorem simconfig_noise_roundtrip (N : NoiseTables) (hN : NoiseTablesOk N) (vals : String → Value)
    (b : Bool) (hb : vals "with_leakage" = .bool b) :
    let nm := noiseInit N (argsOf N vals)
    let nm' := simToNoise N (simFromNoise N nm)
    nm'.get? "noise_types" = nm.get? "noise_types" ∧
    ∀ p ∈ N.params, noiseRelevant N nm p = true → nm'.get? p = nm.get? p := by
  have F := noiseFacts hN
  exact ⟨sim_types_preserved vals F, fun p hp hr => sim_param_preserved vals F hb hp hr⟩

theorem simconfig_noise_roundtrip_live (vals : String → Value) (b : Bool)
    (hb : vals "with_leakage" = .bool b) :
    let nm := noiseInit Generated.noise (argsOf Generated.noise vals)
    let nm' := simToNoise Generated.noise (simFromNoise Generated.noise nm)
    nm'.get? "noise_types" = nm.get? "noise_types" ∧
    ∀ p ∈ Generated.noise.params, noiseRelevant Generated.noise nm p = true →
      nm'.get? p = nm.get? p :=
  simconfig_noise_roundtrip _ noise_tables_ok vals b hb

end C17
end Pulser
