/-
  C17 — Devices, registers, layouts, noise models, configs, results round-trip.

  Only property theorems (and their non-vacuity examples) live here; helper lemmas are in
  Proofs/Codec.lean, the model in PulserModel/Codec.lean, and the tables the theorems are
  instantiated with in PulserModel/Generated/Fields.lean — *regenerated from the live code on
  every run* by harness/tables_c17.py, so every `decide` below is re-checked against what the
  source says now.

  What is carried by theorems (table-driven core): channels (all four kinds, with EOM), devices
  (physical and virtual, with DMM, calibrated layouts, default noise model), layouts; key-level
  schema validity; "active noise types ⇔ parameters set"; NoiseModel ⇄ SimConfig.
  What is not: value-level schema constraints, registers, detuning maps, emulation configs,
  results, float rounding of the µK→K conversion, and the aliasing clause — correspondence and
  monitor only (see `uncovered_clauses` in the evidence).
-/
import Proofs.Codec
import PulserModel.Generated.Fields
namespace Pulser
namespace C17
open Codec

/-! ### The codec theorem, for arbitrary tables -/

/-- **Round trip** ("serialise … and deserialise to objects equal to the originals in every
field"), for *any* class whose tables satisfy the decidable side condition `TablesOk`:
encoding a record (optional fields at their default are dropped, nested values go through their
own codec) and decoding it (absent keys fall back to the decoder's default) gives the record back.
`ex` lists optional fields exempt from the same-default rule (known findings); the theorem then
only speaks about records in which such a field is not at its elided value. -/
theorem codec_roundtrip (T : Tables) (ex : List String) (sub : String → Sub) (r : Record)
    (hT : TablesOk T ex) (W : WellTyped T r) (A : AvoidsExempt T ex r) (S : SubOk sub r) :
    decode T sub (encode T sub r) = some r :=
  roundtrip sub hT W A S

/-- **Schema validity, key level** ("serialise to schema-valid JSON"): every key written is a
`property` of the matching schema definition and every `required` key is written.
(Value-level constraints — types, `const`, nullability — are checked by `jsonschema` in the
correspondence run, not here.) -/
theorem codec_schema_keys (T : Tables) (ex : List String) (sub : String → Sub) (r : Record)
    (hT : TablesOk T ex) (W : WellTyped T r) :
    (∀ k ∈ (encode T sub r).keys, k ∈ T.schemaProps) ∧
    (∀ k ∈ T.schemaRequired, k ∈ (encode T sub r).keys) := by
  have F := tablesFacts hT
  exact ⟨fun k hk => F.emitted k (encode_keys_subset sub W k hk),
         fun k hk => always_subset_encode_keys sub W k (F.schemaReq k hk)⟩

/-! ### The side conditions, re-checked against the live code on every run -/

/-- Every optional field of a `Rydberg` channel has a default, encoder and decoder use the same
one, the decoder never insists on a key the encoder may drop, emitted keys ⊆ schema properties,
schema `required` ⊆ always-emitted keys. -/
theorem tables_ok_rydberg : TablesOk Generated.rydberg := by decide +kernel
theorem tables_ok_raman : TablesOk Generated.raman := by decide +kernel
theorem tables_ok_microwave : TablesOk Generated.microwave := by decide +kernel
theorem tables_ok_dmm : TablesOk Generated.dmm := by decide +kernel
theorem tables_ok_eom : TablesOk Generated.eom := by decide +kernel
theorem tables_ok_layout : TablesOk Generated.layout := by decide +kernel
theorem tables_ok_device : TablesOk Generated.device := by decide +kernel

/-- `VirtualDevice` satisfies the side condition without exemption (since the repair of finding
C17-F1 an empty `dmm_objects` is written out instead of being dropped in favour of the decoder's
class default `(DMM(),)`; `empty_dmm_counterexample` below keeps the shape of that defect). -/
theorem tables_ok_virtual_device : TablesOk Generated.virtualDevice := by
  decide +kernel

/-- All channel classes are fine and the decoder's `basis` / `bottom_detuning` dispatch picks the
class that was encoded. -/
theorem channel_tables_ok : channelTablesOk Generated.channels = true := by decide +kernel

theorem device_tables_ok : deviceTablesOk Generated.devices [] = true := by
  decide +kernel

/-- `_PARAM_TO_NOISE_TYPE` inverts `_NOISE_TYPE_PARAMS`, `leakage` is governed by `with_leakage`
alone, `_DIFF_NOISE_PARAMS` is injective and collision-free. -/
theorem noise_tables_ok : NoiseTablesOk Generated.noise := by decide +kernel

/-! ### Channels, layouts, devices of the live code -/

/-- **Channels** of every kind (Rydberg with or without EOM, Raman, Microwave, DMM) round-trip. -/
theorem channel_roundtrip {T : Tables} (hT : T ∈ Generated.channels.classes) {r : Record}
    (R : ChannelRecOk Generated.channels T r) :
    (channelSub Generated.channels).Good (.obj ((classKey, .str T.cls) :: r)) :=
  channelSub_good channel_tables_ok hT R

/-- **Layouts** round-trip. -/
theorem layout_roundtrip {l : Record} (W : WellTyped Generated.layout l) :
    (layoutSub Generated.devices).Good (.obj l) :=
  recSub_good tables_ok_layout W (fun _ _ h => by simp at h) (subOk_id l)

/-- **Physical devices** (channels, EOM, DMM, calibrated layouts, default noise model) round-trip,
for any codec `noise` of the default noise model that round-trips on the model at hand. -/
theorem device_roundtrip_physical (noise : Sub) {r : Record}
    (R : DeviceRecOk Generated.devices noise Generated.device [] r) :
    (deviceSub Generated.devices noise).Good (.obj ((classKey, .str "Device") :: r)) :=
  deviceSub_good_physical device_tables_ok noise R

/-- **Virtual devices** (with or without DMM channels) round-trip. -/
theorem device_roundtrip_virtual (noise : Sub) {r : Record}
    (R : DeviceRecOk Generated.devices noise Generated.virtualDevice [] r) :
    (deviceSub Generated.devices noise).Good (.obj ((classKey, .str "VirtualDevice") :: r)) :=
  deviceSub_good_virtual device_tables_ok noise R

/-! ### Noise model -/

/-- **A noise model's active types are exactly those whose parameters were set**: a type is in
`noise_types` iff one of the parameters listed for it in `_NOISE_TYPE_PARAMS` was given a truthy
value. -/
theorem noise_types_iff_params (N : NoiseTables) (hN : NoiseTablesOk N) (args : Record) (t : String) :
    t ∈ activeTypes N args ↔ ∃ p ∈ N.paramsOf t, ∃ v, (p, v) ∈ args ∧ v.truthy = true := by
  have F := noiseFacts hN
  rw [mem_activeTypes]
  constructor
  · rintro ⟨kv, hm, htr, hl⟩
    exact ⟨kv.1, (paramType_iff F kv.1 t).mp hl, kv.2, hm, htr⟩
  · rintro ⟨p, hp, v, hm, htr⟩
    exact ⟨(p, v), hm, htr, (paramType_iff F p t).mpr hp⟩

/-- The same for the live tables. -/
theorem noise_types_iff_params_live (args : Record) (t : String) :
    t ∈ activeTypes Generated.noise args ↔
      ∃ p ∈ Generated.noise.paramsOf t, ∃ v, (p, v) ∈ args ∧ v.truthy = true :=
  noise_types_iff_params _ noise_tables_ok args t

/-- **NoiseModel → SimConfig → NoiseModel preserves the active noise types and every relevant
parameter** (over ℚ: the float rounding of `temperature / 1e6 * 1e6` is not modelled). -/
theorem simconfig_noise_roundtrip (N : NoiseTables) (hN : NoiseTablesOk N) (vals : String → Value)
    (b : Bool) (hb : vals "with_leakage" = .bool b) :
    let nm := noiseInit N (argsOf N vals)
    let nm' := simToNoise N (simFromNoise N nm)
    nm'.get? "noise_types" = nm.get? "noise_types" ∧
    ∀ p ∈ N.params, noiseRelevant N nm p = true → nm'.get? p = nm.get? p := by
  have F := noiseFacts hN
  exact ⟨sim_types_preserved vals F, fun p hp hr => sim_param_preserved vals F hb hp hr⟩

theorem simconfig_noise_roundtrip_live (vals : String → Value) (b : Bool)
    (hb : vals "with_leakage" = .bool b) :
    let nm := noiseInit Generated.noise (argsOf Generated.noise vals)
    let nm' := simToNoise Generated.noise (simFromNoise Generated.noise nm)
    nm'.get? "noise_types" = nm.get? "noise_types" ∧
    ∀ p ∈ Generated.noise.params, noiseRelevant Generated.noise nm p = true →
      nm'.get? p = nm.get? p :=
  simconfig_noise_roundtrip _ noise_tables_ok vals b hb

/-- **NoiseModel → JSON → NoiseModel** returns the instance (`noise_types` and every stored
parameter), provided every parameter that no active noise type uses is unset.
Without that proviso the statement is false on the code as it is — see
`noise_irrelevant_param_counterexample` (finding "irrelevant-param"). -/
theorem noise_roundtrip (N : NoiseTables) (hN : NoiseTablesOk N) (vals : String → Value)
    (b : Bool) (hb : vals "with_leakage" = .bool b)
    (rs os : List Value) (hr : vals "eff_noise_rates" = .list rs) (ho : vals "eff_noise_opers" = .list os)
    (hlen : rs.length = os.length)
    (hclean : ∀ p ∈ N.params, special p = false →
      noiseRelevant N (noiseInit N (argsOf N vals)) p = false →
      normVal N p (vals p) = normVal N p (N.dfl p)) :
    noiseDecode N (noiseEncode (noiseInit N (argsOf N vals))) = noiseInit N (argsOf N vals) :=
  noise_json_roundtrip vals (noiseFacts hN) hb hr ho hlen hclean

/-- … hence such a noise model is a good `default_noise_model` for the device theorems. -/
theorem noise_sub_good (N : NoiseTables) (hN : NoiseTablesOk N) (vals : String → Value)
    (b : Bool) (hb : vals "with_leakage" = .bool b)
    (rs os : List Value) (hr : vals "eff_noise_rates" = .list rs) (ho : vals "eff_noise_opers" = .list os)
    (hlen : rs.length = os.length)
    (hclean : ∀ p ∈ N.params, special p = false →
      noiseRelevant N (noiseInit N (argsOf N vals)) p = false →
      normVal N p (vals p) = normVal N p (N.dfl p)) :
    (noiseSub N).Good (.obj (noiseInit N (argsOf N vals))) := by
  unfold Sub.Good noiseSub
  simp only
  rw [noise_roundtrip N hN vals b hb rs os hr ho hlen hclean]

/-- The tables of the noise model as of this writing. -/
def frozenNoise : NoiseTables where
  typeParams := [("leakage", ["with_leakage"]), ("doppler", ["temperature"]),
    ("amplitude", ["laser_waist", "amp_sigma"]), ("SPAM", ["p_false_pos", "p_false_neg", "state_prep_error"]),
    ("dephasing", ["dephasing_rate", "hyperfine_dephasing_rate"]), ("relaxation", ["relaxation_rate"]),
    ("depolarizing", ["depolarizing_rate"]), ("eff_noise", ["eff_noise_rates", "eff_noise_opers"])]
  paramType := [("with_leakage", "leakage"), ("temperature", "doppler"), ("laser_waist", "amplitude"),
    ("amp_sigma", "amplitude"), ("p_false_pos", "SPAM"), ("p_false_neg", "SPAM"), ("state_prep_error", "SPAM"),
    ("dephasing_rate", "dephasing"), ("hyperfine_dephasing_rate", "dephasing"),
    ("relaxation_rate", "relaxation"), ("depolarizing_rate", "depolarizing"),
    ("eff_noise_rates", "eff_noise"), ("eff_noise_opers", "eff_noise")]
  zeroed := ["amp_sigma", "dephasing_rate", "depolarizing_rate", "hyperfine_dephasing_rate", "p_false_neg",
    "p_false_pos", "relaxation_rate", "state_prep_error", "temperature"]
  params := ["runs", "samples_per_run", "state_prep_error", "p_false_pos", "p_false_neg", "temperature",
    "laser_waist", "amp_sigma", "relaxation_rate", "dephasing_rate", "hyperfine_dephasing_rate",
    "depolarizing_rate", "eff_noise_rates", "eff_noise_opers", "with_leakage"]
  defaults := [("eff_noise_rates", .list []), ("eff_noise_opers", .list []), ("with_leakage", .bool false)]
  simRename := [("noise_types", "noise"), ("state_prep_error", "eta"), ("p_false_pos", "epsilon"),
    ("p_false_neg", "epsilon_prime")]

namespace DCheck
/-- The hypotheses of the device theorems, evaluated on a tagged device value. -/
def deviceDom (v : Value) : Bool :=
  match v with
  | .obj ((ck, .str cls) :: r) =>
    ck == classKey &&
    (if cls = "VirtualDevice" then
       deviceRecOkB Generated.devices (noiseSub Generated.noise) Generated.virtualDevice [] r
     else if cls = "Device" then
       deviceRecOkB Generated.devices (noiseSub Generated.noise) Generated.device [] r
     else false)
  | _ => false
end DCheck

/-! ### Non-vacuity: concrete objects meet the hypotheses

The example records are the translator's probe objects (`Generated.ex…`), regenerated with the
tables, so they follow the live field lists. -/

/-- A Rydberg channel with an EOM is in the theorem's domain … -/
example : channelValOkB Generated.channels Generated.exRydberg = true := by decide +kernel

/-- … and so it round-trips (directly evaluated). -/
example : (channelSub Generated.channels).dec ((channelSub Generated.channels).enc Generated.exRydberg)
    = some Generated.exRydberg := by decide +kernel

example : channelValOkB Generated.channels Generated.exDmm = true := by decide +kernel

/-- A virtual device with three channels (one with EOM), two DMMs and a default noise model. -/
example : DCheck.deviceDom Generated.exVirtualDevice = true := by decide +kernel

/-- A physical device with calibrated layouts. -/
example : DCheck.deviceDom Generated.exDevice = true := by decide +kernel

/-- `NoiseModel(temperature=50., runs=15, samples_per_run=5, p_false_pos=0.01)`. -/
def exNoiseVals (p : String) : Value :=
  if p = "temperature" then .num 50 else if p = "runs" then .num 15 else if p = "samples_per_run" then .num 5
  else if p = "p_false_pos" then .num (mkRat 1 100) else frozenNoise.dfl p

example : activeTypes frozenNoise (argsOf frozenNoise exNoiseVals) = ["SPAM", "doppler"] := by
  decide +kernel

example : noiseDecode frozenNoise (noiseEncode (noiseInit frozenNoise (argsOf frozenNoise exNoiseVals)))
    = noiseInit frozenNoise (argsOf frozenNoise exNoiseVals) := by decide +kernel

/-! ### The provisos are necessary: counterexamples on frozen copies of the tables
(frozen so that a later fix of the code does not turn a documented finding into a build failure) -/

/-- The same-default rule of `TablesOk` is necessary.  A one-field class whose encoder drops the
field when it is *empty* while the decoder falls back to a *non-empty* default — the shape
`VirtualDevice.dmm_objects` had before the repair of finding C17-F1 — does not round-trip. -/
def dmmShape : Tables where
  cls := "V"
  fields := [{ name := "dmm_objects", init := true, dflt := some (.list [.str "DMM()"]) }]
  optional := ["dmm_objects"]
  encSkip := []
  encOverride := [("dmm_objects", .list [])]
  consts := []
  decDefault := [("dmm_objects", .list [.str "DMM()"])]
  decRequired := []
  schemaProps := ["dmm_objects"]
  schemaRequired := []

theorem empty_dmm_counterexample :
    ¬ TablesOk dmmShape [] ∧ TablesOk dmmShape ["dmm_objects"] ∧
    decode dmmShape (fun _ => Sub.id) (encode dmmShape (fun _ => Sub.id) [("dmm_objects", .list [])])
      = some [("dmm_objects", .list [.str "DMM()"])] := by decide +kernel

/-- `NoiseModel(runs=10)`: no noise type is active, `runs` is stored all the same. -/
def runsOnly (p : String) : Value := if p = "runs" then .num 10 else frozenNoise.dfl p

/-- The proviso of `noise_roundtrip` is necessary: `NoiseModel(runs=10)` is accepted (with a
warning) and keeps `runs = 10`, but the decoder only passes the relevant parameters, so the
decoded instance has `runs = None`. -/
theorem noise_irrelevant_param_counterexample :
    NoiseTablesOk frozenNoise ∧
    (noiseInit frozenNoise (argsOf frozenNoise runsOnly)).get? "runs" = some (.num 10) ∧
    (noiseDecode frozenNoise (noiseEncode (noiseInit frozenNoise (argsOf frozenNoise runsOnly)))).get? "runs"
      = some .null := by decide +kernel

/-- `WellTyped.skipped` is necessary: a field the encoder never writes (the shape of
`Device.short_description`) comes back as the decoder's fallback. -/
def skippedShape : Tables where
  cls := "D"
  fields := [{ name := "short_description", init := true, dflt := some (.str "") }]
  optional := []
  encSkip := ["short_description"]
  encOverride := []
  consts := []
  decDefault := [("short_description", .str "")]
  decRequired := []
  schemaProps := []
  schemaRequired := []

theorem skipped_field_counterexample :
    TablesOk skippedShape ∧
    decode skippedShape (fun _ => Sub.id)
      (encode skippedShape (fun _ => Sub.id) [("short_description", .str "A device.")])
      = some [("short_description", .str "")] := by decide +kernel

end C17
end Pulser
