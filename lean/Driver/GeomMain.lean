/-
  Driver.GeomMain — line-protocol executable `pm_geom` for PulserModel/Geometry.lean.
  One request per line, one reply per line; every request is self-contained.

  <dev>  = <dims> <minDist> <maxAtomNum|-> <maxRadial|-> <minTraps> <maxTraps|-> <maxFilling>
  coordinates `[x,y;x,y;…]` as exact rationals, optional values `-`.

    vreg  <dev> <regDim> <atoms> <layoutDim|-> <traps|->   → ok | err …
    vlay  <dev> <layoutDim> <traps>                         → ok | err …
    vmap  <dev> <layoutDim> <traps> <nQubits>               → ok | err …
    mkdev <virtual> <dimensions> <rydberg> <minDist|-> <maxAtomNum|-> <maxRadial|-> <maxSeqDur|->
          <maxRuns|-> <minTraps|-> <maxTraps|-> <maxFilling> <optimalFilling|-> <slm>
          <channels [xy:virtual,…]> <dmms [xy:virtual,…]> <channelIds|-> <coeffXYIsFloat>
          <layouts: - or dim:traps|dim:traps…>              → ok | err …
  Errors:  err dimension | err atomsNumber n | err distance [i:j,…] | err radius [i,…]
           | err layout <dimension|trapsLow n|trapsHigh n|atomsNumber n|distance …|radius …>
           | err filling n max ;  mkdev: err <class> [param]
-/
import PulserModel.Geometry
import Driver.Wire

open Pulser.Geom

namespace DGeom

def parseCoords? (s : String) : Option (List Pos) := Wire.parseListList? Wire.parseRat? s

def parseDev? : List String → Option (DeviceGeom × List String)
  | dims :: md :: ma :: mr :: mint :: maxt :: mf :: rest => do
    let dims ← Wire.parseNat? dims
    let md ← Wire.parseRat? md
    let ma ← Wire.parseOpt? Wire.parseNat? ma
    let mr ← Wire.parseOpt? Wire.parseNat? mr
    let mint ← Wire.parseNat? mint
    let maxt ← Wire.parseOpt? Wire.parseNat? maxt
    let mf ← Wire.parseRat? mf
    pure ({ dims := dims, minDist := md, maxAtomNum := ma, maxRadial := mr, minTraps := mint,
            maxTraps := maxt, maxFilling := mf }, rest)
  | _ => none

def showPairs (l : List (Nat × Nat)) : String :=
  Wire.showList (fun ij => toString ij.1 ++ ":" ++ toString ij.2) l

def showCoordErr : CoordErr → String
  | .atomsNumber n => s!"atomsNumber {n}"
  | .distance ps => s!"distance {showPairs ps}"
  | .radius ids => s!"radius {Wire.showList toString ids}"

def showLayoutErr : LayoutErr → String
  | .dimension => "dimension"
  | .trapsLow n => s!"trapsLow {n}"
  | .trapsHigh n => s!"trapsHigh {n}"
  | .coords e => showCoordErr e

def showRegErr : RegErr → String
  | .dimension => "dimension"
  | .coords e => showCoordErr e
  | .layout e => "layout " ++ showLayoutErr e
  | .filling n m => s!"filling {n} {m}"

def reply {ε} (sh : ε → String) : Option ε → String
  | none => "ok"
  | some e => "err " ++ sh e

def showDErr : DErr → String
  | .dimensionChoice => "dimensionChoice"
  | .rydbergLevel => "rydbergLevel"
  | .noneNotAllowed p => "noneNotAllowed " ++ p
  | .minDistNegative => "minDistNegative"
  | .notPositive p => "notPositive " ++ p
  | .maxFilling => "maxFilling"
  | .optimalFilling => "optimalFilling"
  | .maxTrapsBelowMin => "maxTrapsBelowMin"
  | .fillingTooSmallForAtoms => "fillingTooSmallForAtoms"
  | .slmNeedsDmm => "slmNeedsDmm"
  | .channelIdsRepeated => "channelIdsRepeated"
  | .channelIdsCount => "channelIdsCount"
  | .channelIdsDmmClash => "channelIdsDmmClash"
  | .xyCoeff => "xyCoeff"
  | .virtualChannel => "virtualChannel"
  | .layout e => "layout " ++ showLayoutErr e

def parseChans? (s : String) : Option (List ChanP) := do
  let items ← Wire.listItems? s
  items.mapM fun it =>
    match it.splitOn ":" with
    | [a, b] => do
      let xy ← Wire.parseBool? a
      let v ← Wire.parseBool? b
      pure { xy := xy, virtualCh := v }
    | _ => none

def parseLayouts? (s : String) : Option (List LayoutG) :=
  if s == "-" then some []
  else (s.splitOn "|").mapM fun part =>
    match part.splitOn ":" with
    | [d, t] => do
      let d ← Wire.parseNat? d
      let t ← parseCoords? t
      pure { dim := d, traps := t }
    | _ => none

def handle (toks : List String) : Option String :=
  match toks with
  | "vreg" :: rest => do
    let (dev, rest) ← parseDev? rest
    match rest with
    | [rd, atoms, ld, traps] =>
      let rd ← Wire.parseNat? rd
      let atoms ← parseCoords? atoms
      let layout ← (if ld == "-" then some none else do
        let d ← Wire.parseNat? ld
        let t ← parseCoords? traps
        pure (some ({ dim := d, traps := t } : LayoutG)))
      pure <| reply showRegErr (validateRegister dev { dim := rd, atoms := atoms, layout := layout })
    | _ => none
  | "vlay" :: rest => do
    let (dev, rest) ← parseDev? rest
    match rest with
    | [ld, traps] =>
      let d ← Wire.parseNat? ld
      let t ← parseCoords? traps
      pure <| reply showLayoutErr (validateLayout dev { dim := d, traps := t })
    | _ => none
  | "vmap" :: rest => do
    let (dev, rest) ← parseDev? rest
    match rest with
    | [ld, traps, n] =>
      let d ← Wire.parseNat? ld
      let t ← parseCoords? traps
      let n ← Wire.parseNat? n
      pure <| reply showRegErr (validateMappable dev { dim := d, traps := t } n)
    | _ => none
  | ["mkdev", virt, dims, ryd, md, ma, mr, ms, mruns, mint, maxt, mf, opt, slm, chans, dmms, ids,
      cxy, layouts] => do
    let p : DevParams := {
      virtualDev := ← Wire.parseBool? virt
      dimensions := ← Wire.parseInt? dims
      rydbergLevel := ← Wire.parseInt? ryd
      minAtomDistance := ← Wire.parseOpt? Wire.parseRat? md
      maxAtomNum := ← Wire.parseOpt? Wire.parseInt? ma
      maxRadialDistance := ← Wire.parseOpt? Wire.parseInt? mr
      maxSequenceDuration := ← Wire.parseOpt? Wire.parseInt? ms
      maxRuns := ← Wire.parseOpt? Wire.parseInt? mruns
      minLayoutTraps := ← Wire.parseOpt? Wire.parseInt? mint
      maxLayoutTraps := ← Wire.parseOpt? Wire.parseInt? maxt
      maxLayoutFilling := ← Wire.parseRat? mf
      optimalLayoutFilling := ← Wire.parseOpt? Wire.parseRat? opt
      supportsSlmMask := ← Wire.parseBool? slm
      channels := ← parseChans? chans
      dmms := ← parseChans? dmms
      channelIds := ← Wire.parseOpt? (Wire.parseList? some) ids
      coeffXYIsFloat := ← Wire.parseBool? cxy
      layouts := ← parseLayouts? layouts }
    pure <| reply showDErr (mkDevice p)
  | _ => none

end DGeom

partial def loop (h : IO.FS.Stream) (out : IO.FS.Stream) : IO Unit := do
  let line ← h.getLine
  if line.isEmpty then return ()
  let toks := (line.trimAscii.toString.splitOn " ").filter (· ≠ "")
  out.putStrLn ((DGeom.handle toks).getD "bad request")
  out.flush
  loop h out

def main : IO Unit := do
  loop (← IO.getStdin) (← IO.getStdout)
