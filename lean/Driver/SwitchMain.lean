/-
  Driver.SwitchMain — line-protocol executable `pm_switch` for the channel-matching part of
  PulserModel/Switch.lean (`possibleMatches`: `check_channels_match`, `is_good_match`, the product
  search).  One self-contained request per line, one reply per line.  Until the executable is
  registered in lakefile.toml it is run with `lake env lean --run Driver/SwitchMain.lean`.

    match <strict 0|1> <reusable 0|1> | <old> ; <old> … | <new chan> ; … | <new dmm> ; …
        <old>      = the 19 configuration tokens of `seq chan` (Driver/Seq.lean `parseCfg?`) followed by
                     `1` if an `enable_eom_mode` call names the declared channel, else `0`
        <new chan> = the 19 configuration tokens (channels of the new device, in dict order)
        <new dmm>  = the 19 configuration tokens (DMMs of the new device, in order)
      → ok <n> [[c0,d1],[c1,d0],…]   the candidate assignments in the order they are tried: per
                                     declared channel (in declaration order) the new channel `c<i>` /
                                     DMM `d<j>`; at most the first 40 are listed, <n> is their number
    check <strict> <eomActive> | <old> | <new>      (19 tokens each) → ok <ok|nonStrict|strict>
  Unparsable request: `bad request`.
-/
import Driver.Seq
import PulserModel.Switch

open Pulser Pulser.Switch Wire

namespace DSwitch

/-- Split a token list at every occurrence of `sep`. -/
def splitAt (sep : String) (l : List String) : List (List String) :=
  let rec go (cur : List String) (acc : List (List String)) : List String → List (List String)
    | [] => (cur.reverse :: acc).reverse
    | t :: rest => if t == sep then go [] (cur.reverse :: acc) rest else go (t :: cur) acc rest
  go [] [] l

def parseCfgs? (l : List String) : Option (List ChanCfg) :=
  if l.isEmpty then some [] else (splitAt ";" l).mapM DSeq.parseCfg?

def parseOlds? (l : List String) : Option (List (ChanCfg × Bool)) :=
  if l.isEmpty then some []
  else (splitAt ";" l).mapM fun g =>
    match g.reverse with
    | a :: revCfg => do
      let c ← DSeq.parseCfg? revCfg.reverse
      let b ← parseBool? a
      pure (c, b)
    | [] => none

def showId : NewId → String
  | .chan i => s!"c{i}"
  | .dmm j => s!"d{j}"

def showRes : MatchRes → String
  | .ok => "ok" | .nonStrict => "nonStrict" | .strict => "strict"

/-- A sequence state that carries exactly what the matching reads: the declared channels with
their configurations, and one `enable_eom_mode` call per EOM-active channel. -/
def stateOf (olds : List (ChanCfg × Bool)) : SeqState :=
  let named := olds.zipIdx
  { dev := ⟨[], [], false, none⟩, nQ := 0,
    chans := named.map fun ((c, _), i) => { name := .user i, chId := 0, cfg := c },
    calls := named.filterMap fun ((_, a), i) => if a then some (.enableEom (.user i) default) else none }

def handle (line : String) : String :=
  match (line.trimAscii.toString.splitOn " ").filter (· ≠ "") with
  | "match" :: strict :: reusable :: "|" :: rest =>
    match parseBool? strict, parseBool? reusable, splitAt "|" rest with
    | some st, some re, [o, c, d] =>
      match parseOlds? o, parseCfgs? c, parseCfgs? d with
      | some olds, some chans, some dmms =>
        let ms := possibleMatches (stateOf olds) ⟨chans, dmms, re, none⟩ st
        let shown := (ms.take 40).map fun m => jList (m.map fun p => showId p.2)
        s!"ok {ms.length} {jList shown}"
      | _, _, _ => "bad request"
    | _, _, _ => "bad request"
  | "check" :: strict :: eom :: "|" :: rest =>
    match parseBool? strict, parseBool? eom, splitAt "|" rest with
    | some st, some e, [o, n] =>
      match DSeq.parseCfg? o, DSeq.parseCfg? n with
      | some a, some b => s!"ok {showRes (checkChannelsMatch a b e st)}"
      | _, _ => "bad request"
    | _, _, _ => "bad request"
  | _ => "bad request"

end DSwitch

partial def loop (h : IO.FS.Stream) (out : IO.FS.Stream) : IO Unit := do
  let line ← h.getLine
  if line.isEmpty then return ()
  out.putStrLn (DSwitch.handle line)
  out.flush
  loop h out

def main : IO Unit := do
  loop (← IO.getStdin) (← IO.getStdout)
