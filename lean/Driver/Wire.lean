/-
  Driver.Wire — tiny parser / printer helpers for the line protocol.
  Tokens are separated by single spaces; integers in decimal; rationals `p/q`
  or integers; lists `[a,b,c]` (no spaces); options `-` or the value;
  booleans `0`/`1`.
-/
namespace Wire

def parseInt? (s : String) : Option Int := s.toInt?

def parseNat? (s : String) : Option Nat := s.toNat?

def parseBool? (s : String) : Option Bool :=
  if s == "1" then some true else if s == "0" then some false else none

def parseRat? (s : String) : Option Rat :=
  match s.splitOn "/" with
  | [a] => (a.toInt?).map fun n => (n : Rat)
  | [a, b] =>
    match a.toInt?, b.toNat? with
    | some n, some d => if d = 0 then none else some (mkRat n d)
    | _, _ => none
  | _ => none

def parseOpt? {α} (f : String → Option α) (s : String) : Option (Option α) :=
  if s == "-" then some none else (f s).map some

/-- Split `[a,b,c]` into its items (no nesting). -/
def listItems? (s : String) : Option (List String) :=
  if s.length < 2 || s.front != '[' || s.back != ']' then none
  else
    let inner : String := ((s.drop 1).dropEnd 1).toString
    if inner.isEmpty then some [] else some (inner.splitOn ",")

def parseList? {α} (f : String → Option α) (s : String) : Option (List α) := do
  let items ← listItems? s
  items.mapM f

/-- Lists of lists: `[a,b;c,d]` → items separated by `;`, each a `,` list. -/
def parseListList? {α} (f : String → Option α) (s : String) : Option (List (List α)) :=
  if s.length < 2 || s.front != '[' || s.back != ']' then none
  else
    let inner : String := ((s.drop 1).dropEnd 1).toString
    if inner.isEmpty then some []
    else (inner.splitOn ";").mapM fun part =>
      if part.isEmpty then some [] else (part.splitOn ",").mapM f

def showRat (r : Rat) : String :=
  if r.den == 1 then toString r.num else s!"{r.num}/{r.den}"

def showOpt {α} (f : α → String) : Option α → String
  | none => "-"
  | some a => f a

def showList {α} (f : α → String) (l : List α) : String :=
  "[" ++ ",".intercalate (l.map f) ++ "]"

def jStr (s : String) : String := "\"" ++ s ++ "\""

def jList (l : List String) : String := "[" ++ ",".intercalate l ++ "]"

def jObj (l : List (String × String)) : String :=
  "{" ++ ",".intercalate (l.map fun (k, v) => jStr k ++ ":" ++ v) ++ "}"

def jBool (b : Bool) : String := if b then "true" else "false"

end Wire
