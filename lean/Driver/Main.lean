/-
  Driver.Main — line-protocol driver (`pmdriver`).  One request per line, one
  reply per line.  The first token selects the machine.
-/
import Driver.Seq

structure DState where
  seq : DSeq.M := {}

def handle (st : DState) (line : String) : DState × String :=
  match (line.trimAscii.toString.splitOn " ").filter (· ≠ "") with
  | "seq" :: rest =>
    let (m, out) := DSeq.step st.seq rest
    ({ st with seq := m }, out)
  | _ => (st, "bad machine")

partial def loop (h : IO.FS.Stream) (out : IO.FS.Stream) (st : DState) : IO Unit := do
  let line ← h.getLine
  if line.isEmpty then return ()
  let (st', reply) := handle st line
  out.putStrLn reply
  out.flush
  loop h out st'

def main : IO Unit := do
  loop (← IO.getStdin) (← IO.getStdout) {}
