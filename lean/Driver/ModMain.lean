/-
  Driver.ModMain — line protocol executable `pm_mod` for PulserModel/Modulation.lean (C14),
  the scalar-polymorphic model instantiated with `Float` (and `Cx` = pairs of `Float` for the DFT).

  Floats travel exactly as `I:e` (value = I · 2^(e−53), I an integer with |I| < 2^53).

    apply dft  bw [x]      -> ok [y]      `Channel.apply_modulation(x, bw)` through `dftWith` twice
    apply conv bw [x]      -> ok [y]      the same through `circConv` with the kernel idft(m)
    kernel bw n            -> ok [h]      the kernel idft(m) of length n (real part)
    chmod filters rise pad keep bw [x]    -> ok [y]           `channelModulate`
    trim tr start stop [mod]              -> ok [y]           `trimModulated`
    sample filters rise pad modulation extended durWithFall bw [amp] [det] [phase]
                                          -> err | ok [amp] [det] [phase]   `sampleChannel`

  `modulateDft` of the model recomputes the forward transform for every output index; the driver
  evaluates the same two `dftWith` passes with the intermediate spectrum stored in an array.
-/
import PulserModel.Modulation
import Driver.Wire
open Pulser Pulser.Mod Wire

namespace DMod

/-- Complex numbers over `Float`. -/
structure Cx where
  re : Float
  im : Float

instance : Add Cx := ⟨fun a b => ⟨a.re + b.re, a.im + b.im⟩⟩
instance : Mul Cx := ⟨fun a b => ⟨a.re * b.re - a.im * b.im, a.re * b.im + a.im * b.re⟩⟩
instance : Zero Cx := ⟨⟨0, 0⟩⟩
instance : Zero Float := ⟨0.0⟩

def parseFloat? (s : String) : Option Float :=
  match s.splitOn ":" with
  | [i, e] =>
    match i.toInt?, e.toInt? with
    | some i, some e => some ((Float.ofInt i).scaleB (e - 53))
    | _, _ => none
  | _ => none

def showFloat (x : Float) : String :=
  if x == 0.0 then "0:0"
  else
    let (m, e) := x.frExp
    let i : Int := (m.scaleB 53).toInt64.toInt
    s!"{i}:{e}"

def pi : Float := 3.141592653589793

/-- `pw t = exp(∓2πi t/n)` as a table (`sign = -1` forward, `+1` inverse). -/
def rootTable (n : Nat) (sign : Float) : Array Cx :=
  Array.ofFn (n := n) fun t =>
    let a := 2.0 * pi * t.val.toFloat / n.toFloat
    ⟨Float.cos a, sign * Float.sin a⟩

/-- `np.fft.fftfreq(n)`: `k/n` for `k < ceil(n/2)`, `(k−n)/n` otherwise. -/
def fftfreq (n k : Nat) : Float :=
  if k < (n + 1) / 2 then k.toFloat / n.toFloat else (k.toFloat - n.toFloat) / n.toFloat

/-- `modulation = exp(-freqs**2 / fc**2)` with `fc = bw * 1e-3 / sqrt(log(2))`. -/
def transfer (bw : Float) (n k : Nat) : Float :=
  let fc := bw * 1e-3 / Float.sqrt (Float.log 2.0)
  let f := fftfreq n k
  Float.exp (-(f * f) / (fc * fc))

def ofArr {α} [Zero α] (a : Array α) (n : Nat) : Fin n → α := fun i => a.getD i.val 0

/-- Two `dftWith` passes = `modulateDft` with the spectrum materialised. -/
def applyDft (bw : Float) (x : List Float) : List Float :=
  let n := x.length
  if n = 0 then [] else
  let fw := rootTable n (-1.0)
  let bk := rootTable n 1.0
  let xc : Array Cx := (x.map fun v => (⟨v, 0⟩ : Cx)).toArray
  let X : Array Cx := Array.ofFn (dftWith (n := n) (fun t => fw.getD t 0) (ofArr xc n))
  let Y : Array Cx := Array.ofFn (n := n) fun k => X.getD k.val 0 * (⟨transfer bw n k.val, 0⟩ : Cx)
  let out : Fin n → Cx := dftWith (fun t => bk.getD t 0) (ofArr Y n)
  List.ofFn fun i => (out i).re / n.toFloat

/-- The kernel `idft(m)` (real part). -/
def kernel (bw : Float) (n : Nat) : Array Float :=
  let bk := rootTable n 1.0
  let M : Array Cx := Array.ofFn (n := n) fun k => (⟨transfer bw n k.val, 0⟩ : Cx)
  let h : Fin n → Cx := kernelOf (fun t => bk.getD t 0) (⟨1.0 / n.toFloat, 0⟩ : Cx) (ofArr M n)
  Array.ofFn fun i => (h i).re

def applyConv (bw : Float) (x : List Float) : List Float :=
  let n := x.length
  if n = 0 then [] else
  let h := kernel bw n
  let xa := x.toArray
  List.ofFn (circConv (n := n) (ofArr h n) (ofArr xa n))

def showFloats (l : List Float) : String := showList showFloat l

def parseFloats? (s : String) : Option (List Float) := parseList? parseFloat? s

def showCS (r : CS Float) : String :=
  s!"ok {showFloats r.amp} {showFloats r.det} {showFloats r.phase}"

def handle (toks : List String) : String :=
  match toks with
  | ["apply", how, bw, x] =>
    match parseFloat? bw, parseFloats? x with
    | some bw, some x =>
      if how == "dft" then "ok " ++ showFloats (applyDft bw x)
      else if how == "conv" then "ok " ++ showFloats (applyConv bw x)
      else "bad request"
    | _, _ => "bad request"
  | ["kernel", bw, n] =>
    match parseFloat? bw, parseNat? n with
    | some bw, some n => "ok " ++ showFloats (kernel bw n).toList
    | _, _ => "bad request"
  | ["chmod", f, rise, pad, keep, bw, x] =>
    match parseBool? f, parseNat? rise, parseNat? pad, parseBool? keep, parseFloat? bw, parseFloats? x with
    | some f, some rise, some pad, some keep, some bw, some x =>
      "ok " ++ showFloats (channelModulate (applyDft bw) ⟨f, rise, pad⟩ x keep)
    | _, _, _, _, _, _ => "bad request"
  | ["trim", tr, a, b, m] =>
    match parseNat? tr, parseNat? a, parseNat? b, parseFloats? m with
    | some tr, some a, some b, some m => "ok " ++ showFloats (trimModulated m tr a b)
    | _, _, _, _ => "bad request"
  | ["sample", f, rise, pad, md, ext, dwf, bw, amp, det, ph] =>
    match parseBool? f, parseNat? rise, parseNat? pad, parseBool? md, parseNat? ext, parseNat? dwf,
        parseFloat? bw, parseFloats? amp, parseFloats? det, parseFloats? ph with
    | some f, some rise, some pad, some md, some ext, some dwf, some bw, some amp, some det, some ph =>
      match sampleChannel (applyDft bw) ⟨f, rise, pad⟩ ⟨amp, det, ph⟩ md ext dwf with
      | some r => showCS r
      | none => "err"
    | _, _, _, _, _, _, _, _, _, _ => "bad request"
  | _ => "bad request"

end DMod

partial def loop (h : IO.FS.Stream) (out : IO.FS.Stream) : IO Unit := do
  let line ← h.getLine
  if line.isEmpty then return ()
  let toks := (line.trimAscii.toString.splitOn " ").filter (· ≠ "")
  out.putStrLn (DMod.handle toks)
  out.flush
  loop h out

def main : IO Unit := do
  loop (← IO.getStdin) (← IO.getStdout)
