/-
  Driver.CodecMain — line-protocol driver `pm_codec` for the C17 record codec.

  One request per line, one reply per line.  Values travel in prefix form:
    N | T | F | #<rat> | S<hex of utf-8> | L<n> v₁ … vₙ | O<n> k₁ v₁ … kₙ vₙ   (keys are S tokens)

  Requests
    enc <kind> <value>     kind ∈ channel | device | layout | noise      → ok <dom> <value>
    dec <kind> <value>                                                    → ok <value> | none
    ninit <args>           NoiseModel.__init__ on a record of arguments   → ok <value>
    nrel <nm>              relevant parameters of a stored noise model    → ok <list>
    simfrom <nm>           SimConfig.from_noise_model (passed kwargs)     → ok <value>
    simto <sc>             SimConfig.to_noise_model                       → ok <value>
  <dom> is 1 when the record satisfies the hypotheses of the round-trip theorem.
-/
import Driver.Wire
import PulserModel.Codec
import PulserModel.Generated.Fields

open Pulser.Codec

namespace DCodec

def hexDigit? (c : Char) : Option Nat :=
  if '0' ≤ c ∧ c ≤ '9' then some (c.toNat - '0'.toNat)
  else if 'a' ≤ c ∧ c ≤ 'f' then some (c.toNat - 'a'.toNat + 10)
  else if 'A' ≤ c ∧ c ≤ 'F' then some (c.toNat - 'A'.toNat + 10)
  else none

partial def hexBytes (cs : List Char) (acc : ByteArray) : Option ByteArray :=
  match cs with
  | [] => some acc
  | a :: b :: rest =>
    match hexDigit? a, hexDigit? b with
    | some x, some y => hexBytes rest (acc.push (UInt8.ofNat (16 * x + y)))
    | _, _ => none
  | _ => none

def unhex (s : String) : Option String :=
  match hexBytes s.toList ByteArray.empty with
  | some b => String.fromUTF8? b
  | none => none

def hexChar (n : Nat) : Char :=
  if n < 10 then Char.ofNat ('0'.toNat + n) else Char.ofNat ('a'.toNat + n - 10)

def hex (s : String) : String :=
  String.ofList (s.toUTF8.toList.flatMap fun b => [hexChar (b.toNat / 16), hexChar (b.toNat % 16)])

partial def parseValue : List String → Option (Value × List String)
  | [] => none
  | tok :: rest =>
    match tok.toList with
    | ['N'] => some (.null, rest)
    | ['T'] => some (.bool true, rest)
    | ['F'] => some (.bool false, rest)
    | '#' :: cs => (Wire.parseRat? (String.ofList cs)).map fun q => (.num q, rest)
    | 'S' :: cs => (unhex (String.ofList cs)).map fun s => (.str s, rest)
    | 'L' :: cs =>
      match (String.ofList cs).toNat? with
      | none => none
      | some n =>
        let rec go (k : Nat) (toks : List String) (acc : List Value) : Option (List Value × List String) :=
          match k with
          | 0 => some (acc.reverse, toks)
          | k + 1 =>
            match parseValue toks with
            | some (v, toks') => go k toks' (v :: acc)
            | none => none
        (go n rest []).map fun (xs, toks) => (.list xs, toks)
    | 'O' :: cs =>
      match (String.ofList cs).toNat? with
      | none => none
      | some n =>
        let rec goObj (k : Nat) (toks : List String) (acc : List (String × Value)) :
            Option (List (String × Value) × List String) :=
          match k with
          | 0 => some (acc.reverse, toks)
          | k + 1 =>
            match parseValue toks with
            | some (.str key, toks') =>
              match parseValue toks' with
              | some (v, toks'') => goObj k toks'' ((key, v) :: acc)
              | none => none
            | _ => none
        (goObj n rest []).map fun (kvs, toks) => (.obj kvs, toks)
    | _ => none

partial def showValue : Value → String
  | .null => "N"
  | .bool true => "T"
  | .bool false => "F"
  | .num q => "#" ++ Wire.showRat q
  | .str s => "S" ++ hex s
  | .list xs => " ".intercalate (s!"L{xs.length}" :: xs.map showValue)
  | .obj kvs => " ".intercalate (s!"O{kvs.length}" :: kvs.flatMap fun (k, v) => ["S" ++ hex k, showValue v])

def G := Generated.devices
def NZ := Generated.noise
def exVirtual : List String := []

def bit (b : Bool) : String := if b then "1" else "0"

def deviceDom (v : Value) : Bool :=
  match v with
  | .obj ((ck, .str cls) :: r) =>
    ck == classKey &&
    (if cls = G.virtual.cls then deviceRecOkB G (noiseSub NZ) G.virtual exVirtual r
     else if cls = G.physical.cls then deviceRecOkB G (noiseSub NZ) G.physical [] r
     else false)
  | _ => false

def subOf (kind : String) : Option (Sub × (Value → Bool)) :=
  if kind = "channel" then some (channelSub G.chans, channelValOkB G.chans)
  else if kind = "device" then some (deviceSub G (noiseSub NZ), deviceDom)
  else if kind = "layout" then some (layoutSub G, fun v => match v with
    | .obj l => wellTypedB G.layout l
    | _ => false)
  else if kind = "noise" then some (noiseSub NZ, fun _ => true)
  else none

def handle (line : String) : String :=
  match (line.trimAscii.toString.splitOn " ").filter (· ≠ "") with
  | "enc" :: kind :: rest =>
    match subOf kind, parseValue rest with
    | some (s, dom), some (v, []) => s!"ok {bit (dom v)} {showValue (s.enc v)}"
    | _, _ => "bad request"
  | "dec" :: kind :: rest =>
    match subOf kind, parseValue rest with
    | some (s, _), some (v, []) =>
      match s.dec v with
      | some r => "ok " ++ showValue r
      | none => "none"
    | _, _ => "bad request"
  | "ninit" :: rest =>
    match parseValue rest with
    | some (.obj args, []) => "ok " ++ showValue (.obj (noiseInit NZ args))
    | _ => "bad request"
  | "nrel" :: rest =>
    match parseValue rest with
    | some (.obj nm, []) =>
      "ok " ++ showValue (.list ((NZ.params.filter (noiseRelevant NZ nm)).map .str))
    | _ => "bad request"
  | "simfrom" :: rest =>
    match parseValue rest with
    | some (.obj nm, []) => "ok " ++ showValue (.obj (simFromNoise NZ nm))
    | _ => "bad request"
  | "simto" :: rest =>
    match parseValue rest with
    | some (.obj sc, []) => "ok " ++ showValue (.obj (simToNoise NZ sc))
    | _ => "bad request"
  | _ => "bad request"

partial def loop (h : IO.FS.Stream) (out : IO.FS.Stream) : IO Unit := do
  let line ← h.getLine
  if line.isEmpty then return ()
  out.putStrLn (handle line)
  out.flush
  loop h out

end DCodec

def main : IO Unit := do
  DCodec.loop (← IO.getStdin) (← IO.getStdout)
