/-
  Driver.MeasMain — line-protocol executable `pm_meas` for the topic `Meas`
  (properties C11, C20).  One request per line on stdin, one reply per line.

  Numbers: rationals `p/q` or integers; complex numbers `re:im`; lists `[a,b,c]`;
  bitstrings `0110`; booleans `0`/`1`; options `-`.

    weights d n matching gr one [p..]            -> [w..]            QutipResult._weights
    bitprobs d n one cutoff [p..]                -> [bits=p,..]      QutipState.bitstring_probabilities
    kernel n eps epsp [w..]                      -> [w'..]           detection errors
    prep eta [u..]                               -> bits weight      bad atoms of one run (_noisy_runs)
    store reset | put u tag t v | times obs|tag k | get obs|tag k t | tagged | snap
    should own dflt t T                          -> code spec        Observable.__call__
    legacy dflt extras T m                       -> full | [t..]     _get_legacy_evaluation_times
    seteval T [t..]                              -> [t..] | err      set_evaluation_times
    reltime T t                                  -> t'               evaluation_time of a QutipResult
    cfg [obs] dflt wm pd num den                 -> ok … | err kind  EmulationConfig.__init__
    op d n fullop                                -> matrix           from_operator_repr (Kronecker)
    opentry d n fullop                           -> matrix           documented entry-wise formula
    alg add|mul|smul|dagger|kron|applyket|applydm …                  matrix algebra
    obs d n one ket|dm [state] [H]               -> {...}            default observables
    overlap kk|kd|dd dim [a] [b]                 -> x                State.overlap
-/
import PulserModel.Measure
import Driver.Wire
open Pulser Pulser.Measure Wire

namespace DMeas

def parseCQ? (s : String) : Option CQ :=
  match s.splitOn ":" with
  | [a] => (parseRat? a).map fun r => ⟨r, 0⟩
  | [a, b] => do pure ⟨← parseRat? a, ← parseRat? b⟩
  | _ => none

def showCQ (z : CQ) : String := showRat z.re ++ ":" ++ showRat z.im

def parseBits? (s : String) : Option (List Bool) :=
  if s == "e" then some []
  else s.toList.mapM fun c => if c == '1' then some true else if c == '0' then some false else none

def showBits (b : List Bool) : String :=
  if b.isEmpty then "e" else String.ofList (b.map fun x => if x then '1' else '0')

def parseDefault? (s : String) : Option DefaultTimes :=
  if s == "full" then some .full else (parseList? parseRat? s).map .times

def showDefault : DefaultTimes → String
  | .full => "full"
  | .times l => showList showRat l

def showStoreErr : StoreErr → String
  | .runtime => "runtime" | .assertion => "assertion" | .value => "value"

def showCfgErr : CfgErr → String
  | .range => "range" | .repeated => "repeated" | .order => "order" | .sampling => "sampling"

/-- A matrix from a row-major flat list. -/
def matOfFlat (r c : Nat) (l : List CQ) : Mat :=
  let a := l.toArray
  ⟨r, c, fun i j => a.getD (i * c + j) 0⟩

def showMat (M : Mat) : String :=
  "[" ++ ";".intercalate (M.toLists.map fun row => ",".intercalate (row.map showCQ)) ++ "]"

def parseMat? (r c : Nat) (s : String) : Option Mat := do
  let l ← parseList? parseCQ? s
  if l.length = r * c then some (matOfFlat r c l) else none

/-- `i.j.z` -/
def parseEntry? (s : String) : Option (Nat × Nat × CQ) :=
  match s.splitOn "." with
  | [i, j, z] => do pure (← parseNat? i, ← parseNat? j, ← parseCQ? z)
  | _ => none

/-- `E+E+…#i.i.i` -/
def parseGroup? (s : String) : Option (QuditOp × List Nat) :=
  match s.splitOn "#" with
  | [es, inds] => do
    let q ← if es.isEmpty then some [] else (es.splitOn "+").mapM parseEntry?
    let is ← if inds.isEmpty then some [] else (inds.splitOn ".").mapM parseNat?
    pure (q, is)
  | _ => none

/-- `z@G&G&…` -/
def parseTerm? (s : String) : Option (CQ × TensorOp) :=
  match s.splitOn "@" with
  | [z, gs] => do
    let t ← if gs.isEmpty then some [] else (gs.splitOn "&").mapM parseGroup?
    pure (← parseCQ? z, t)
  | _ => none

def parseFullOp? (s : String) : Option FullOp :=
  if s == "-" then some [] else (s.splitOn "|").mapM parseTerm?

structure M where
  store : Store := {}

def showStore (s : Store) : String :=
  jObj [
    ("times", jList (s.times.map fun (u, ts) => jObj [("u", toString u), ("t", jList (ts.map fun t => jStr (showRat t)))])),
    ("vals", jList (s.vals.map fun (u, vs) => jObj [("u", toString u), ("v", jList (vs.map toString))])),
    ("tagmap", jList (s.tagmap.map fun (t, u) => jList [toString t, toString u]))]

def stepStore (m : M) (t : List String) : M × String :=
  match t with
  | ["reset"] => ({ m with store := {} }, "ok")
  | ["put", u, tag, time, v] =>
    match parseNat? u, parseNat? tag, parseRat? time, parseInt? v with
    | some u, some tag, some time, some v =>
      let r := storeRaw m.store u tag time v
      ({ m with store := r.st }, match r.err with | none => "ok" | some e => "err " ++ showStoreErr e)
    | _, _, _, _ => (m, "bad args")
  | ["times", kind, k] =>
    match parseNat? k with
    | some k =>
      let f := if kind == "obs" then findByObs m.store k else findByTag m.store k
      (m, match f with
          | .ok u => showList showRat (getTimes m.store u)
          | .error e => "err " ++ showStoreErr e)
    | none => (m, "bad args")
  | ["get", kind, k, time] =>
    match parseNat? k, parseRat? time with
    | some k, some time =>
      let f := if kind == "obs" then findByObs m.store k else findByTag m.store k
      (m, match f with
          | .ok u => (match getResult m.store u time with
                      | .ok v => toString v
                      | .error e => "err " ++ showStoreErr e)
          | .error e => "err " ++ showStoreErr e)
    | _, _ => (m, "bad args")
  | ["tagged"] =>
    (m, "[" ++ ";".intercalate ((getTagged m.store).map fun (tag, vs) =>
        toString tag ++ "=" ++ ",".intercalate (vs.map toString)) ++ "]")
  | ["snap"] => (m, showStore m.store)
  | _ => (m, "bad store request")

def showOptList (o : Option (List Rat)) : String :=
  match o with
  | none => "full"
  | some l => showList showRat l

def obsReply (d n one : Nat) (isKet : Bool) (st H : Mat) : String :=
  let rho : Mat := (if isKet then pureDM st else st).memo
  let H := H.memo
  let probs := if isKet then probsKet st else probsDM rho
  let occ := (List.range n).map fun i => occupationSpec d n one probs i
  let occOp := (List.range n).map fun i => expectDM (numberOp d n one [i]).memo rho
  let corr := (List.range n).map fun i => (List.range n).map fun j => correlationSpec d n one probs i j
  let corrOp := (List.range n).map fun i => (List.range n).map fun j =>
    expectDM (numberOp d n one (if i = j then [i] else [i, j])).memo rho
  let hr := (Mat.mul H rho).memo
  let e := Mat.trace hr
  let hrh := (Mat.mul hr (Mat.dagger H)).memo
  let m2 := Mat.trace hrh                                   -- Tr(HρH†) = Tr(ρH²) for Hermitian H
  let m2def := Mat.trace (Mat.mul (Mat.mul H H).memo rho)
  -- what the tree stores: identity.expect(HρH†) and that minus expect(H)²
  let codeM2 := Mat.trace (Mat.mul (Mat.ident H.r) hrh)
  let codeVar := codeM2 - e * e
  -- the formulas before the repair of F25/F26 (kept for reference)
  let oldSq := Mat.trace (Mat.mul (Mat.dagger hrh) hrh)
  let oldSub := Mat.trace (Mat.mul (Mat.dagger rho) hrh)
  let extra :=
    if isKet then
      [("energy_ket", jStr (showCQ (expectKet H st)))]
    else []
  jObj ([
    ("occ", jList (occ.map fun x => jStr (showRat x))),
    ("occ_op", jList (occOp.map fun z => jStr (showCQ z))),
    ("corr", jList (corr.map fun r => jList (r.map fun x => jStr (showRat x)))),
    ("corr_op", jList (corrOp.map fun r => jList (r.map fun z => jStr (showCQ z)))),
    ("energy", jStr (showCQ e)),
    ("m2", jStr (showCQ m2)),
    ("m2def", jStr (showCQ m2def)),
    ("var", jStr (showCQ (m2def - e * e))),
    ("code_m2", jStr (showCQ codeM2)),
    ("code_var", jStr (showCQ codeVar)),
    ("old_m2_sq", jStr (showCQ oldSq)),
    ("old_sub", jStr (showCQ oldSub))] ++ extra)

def handle (m : M) (line : String) : M × String :=
  match (line.trimAscii.toString.splitOn " ").filter (· ≠ "") with
  | ["weights", d, n, matching, gr, one, probs] =>
    match parseNat? d, parseNat? n, parseBool? matching, parseBool? gr, parseNat? one,
          parseList? parseRat? probs with
    | some d, some n, some mt, some gr, some one, some probs =>
      (m, showList showRat (weights ⟨d, n, mt, gr, one⟩ probs))
    | _, _, _, _, _, _ => (m, "bad args")
  | ["bitprobs", d, n, one, cutoff, probs] =>
    match parseNat? d, parseNat? n, parseNat? one, parseRat? cutoff, parseList? parseRat? probs with
    | some d, some n, some one, some cutoff, some probs =>
      (m, "[" ++ ",".intercalate ((bitstringProbs d n one cutoff probs).map fun (b, p) =>
        showBits b ++ "=" ++ showRat p) ++ "]")
    | _, _, _, _, _ => (m, "bad args")
  | ["kernel", n, eps, epsp, w] =>
    match parseNat? n, parseRat? eps, parseRat? epsp, parseList? parseRat? w with
    | some n, some eps, some epsp, some w => (m, showList showRat (applyKernel n eps epsp w))
    | _, _, _, _ => (m, "bad args")
  | ["prep", eta, u] =>
    match parseRat? eta, parseList? parseRat? u with
    | some eta, some u =>
      let bad := drawBad eta u
      (m, showBits (decodeConfig (encodeConfig bad)) ++ " " ++ showRat (configWeight eta bad))
    | _, _ => (m, "bad args")
  | "store" :: rest => stepStore m rest
  | ["should", own, dflt, t, T] =>
    match parseOpt? (parseList? parseRat?) own, parseDefault? dflt, parseRat? t, parseNat? T with
    | some own, some dflt, some t, some T =>
      let tol := timeTol T
      (m, s!"{if shouldEvaluateCode own dflt t tol then 1 else 0} {if shouldEvaluateSpec own dflt t tol then 1 else 0}")
    | _, _, _, _ => (m, "bad args")
  | ["legacy", dflt, extras, T, mm] =>
    match parseDefault? dflt, parseList? parseRat? extras, parseNat? T, parseNat? mm with
    | some dflt, some extras, some T, some mm => (m, showOptList (legacyEvalTimes dflt extras T mm))
    | _, _, _, _ => (m, "bad args")
  | ["seteval", T, value] =>
    match parseNat? T, parseList? parseRat? value with
    | some T, some value =>
      (m, match setEvaluationTimes T value with
          | some l => showList showRat l
          | none => "err")
    | _, _ => (m, "bad args")
  | ["reltime", T, t] =>
    match parseNat? T, parseRat? t with
    | some T, some t => (m, showRat (relTime T t))
    | _, _ => (m, "bad args")
  | ["cfg", obs, dflt, wm, pd, num, den] =>
    match parseList? parseNat? obs, parseDefault? dflt, parseBool? wm, parseBool? pd,
          parseNat? num, parseNat? den with
    | some obs, some dflt, some wm, some pd, some num, some den =>
      (m, match cfgInit ⟨obs, dflt, wm, pd, num, den⟩ with
          | .ok c => s!"ok {showList toString c.observables} {showDefault c.dflt} {if c.withModulation then 1 else 0} {if c.preferDeviceNoise then 1 else 0} {c.samplingNum} {c.samplingDen}"
          | .error e => "err " ++ showCfgErr e)
    | _, _, _, _, _, _ => (m, "bad args")
  | ["op", d, n, fo] =>
    match parseNat? d, parseNat? n, parseFullOp? fo with
    | some d, some n, some fo => (m, showMat (fromRepr d n fo))
    | _, _, _ => (m, "bad args")
  | ["opentry", d, n, fo] =>
    match parseNat? d, parseNat? n, parseFullOp? fo with
    | some d, some n, some fo =>
      let sts := allStates d n
      (m, "[" ++ ";".intercalate (sts.map fun σ =>
          ",".intercalate (sts.map fun τ => showCQ (fromReprEntry d n fo σ τ))) ++ "]")
    | _, _, _ => (m, "bad args")
  | ["alg", "add", r, c, a, b] =>
    match parseNat? r, parseNat? c with
    | some r, some c =>
      match parseMat? r c a, parseMat? r c b with
      | some A, some B => (m, showMat (Mat.add A B))
      | _, _ => (m, "bad args")
    | _, _ => (m, "bad args")
  | ["alg", "smul", r, c, z, a] =>
    match parseNat? r, parseNat? c, parseCQ? z with
    | some r, some c, some z =>
      match parseMat? r c a with
      | some A => (m, showMat (Mat.smul z A))
      | none => (m, "bad args")
    | _, _, _ => (m, "bad args")
  | ["alg", "mul", r, k, c, a, b] =>
    match parseNat? r, parseNat? k, parseNat? c with
    | some r, some k, some c =>
      match parseMat? r k a, parseMat? k c b with
      | some A, some B => (m, showMat (Mat.mul A B))
      | _, _ => (m, "bad args")
    | _, _, _ => (m, "bad args")
  | ["alg", "dagger", r, c, a] =>
    match parseNat? r, parseNat? c with
    | some r, some c =>
      match parseMat? r c a with
      | some A => (m, showMat (Mat.dagger A))
      | none => (m, "bad args")
    | _, _ => (m, "bad args")
  | ["alg", "kron", r1, c1, r2, c2, a, b] =>
    match parseNat? r1, parseNat? c1, parseNat? r2, parseNat? c2 with
    | some r1, some c1, some r2, some c2 =>
      match parseMat? r1 c1 a, parseMat? r2 c2 b with
      | some A, some B => (m, showMat (Mat.kron A B))
      | _, _ => (m, "bad args")
    | _, _, _, _ => (m, "bad args")
  | ["alg", "applyket", r, a, psi] =>
    match parseNat? r with
    | some r =>
      match parseMat? r r a, parseMat? r 1 psi with
      | some A, some P => (m, showMat (Mat.mul A P))
      | _, _ => (m, "bad args")
    | none => (m, "bad args")
  | ["alg", "applydm", r, a, rho] =>
    match parseNat? r with
    | some r =>
      match parseMat? r r a, parseMat? r r rho with
      | some A, some R => (m, showMat (applyDM A.memo R.memo))
      | _, _ => (m, "bad args")
    | none => (m, "bad args")
  | ["alg", "expectket", r, a, psi] =>
    match parseNat? r with
    | some r =>
      match parseMat? r r a, parseMat? r 1 psi with
      | some A, some P => (m, showCQ (expectKet A P))
      | _, _ => (m, "bad args")
    | none => (m, "bad args")
  | ["alg", "expectdm", r, a, rho] =>
    match parseNat? r with
    | some r =>
      match parseMat? r r a, parseMat? r r rho with
      | some A, some R => (m, showCQ (expectDM A R))
      | _, _ => (m, "bad args")
    | none => (m, "bad args")
  | ["obs", d, n, one, kind, st, h] =>
    match parseNat? d, parseNat? n, parseNat? one with
    | some d, some n, some one =>
      let dim := d ^ n
      let isKet := kind == "ket"
      match (if isKet then parseMat? dim 1 st else parseMat? dim dim st), parseMat? dim dim h with
      | some S, some H => (m, obsReply d n one isKet S H)
      | _, _ => (m, "bad args")
    | _, _, _ => (m, "bad args")
  | ["overlap", kind, dim, a, b] =>
    match parseNat? dim with
    | some dim =>
      if kind == "kk" then
        match parseMat? dim 1 a, parseMat? dim 1 b with
        | some A, some B =>
          (m, showRat (overlapKet A B))
        | _, _ => (m, "bad args")
      else if kind == "kd" then
        match parseMat? dim 1 a, parseMat? dim dim b with
        | some A, some B => (m, showCQ (expectKet B A))
        | _, _ => (m, "bad args")
      else
        match parseMat? dim dim a, parseMat? dim dim b with
        | some A, some B => (m, showCQ (overlapDM A B))
        | _, _ => (m, "bad args")
    | none => (m, "bad args")
  | _ => (m, "bad request")

partial def loop (h : IO.FS.Stream) (out : IO.FS.Stream) (m : M) : IO Unit := do
  let line ← h.getLine
  if line.isEmpty then return ()
  let (m', reply) := handle m line
  out.putStrLn reply
  out.flush
  loop h out m'

end DMeas

def main : IO Unit := do
  DMeas.loop (← IO.getStdin) (← IO.getStdout) {}
