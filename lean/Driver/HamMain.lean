/-
  Driver.HamMain — line-protocol executable `pm_ham` for C05.

  The model of PulserModel/Hamiltonian.lean instantiated with `K := Cx Float`.
  Floats travel as their IEEE-754 bit patterns (decimal UInt64), so nothing is lost on the wire.

  requests (one per line, tokens separated by single spaces):
    consts
        → `ok rank=udrghx gr=rg:g,r dig=gh:h,g xy=ud:d,u`
    eig <used> <inXY>           used ⊆ "gdx" as a string (g = ground-rydberg, d = digital, x = XY) or `-`
        → `ok <levels>`          e.g. `ok rgh`
    ham <code|doc> <n> <eb> <xy> <maskOn> <mask> <coef> <field> <coords> <glob> <loc>
        eb      levels in order, e.g. `rg`, `rgh`, `ud`
        mask    `[i,j]` atom indices under the SLM mask
        coef    C6 (Ising) or C3 (XY)
        field   `[bx,by,bz]` (ignored in Ising mode)
        coords  `[x,y,z;x,y,z;…]` one triple per atom, register order
        glob    `[amp,det,cos,sin;…]` three entries: ground-rydberg, digital, XY
        loc     `[amp,det,cos,sin;…]` 3·n entries, atom-major (atom 0: gr, digital, XY; atom 1: …)
        → `ok <N> <i,j,re,im;…>` the non-zero entries of the N×N matrix
-/
import PulserModel.Hamiltonian
import Driver.Wire

open Pulser Ham

abbrev CF := Cx Float

def parseF? (s : String) : Option Float := (s.toNat?).map fun n => Float.ofBits (UInt64.ofNat n)

def showF (x : Float) : String := toString x.toBits.toNat

def stOfChar? : Char → Option St
  | 'u' => some .u | 'd' => some .d | 'r' => some .r | 'g' => some .g | 'h' => some .h
  | 'x' => some .x | _ => none

def charOfSt : St → Char
  | .u => 'u' | .d => 'd' | .r => 'r' | .g => 'g' | .h => 'h' | .x => 'x'

def showSts (l : List St) : String := String.ofList (l.map charOfSt)

def basisOfChar? : Char → Option Basis
  | 'g' => some .groundRydberg | 'd' => some .digital | 'x' => some .XY | _ => none

def mkDrive (l : List Float) : Option (Drive CF) :=
  match l with
  | [a, d, c, s] => some ⟨⟨a, 0⟩, ⟨d, 0⟩, ⟨c, -s⟩⟩     -- e^{-iφ} = cos φ − i sin φ
  | _ => none

def zeroDrive : Drive CF := ⟨0, 0, 1⟩

def basisIdx : Basis → Nat
  | .groundRydberg => 0 | .digital => 1 | .XY => 2

def dist (a b : List Float) : Float :=
  match a, b with
  | [x1, y1, z1], [x2, y2, z2] =>
    Float.sqrt ((x1 - x2) * (x1 - x2) + (y1 - y2) * (y1 - y2) + (z1 - z2) * (z1 - z2))
  | _, _ => 0

/-- `make_vdw_term`: `C6 / dist**6`;  `make_xy_term`: `C3 (1 − 3 cos²θ) / dist**3`, θ the angle
between the inter-atomic vector and the magnetic field. -/
def pairCoeff (xy : Bool) (coef : Float) (field : List Float) (a b : List Float) : Float :=
  let r := dist a b
  if xy then
    match a, b, field with
    | [x1, y1, z1], [x2, y2, z2], [bx, by', bz] =>
      let dot := (x1 - x2) * bx + (y1 - y2) * by' + (z1 - z2) * bz
      let bn := Float.sqrt (bx * bx + by' * by' + bz * bz)
      let cos := dot / (r * bn)
      coef * (1 - 3 * (cos * cos)) / (r * r * r)
    | _, _, _ => 0
  else coef / (r * r * r * r * r * r)

def handleHam (args : List String) : String :=
  match args with
  | [out, n, eb, xy, maskOn, mask, coef, field, coords, glob, loc] =>
    let r : Option String := do
      let n ← Wire.parseNat? n
      let eb ← eb.toList.mapM stOfChar?
      let xy ← Wire.parseBool? xy
      let maskOn ← Wire.parseBool? maskOn
      let mask ← Wire.parseList? Wire.parseNat? mask
      let coef ← parseF? coef
      let field ← Wire.parseList? parseF? field
      let coords ← Wire.parseListList? parseF? coords
      let glob ← (← Wire.parseListList? parseF? glob).mapM mkDrive
      let loc ← (← Wire.parseListList? parseF? loc).mapM mkDrive
      if coords.length != n || glob.length != 3 || loc.length != 3 * n then none
      let c : HamIn CF := {
        n := n, eb := eb, xy := xy, half := ⟨0.5, 0⟩
        glob := fun β => glob.getD (basisIdx β) zeroDrive
        loc := fun β q => loc.getD (3 * q + basisIdx β) zeroDrive
        U := fun i j => ⟨pairCoeff xy coef field (coords.getD i []) (coords.getD j []), 0⟩
        mask := fun q => mask.contains q
        maskOn := maskOn }
      let N := c.d ^ c.n
      let M : Mat CF ← if out == "code" then some (H_code c) else if out == "doc" then some (H_doc c) else none
      let mut items : Array String := #[]
      for k in [0:N] do
        for l in [0:N] do
          let v := M k l
          if v.re != 0 || v.im != 0 then
            items := items.push s!"{k},{l},{showF v.re},{showF v.im}"
      return s!"ok {N} " ++ ";".intercalate items.toList
    r.getD "err parse"
  | _ => "err arity"

def handle (line : String) : String :=
  match (line.trimAscii.toString.splitOn " ").filter (· ≠ "") with
  | ["consts"] =>
    let b (β : Basis) := s!"{showSts (EIGENSTATES β)}:{charOfSt β.a},{charOfSt β.b}"
    s!"ok rank={showSts STATES_RANK} gr={b .groundRydberg} dig={b .digital} xy={b .XY}"
  | ["eig", used, inXY] =>
    let r : Option String := do
      let used ← if used == "-" then some [] else used.toList.mapM basisOfChar?
      let inXY ← Wire.parseBool? inXY
      return "ok " ++ showSts (eigenbasisOf used inXY)
    r.getD "err parse"
  | "ham" :: rest => handleHam rest
  | _ => "err request"

partial def loop (h : IO.FS.Stream) (out : IO.FS.Stream) : IO Unit := do
  let line ← h.getLine
  if line.isEmpty then return ()
  out.putStrLn (handle line)
  out.flush
  loop h out

def main : IO Unit := do
  loop (← IO.getStdin) (← IO.getStdout)
