/-
  Driver.LayoutMain — line-protocol executable `pm_layout` for PulserModel/Layout.lean.
  One request per line, one reply per line; every request is self-contained.

  Encodings (Driver/Wire.lean): coordinates `[x,y;x,y;…]` in micro-units, id lists
  `[0,2]`, qubit ids `[a,b]` or `-`, mappings `[a:2,b:0]`, weights as exact rationals.

    layout  <coords>                                → ok dim=<d> sorted=<coords> order=<ids>
    eq      <coords> <coords>                       → ok <0|1>
    defreg  <coords> <trapIds> <qids|->             → ok ids=<qids> pos=<coords> traps=<ids>
    lookup  <coords> <coords>                       → ok <ids>
    dreg    <coords> <dim> <qids> <positions as rationals> <trapIds>
                                                    → ok ids=… pos=… traps=…
    mappable <coords> <declared> <mapping>          → ok ids=… pos=… traps=…
    wmap    <coords> <weights> <positions>
                                                    → ok sc=<coords> sw=<rats> qw=<rats>
    weq     <coords> <weights> <coords> <weights>   → ok <0|1>
    ldet    <coords> <id:w,…>                       → ok pos=<coords> w=<rats>
    rdet    <coords> <trapIds> <qids|-> <qid:w,…>   → ok pos=<coords> w=<rats>
  Errors: `err <class>`; unparsable request: `bad request`.
-/
import PulserModel.Layout
import Driver.Wire

open Pulser.Layout

namespace DLayout

def showErr : LErr → String
  | .shape => "shape" | .dim => "dim" | .notUnique => "notUnique" | .dupTrapId => "dupTrapId"
  | .badTrapId => "badTrapId" | .dupQubitId => "dupQubitId" | .qubitCount => "qubitCount"
  | .emptyRegister => "emptyRegister" | .layoutMismatch => "layoutMismatch"
  | .notInLayout => "notInLayout" | .tooManyQubits => "tooManyQubits" | .undeclared => "undeclared"
  | .notPrefix => "notPrefix" | .weightCount => "weightCount" | .weightRange => "weightRange"

def showCoords (cs : List Coord) : String :=
  "[" ++ ";".intercalate (cs.map fun c => ",".intercalate (c.map toString)) ++ "]"

def showNats (l : List Nat) : String := Wire.showList toString l
def showRats (l : List Rat) : String := Wire.showList Wire.showRat l
def showIds (l : List QId) : String := Wire.showList id l

def parseCoords? (s : String) : Option (List Coord) := Wire.parseListList? Wire.parseInt? s
def parseNats? (s : String) : Option (List Nat) := Wire.parseList? Wire.parseNat? s
def parseRats? (s : String) : Option (List Rat) := Wire.parseList? Wire.parseRat? s
def parseIds? (s : String) : Option (List QId) := Wire.parseList? some s

def parseOptIds? (s : String) : Option (Option (List QId)) :=
  if s == "-" then some none else (parseIds? s).map some

/-- `[k:v,k:v]` -/
def parsePairs? {α β} (fk : String → Option α) (fv : String → Option β) (s : String) :
    Option (List (α × β)) := do
  let items ← Wire.listItems? s
  items.mapM fun it =>
    match it.splitOn ":" with
    | [k, v] => do
      let a ← fk k
      let b ← fv v
      pure (a, b)
    | _ => none

def showReg (r : Reg) : String :=
  s!"ok ids={showIds (r.qubits.map (·.1))} pos={showCoords (r.qubits.map (·.2))} traps={showNats r.trapIds}"

def showWM (m : WeightMap) : String :=
  s!"ok pos={showCoords (m.traps.map (·.1))} w={showRats (m.traps.map (·.2))}"

def withRes {α} (r : Res α) (f : α → String) : String :=
  match r with
  | .ok a => f a
  | .err e => "err " ++ showErr e

def handle (toks : List String) : Option String :=
  match toks with
  | ["layout", cs] => do
    let cs ← parseCoords? cs
    pure <| withRes (mkLayout cs) fun L =>
      s!"ok dim={L.dim} sorted={showCoords L.sorted} order={showNats (sortingOrder L.coords)}"
  | ["eq", a, b] => do
    let a ← parseCoords? a
    let b ← parseCoords? b
    pure <| withRes (mkLayout a) fun La => withRes (mkLayout b) fun Lb =>
      "ok " ++ (if La.eqv Lb then "1" else "0")
  | ["defreg", cs, ids, qids] => do
    let cs ← parseCoords? cs
    let ids ← parseNats? ids
    let qids ← parseOptIds? qids
    pure <| withRes (mkLayout cs) fun L => withRes (defineRegister L ids qids) showReg
  | ["dreg", cs, dim, qids, ps, ids] => do
    let cs ← parseCoords? cs
    let dim ← Wire.parseNat? dim
    let qids ← parseIds? qids
    let ps ← Wire.parseListList? Wire.parseRat? ps
    let ids ← parseNats? ids
    if qids.length ≠ ps.length then none
    else
      pure <| withRes (mkLayout cs) fun L =>
        withRes (mkRegisterDirect L dim (qids.zip ps) ids) showReg
  | ["lookup", cs, qs] => do
    let cs ← parseCoords? cs
    let qs ← parseCoords? qs
    pure <| withRes (mkLayout cs) fun L => withRes (trapsFromCoords L qs) fun is =>
      "ok " ++ showNats is
  | ["mappable", cs, declared, mapping] => do
    let cs ← parseCoords? cs
    let declared ← parseIds? declared
    let mapping ← parsePairs? some Wire.parseNat? mapping
    pure <| withRes (mkLayout cs) fun L => withRes (mkMappable L declared) fun M =>
      withRes (buildRegister M mapping) showReg
  | ["wmap", cs, ws, ps] => do
    let cs ← parseCoords? cs
    let ws ← parseRats? ws
    let ps ← parseCoords? ps
    pure <| withRes (mkWeightMap cs ws) fun m =>
      s!"ok sc={showCoords m.sortedCoords} sw={showRats m.sortedWeights} qw={showRats (ps.map m.weightOf)}"
  | ["weq", ca, wa, cb, wb] => do
    let ca ← parseCoords? ca
    let wa ← parseRats? wa
    let cb ← parseCoords? cb
    let wb ← parseRats? wb
    pure <| withRes (mkWeightMap ca wa) fun ma => withRes (mkWeightMap cb wb) fun mb =>
      "ok " ++ (if ma.key == mb.key then "1" else "0")
  | ["ldet", cs, ws] => do
    let cs ← parseCoords? cs
    let ws ← parsePairs? Wire.parseNat? Wire.parseRat? ws
    pure <| withRes (mkLayout cs) fun L => withRes (layoutDetuningMap L ws) showWM
  | ["rdet", cs, ids, qids, ws] => do
    let cs ← parseCoords? cs
    let ids ← parseNats? ids
    let qids ← parseOptIds? qids
    let ws ← parsePairs? some Wire.parseRat? ws
    pure <| withRes (mkLayout cs) fun L => withRes (defineRegister L ids qids) fun r =>
      withRes (regDetuningMap r ws) showWM
  | _ => none

end DLayout

partial def loop (h : IO.FS.Stream) (out : IO.FS.Stream) : IO Unit := do
  let line ← h.getLine
  if line.isEmpty then return ()
  let toks := (line.trimAscii.toString.splitOn " ").filter (· ≠ "")
  out.putStrLn ((DLayout.handle toks).getD "bad request")
  out.flush
  loop h out

def main : IO Unit := do
  loop (← IO.getStdin) (← IO.getStdout)
