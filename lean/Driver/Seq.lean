/-
  Driver.Seq — the `seq` machine of the line protocol: builds a device, runs
  `stepRaw` on each operation line and prints canonical snapshots.
-/
import PulserModel.Sequence
import Driver.Wire
import Driver.SeqRender
open Pulser Wire

namespace DSeq

structure M where
  chans : List ChanCfg := []
  dmms : List ChanCfg := []
  st : Option SeqState := none
  deriving Inhabited

def errName : Err → String
  | .measured => "measured" | .nameInUse => "nameInUse" | .notAvailable => "notAvailable"
  | .xyConflict => "xyConflict" | .notDeclared => "notDeclared" | .inEom => "inEom"
  | .notInEom => "notInEom" | .alreadyInEom => "alreadyInEom" | .noTarget => "noTarget"
  | .slmWaiting => "slmWaiting" | .parametrized => "parametrized"
  | .nameReserved => "nameReserved" | .noSuchChannel => "noSuchChannel" | .noEom => "noEom"
  | .isDmm => "isDmm" | .notDmm => "notDmm" | .badProtocol => "badProtocol"
  | .diffPhaseRefs => "diffPhaseRefs" | .durTooShort => "durTooShort"
  | .durTooLong => "durTooLong" | .notResizable => "notResizable"
  | .ampOverMax => "ampOverMax" | .detOverMax => "detOverMax" | .avgAmpLow => "avgAmpLow"
  | .dmmPositive => "dmmPositive" | .dmmBottom => "dmmBottom"
  | .dmmTotalBottom => "dmmTotalBottom" | .overMaxSeq => "overMaxSeq"
  | .emptyTargets => "emptyTargets" | .notLocal => "notLocal"
  | .tooManyTargets => "tooManyTargets" | .unknownQubit => "unknownQubit"
  | .noBasis => "noBasis" | .alignUnknown => "alignUnknown" | .alignDup => "alignDup"
  | .alignFew => "alignFew" | .badMeasBasis => "badMeasBasis" | .noDmm => "noDmm"
  | .badPulse => "badPulse" | .nonFinite => "nonFinite" | .oracleMiss _ _ _ => "oracleMiss"

def parseBasis? : String → Option Basis
  | "gr" => some .groundRydberg | "dg" => some .digital | "xy" => some .xy | _ => none

def showBasis : Basis → String
  | .groundRydberg => "gr" | .digital => "dg" | .xy => "xy"

/-- `bad` (or anything unknown) is an invalid protocol string. -/
def parseProto? : String → Option (Option Protocol)
  | "md" => some (some .minDelay) | "nd" => some (some .noDelay)
  | "wa" => some (some .waitForAll) | "bad" => some none | _ => none

def showProto : Protocol → String
  | .minDelay => "md" | .noDelay => "nd" | .waitForAll => "wa"

def parseName? (s : String) : Option ChName :=
  if s.startsWith "u" then (s.drop 1).toString.toNat?.map ChName.user
  else if s.startsWith "d" then
    match (s.drop 1).toString.splitOn "." with
    | [a, b] => do let i ← a.toNat?; let k ← b.toNat?; pure (ChName.dmm i k)
    | _ => none
  else none

def showName : ChName → String
  | .user n => s!"u{n}"
  | .dmm i k => s!"d{i}.{k}"

def parseSum? (s : String) : Option PulseSummary := do
  match ← parseList? parseRat? s with
  | [a, b, c, d, e] => pure { maxAmp := a, avgAmp := b, maxAbsDetR := c, maxDetR := d, minDetR := e }
  | [a, b, c, d, e, f] =>
    pure { maxAmp := a, avgAmp := b, maxAbsDetR := c, maxDetR := d, minDetR := e, finite := decide (f ≠ 0) }
  | _ => none

def parseCfg? (t : List String) : Option ChanCfg :=
  match t with
  | [isDmm, basis, isLocal, clock, minDur, maxDur, rise, pjt, minRet, fixRet, maxT,
     eRise, eBuf, eCustom, maxAmp, maxAbsDet, minAvg, bottom, totalBottom] => do
    let eom : Option EomCfg ←
      if eRise == "-" then pure none
      else do
        let r ← parseNat? eRise; let b ← parseNat? eBuf; let c ← parseBool? eCustom
        pure (some { rise := r, bufferTime := b, customBuffer := c })
    pure {
      isDmm := ← parseBool? isDmm, basis := ← parseBasis? basis, isLocal := ← parseBool? isLocal,
      clock := ← parseNat? clock, minDur := ← parseNat? minDur,
      maxDur := ← parseOpt? parseNat? maxDur, rise := ← parseNat? rise, pjt := ← parseNat? pjt,
      minRetarget := ← parseNat? minRet, fixedRetarget := ← parseNat? fixRet,
      maxTargets := ← parseOpt? parseNat? maxT, eom := eom,
      maxAmp := ← parseOpt? parseRat? maxAmp, maxAbsDet := ← parseOpt? parseRat? maxAbsDet,
      minAvgAmp := ← parseRat? minAvg, bottom := ← parseOpt? parseRat? bottom,
      totalBottom := ← parseOpt? parseRat? totalBottom }
  | _ => none

def parsePulse? (t : List String) : Option PulseIn :=
  match t with
  | [dur, res, phase, post, fs, fe, dd, ref, sum, const, amp, det] => do
    pure { dur := ← parseNat? dur, resizable := ← parseBool? res, phase := ← parseRat? phase,
           post := ← parseRat? post, fallStd := ← parseNat? fs, fallEom := ← parseNat? fe,
           dd := ← parseBool? dd, ref := ← parseNat? ref, sum := ← parseSum? sum,
           const := ← parseBool? const, amp := ← parseRat? amp, det := ← parseRat? det }
  | [dur, res, phase, post, fs, fe, dd, ref, sum, sumAdj, const, amp, det] => do
    pure { dur := ← parseNat? dur, resizable := ← parseBool? res, phase := ← parseRat? phase,
           post := ← parseRat? post, fallStd := ← parseNat? fs, fallEom := ← parseNat? fe,
           dd := ← parseBool? dd, ref := ← parseNat? ref, sum := ← parseSum? sum,
           sumAdj := ← parseSum? sumAdj,
           const := ← parseBool? const, amp := ← parseRat? amp, det := ← parseRat? det }
  | _ => none

def parseEomIn? (t : List String) : Option EomIn :=
  match t with
  | [amp, detOn, optimal, corr, opts, onSum, offSums] => do
    let offs ← parseListList? parseRat? offSums
    let offs ← offs.mapM fun l =>
      match l with
      | [a, b, c, d, e] =>
        some ({ maxAmp := a, avgAmp := b, maxAbsDetR := c, maxDetR := d, minDetR := e } : PulseSummary)
      | [a, b, c, d, e, f] =>
        some ({ maxAmp := a, avgAmp := b, maxAbsDetR := c, maxDetR := d, minDetR := e,
                finite := decide (f ≠ 0) } : PulseSummary)
      | _ => none
    pure { amp := ← parseRat? amp, detOn := ← parseRat? detOn, optimal := ← parseRat? optimal,
           corr := ← parseBool? corr, opts := ← parseList? parseRat? opts,
           onSum := ← parseSum? onSum, offSums := offs }
  | _ => none

def parseOp? (t : List String) : Option Op :=
  match t with
  | ["declare", name, chId, init] => do
    pure (.declare (← parseName? name) (← parseNat? chId) (← parseOpt? (parseList? parseNat?) init))
  | ["detmap", dmmId, maxW, sumW] => do
    pure (.configDetMap (← parseNat? dmmId) (← parseRat? maxW) (← parseRat? sumW))
  | ["target", qs, name] => do pure (.target (← parseList? parseNat? qs) (← parseName? name))
  | "add" :: name :: proto :: rest => do
    pure (.add (← parsePulse? rest) (← parseName? name) (← parseProto? proto))
  | "adddmm" :: name :: proto :: rest => do
    pure (.addDmm (← parsePulse? rest) (← parseName? name) (← parseProto? proto))
  | ["addeom", name, dur, phase, post, proto, corr, fs, fe, ref] => do
    pure (.addEom (← parseName? name) (← parseNat? dur) (← parseRat? phase) (← parseRat? post)
      (← parseProto? proto) (← parseBool? corr) (← parseNat? fs) (← parseNat? fe) (← parseNat? ref))
  | ["delay", d, name, atRest] => do
    pure (.delay (← parseInt? d) (← parseName? name) (← parseBool? atRest))
  | ["align", names, atRest] => do
    pure (.align (← parseList? parseName? names) (← parseBool? atRest))
  | ["shift", phi, qs, basis] => do
    pure (.phaseShift (← parseRat? phi) (← parseList? parseNat? qs) (← parseBasis? basis))
  | "eomon" :: name :: rest => do pure (.enableEom (← parseName? name) (← parseEomIn? rest))
  | "eommod" :: name :: rest => do pure (.modifyEom (← parseName? name) (← parseEomIn? rest))
  | ["eomoff", name, corr] => do pure (.disableEom (← parseName? name) (← parseBool? corr))
  | ["measure", basis] => do pure (.measure (← parseBasis? basis))
  | ["dur", name, fall] => do
    pure (.getDuration (← parseOpt? parseName? name) (← parseBool? fall))
  | "est" :: name :: proto :: rest => do
    pure (.estimate (← parsePulse? rest) (← parseName? name) (← parseProto? proto))
  | ["pref", q, basis] => do pure (.phaseRef (← parseNat? q) (← parseBasis? basis))
  | _ => none

def showSlot (s : Slot) : String :=
  let base := [("ti", toString s.ti), ("tf", toString s.tf),
               ("tg", jList (s.targets.map toString))]
  match s.kind with
  | .target => jObj (("k", jStr "T") :: base)
  | .delay => jObj (("k", jStr "D") :: base)
  | .pulse p =>
    jObj (("k", jStr "P") :: base ++
      [("ph", jStr (showRat p.phase)), ("dd", jBool p.dd), ("ref", toString p.ref),
       ("dur", toString p.dur), ("const", jBool p.const),
       ("amp", jStr (showRat p.amp)), ("det", jStr (showRat p.det))])

def showBlock (b : EomBlock) : String :=
  jObj [("ti", toString b.ti), ("tf", match b.tf with | some t => toString t | none => "null"),
        ("amp", jStr (showRat b.amp)), ("detOn", jStr (showRat b.detOn)),
        ("detOff", jStr (showRat b.detOff))]

def showChan (c : ChanState) : String :=
  jObj [("name", jStr (showName c.name)), ("id", toString c.chId), ("dmm", jBool c.cfg.isDmm),
        ("inEom", jBool c.inEomMode),
        ("slots", jList (c.slots.map showSlot)), ("eom", jList (c.eom.map showBlock))]

def showRef (q : QRef) : String :=
  jObj [("used", toString q.lastUsed),
        ("tr", jList (q.tr.map fun (t, p) => jList [toString t, jStr (showRat p)]))]

def showState (s : SeqState) : String :=
  jObj [("chans", jList (s.chans.map showChan)),
        ("refs", jObj (s.refs.map fun (b, l) => (showBasis b, jList (l.map showRef)))),
        ("xy", jBool s.inXY), ("ising", jBool s.inIsing), ("empty", jBool s.empty),
        ("measured", match s.measured with | some b => jStr (showBasis b) | none => "null"),
        ("ncalls", toString s.calls.length)]

def step (m : M) (t : List String) : M × String :=
  match t with
  | ["reset"] => ({}, "ok")
  | "chan" :: rest =>
    match parseCfg? rest with
    | some c => ({ m with chans := m.chans ++ [c] }, "ok")
    | none => (m, "bad cfg")
  | "dmmc" :: rest =>
    match parseCfg? rest with
    | some c => ({ m with dmms := m.dmms ++ [c] }, "ok")
    | none => (m, "bad cfg")
  | ["start", reusable, maxSeq, nQ] =>
    match parseBool? reusable, parseOpt? parseNat? maxSeq, parseNat? nQ with
    | some r, some ms, some n =>
      ({ m with st := some (SeqState.init ⟨m.chans, m.dmms, r, ms⟩ n) }, "ok")
    | _, _, _ => (m, "bad start")
  | ["oracle", name, detOff, dur, fs, fe] =>
    match m.st, parseName? name, parseRat? detOff, parseNat? dur, parseNat? fs, parseNat? fe with
    | some s, some n, some d, some du, some fs, some fe =>
      ({ m with st := some (s.injectOracle n d du fs fe) }, "ok")
    | _, _, _, _, _, _ => (m, "bad oracle")
  | "op" :: rest =>
    match m.st, parseOp? rest with
    | some s, some op =>
      let r := stepRaw s op
      match r.err with
      | some (.oracleMiss n d du) => (m, s!"need {showName n} {showRat d} {du}")
      | some e => ({ m with st := some r.st }, s!"err {errName e}")
      | none =>
        ({ m with st := some r.st },
         match r.out with | some v => s!"ok {v}" | none => "ok")
    | none, _ => (m, "bad nostate")
    | _, none => (m, "bad op")
  | ["snap"] =>
    match m.st with
    | some s => (m, showState s)
    | none => (m, "bad nostate")
  | "render" :: rest =>
    match m.st with
    | some s => (m, DRender.renderCmd s rest)
    | none => (m, "bad nostate")
  | _ => (m, "bad cmd")

end DSeq
