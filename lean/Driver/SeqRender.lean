/-
  Driver.SeqRender — the `seq render` reply of the line protocol (C06): the structural
  rendering of every channel by `PulserModel/Sampler.lean`, run-length encoded, and the
  accumulation statements of `to_nested_dict`.

    seq render [<chan>:[w0,w1,…]]* [mask:[q,…]] [ext:<n>]

  `<chan>:[…]` gives the detuning-map weight of every qubit for a DMM channel (exact
  rationals; qubits without an entry weigh 0), `mask:[…]` the SLM-mask targets (XY mode),
  `ext:<n>` the argument of `extend_duration` (default: duration + 1).

  Reply (one line of JSON):
    {"chans":[{"name","len","segs":[[t0,t1,[[slot,off0],…],[[slot,off0],…],phaseSlot|null],…],
               "slots":[[ti,tf,[targets]],…],"init":[…],
               "pad":{"ok":b,"len":n,"cell":{"amp":[…],"det":[…],"detc":"p/q","phase":slot|null}}},…],
     "mask":{"targets":[…],"end":n},
     "nested":{"false":{"instrs":[…]},"true":{…}}}
  A segment says: for t in [t0,t1) the amplitude (resp. detuning) sample is the sum of
  sample `off0 + (t - t0)` of the pulse of instruction `slot`, over the listed terms.
-/
import PulserModel.Sequence
import PulserModel.Sampler
import Driver.Wire
open Pulser Wire

namespace DRender

def showName : ChName → String
  | .user n => s!"u{n}"
  | .dmm i k => s!"d{i}.{k}"

def parseName? (s : String) : Option ChName :=
  if s.startsWith "u" then (s.drop 1).toString.toNat?.map ChName.user
  else if s.startsWith "d" then
    match (s.drop 1).toString.splitOn "." with
    | [a, b] => do let i ← a.toNat?; let k ← b.toNat?; pure (ChName.dmm i k)
    | _ => none
  else none

def showBasis : Basis → String
  | .groundRydberg => "gr" | .digital => "dg" | .xy => "xy"

def showTerms (l : List Contrib) : String :=
  jList (l.map fun (i, o) => jList [toString i, toString o])

def showOptNat : Option Nat → String
  | some n => toString n
  | none => "null"

/-- The structure of the three arrays at index `t`. -/
structure Cell where
  amp : List Contrib
  det : List Contrib
  phase : Option Nat
  deriving DecidableEq

def cellAt (c : ChanState) (ign : Bool) (t : Int) : Cell := ⟨ampAt c t, detAt c t, phaseAt c ign t⟩

/-- `b` is the cell reached from `a` by advancing `d` samples inside the same pulses. -/
def Cell.advances (a b : Cell) (d : Int) : Bool :=
  let adv (l : List Contrib) : List Contrib := l.map fun (i, o) => (i, o + d)
  decide (adv a.amp = b.amp) && decide (adv a.det = b.det) && decide (a.phase = b.phase)

/-- Every time at which the structure may change: pulse boundaries and paint starts. -/
def breakpoints (c : ChanState) (ign : Bool) : List Int :=
  let len : Int := c.sampleLen
  let rec starts (prevRev : List PSlot) : List PSlot → List Int
    | [] => []
    | x :: rest =>
      (if counts ign x then [tStart c.cfg.pjt ign prevRev x] else []) ++ starts (x :: prevRev) rest
  let raw := [0, len] ++ c.pulseSlots.flatMap (fun x => [x.s.ti, x.s.tf]) ++ starts [] c.pulseSlots
  let inside := raw.filter fun t => decide (0 ≤ t) && decide (t ≤ len)
  (inside.toArray.qsort (· < ·)).toList.eraseDups

/-- Per-sample fallback for a stretch in which the two ends do not agree (never taken when
the breakpoints are complete; kept so that the reply is always the model's own rendering). -/
def perSample (c : ChanState) (ign : Bool) (t0 t1 : Int) : List (Int × Int × Cell) :=
  (List.range (t1 - t0).toNat).map fun (k : Nat) =>
    (t0 + (k : Int), t0 + (k : Int) + 1, cellAt c ign (t0 + (k : Int)))

def segments (c : ChanState) (ign : Bool) : List (Int × Int × Cell) :=
  let bps := breakpoints c ign
  (bps.zip (bps.drop 1)).flatMap fun (t0, t1) =>
    if t1 ≤ t0 then []
    else
      let a := cellAt c ign t0
      if a.advances (cellAt c ign (t1 - 1)) (t1 - 1 - t0) then [(t0, t1, a)]
      else perSample c ign t0 t1

def showSeg : Int × Int × Cell → String
  | (t0, t1, cell) =>
    jList [toString t0, toString t1, showTerms cell.amp, showTerms cell.det, showOptNat cell.phase]

def showPT (s : PTSlot) : String :=
  jList [toString s.ti, toString s.tf, jList (s.targets.map toString)]

/-- `extend_duration(n)` on the samples of the channel (`n` defaults to one more than the
duration): whether it succeeds, the new length and the appended cell.  `extendDuration` reads
only the lengths, the open EOM block and the last phase sample, so the other cells are
placeholders (the theorem `C06.extend_pads` says the appended cells are all equal). -/
def showPad (c : ChanState) (ign : Bool) (n? : Option Int) : String :=
  let len := c.sampleLen
  let cs : ChanSamples :=
    { amp := List.replicate len [], det := List.replicate len ⟨[], 0⟩,
      phase := if len = 0 then [] else List.replicate (len - 1) none ++ [phaseAt c ign ((len : Int) - 1)],
      slots := c.ptSlots, openDetOff := c.openDetOff, initialTargets := c.initialTargets }
  let cell : String :=
    match extendDuration cs ((len : Int) + 1) with
    | some e =>
      let d := e.det.getLast?.getD ⟨[], 0⟩
      jObj [("amp", showTerms (e.amp.getLast?.getD [])), ("det", showTerms d.terms),
            ("detc", jStr (showRat d.const)), ("phase", showOptNat (e.phase.getLast?.getD none))]
    | none => "null"
  match extendDuration cs (n?.getD ((len : Int) + 1)) with
  | some e => jObj [("ok", "true"), ("len", toString e.duration), ("cell", cell)]
  | none => jObj [("ok", "false"), ("cell", cell)]

def IGN : Bool := true   -- sampler.IGNORE_DETUNED_DELAY_PHASE

/-- JSON rendering of one channel, with `extend_duration(ext)`. -/
def renderChanExt (c : ChanState) (ext : Option Int) : String :=
  jObj [("name", jStr (showName c.name)), ("len", toString c.sampleLen),
        ("segs", jList ((segments c IGN).map showSeg)),
        ("slots", jList (c.ptSlots.map showPT)),
        ("init", jList (c.initialTargets.map toString)),
        ("pad", showPad c IGN ext)]

/-- JSON rendering of one channel. -/
def renderChan (c : ChanState) : String := renderChanExt c none

def showInstr : NInstr → String
  | .add b q k lo hi w =>
    jList [jStr "add", jStr (showBasis b), (match q with | some q => toString q | none => "null"),
           toString k, toString lo, (match hi with | some h => toString h | none => "null"),
           jStr (showRat w)]
  | .touch b q => jList [jStr "touch", jStr (showBasis b), toString q]

def renderNested (allLocal : Bool) (m : SlmMask) (views : List ChanView) : String :=
  jObj [("instrs", jList ((nestedInstrs allLocal m views).map showInstr))]

/-- Rendering of the whole sequence; `ws` are the per-qubit weights of the DMM channels,
`maskTargets` the SLM-mask targets. -/
def renderStateWith (s : SeqState) (ws : List (ChName × List Rat)) (maskTargets : List Nat)
    (ext : Option Int := none) : String :=
  let views := s.chans.map fun c =>
    c.view (match ws.find? (·.1 == c.name) with | some (_, w) => w | none => [])
  let m : SlmMask := if s.inXY then slmMaskOf s.chans maskTargets else {}
  jObj [("chans", jList (s.chans.map (renderChanExt · ext))),
        ("mask", jObj [("targets", jList (m.targets.map toString)), ("end", toString m.end_)]),
        ("nested", jObj [("false", renderNested false m views), ("true", renderNested true m views)])]

def renderState (s : SeqState) : String := renderStateWith s [] []

/-- Arguments of `seq render`. -/
def parseArgs (t : List String) : Option (List (ChName × List Rat) × List Nat × Option Int) :=
  t.foldlM (init := ([], [], none)) fun (ws, mk, ext) tok =>
    match tok.splitOn ":" with
    | ["mask", l] => do pure (ws, ← parseList? parseNat? l, ext)
    | ["ext", n] => do pure (ws, mk, some (← parseInt? n))
    | [n, l] => do pure (ws ++ [(← parseName? n, ← parseList? parseRat? l)], mk, ext)
    | _ => none

def renderCmd (s : SeqState) (args : List String) : String :=
  match parseArgs args with
  | some (ws, mk, ext) => renderStateWith s ws mk ext
  | none => "bad render args"

end DRender
