/-
  Driver.WaveMain — line protocol executable `pm_wave` for PulserModel/Waveform.lean (C16).

  One request per line, one reply per line.  Numbers are exact rationals `p/q`.

    index d i                         -> ok j | err
    slice d start stop step           -> ok s e | err            (`-` = None)
    wf samples <WF>                   -> invalid | ok <dur> <[samples]|nan> <integral|nan>
    wf scale k <WF>                   -> same, for `WF * k`
    wf neg <WF>                       -> same, for `-WF`
    wf div k <WF>                     -> zerodiv | same, for `WF / k`
    wf chdur new [norm] <WF>          -> notimpl | ok <dur> <[samples]|nan> <integral|nan> [params]
    arb [phi]                         -> err | ok phaseC [det] [phaseModulation]
    arbconst d v | arbramp d a b      -> err | ok phaseC [det] [phaseModulation]
    phase x                           -> ok (x mod 2π)
    pulse [amp] [det] phase post      -> err | ok phase post
    bsearch area maxVal fuel          -> ok guess <N|-> <N'|->   (ideal sums 0.42(N-1), peak 1)
    bfrom area maxVal fuel n0 [S] [peak]  -> ok guess <N|-> <N'|->  (S, peak tabulated from n0)

  <WF> ::= C d v | R d a b | U [xs] | W beta|- [norm] area | K n <WF>…<WF>
-/
import PulserModel.Waveform
import Driver.Wire
open Pulser Pulser.Wave Wire

namespace DWave

partial def parseWf : List String → Option (Wf × List String)
  | "C" :: d :: v :: rest => do
    let d ← parseNat? d; let v ← parseRat? v
    pure (.const d v, rest)
  | "R" :: d :: a :: b :: rest => do
    let d ← parseNat? d; let a ← parseRat? a; let b ← parseRat? b
    pure (.ramp d a b, rest)
  | "U" :: xs :: rest => do
    let xs ← parseList? parseRat? xs
    pure (.custom xs, rest)
  | "W" :: be :: n :: area :: rest => do
    let be ← parseOpt? parseRat? be; let n ← parseList? parseRat? n; let area ← parseRat? area
    pure (.window be n area, rest)
  | "K" :: n :: rest => do
    let n ← parseNat? n
    let rec go (k : Nat) (toks : List String) (acc : List Wf) : Option (List Wf × List String) :=
      match k with
      | 0 => some (acc.reverse, toks)
      | k + 1 => do
        let (w, toks') ← parseWf toks
        go k toks' (w :: acc)
    let (ws, rest') ← go n rest []
    pure (.composite ws, rest')
  | _ => none

def showSamples (w : Wf) : String :=
  let s := match w.samples? with
    | some l => showList showRat l
    | none => "nan"
  let i := match w.integral? with
    | some x => showRat x
    | none => "nan"
  s!"ok {w.duration} {s} {i}"

def replyWf (w : Wf) : String := if w.valid then showSamples w else "invalid"

def table (n0 : Nat) (l : List Rat) (N : Nat) : Rat :=
  if N < n0 then 0 else l.getD (N - n0) 0

def showSearch (S peak : Nat → Rat) (area maxVal : Rat) (fuel : Nat) : String :=
  let g := bmGuess area maxVal
  let n := bmSearch S area maxVal fuel
  let n' := bmFromMaxVal S peak area maxVal fuel
  s!"ok {g} {showOpt toString n} {showOpt toString n'}"

def handle (toks : List String) : String :=
  match toks with
  | ["index", d, i] =>
    match parseNat? d, parseInt? i with
    | some d, some i => match checkIndex d i with
      | some j => s!"ok {j}"
      | none => "err"
    | _, _ => "bad request"
  | ["slice", d, a, b, st] =>
    match parseNat? d, parseOpt? parseInt? a, parseOpt? parseInt? b, parseOpt? parseInt? st with
    | some d, some a, some b, some st => match checkSlice d a b st with
      | some (s, e) => s!"ok {s} {e}"
      | none => "err"
    | _, _, _, _ => "bad request"
  | "wf" :: "samples" :: rest =>
    match parseWf rest with
    | some (w, []) => replyWf w
    | _ => "bad request"
  | "wf" :: "scale" :: k :: rest =>
    match parseRat? k, parseWf rest with
    | some k, some (w, []) => if w.valid then replyWf (w.scale k) else "invalid"
    | _, _ => "bad request"
  | "wf" :: "neg" :: rest =>
    match parseWf rest with
    | some (w, []) => if w.valid then replyWf w.neg else "invalid"
    | _ => "bad request"
  | "wf" :: "div" :: k :: rest =>
    match parseRat? k, parseWf rest with
    | some k, some (w, []) =>
      if w.valid then
        match w.div? k with
        | some w' => replyWf w'
        | none => "zerodiv"
      else "invalid"
    | _, _ => "bad request"
  | "wf" :: "chdur" :: new :: nn :: rest =>
    match parseNat? new, parseList? parseRat? nn, parseWf rest with
    | some new, some nn, some (w, []) =>
      if w.valid then
        match w.changeDuration? new nn with
        | some w' => if w'.valid then showSamples w' ++ " " ++ showList showRat w'.params else "invalid"
        | none => "notimpl"
      else "invalid"
    | _, _, _ => "bad request"
  | ["arb", phi] =>
    match parseList? parseRat? phi with
    | some phi => match arbDetuning? phi with
      | some det =>
        let c := arbPhaseC phi det
        s!"ok {showRat c} {showList showRat det} {showList showRat (phaseModulation c det)}"
      | none => "err"
    | none => "bad request"
  | ["arbconst", d, v] =>
    match parseNat? d, parseRat? v with
    | some d, some v =>
      let (c, det) := arbConst d v
      s!"ok {showRat c} {showList showRat det} {showList showRat (phaseModulation c det)}"
    | _, _ => "bad request"
  | ["arbramp", d, a, b] =>
    match parseNat? d, parseRat? a, parseRat? b with
    | some d, some a, some b => match arbRamp? d a b with
      | some (c, det) =>
        s!"ok {showRat c} {showList showRat det} {showList showRat (phaseModulation c det)}"
      | none => "err"
    | _, _, _ => "bad request"
  | ["phase", x] =>
    match parseRat? x with
    | some x => s!"ok {showRat (fmtPhase x)}"
    | none => "bad request"
  | ["pulse", amp, det, ph, post] =>
    match parseList? parseRat? amp, parseList? parseRat? det, parseRat? ph, parseRat? post with
    | some amp, some det, some ph, some post => match mkPulse amp det ph post with
      | some p => s!"ok {showRat p.phase} {showRat p.post}"
      | none => "err"
    | _, _, _, _ => "bad request"
  | ["bsearch", area, maxVal, fuel] =>
    match parseRat? area, parseRat? maxVal, parseNat? fuel with
    | some area, some maxVal, some fuel => showSearch bmIdealSum (fun _ => 1) area maxVal fuel
    | _, _, _ => "bad request"
  | ["bfrom", area, maxVal, fuel, n0, S, peak] =>
    match parseRat? area, parseRat? maxVal, parseNat? fuel, parseNat? n0,
        parseList? parseRat? S, parseList? parseRat? peak with
    | some area, some maxVal, some fuel, some n0, some S, some peak =>
      showSearch (table n0 S) (table n0 peak) area maxVal fuel
    | _, _, _, _, _, _ => "bad request"
  | _ => "bad request"

end DWave

partial def loop (h : IO.FS.Stream) (out : IO.FS.Stream) : IO Unit := do
  let line ← h.getLine
  if line.isEmpty then return ()
  let toks := (line.trimAscii.toString.splitOn " ").filter (· ≠ "")
  out.putStrLn (DWave.handle toks)
  out.flush
  loop h out

def main : IO Unit := do
  loop (← IO.getStdin) (← IO.getStdout)
