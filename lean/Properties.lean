import Properties.C01
import Properties.C02
