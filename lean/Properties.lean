import Properties.C01
import Properties.C02
import Properties.C03
import Properties.C09
import Properties.C10
import Properties.C13
import Properties.C12
import Properties.C19
