import Properties.C02
