/-
  PulserModel.Layout — trap numbering, register definition, coordinate look-up,
  mappable registers and weight (detuning) maps.

  Mirrors pulser-core/pulser/register/{_coordinates,traps,register_layout,
  mappable_reg,weight_maps,base_register}.py  (Pulser 1.5dev0).

  Conventions
  * A coordinate is a list of 2 or 3 integers in *micro-units* (10⁻⁶ µm): the
    harness passes `np.round(x, 6) · 10⁶` as exact integers and monitors that
    rounding.  Consequently the model has ONE representation per rounded
    coordinate: int-vs-float dtype and `-0.0` vs `0.0` do not exist here.
  * `Traps.__init__` tests uniqueness on the *rounded* coordinates (since the
    repair of F13c), i.e. on exactly the integers the model sees.  The functions
    below stay total on lists with repeated coordinates and then behave as the
    code would (dict overwrite in `_coords_to_traps`, stable sort).
  * Weights are exact rationals (the float64 value converted exactly).
  * Core Lean only (this file is linked into the `pm_layout` executable).
-/
namespace Pulser
namespace Layout

/-- A coordinate in micro-units. -/
abbrev Coord := List Int

abbrev QId := String

/-- Error classes (message texts are not modelled). -/
inductive LErr where
  | shape          -- "'trap_coordinates' must be an array or list of coordinates." / vstack of nothing
  | dim            -- "Each coordinate must be of size 2 or 3"
  | notUnique      -- "All trap coordinates of a register layout must be unique."
  | dupTrapId      -- "Every 'trap_id' must be a unique integer."
  | badTrapId      -- "All 'trap_ids' must correspond to the ID of a trap." / detuning-map ids
  | dupQubitId     -- "'qubit_ids' must be a sequence of unique IDs."
  | qubitCount     -- "'qubit_ids' must have the same size as the number of provided 'trap_ids'"
  | emptyRegister  -- "Cannot create a Register with an empty qubit dictionary."
  | layoutMismatch -- BaseRegister._validate_layout failures
  | notInLayout    -- "The coordinate ... is not a part of the RegisterLayout."
  | tooManyQubits  -- MappableRegister: more qubits than traps
  | undeclared     -- "All qubits must be labeled with pre-declared qubit IDs." / register detuning map ids
  | notPrefix      -- "'qubits' should contain the first N elements of the 'qubit_ids'."
  | weightCount    -- "Number of traps and weights don't match."
  | weightRange    -- "All weights must be between 0 and 1."
deriving DecidableEq, Repr

/-- Result of a call: a value or the class of the exception raised. -/
inductive Res (α : Type) where
  | ok (a : α)
  | err (e : LErr)
deriving DecidableEq, Repr

/-! ### Ordering: `CoordsCollection._calc_sorting_order` -/

/-- Strict lexicographic order, x first, then y, then z — the order of
`np.lexsort((z, y, x))`. -/
def lexLt : Coord → Coord → Bool
  | [], [] => false
  | [], _ :: _ => true
  | _ :: _, [] => false
  | a :: as, b :: bs => decide (a < b) || (a == b && lexLt as bs)

/-- `a` may stand before `b`. -/
def lexLe (a b : Coord) : Bool := !lexLt b a

/-- Insert before the first element that is not smaller (stable). -/
def insertBy {α : Type} (le : α → α → Bool) (a : α) : List α → List α
  | [] => [a]
  | b :: bs => if le a b then a :: b :: bs else b :: insertBy le a bs

/-- Stable insertion sort (`np.lexsort` is stable: equal keys keep the order given). -/
def sortBy {α : Type} (le : α → α → Bool) : List α → List α
  | [] => []
  | a :: l => insertBy le a (sortBy le l)

/-- Compare payload-carrying coordinates by coordinate only. -/
def keyLe {α : Type} (p q : Coord × α) : Bool := lexLe p.1 q.1

/-- `CoordsCollection._sorted_coords` (input: the rounded coordinates as given). -/
def sortLex (l : List Coord) : List Coord := sortBy lexLe l

/-- Sort payload-carrying coordinates (weights, input positions) along with them. -/
def sortPairs {α : Type} (l : List (Coord × α)) : List (Coord × α) := sortBy keyLe l

/-- `_calc_sorting_order()`: position in the input of each trap, by trap id. -/
def sortingOrder (l : List Coord) : List Nat :=
  (sortPairs (l.zip (List.range l.length))).map (·.2)

/-! ### `Traps` / `RegisterLayout` -/

structure Layout where
  dim : Nat
  /-- rounded coordinates in the order they were given -/
  coords : List Coord
deriving DecidableEq, Repr

/-- `Traps.__init__`.  Uniqueness: `len(np.unique(np.round(coords_arr, 6), axis=0)) == shape[0]`. -/
def mkLayout (coords : List Coord) : Res Layout :=
  match coords with
  | [] => .err .shape
  | c :: _ =>
    if !coords.all (fun d => d.length == c.length) then .err .shape
    else if c.length != 2 && c.length != 3 then .err .dim
    else if ¬ coords.Nodup then .err .notUnique
    else .ok { dim := c.length, coords := coords }

/-- `sorted_coords` / `coords`: trap `i` sits at `L.sorted[i]`. -/
def Layout.sorted (L : Layout) : List Coord := sortLex L.coords

/-- `number_of_traps`. -/
def Layout.nTraps (L : Layout) : Nat := L.coords.length

/-- `traps_dict`: `dict(enumerate(sorted_coords))` as (coordinate, id) pairs. -/
def Layout.trapsDict (L : Layout) : List (Coord × Nat) := L.sorted.zipIdx

/-- What `_safe_hash` digests: the dimensionality and the sorted coordinates.
`==` and `static_hash()` compare exactly this. -/
def Layout.key (L : Layout) : Nat × List Coord := (L.dim, L.sorted)

/-- `RegisterLayout.__eq__`. -/
def Layout.eqv (L₁ L₂ : Layout) : Bool := L₁.key == L₂.key

/-- `_coords_to_traps[key]`: `{tuple(coord): id for id, coord in traps_dict.items()}` —
a later trap with the same rounded coordinate overwrites the earlier one, so the
LAST index holding `c` is returned. -/
def lookupLast (c : Coord) : List Coord → Option Nat
  | [] => none
  | d :: ds =>
    match lookupLast c ds with
    | some j => some (j + 1)
    | none => if d == c then some 0 else none

/-- `Traps.get_traps_from_coordinates(*coordinates)` (coordinates already rounded). -/
def trapsFromCoords (L : Layout) : List Coord → Res (List Nat)
  | [] => .ok []
  | c :: rest =>
    match lookupLast c L.sorted with
    | none => .err .notInLayout
    | some i =>
      match trapsFromCoords L rest with
      | .ok is => .ok (i :: is)
      | .err e => .err e

/-! ### Registers defined from a layout -/

structure Reg where
  dim : Nat
  /-- qubit id ↦ position, in register order -/
  qubits : List (QId × Coord)
  /-- `_layout_info.trap_ids` -/
  trapIds : List Nat
deriving DecidableEq, Repr

/-- Default ids `q0, q1, …`. -/
def defaultIds (n : Nat) : List QId := (List.range n).map fun i => "q" ++ toString i

/-- Coordinate of trap `i` (`sorted_coords[i]`). -/
def Layout.trapCoord (L : Layout) (i : Nat) : Coord := L.sorted.getD i []

/-- `BaseRegister._validate_layout`: same dimensionality, unique trap ids, as many
trap ids as qubits, every qubit exactly on its trap. -/
def validateLayout (L : Layout) (dim : Nat) (qubits : List (QId × Coord)) (trapIds : List Nat) :
    Option LErr :=
  if L.dim ≠ dim then some .layoutMismatch
  else if ¬ trapIds.Nodup then some .dupTrapId
  else if trapIds.length ≠ qubits.length then some .layoutMismatch
  else if ¬ (qubits.zip trapIds).all (fun qt => qt.1.2 == L.trapCoord qt.2) then some .layoutMismatch
  else none

/-- `Register(dict(zip(ids, coords)), layout=self, trap_ids=trap_ids)`. -/
def place (L : Layout) (trapIds : List Nat) (ids : List QId) : Res Reg :=
  let qubits := ids.zip (trapIds.map L.trapCoord)
  if qubits.isEmpty then .err .emptyRegister
  else
    match validateLayout L L.dim qubits trapIds with
    | some e => .err e
    | none => .ok { dim := L.dim, qubits := qubits, trapIds := trapIds }

/-- Python truthiness of the optional `qubit_ids` argument (`if qubit_ids:`). -/
def truthy : Option (List QId) → Option (List QId)
  | some (q :: qs) => some (q :: qs)
  | _ => none

/-- `RegisterLayout.define_register(*trap_ids, qubit_ids=…)`.  Trap ids are
naturals; the harness encodes a negative id as an out-of-range one (both are
"not the ID of a trap"). -/
def defineRegister (L : Layout) (trapIds : List Nat) (qids : Option (List QId)) : Res Reg :=
  if ¬ trapIds.Nodup then .err .dupTrapId
  else if ¬ trapIds.all (fun i => decide (i < L.nTraps)) then .err .badTrapId
  else
    match truthy qids with
    | some qs =>
      if ¬ qs.Nodup then .err .dupQubitId
      else if qs.length ≠ trapIds.length then .err .qubitCount
      else place L trapIds qs
    | none => place L trapIds (defaultIds trapIds.length)

/-! ### Registers constructed directly with `layout=` / `trap_ids=` -/

/-- A register position given by the caller, in micro-units, as an exact rational: the
harness sends the integer `m` when the float is itself a rounded value (`x == np.round(x, 6)`,
i.e. the very float a trap at `m` has) and the exact value `x·10⁶` (never an integer then)
otherwise.  `_validate_layout` compares the raw register coordinates with the layout's
rounded trap coordinates exactly (`reg_coord != trap_coords[trap_id]`). -/
abbrev RPos := List Rat

/-- The qubit sits exactly on trap `t`. -/
def onTrap (L : Layout) (p : RPos) (t : Nat) : Bool :=
  p == (L.trapCoord t).map (fun (z : Int) => (z : Rat))

/-- Every qubit on the trap it claims (`for reg_coord, trap_id in zip(…)`). -/
def allOnTraps (L : Layout) : List (QId × RPos) → List Nat → Bool
  | q :: qs, t :: ts => onTrap L q.2 t && allOnTraps L qs ts
  | _, _ => true

/-- `Register(qubits, layout=L, trap_ids=ids)` / `Register3D(…)` / `from_coordinates(…, layout=,
trap_ids=)`: `BaseRegister.__init__` then `_validate_layout` (dimensionality, unique trap ids,
existing trap ids, as many trap ids as qubits, every qubit exactly on its trap).  `dim` is the
dimensionality of the given positions. -/
def mkRegisterDirect (L : Layout) (dim : Nat) (qubits : List (QId × RPos)) (trapIds : List Nat) :
    Res Reg :=
  if qubits.isEmpty then .err .emptyRegister
  else if L.dim ≠ dim then .err .layoutMismatch
  else if ¬ trapIds.Nodup then .err .dupTrapId
  else if ¬ trapIds.all (fun i => decide (i < L.nTraps)) then .err .badTrapId
  else if trapIds.length ≠ qubits.length then .err .layoutMismatch
  else if ¬ allOnTraps L qubits trapIds then .err .layoutMismatch
  else .ok { dim := dim, qubits := (qubits.map (·.1)).zip (trapIds.map L.trapCoord),
             trapIds := trapIds }

/-! ### Mappable registers -/

structure Mappable where
  layout : Layout
  qids : List QId
deriving DecidableEq, Repr

/-- `MappableRegister.__init__`. -/
def mkMappable (L : Layout) (qids : List QId) : Res Mappable :=
  if qids.length > L.nTraps then .err .tooManyQubits else .ok { layout := L, qids := qids }

/-- Keys of a dict comprehension over a sequence: first occurrences, in order. -/
def dedup : List QId → List QId
  | [] => []
  | a :: l => a :: (dedup l).filter (fun b => b != a)

/-- `set(a) == set(b)`. -/
def sameSet (a b : List QId) : Bool := a.all (fun x => b.contains x) && b.all (fun x => a.contains x)

/-- `MappableRegister.build_register(qubits)`; `mapping` are the items of the dict
`qubits` (so its keys are distinct). -/
def buildRegister (M : Mappable) (mapping : List (QId × Nat)) : Res Reg :=
  let chosen := mapping.map (·.1)
  if ¬ chosen.all (fun q => M.qids.contains q) then .err .undeclared
  else if ¬ sameSet chosen (M.qids.take chosen.length) then .err .notPrefix
  else
    let ordered := (dedup (M.qids.filter fun q => chosen.contains q)).map
      fun q => (q, (mapping.lookup q).getD 0)
    defineRegister M.layout (ordered.map (·.2)) (some (ordered.map (·.1)))

/-! ### Weight maps -/

structure WeightMap where
  dim : Nat
  /-- (rounded coordinate, weight) in the order given -/
  traps : List (Coord × Rat)
deriving DecidableEq, Repr

/-- `WeightMap.__init__` / `DetuningMap`. -/
def mkWeightMap (coords : List Coord) (weights : List Rat) : Res WeightMap :=
  match mkLayout coords with
  | .err e => .err e
  | .ok L =>
    if coords.length ≠ weights.length then .err .weightCount
    else if ¬ weights.all (fun w => decide (0 ≤ w) && decide (w ≤ 1)) then .err .weightRange
    else .ok { dim := L.dim, traps := coords.zip weights }

/-- Traps with their weights, by trap id. -/
def WeightMap.sortedTraps (m : WeightMap) : List (Coord × Rat) := sortPairs m.traps

/-- `sorted_coords` of the map. -/
def WeightMap.sortedCoords (m : WeightMap) : List Coord := m.sortedTraps.map (·.1)

/-- `sorted_weights`: `np.array(weights)[sorting]`. -/
def WeightMap.sortedWeights (m : WeightMap) : List Rat := m.sortedTraps.map (·.2)

/-- What `WeightMap._hash_object` digests (besides the class name). -/
def WeightMap.key (m : WeightMap) : Nat × List Coord × List Rat :=
  (m.dim, m.sortedCoords, m.sortedWeights)

/-- `np.isclose(t, p, rtol=0.0, atol=1e-6)` on one component, in micro-units:
`|t − p| ≤ 1` (one micro-unit; since the repair of F19 there is no relative term). -/
def closeTo (t p : Int) : Bool := decide ((t - p).natAbs ≤ 1)

/-- `np.all(np.isclose(trap, pos, rtol=0.0, atol=1e-6))` for one trap. -/
def closeCoord (t p : Coord) : Bool :=
  t.length == p.length && (List.zipWith closeTo t p).all id

/-- `get_qubit_weight_map` for one qubit: the sum of the weights of all traps whose
coordinates are `isclose` to the qubit position. -/
def WeightMap.weightOf (m : WeightMap) (p : Coord) : Rat :=
  ((m.sortedTraps.filter fun tw => closeCoord tw.1 p).map (·.2)).sum

/-- `get_qubit_weight_map(qubits)`. -/
def WeightMap.qubitWeights (m : WeightMap) (qubits : List (QId × Coord)) : List (QId × Rat) :=
  qubits.map fun qp => (qp.1, m.weightOf qp.2)

/-- `RegisterLayout.define_detuning_map(detuning_weights)` as it is specified
(the coordinates of the chosen traps, in the order of the dict, with their weights).
(The code builds the coordinate list with `itemgetter`, which breaks for zero or one
trap — F13d/F13e, still open; the model follows the specification.) -/
def layoutDetuningMap (L : Layout) (ws : List (Nat × Rat)) : Res WeightMap :=
  if ¬ ws.all (fun iw => decide (iw.1 < L.nTraps)) then .err .badTrapId
  else
    let cs := ws.map fun iw => L.trapCoord iw.1
    mkWeightMap cs (ws.map (·.2))

/-- `BaseRegister.define_detuning_map(detuning_weights)`. -/
def regDetuningMap (r : Reg) (ws : List (QId × Rat)) : Res WeightMap :=
  if ¬ ws.all (fun qw => (r.qubits.map (·.1)).contains qw.1) then .err .undeclared
  else
    let cs := ws.map fun qw => (r.qubits.lookup qw.1).getD []
    mkWeightMap cs (ws.map (·.2))

end Layout
end Pulser
