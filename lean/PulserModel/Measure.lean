/-
  PulserModel.Measure — measurement conventions, detection errors, the `Results`
  store, evaluation-time bookkeeping, the configuration re-creation and the
  operator / state / observable algebra of the V2 backend (properties C11, C20).

  Everything is over exact rationals `Rat` (complex numbers: pairs of `Rat`).
  Model files import nothing outside core Lean (linked into `pm_meas`).

  Conventions
  * a basis state of `n` qudits of dimension `d` is a digit list `σ : List Nat`
    (`σ.length = n`, digits `< d`), atom 0 first; its position in a state vector is
    `index d σ` (most significant digit first — `qutip.tensor` / numpy C order);
  * a bitstring is a `List Bool`, atom 0 first; its position in a weight array is
    `bitsIndex` (`np.binary_repr(i, width=n)`).
-/
namespace Pulser
namespace Measure

/-! ## 1. Basis states, indices -/

/-- Position of the basis state `σ` in a state vector (`qutip.tensor` order,
`State.get_basis_state_from_index` read backwards). -/
def index (d : Nat) : List Nat → Nat
  | [] => 0
  | a :: σ => a * d ^ σ.length + index d σ

/-- All basis states of `n` qudits in state-vector order. -/
def allStates (d : Nat) : Nat → List (List Nat)
  | 0 => [[]]
  | n + 1 => (List.range d).flatMap fun a => (allStates d n).map (a :: ·)

/-- Position of a bitstring in the weight array (`int(bitstring, base=2)`). -/
def bitsIndex : List Bool → Nat
  | [] => 0
  | b :: bs => (if b then 1 else 0) * 2 ^ bs.length + bitsIndex bs

/-- All bitstrings of width `n`, in increasing order of `bitsIndex`
(`np.binary_repr(dec_val, width=n)` for `dec_val in range(2**n)`). -/
def allBits : Nat → List (List Bool)
  | 0 => [[]]
  | n + 1 => [false, true].flatMap fun b => (allBits n).map (b :: ·)

/-- `probs[i]`, zero outside. -/
def lookup (probs : List Rat) (i : Nat) : Rat := probs.getD i 0

/-- The bitstring a basis state is read as: atom `i` gives 1 iff it is in the "one" state. -/
def pattern (one : Nat) (σ : List Nat) : List Bool := σ.map (· == one)

/-! ## 2. `QutipResult._weights` / `QutipState.bitstring_probabilities` -/

/-- The index lists handed to `np.ix_` in `QutipResult._weights`: for a measured 1 the
single index of the one-state, for a measured 0 every other index (`ex_one`). -/
def selStates (d one : Nat) : List Bool → List (List Nat)
  | [] => [[]]
  | b :: bs =>
    (if b then [one] else (List.range d).filter (· != one)).flatMap fun a =>
      (selStates d one bs).map (a :: ·)

/-- `weights[dec_val] = np.sum(probs[np.ix_(*ind)])` (dimension 3 and 4 branch). -/
def weightIx (d one : Nat) (probs : List Rat) (bits : List Bool) : Rat :=
  ((selStates d one bits).map fun σ => lookup probs (index d σ)).sum

/-- The convention the property states: the weight of a bitstring is the total
probability of the basis states that read as it. -/
def weightSpec (d n one : Nat) (probs : List Rat) (bits : List Bool) : Rat :=
  (((allStates d n).filter fun σ => pattern one σ == bits).map fun σ =>
    lookup probs (index d σ)).sum

structure WCfg where
  d : Nat           -- single-atom dimension (`_dim`)
  n : Nat           -- number of atoms (`_size`)
  matching : Bool   -- `matching_meas_basis`
  measGR : Bool     -- `meas_basis == "ground-rydberg"`
  oneIdx : Nat      -- `_eigenbasis.index(one_state_dict[meas_basis])` (used for d = 3, 4)
  deriving DecidableEq, Repr, Inhabited

/-- `QutipResult._weights` before the final normalisation. -/
def rawWeights (c : WCfg) (probs : List Rat) : List Rat :=
  if c.d = 2 then
    if c.matching then
      (if c.measGR then probs.reverse else probs)       -- `probs[::-1]` / `probs`
    else
      match probs with                                    -- zeros(probs.size); weights[0] = 1
      | [] => []
      | _ :: rest => 1 :: rest.map fun _ => 0
  else
    (allBits c.n).map (weightIx c.d c.oneIdx probs)

/-- `weights / sum(weights)`. -/
def normalise (w : List Rat) : List Rat := w.map (· / w.sum)

/-- `QutipResult._weights`. -/
def weights (c : WCfg) (probs : List Rat) : List Rat := normalise (rawWeights c probs)

/-- `QutipState.probabilities(cutoff)`: drop what is not above the cut-off, renormalise.
(Dropped entries are kept as zeros so that positions stay aligned.) -/
def cutoffRenorm (cutoff : Rat) (probs : List Rat) : List Rat :=
  normalise (probs.map fun p => if cutoff < p then p else 0)

/-- `QutipState.bitstring_probabilities`: the dictionary bitstring ↦ probability, listed in
increasing bitstring order; only bitstrings with at least one surviving basis state appear. -/
def bitstringProbs (d n one : Nat) (cutoff : Rat) (probs : List Rat) : List (List Bool × Rat) :=
  let kept := cutoffRenorm cutoff probs
  (allBits n).filterMap fun b =>
    if (selStates d one b).any (fun σ => cutoff < lookup probs (index d σ)) then
      some (b, weightIx d one kept b)
    else none

/-! ## 3. Detection errors (`CoherentResults.sample_state`, `QutipState.sample`) -/

/-- One bit: a 0 is read as 1 with probability `eps` (false positive, `epsilon`), a 1 is read
as 0 with probability `epsp` (false negative, `epsilon_prime`). -/
def flip1 (eps epsp : Rat) : Bool → Bool → Rat
  | false, false => 1 - eps
  | false, true => eps
  | true, false => epsp
  | true, true => 1 - epsp

/-- Bits flip independently: `flips = random_matrix < flip_probs`, `new = shots ^ flips`. -/
def flipKernel (eps epsp : Rat) : List Bool → List Bool → Rat
  | [], [] => 1
  | b :: bs, c :: cs => flip1 eps epsp b c * flipKernel eps epsp bs cs
  | _, _ => 0

/-- Distribution of the detected bitstrings given the distribution `w` of the true ones. -/
def applyKernel (n : Nat) (eps epsp : Rat) (w : List Rat) : List Rat :=
  (allBits n).map fun b' =>
    ((allBits n).map fun b => lookup w (bitsIndex b) * flipKernel eps epsp b b').sum

/-! ## 3b. State-preparation errors (`QutipEmulator._noisy_runs`, state-preparation-only path) -/

/-- `np.random.uniform(size=n) < eta`: the atoms drawn as badly prepared in one run. -/
def drawBad (eta : Rat) (u : List Rat) : List Bool := u.map fun x => decide (x < eta)

/-- `"".join(dist.astype(int).astype(str))`: the configuration as a string of `'0'`/`'1'` (the key
under which identical runs are counted). -/
def encodeConfig (bad : List Bool) : List Char := bad.map fun b => if b then '1' else '0'

/-- `np.array(list(initial_state)) == "1"`: the bad atoms loaded for a run (the expression of the
tree since the repair of finding F36). -/
def decodeConfig (s : List Char) : List Bool := s.map (· == '1')

/-- The expression before the repair, `np.array(list(initial_state)).astype(bool)`: numpy 2 casts
every non-empty string to `True`, so every atom was marked badly prepared. -/
def decodeConfigOld (s : List Char) : List Bool := s.map fun _ => true

/-- Probability of drawing a configuration: atoms fail independently with probability `eta`. -/
def configWeight (eta : Rat) (cfg : List Bool) : Rat :=
  flipKernel eta 0 (List.replicate cfg.length false) cfg

/-! ## 4. The `Results` store (`pulser/backend/results.py`) -/

inductive StoreErr
  | runtime     -- `RuntimeError`: a value is already stored at that time
  | assertion   -- `AssertionError`: evaluation times are not sorted
  | value       -- `ValueError`: unknown observable / tag / time
  deriving DecidableEq, Repr, Inhabited

/-- `Results`: three dictionaries (insertion ordered association lists). Observables are
identified by their uuid (`Nat`), tags and stored values are opaque (`Nat`, `Int`). -/
structure Store where
  times : List (Nat × List Rat) := []     -- `_times`
  vals : List (Nat × List Int) := []      -- `_results`
  tagmap : List (Nat × Nat) := []         -- `_tagmap` : tag ↦ uuid
  deriving DecidableEq, Repr, Inhabited

def alookup {β} (k : Nat) : List (Nat × β) → Option β
  | [] => none
  | (k', v) :: rest => if k' = k then some v else alookup k rest

/-- `d[k] = v` on an insertion-ordered dict. -/
def aset {β} (k : Nat) (v : β) : List (Nat × β) → List (Nat × β)
  | [] => [(k, v)]
  | (k', v') :: rest => if k' = k then (k', v) :: rest else (k', v') :: aset k v rest

structure StoreRaw where
  st : Store
  err : Option StoreErr
  deriving DecidableEq, Repr, Inhabited

/-- `_times == [] or _times[-1] < time`. -/
def okToAppend (ts : List Rat) (t : Rat) : Bool :=
  match ts.getLast? with
  | none => true
  | some l => decide (l < t)

/-- `Results._store_raw`, statement by statement (a raise keeps the mutations done so far). -/
def storeRaw (s : Store) (uuid tag : Nat) (time : Rat) (value : Int) : StoreRaw :=
  -- _times = self._times.setdefault(uuid, [])
  let ts := (alookup uuid s.times).getD []
  let s1 : Store := { s with times := aset uuid ts s.times }
  -- if time in _times: raise RuntimeError
  if ts.contains time then ⟨s1, some .runtime⟩
  else
    -- self._tagmap[tag] = uuid
    let s2 : Store := { s1 with tagmap := aset tag uuid s1.tagmap }
    -- assert _times == [] or _times[-1] < time
    if !(okToAppend ts time) then ⟨s2, some .assertion⟩
    else
      -- _times.append(time); self._results.setdefault(uuid, []).append(value)
      let vs := (alookup uuid s2.vals).getD []
      ⟨{ s2 with times := aset uuid (ts ++ [time]) s2.times,
                 vals := aset uuid (vs ++ [value]) s2.vals }, none⟩

/-- `_find_uuid` for an `Observable` instance. -/
def findByObs (s : Store) (uuid : Nat) : Except StoreErr Nat :=
  if (alookup uuid s.vals).isSome then .ok uuid else .error .value

/-- `_find_uuid` for a tag. -/
def findByTag (s : Store) (tag : Nat) : Except StoreErr Nat :=
  match alookup tag s.tagmap with
  | some u => .ok u
  | none => .error .value

/-- `get_result_times` (after `_find_uuid`). -/
def getTimes (s : Store) (uuid : Nat) : List Rat := (alookup uuid s.times).getD []

/-- `list.index(time)`. -/
def idxOfTime (t : Rat) : List Rat → Option Nat
  | [] => none
  | x :: xs => if x = t then some 0 else (idxOfTime t xs).map (· + 1)

/-- `get_result` (after `_find_uuid`): `ind = times.index(time); results[ind]`. -/
def getResult (s : Store) (uuid : Nat) (time : Rat) : Except StoreErr Int :=
  match alookup uuid s.times, alookup uuid s.vals with
  | some ts, some vs =>
    match idxOfTime time ts with
    | some i => match vs[i]? with
      | some v => .ok v
      | none => .error .value
    | none => .error .value
  | _, _ => .error .value

/-- `get_tagged_results`. -/
def getTagged (s : Store) : List (Nat × List Int) :=
  s.tagmap.map fun (tag, u) => (tag, (alookup u s.vals).getD [])

/-! ## 5. Which times an observable is evaluated at (`Observable.__call__`) -/

def absR (x : Rat) : Rat := if x < 0 then -x else x

/-- `EmulationConfig.is_time_in_evaluation_times`. -/
def inTimes (t : Rat) (times : List Rat) (tol : Rat) : Bool :=
  decide (0 ≤ t) && decide (t ≤ 1) && times.any fun x => decide (absR (x - t) ≤ tol)

/-- `default_evaluation_times`: `"Full"` or an array. -/
inductive DefaultTimes
  | full
  | times (l : List Rat)
  deriving DecidableEq, Repr, Inhabited

/-- `EmulationConfig.is_evaluation_time` (as intended: the comparison with `"Full"` is a
plain string test — what the tree does since the repair of finding F10). -/
def isEvaluationTime (dflt : DefaultTimes) (t tol : Rat) : Bool :=
  match dflt with
  | .full => decide (0 ≤ t) && decide (t ≤ 1)
  | .times l => inTimes t l tol

/-- `time_tol = 0.5 / total_duration if total_duration else 1e-6`. -/
def timeTol (totalDuration : Nat) : Rat :=
  if totalDuration = 0 then 1 / 1000000 else (1 / 2 : Rat) / totalDuration

/-- The condition in `Observable.__call__` **as written in this tree**:
`(own is not None and t in own) or config.is_evaluation_time(t)`. -/
def shouldEvaluateCode (own : Option (List Rat)) (dflt : DefaultTimes) (t tol : Rat) : Bool :=
  (match own with | some l => inTimes t l tol | none => false) || isEvaluationTime dflt t tol

/-- The documented behaviour: own evaluation times if given, else the config's default. -/
def shouldEvaluateSpec (own : Option (List Rat)) (dflt : DefaultTimes) (t tol : Rat) : Bool :=
  match own with
  | some l => inTimes t l tol
  | none => isEvaluationTime dflt t tol

/-! ## 6. Evaluation times handed to the legacy emulator -/

/-- Insert into a strictly ascending list, dropping duplicates (`np.union1d` step). -/
def insertUniq (x : Rat) : List Rat → List Rat
  | [] => [x]
  | y :: ys => if x < y then x :: y :: ys else if x = y then y :: ys else y :: insertUniq x ys

/-- `np.union1d(a, b)`: sorted, duplicate-free union. -/
def union1d (a b : List Rat) : List Rat := (a ++ b).foldr insertUniq []

/-- `np.linspace(0, last, m, dtype=int)` over the rationals: `⌊i·last/(m−1)⌋`. -/
def linspaceInt (last m : Nat) : List Nat :=
  if m = 0 then []
  else if m = 1 then [0]
  else (List.range m).map fun i => (i * last) / (m - 1)

/-- `QutipConfig._calculate_sampling_indices(sampling_rate, T)`;
`m = int(sampling_rate * T)` is computed by the caller. -/
def samplingIndices (T m : Nat) : List Nat := linspaceInt (T - 1) m

/-- `QutipConfig._get_legacy_evaluation_times` before the final clipping: `none` = `"Full"`, else
`rel · T · 10⁻³` (µs). -/
def legacyEvalTimesRaw (dflt : DefaultTimes) (extras : List Rat) (T m : Nat) : Option (List Rat) :=
  let scale : Rat := (T : Rat) / 1000
  if extras.isEmpty then
    match dflt with
    | .full => none
    | .times l => some (l.map (· * scale))
  else
    let rel : List Rat := match dflt with
      | .full => (samplingIndices T m).map fun (i : Nat) => (i : Rat) / (T : Rat)
      | .times l => l
    some ((union1d rel extras).map (· * scale))

/-- `np.minimum(x, bound)`. -/
def clipTo (bound x : Rat) : Rat := if x ≤ bound then x else bound

/-- `QutipConfig._get_legacy_evaluation_times`: the converted times are clipped to the duration
`T / 1000` (repair of finding F30: in float64 `1.0 · T · 10⁻³` can exceed `T / 1000`). -/
def legacyEvalTimes (dflt : DefaultTimes) (extras : List Rat) (T m : Nat) : Option (List Rat) :=
  (legacyEvalTimesRaw dflt extras T m).map fun l => l.map (clipTo ((T : Rat) / 1000))

/-- `QutipEmulator.set_evaluation_times` for a list: range check, then union with the
end points.  `none` = `ValueError`. -/
def setEvaluationTimes (T : Nat) (value : List Rat) : Option (List Rat) :=
  let tEnd : Rat := (T : Rat) / 1000
  if value.any (fun x => decide (tEnd < x)) then none
  else if value.any (fun x => decide (x < 0)) then none
  else some (union1d value [0, tEnd])

/-- `evaluation_time = t / (T / 1000)` stored in each `QutipResult` (the divisor is the number the end
point `T / 1000` is built from, so the end point is filed under exactly 1: repair of finding F52). -/
def relTime (T : Nat) (t : Rat) : Rat := t / ((T : Rat) / 1000)

/-! ## 7. `EmulationConfig.__init__` normalisation and its re-creation -/

inductive CfgErr
  | range | repeated | order | sampling
  deriving DecidableEq, Repr, Inhabited

/-- `Observable._validate_eval_times`. -/
def validateEvalTimes (l : List Rat) : Except CfgErr (List Rat) :=
  if l.any (fun x => decide (x < 0) || decide (1 < x)) then .error .range
  else if (union1d l []).length < l.length then .error .repeated
  else if !(l.zip l.tail).all (fun (a, b) => decide (a < b)) then .error .order
  else .ok l

/-- The keyword arguments of `QutipConfig(...)` that take part in the normalisation
(observables are kept as an opaque tuple of ids; noise model, initial state: opaque ids). -/
structure CfgArgs where
  observables : List Nat
  dflt : DefaultTimes
  withModulation : Bool
  preferDeviceNoise : Bool
  samplingNum : Nat      -- sampling_rate = samplingNum / samplingDen
  samplingDen : Nat
  deriving DecidableEq, Repr, Inhabited

/-- `QutipConfig.__init__` + `EmulationConfig.__init__`: validation, then the stored
`_backend_options`. -/
def cfgInit (a : CfgArgs) : Except CfgErr CfgArgs :=
  if !(0 < a.samplingNum && a.samplingNum ≤ a.samplingDen) then .error .sampling
  else
    match a.dflt with
    | .full => .ok a
    | .times l =>
      match validateEvalTimes l with
      | .ok l' => .ok { a with dflt := .times l' }
      | .error e => .error e

/-! ## 8. Complex rationals and matrices -/

structure CQ where
  re : Rat
  im : Rat
  deriving DecidableEq, Repr, Inhabited

namespace CQ
instance : Zero CQ := ⟨⟨0, 0⟩⟩
instance : One CQ := ⟨⟨1, 0⟩⟩
instance : Add CQ := ⟨fun a b => ⟨a.re + b.re, a.im + b.im⟩⟩
instance : Neg CQ := ⟨fun a => ⟨-a.re, -a.im⟩⟩
instance : Sub CQ := ⟨fun a b => ⟨a.re - b.re, a.im - b.im⟩⟩
instance : Mul CQ := ⟨fun a b => ⟨a.re * b.re - a.im * b.im, a.re * b.im + a.im * b.re⟩⟩
def conj (a : CQ) : CQ := ⟨a.re, -a.im⟩
def ofRat (r : Rat) : CQ := ⟨r, 0⟩
/-- `|a|²`. -/
def normSq (a : CQ) : Rat := a.re * a.re + a.im * a.im
end CQ

/-- `Σ_{k<n} g k`. -/
def sumTo (n : Nat) (g : Nat → CQ) : CQ :=
  match n with
  | 0 => 0
  | k + 1 => sumTo k g + g k

/-- A matrix: shape and entries (entries outside the shape are never read). -/
structure Mat where
  r : Nat
  c : Nat
  f : Nat → Nat → CQ

namespace Mat
def toLists (M : Mat) : List (List CQ) :=
  (List.range M.r).map fun i => (List.range M.c).map fun j => M.f i j
def ofLists (r c : Nat) (l : List (List CQ)) : Mat :=
  ⟨r, c, fun i j => (l.getD i []).getD j 0⟩
/-- Tabulate once (same entries inside the shape; used by the driver for speed). -/
def memo (M : Mat) : Mat :=
  let a : Array (Array CQ) := Array.ofFn (n := M.r) fun i => Array.ofFn (n := M.c) fun j => M.f i j
  ⟨M.r, M.c, fun i j => (a.getD i #[]).getD j 0⟩
def zero (r c : Nat) : Mat := ⟨r, c, fun _ _ => 0⟩
def ident (d : Nat) : Mat := ⟨d, d, fun i j => if i = j then 1 else 0⟩
/-- `|i⟩⟨j|` = `basis(d, i) * basis(d, j).dag()`. -/
def proj (d i j : Nat) : Mat := ⟨d, d, fun a b => if a = i ∧ b = j then 1 else 0⟩
def add (A B : Mat) : Mat := ⟨A.r, A.c, fun i j => A.f i j + B.f i j⟩
def smul (z : CQ) (A : Mat) : Mat := ⟨A.r, A.c, fun i j => z * A.f i j⟩
def mul (A B : Mat) : Mat := ⟨A.r, B.c, fun i j => sumTo A.c fun k => A.f i k * B.f k j⟩
def dagger (A : Mat) : Mat := ⟨A.c, A.r, fun i j => (A.f j i).conj⟩
/-- `qutip.tensor(A, B)` (Kronecker product). -/
def kron (A B : Mat) : Mat :=
  ⟨A.r * B.r, A.c * B.c, fun i j => A.f (i / B.r) (j / B.c) * B.f (i % B.r) (j % B.c)⟩
def trace (A : Mat) : CQ := sumTo A.r fun k => A.f k k
/-- `qutip.tensor([...])`. -/
def kronList : List Mat → Mat
  | [] => ident 1
  | A :: rest => kron A (kronList rest)
end Mat

/-! ## 9. `QutipOperator.from_operator_repr` -/

/-- `QuditOp`: `{"ij": coeff}` with eigenstates as indices, `(i, j, coeff)` = `coeff·|i⟩⟨j|`. -/
abbrev QuditOp := List (Nat × Nat × CQ)
/-- `TensorOp`: qudit operators applied to sets of qudits. -/
abbrev TensorOp := List (QuditOp × List Nat)
/-- `FullOp`: weighted sum of tensor operators. -/
abbrev FullOp := List (CQ × TensorOp)

/-- `build_qudit_op`. -/
def buildQuditOp (d : Nat) : QuditOp → Mat
  | [] => Mat.zero d d
  | (i, j, z) :: rest => Mat.add (buildQuditOp d rest) (Mat.smul z (Mat.proj d i j))

/-- `qobj_qudit_ops`: identities, then `qobj_qudit_ops[ind] = build_qudit_op(qudit_op)`
for every listed index, in order (a later assignment overrides an earlier one). -/
def slotOps (d n : Nat) (t : TensorOp) : List Mat :=
  t.foldl (fun slots (q, inds) =>
      inds.foldl (fun s ind => if ind < s.length then s.set ind (buildQuditOp d q) else s) slots)
    (List.replicate n (Mat.ident d))

/-- `sum(c * t for c, t in zip(coeffs, tensor_ops))`. -/
def fromRepr (d n : Nat) : FullOp → Mat
  | [] => Mat.zero (d ^ n) (d ^ n)     -- `zero_op`, the start value of the sum (repair of F29)
  | (z, t) :: rest => Mat.add (Mat.smul z (Mat.kronList (slotOps d n t))) (fromRepr d n rest)

/-- The documented entry-wise meaning: `⟨σ|O|τ⟩ = Σ_k c_k Π_i ⟨σᵢ|o_{k,i}|τᵢ⟩`. -/
def prodEntry : List Mat → List Nat → List Nat → CQ
  | [], _, _ => 1
  | A :: rest, a :: σ, b :: τ => A.f a b * prodEntry rest σ τ
  | _ :: _, _, _ => 0

def fromReprEntry (d n : Nat) : FullOp → List Nat → List Nat → CQ
  | [], _, _ => 0
  | (z, t) :: rest, σ, τ => z * prodEntry (slotOps d n t) σ τ + fromReprEntry d n rest σ τ

/-! ## 10. States, expectation values, the default observables -/

/-- A column vector from its amplitudes. -/
def ketMat (amps : List CQ) : Mat := ⟨amps.length, 1, fun i _ => amps.getD i 0⟩

/-- `|ψ⟩⟨ψ|`. -/
def pureDM (psi : Mat) : Mat := Mat.mul psi (Mat.dagger psi)

/-- `qutip.expect(A, ρ)` for a density matrix: `Tr(A ρ)`. -/
def expectDM (A rho : Mat) : CQ := Mat.trace (Mat.mul A rho)

/-- `qutip.expect(A, |ψ⟩)` for a ket: `⟨ψ|A|ψ⟩`. -/
def expectKet (A psi : Mat) : CQ := (Mat.mul (Mat.dagger psi) (Mat.mul A psi)).f 0 0

/-- Diagonal of a density matrix / squared moduli of a ket (`probabilities`, `_weights`). -/
def probsDM (rho : Mat) : List Rat := (List.range rho.r).map fun i => (rho.f i i).re
def probsKet (psi : Mat) : List Rat := (List.range psi.r).map fun i => (psi.f i 0).normSq

/-- The number operator `n_S = Π_{i∈S} |one⟩⟨one|_i` as built by
`CorrelationMatrix._get_number_operator`. -/
def numberOp (d n one : Nat) (qudits : List Nat) : Mat :=
  fromRepr d n [(1, [([(one, one, 1)], qudits)])]

/-- Definition of the occupation: `⟨n_i⟩ = Σ_σ p_σ [σᵢ = one]`. -/
def occupationSpec (d n one : Nat) (probs : List Rat) (i : Nat) : Rat :=
  (((allStates d n).filter fun σ => σ.getD i d == one).map fun σ => lookup probs (index d σ)).sum

/-- Definition of the correlation: `⟨n_i n_j⟩ = Σ_σ p_σ [σᵢ = one ∧ σⱼ = one]`. -/
def correlationSpec (d n one : Nat) (probs : List Rat) (i j : Nat) : Rat :=
  (((allStates d n).filter fun σ => σ.getD i d == one && σ.getD j d == one).map fun σ =>
    lookup probs (index d σ)).sum

/-- `Tr[ρ H]`. -/
def energyDM (H rho : Mat) : CQ := expectDM H rho
/-- `Tr[ρ H²]`. -/
def secondMomentDM (H rho : Mat) : CQ := expectDM (Mat.mul H H) rho
/-- `Tr[ρ H²] − Tr[ρ H]²`. -/
def varianceDM (H rho : Mat) : CQ := secondMomentDM H rho - energyDM H rho * energyDM H rho

/-- `QutipOperator.apply_to` on a density matrix: `H ρ H†`. -/
def applyDM (H rho : Mat) : Mat := Mat.mul (Mat.mul H rho) (Mat.dagger H)

/-- `QutipState.overlap` for two density matrices: `Tr(A† B)`. -/
def overlapDM (A B : Mat) : CQ := Mat.trace (Mat.mul (Mat.dagger A) B)

/-- `⟨a|b⟩` for two kets (`a.dag() * b` in `QutipState.overlap`). -/
def innerKet (A B : Mat) : CQ := (Mat.mul (Mat.dagger A) B).f 0 0

/-- `QutipState.overlap` for two kets: `|⟨a|b⟩|²` (`np.abs(overlap) ** 2`). -/
def overlapKet (A B : Mat) : Rat := (innerKet A B).normSq

/-- `EnergySecondMoment.apply` on a density matrix: `h = H ρ H†`, `identity.expect(h)` = `Tr[1·HρH†]`. -/
def secondMomentCodeDM (H rho : Mat) : CQ := expectDM (Mat.ident H.r) (applyDM H rho)

/-- `EnergyVariance.apply`: `identity.expect(h_state) - hamiltonian.expect(state) ** 2`. -/
def varianceCodeDM (H rho : Mat) : CQ :=
  secondMomentCodeDM H rho - energyDM H rho * energyDM H rho

/-- `H† = H` on the `n × n` block. -/
def IsHermitian (H : Mat) (n : Nat) : Prop := ∀ i j, i < n → j < n → (H.f j i).conj = H.f i j

/-- What `EnergySecondMoment.apply` computed **before the repair of finding F25**, squared:
`h = H ρ H†; sqrt(overlap(h, h))` → `Tr((HρH†)†(HρH†))`. -/
def secondMomentOldSqDM (H rho : Mat) : CQ := overlapDM (applyDM H rho) (applyDM H rho)

/-- The subtrahend of `EnergyVariance.apply` before the repair of finding F26:
`state.overlap(h_state) = Tr(ρ† HρH†)` (the definition wants `Tr(ρH)²`). -/
def varSubtrahendOldDM (H rho : Mat) : CQ := overlapDM rho (applyDM H rho)

end Measure
end Pulser
