/-
  PulserModel.Waveform — waveforms and pulses idealised to ℚ (property C16).

  Mirrors `pulser-core/pulser/waveforms.py` and `pulser-core/pulser/pulse.py`,
  in the order of the Python statements.  What is *not* here: the values of
  `np.blackman`, `np.kaiser`, scipy's interpolators and every float rounding;
  the normalised window of a Blackman / Kaiser waveform is a *parameter*
  (`Wf.window norm area`, `norm` is handed over by the harness as exact
  rationals), and the sums / peaks used by `BlackmanWaveform.from_max_val`
  are functions `S peak : Nat → Rat`.

  A division whose divisor may be zero is written `divQ?` and yields `none`
  (Lean's `x / 0 = 0` must never stand in for numpy's `nan`): a waveform whose
  samples are `none` is one whose real samples are not finite.

  Model files import nothing outside core Lean.
-/
import PulserModel.Basic
namespace Pulser
namespace Wave

/-! ## 1. `Waveform.__getitem__`: index and slice normalisation -/

/-- `Waveform._check_index(i)` on a waveform of duration `d`; `none` = `IndexError`. -/
def checkIndex (d : Nat) (i : Int) : Option Nat :=
  if i < -(d : Int) ∨ i ≥ (d : Int) then none
  else some (if i ≥ 0 then i.toNat else ((d : Int) + i).toNat)

/-- "Transform start and stop indexes into positive or null values since they can be omitted
(None) or negative (end-indexing)": `dflt if x is None else (x if x >= 0 else duration + x)`. -/
def sliceNorm (D dflt : Int) (x : Option Int) : Int :=
  match x with
  | none => dflt
  | some s => if s ≥ 0 then s else D + s

/-- `if x < 0: x = 0`. -/
def clampLow (x : Int) : Int := if x < 0 then 0 else x

/-- `if x > duration: x = duration`. -/
def clampHigh (D x : Int) : Int := if x > D then D else x

/-- `Waveform._check_slice(slice(start, stop, step))`; `none` = `IndexError`
(step not in {None, 1}), otherwise the normalised `(start, stop)`. -/
def checkSlice (d : Nat) (start stop step : Option Int) : Option (Nat × Nat) :=
  if step ≠ none ∧ step ≠ some 1 then none
  else
    let D : Int := d
    let start2 := clampHigh D (clampLow (sliceNorm D 0 start))
    let stop2 := clampHigh D (clampLow (sliceNorm D D stop))
    -- `if stop < start: stop = start`
    let stop3 := if stop2 < start2 then start2 else stop2
    some (start2.toNat, stop3.toNat)

/-- Reference semantics (CPython `PySlice_AdjustIndices`, step = 1) of one slice
bound on a sequence of length `d`: `None` ↦ default, negative ↦ `+ d` floored at
0, large ↦ `d`. -/
def pyAdjust (d : Nat) (x : Option Int) (dflt : Int) : Int :=
  match x with
  | none => dflt
  | some v => if v < 0 then (if v + d < 0 then 0 else v + d) else (if v ≥ d then d else v)

/-- `l[s:e]` for already normalised bounds. -/
def sliceList {α} (l : List α) (s e : Nat) : List α := (l.drop s).take (e - s)

/-- `samples[index_or_slice]` with an integer. -/
def getIndex (l : List Rat) (i : Int) : Option Rat :=
  match checkIndex l.length i with
  | none => none
  | some j => l[j]?

/-- `samples[index_or_slice]` with a slice. -/
def getSlice (l : List Rat) (start stop step : Option Int) : Option (List Rat) :=
  (checkSlice l.length start stop step).map fun (s, e) => sliceList l s e

/-! ## 2. Waveform classes -/

/-- Division with the zero divisor made explicit (numpy: `inf`/`nan` + RuntimeWarning). -/
def divQ? (a b : Rat) : Option Rat := if b = 0 then none else some (a / b)

/-- `np.clip(x, lo, hi)` = `minimum(maximum(x, lo), hi)`. -/
def clip (x lo hi : Rat) : Rat := min (max x lo) hi

/-- Waveforms.  `window beta norm area` is a `BlackmanWaveform` (`beta = none`) or a
`KaiserWaveform` (`beta = some β`) whose clipped normalised window `norm` is an oracle value;
its duration is `norm.length`. -/
inductive Wf where
  | const (d : Nat) (v : Rat)
  | ramp (d : Nat) (a b : Rat)
  | custom (xs : List Rat)
  | window (beta : Option Rat) (norm : List Rat) (area : Rat)
  | composite (ws : List Wf)
  deriving Repr, Inhabited

mutual
/-- `Waveform.duration` (for a composite: the running sum of the parts). -/
def Wf.duration : Wf → Nat
  | .const d _ => d
  | .ramp d _ _ => d
  | .custom xs => xs.length
  | .window _ n _ => n.length
  | .composite ws => durationList ws
def durationList : List Wf → Nat
  | [] => 0
  | w :: ws => w.duration + durationList ws
end

mutual
/-- The constructors' own checks: `Waveform.__init__` (`duration > 0`),
`CompositeWaveform.__init__` (at least two parts), `KaiserWaveform` (`beta ≥ 0`). -/
def Wf.valid : Wf → Bool
  | .const d _ => decide (0 < d)
  | .ramp d _ _ => decide (0 < d)
  | .custom xs => decide (0 < xs.length)
  | .window b n _ => decide (0 < n.length) && (match b with | some β => decide (0 ≤ β) | none => true)
  | .composite ws => decide (2 ≤ ws.length) && validList ws
def validList : List Wf → Bool
  | [] => true
  | w :: ws => w.valid && validList ws
end

/-- `RampWaveform._slope`'s divisor `max(duration - 1, 1)` (since /repo b1aea695; before, it was
`duration - 1`, see `rampSamplesOld?`). -/
def rampDen (d : Nat) : Nat := max (d - 1) 1

/-- `RampWaveform._samples`: `clip(slope * arange(d) + start, *sorted([start, stop]))`
with `slope = (stop - start) / max(d - 1, 1)`.  The divisor is never zero, so this is always
`some`; the `Option` is kept because the division is written with the guarded `divQ?`. -/
def rampSamples? (d : Nat) (a b : Rat) : Option (List Rat) :=
  (divQ? (b - a) (rampDen d : Rat)).map fun slope =>
    (List.range d).map fun (i : Nat) => clip (slope * (i : Rat) + a) (min a b) (max a b)

/-- The formula of `RampWaveform._samples` **before** /repo commit b1aea695 (finding F6.1):
`slope = (stop - start) / (d - 1)`; `none` when `d = 1` (0/0 or x/0). -/
def rampSamplesOld? (d : Nat) (a b : Rat) : Option (List Rat) :=
  (divQ? (b - a) ((d : Rat) - 1)).map fun slope =>
    (List.range d).map fun (i : Nat) => clip (slope * (i : Rat) + a) (min a b) (max a b)

/-- `BlackmanWaveform._samples` / `KaiserWaveform._samples`:
`norm * (area / sum(norm) * 1e3)`.  `none` when the window sums to zero.  (Since /repo e02d4356 a
Blackman window of at most two samples is `ones(d)`; before, `np.blackman(2) = [0, 0]` was
normalised — finding F6.2.  The window is an oracle parameter here either way.) -/
def windowSamples? (norm : List Rat) (area : Rat) : Option (List Rat) :=
  (divQ? area norm.sum).map fun q => norm.map (· * (q * 1000))

mutual
/-- `Waveform._samples`; `none` = the real array contains `nan`/`inf`. -/
def Wf.samples? : Wf → Option (List Rat)
  | .const d v => some (List.replicate d v)          -- value * np.ones(duration)
  | .ramp d a b => rampSamples? d a b
  | .custom xs => some xs
  | .window _ n area => windowSamples? n area
  | .composite ws => samplesList? ws                 -- concatenate([wf.samples …])
def samplesList? : List Wf → Option (List Rat)
  | [] => some []
  | w :: ws =>
    match w.samples?, samplesList? ws with
    | some a, some b => some (a ++ b)
    | _, _ => none
end

/-- `Waveform.integral` = `sum(samples) * 1e-3`. -/
def Wf.integral? (w : Wf) : Option Rat := w.samples?.map fun s => s.sum / 1000

mutual
/-- `Waveform.__mul__(k)`: every class rebuilds itself from scaled *parameters*. -/
def Wf.scale (k : Rat) : Wf → Wf
  | .const d v => .const d (v * k)
  | .ramp d a b => .ramp d (a * k) (b * k)
  | .custom xs => .custom (xs.map (· * k))
  | .window be n area => .window be n (area * k)
  | .composite ws => .composite (scaleList k ws)
def scaleList (k : Rat) : List Wf → List Wf
  | [] => []
  | w :: ws => w.scale k :: scaleList k ws
end

/-- `Waveform.__neg__` = `self.__mul__(-1.0)`. -/
def Wf.neg (w : Wf) : Wf := w.scale (-1)

/-- `Waveform.__truediv__(k)`: `ZeroDivisionError` (`none`) iff `k = 0`, else `self * (1/k)`. -/
def Wf.div? (w : Wf) (k : Rat) : Option Wf :=
  if k = 0 then none else some (w.scale (1 / k))

/-- The defining parameters other than the duration. -/
def Wf.params : Wf → List Rat
  | .const _ v => [v]
  | .ramp _ a b => [a, b]
  | .custom xs => xs
  | .window (some β) _ area => [area, β]
  | .window none _ area => [area]
  | .composite _ => []

/-- `change_duration(new)`: constant, ramp, Blackman and Kaiser waveforms are rebuilt with the
same parameters (`newNorm` = the window of the new duration, an oracle); the base class raises
`NotImplementedError` (`none`) for custom and composite waveforms. -/
def Wf.changeDuration? (w : Wf) (new : Nat) (newNorm : List Rat) : Option Wf :=
  match w with
  | .const _ v => some (.const new v)
  | .ramp _ a b => some (.ramp new a b)
  | .window be _ area => if newNorm.length = new then some (.window be newNorm area) else none
  | .custom _ => none
  | .composite _ => none

/-! ## 3. `BlackmanWaveform.from_max_val` (positive area and maximum) -/

/-- `while cond(duration): duration += 1` with explicit fuel; `none` = out of fuel. -/
def searchUp (p : Nat → Bool) : Nat → Nat → Option Nat
  | 0, _ => none
  | fuel + 1, n => if p n then some n else searchUp p fuel (n + 1)

/-- `_scaling` of `cls(N, area)`: `area / sum(norm_N) * 1e3` (`S N` = the window sum). -/
def bmScaling? (S : Nat → Rat) (area : Rat) (N : Nat) : Option Rat :=
  (divQ? area (S N)).map (· * 1000)

/-- The loop condition `float(wf._scaling) > max_val` negated (a `nan` scaling compares
false with everything, so the loop stops there too). -/
def bmStop (S : Nat → Rat) (area maxVal : Rat) (N : Nat) : Bool :=
  match bmScaling? S area N with
  | some sc => decide (sc ≤ maxVal)
  | none => true

/-- First guess `ceil(area / (0.42 * max_val) * 1e3)`. -/
def bmGuess (area maxVal : Rat) : Nat := (area / ((21 : Rat) / 50 * maxVal) * 1000).ceil.toNat

/-- Duration chosen by `from_max_val` before the odd/even adjustment. -/
def bmSearch (S : Nat → Rat) (area maxVal : Rat) (fuel : Nat) : Option Nat :=
  searchUp (bmStop S area maxVal) fuel (bmGuess area maxVal)

/-- The odd/even adjustment: go back to the previous (even) duration if the loop ran at least
once, the final duration is odd, and `max(wf) < max(previous_wf) <= max_val`
(`peak N` = `max(norm_N)`). -/
def bmAdjust (S peak : Nat → Rat) (area maxVal : Rat) (guess N : Nat) : Nat :=
  match bmScaling? S area N, bmScaling? S area (N - 1) with
  | some sN, some sP =>
    if guess < N ∧ N % 2 = 1 ∧ peak N * sN < peak (N - 1) * sP ∧ peak (N - 1) * sP ≤ maxVal
    then N - 1 else N
  | _, _ => N

def bmFromMaxVal (S peak : Nat → Rat) (area maxVal : Rat) (fuel : Nat) : Option Nat :=
  (bmSearch S area maxVal fuel).map (bmAdjust S peak area maxVal (bmGuess area maxVal))

/-- The ideal Blackman window sum, `Σ_{n<N} 0.42 − 0.5cos(2πn/(N−1)) + 0.08cos(4πn/(N−1))
= 0.42 (N−1)` for `N ≥ 4`. -/
def bmIdealSum (N : Nat) : Rat := (21 : Rat) / 50 * ((N : Rat) - 1)

/-! ## 4. Pulse -/

structure PulseM where
  amp : List Rat
  det : List Rat
  phase : Rat
  post : Rat
  deriving DecidableEq, Repr

/-- `Pulse.__init__`: equal durations, no negative amplitude sample, phases reduced mod 2π. -/
def mkPulse (amp det : List Rat) (phase post : Rat) : Option PulseM :=
  if det.length ≠ amp.length then none
  else if amp.any (· < 0) then none
  else some { amp := amp, det := det, phase := fmtPhase phase, post := fmtPhase post }

/-- `np.diff`. -/
def diffs : List Rat → List Rat
  | a :: b :: rest => (b - a) :: diffs (b :: rest)
  | _ => []

/-- `np.pad(x, (1, 0), mode="edge")`; numpy raises on an empty axis. -/
def padEdgeLeft : List Rat → Option (List Rat)
  | [] => none
  | x :: xs => some (x :: x :: xs)

/-- General branch of `Pulse.ArbitraryPhase` **before** /repo c5791488 (finding F6.3):
`detuning = pad(-diff(phase) * 1e3, (1,0), "edge")` whatever the duration. -/
def arbDetuningOld? (phi : List Rat) : Option (List Rat) :=
  padEdgeLeft ((diffs phi).map fun x => -x * 1000)

/-- General branch of `Pulse.ArbitraryPhase`: a one-sample phase waveform takes the constant
branch (`ConstantWaveform(1, 0.0)`), otherwise
`detuning = pad(-diff(phase) * 1e3, (1,0), "edge")`. -/
def arbDetuning? (phi : List Rat) : Option (List Rat) :=
  if phi.length = 1 then some [0] else padEdgeLeft ((diffs phi).map fun x => -x * 1000)

/-- `phase_c = phase[0] + detuning[0] * 1e-3` (before `% 2π`). -/
def arbPhaseC (phi det : List Rat) : Rat := phi.headD 0 + det.headD 0 / 1000

/-- `np.cumsum`. -/
def cumsumFrom (acc : Rat) : List Rat → List Rat
  | [] => []
  | x :: xs => (acc + x) :: cumsumFrom (acc + x) xs

/-- `ChannelSamples.phase_modulation` = `phase − cumsum(det * 1e-3)` (unreduced phase). -/
def phaseModulation (phaseC : Rat) (det : List Rat) : List Rat :=
  (cumsumFrom 0 (det.map (· / 1000))).map (phaseC - ·)

/-- Constant-phase branch: `ConstantWaveform(d, 0.0)`, offset `phase[0] + 0`. -/
def arbConst (d : Nat) (v : Rat) : Rat × List Rat := (v + 0 / 1000, List.replicate d 0)

/-- Ramp branch: `ConstantWaveform(d, -slope * 1e3)`, offset `start + detuning[0] * 1e-3`; a
one-sample ramp takes the constant branch. -/
def arbRamp? (d : Nat) (a b : Rat) : Option (Rat × List Rat) :=
  if d = 1 then some (arbConst 1 a)      -- `phase.duration == 1` is tested first (since /repo c5791488)
  else (divQ? (b - a) (rampDen d : Rat)).map fun slope =>
    (a + (-slope * 1000) / 1000, List.replicate d (-slope * 1000))

end Wave
end Pulser
