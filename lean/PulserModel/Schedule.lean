/-
  PulserModel.Schedule — model of `pulser/sequence/_schedule.py`
  (`_TimeSlot`, `_EOMSettings`, `_ChannelSchedule`, `_Schedule`).

  Every function follows the statement order of the Python method it is named
  after.  Float-only quantities (fall times, limit summaries) are carried by the
  pulse records as oracle fields (see DESIGN §4).
-/
import PulserModel.Basic
namespace Pulser

/-- Exact summaries of the samples that `validate_pulse` looks at (oracle). -/
structure PulseSummary where
  maxAmp : Rat := 0       -- np.max(amp)
  avgAmp : Rat := 0       -- np.average(amp)
  maxAbsDetR : Rat := 0   -- max(round(|det|, 6))
  maxDetR : Rat := 0      -- max(round(det, 6))
  minDetR : Rat := 0      -- min(round(det, 6))
  finite : Bool := true   -- every amplitude and detuning sample is finite (no NaN / inf)
  deriving DecidableEq, Repr, Inhabited

/-- What the scheduler may read from a `Pulse` (after duration adjustment). -/
structure PulseRec where
  dur : Nat
  phase : Rat                -- phase as stored in the Pulse (reduced)
  post : Rat := 0            -- post_phase_shift
  fallStd : Nat := 0         -- ORACLE Pulse.fall_time(ch, in_eom_mode=False)
  fallEom : Nat := 0         -- ORACLE Pulse.fall_time(ch, in_eom_mode=True)
  dd : Bool := false         -- _ChannelSchedule.is_detuned_delay
  ref : Nat := 0             -- identity of the user pulse (0 for scheduler-made pulses)
  amp : Rat := 0             -- only meaningful for constant (EOM / buffer) pulses
  det : Rat := 0
  const : Bool := false      -- both waveforms are ConstantWaveform (amp, det above)
  -- ghost fields (never read by the scheduler)
  proto : Protocol := .noDelay
  sum : PulseSummary := {}
  deriving DecidableEq, Repr, Inhabited

def PulseRec.fall (p : PulseRec) (inEom : Bool) : Nat :=
  if inEom then p.fallEom else p.fallStd

inductive SlotKind
  | target
  | delay
  | pulse (p : PulseRec)
  deriving DecidableEq, Repr, Inhabited

structure Slot where
  kind : SlotKind
  ti : Int
  tf : Int
  targets : List Nat
  deriving DecidableEq, Repr, Inhabited

def Slot.isPulse (s : Slot) : Bool := match s.kind with | .pulse _ => true | _ => false
def Slot.isTarget (s : Slot) : Bool := match s.kind with | .target => true | _ => false
def Slot.pulse? (s : Slot) : Option PulseRec := match s.kind with | .pulse p => some p | _ => none

structure EomBlock where
  ti : Int
  tf : Option Int
  amp : Rat
  detOn : Rat
  detOff : Rat
  deriving DecidableEq, Repr, Inhabited

/-- Oracle table for the fall times of the detuned-delay pulses that the
scheduler itself creates: (detuning_off, duration) ↦ (fallStd, fallEom). -/
abbrev DDOracle := List ((Rat × Nat) × (Nat × Nat))

structure ChanState where
  name : ChName
  chId : Nat
  cfg : ChanCfg
  slots : List Slot := []
  eom : List EomBlock := []
  maxW : Rat := 1          -- DMM: np.max(detuning_map.weights)
  sumW : Rat := 1          -- DMM: np.sum(detuning_map.weights)
  ddOracle : DDOracle := []
  deriving DecidableEq, Repr, Inhabited

namespace ChanState

/-- `self[channel][-1]` — raises "The chosen channel has no target." when empty. -/
def last (c : ChanState) : Except Err Slot :=
  match c.slots.getLast? with
  | some s => .ok s
  | none => .error .noTarget

def inEomMode (c : ChanState) : Bool :=
  match c.eom.getLast? with
  | some b => b.tf.isNone
  | none => false

/-- `last_target()`. -/
def lastTarget (c : ChanState) : Int :=
  match c.slots.reverse.find? Slot.isTarget with
  | some s => s.tf
  | none => 0

/-- `last_pulse_slot(ignore_detuned_delay)`; `none` ≙ RuntimeError. -/
def lastPulseSlot (c : ChanState) (ignoreDD : Bool) : Option (Slot × PulseRec) :=
  c.slots.reverse.findSome? fun s =>
    match s.kind with
    | .pulse p => if ignoreDD && p.dd then none else some (s, p)
    | _ => none

/-- `_get_last_pulse_phase`. -/
def lastPulsePhase (c : ChanState) : Rat :=
  match c.lastPulseSlot false with
  | some (_, p) => p.phase
  | none => 0

/-- Rise time of the modulation in effect: the EOM's in EOM mode, the channel's otherwise.
A pulse's fall time in the current mode is at most twice this (repair of F32: the scans
used the channel's own rise time even in EOM mode). -/
def modeRise (c : ChanState) : Nat :=
  if c.inEomMode then (match c.cfg.eom with | some e => e.rise | none => c.cfg.rise) else c.cfg.rise

/-- Loop body of `get_duration(include_fall_time=True)` over the reversed slots. -/
def durFallAux (rise2 : Nat) (inEom : Bool) (temp : Int) : List Slot → Int
  | [] => temp
  | op :: rest =>
    match op.kind with
    | .pulse p => max temp (op.tf + p.fall inEom)
    | _ => if temp - op.tf ≥ rise2 then temp else durFallAux rise2 inEom temp rest

/-- `_ChannelSchedule.get_duration`. -/
def getDuration (c : ChanState) (includeFall : Bool) : Int :=
  match c.slots.reverse with
  | [] => 0
  | op :: rest =>
    if !includeFall then op.tf
    else durFallAux (2 * c.modeRise) c.inEomMode op.tf (op :: rest)

def adjust (c : ChanState) (d : Nat) : Except Err Nat := adjustDuration c.cfg d

def lookupDD (c : ChanState) (detOff : Rat) (dur : Nat) : Option (Nat × Nat) :=
  (c.ddOracle.find? fun e => e.1 == (detOff, dur)).map (·.2)

end ChanState

/-- `_Schedule._check_duration`. -/
def checkDuration (maxSeq : Option Nat) (t : Int) : Except Err Unit :=
  match maxSeq with
  | some m => if t > m then .error .overMaxSeq else .ok ()
  | none => .ok ()

/-- The constant zero-amplitude pulse the scheduler plays while idling in EOM
mode with a non-zero off-detuning (`Pulse.ConstantPulse(d, 0, det_off, phase)`).
`phase` is reduced by `Pulse.__init__`. -/
def mkDetunedDelay (c : ChanState) (d : Nat) (detOff phase : Rat) : Except Err PulseRec :=
  match c.lookupDD detOff d with
  | none => .error (.oracleMiss c.name detOff d)
  | some (fs, fe) =>
    .ok { dur := d, phase := fmtPhase phase, post := 0, fallStd := fs, fallEom := fe,
          dd := true, ref := 0, amp := 0, det := detOff, const := true, proto := .noDelay,
          sum := { maxAmp := 0, avgAmp := 0, maxAbsDetR := 0, maxDetR := 0, minDetR := 0 } }

/-- `_Schedule.add_delay` on one channel. -/
def addDelay (maxSeq : Option Nat) (c : ChanState) (d : Nat) : Except Err ChanState := do
  let last ← c.last
  let ti := last.tf
  let d' ← validateDuration c.cfg d
  let tf := ti + d'
  checkDuration maxSeq tf
  match c.eom.getLast? with
  | some b =>
    if b.tf.isNone && b.detOff ≠ 0 then
      let p ← mkDetunedDelay c d' b.detOff c.lastPulsePhase
      .ok { c with slots := c.slots ++ [⟨.pulse p, ti, tf, last.targets⟩] }
    else
      .ok { c with slots := c.slots ++ [⟨.delay, ti, tf, last.targets⟩] }
  | none => .ok { c with slots := c.slots ++ [⟨.delay, ti, tf, last.targets⟩] }

/-- `_Schedule.wait_for_fall` on one channel. -/
def waitForFall (maxSeq : Option Nat) (c : ChanState) : Except Err ChanState :=
  let fall := c.getDuration true - c.getDuration false
  if fall > 0 then do
    let d ← c.adjust fall.toNat
    addDelay maxSeq c d
  else .ok c

/-- Result of a compound scheduler operation on one channel: the (possibly
partially mutated) channel and the error raised, if any. -/
structure CRes where
  c : ChanState
  err : Option Err := none
  deriving DecidableEq, Repr, Inhabited

/-- Run an atomic step: on error the channel is left as it was. -/
def CRes.lift (c : ChanState) (e : Except Err ChanState) : CRes :=
  match e with
  | .ok c' => ⟨c', none⟩
  | .error e => ⟨c, some e⟩

/-- Sequencing: stop at the first error, keeping the state reached so far. -/
def CRes.bind (r : CRes) (f : ChanState → CRes) : CRes :=
  match r.err with
  | none => f r.c
  | some _ => r

/-- The unadjusted retarget time of `add_target` at time `ti`:
`np.clip(retarget - elapsed, 0, retarget)`, raised to `fixed_retarget_t` when that is set. -/
def retargetDelta (c : ChanState) (ti : Int) : Int :=
  let retarget : Int := c.cfg.minRetarget
  let elapsed := ti - c.lastTarget
  let delta0 : Int := min (max (retarget - elapsed) 0) retarget
  if c.cfg.fixedRetarget ≠ 0 then max delta0 c.cfg.fixedRetarget else delta0

/-- `self[channel][-1].targets == qubits_set`. -/
def sameTargets (c : ChanState) (qs : List Nat) : Bool :=
  match c.slots.getLast? with
  | some l => decide (l.targets = qs)
  | none => false

/-- The part of `add_target` after the fall wait: the retarget time is computed from the
(new) end of the channel, adjusted, checked against the maximum duration and appended. -/
def addTargetTail (maxSeq : Option Nat) (c : ChanState) (qs : List Nat) : Except Err ChanState :=
  match c.last with
  | .error e => .error e
  | .ok last =>
    let delta1 := retargetDelta c last.tf
    match (if delta1 ≠ 0 then c.adjust delta1.toNat else .ok 0) with
    | .error e => .error e
    | .ok delta =>
      match checkDuration maxSeq (last.tf + (delta : Int)) with
      | .error e => .error e
      | .ok _ =>
        .ok { c with slots := c.slots ++ [⟨.target, last.tf, last.tf + (delta : Int), qs⟩] }

/-- `_Schedule.add_target` on one channel (mutation order kept: the fall wait
is appended before any later check). -/
def addTarget (maxSeq : Option Nat) (c : ChanState) (qs : List Nat) : CRes :=
  if c.slots.isEmpty then
    CRes.lift c (do
      checkDuration maxSeq 0
      .ok { c with slots := c.slots ++ [⟨.target, -1, 0, qs⟩] })
  else if sameTargets c qs then
    -- retargeting to the same qubits inserts nothing (checked before the fall wait: repair of F4)
    ⟨c, none⟩
  else
    (CRes.lift c (waitForFall maxSeq c)).bind fun c => CRes.lift c (addTargetTail maxSeq c qs)

/-- Inner loop of `_find_add_delay` over the reversed slots of one other channel. -/
def findAddDelayChan (rise2 : Nat) (inEom : Bool) (myTargets : List Nat) (waitAll : Bool)
    (cur : Int) : List Slot → Int
  | [] => cur
  | op :: rest =>
    match op.kind with
    | .pulse p =>
      if op.tf + p.fall inEom ≤ cur then cur
      else if op.targets.any (myTargets.contains ·) || waitAll then op.tf + p.fall inEom
      else findAddDelayChan rise2 inEom myTargets waitAll cur rest
    | _ =>
      if op.tf + rise2 ≤ cur then cur
      else findAddDelayChan rise2 inEom myTargets waitAll cur rest

/-- `_Schedule._find_add_delay`: `others` are the other channels in declaration order. -/
def findAddDelay (others : List ChanState) (myTargets : List Nat) (waitAll : Bool) (t0 : Int) : Int :=
  others.foldl
    (fun cur ch => findAddDelayChan (2 * ch.modeRise) ch.inEomMode myTargets waitAll cur ch.slots.reverse)
    t0

/-- Phase-drift parameters (`_PhaseDriftParams`): rate in rad/µs, start in ns. -/
structure Drift where
  rate : Rat
  ti : Int
  deriving DecidableEq, Repr, Inhabited

def Drift.calc (d : Drift) (tf : Int) : Rat := d.rate * (tf - d.ti) / 1000

def maxList (x : Int) (l : List Int) : Int := l.foldl max x

/-- `current_max_t` of `make_next_pulse_slot`: the channel end and the phase-shift
barriers, pushed back by `_find_add_delay` unless the protocol is 'no-delay'. -/
def curMaxOf (others : List ChanState) (last : Slot) (barriers : List Int) (proto : Protocol) : Int :=
  if proto ≠ .noDelay then
    findAddDelay others last.targets (proto == .waitForAll) (maxList last.tf barriers)
  else maxList last.tf barriers

/-- `phase_jump_buffer` of `make_next_pulse_slot`: when the phase differs from the last
(non detuned-delay) pulse's, the phase-jump time (at least twice the rise time in EOM
mode) plus that pulse's fall time, minus the time already elapsed since it ended. -/
def phaseJumpBuffer (c : ChanState) (t0 : Int) (newPhase : Rat) (proto : Protocol) : Int :=
  if proto ≠ .noDelay then
    match c.lastPulseSlot true with
    | some (ls, lp) =>
      if lp.phase ≠ newPhase then
        ((max c.cfg.pjt (if c.inEomMode then 2 * max c.cfg.rise c.modeRise else 0) : Nat) : Int)
          + (lp.fall c.inEomMode : Nat) - (t0 - ls.tf)
      else 0
    | none => 0
  else 0

/-- The phase of the pulse, corrected for the drift accumulated until `tf` when requested. -/
def correctedPhase (p : PulseRec) (drift : Option Drift) (tf : Int) : Rat :=
  match drift with
  | some d => p.phase - d.calc tf
  | none => p.phase

/-- `_Schedule.make_next_pulse_slot`; returns the slot (with the possibly
drift-corrected pulse).  `blockOverMax = false` only warns. -/
def makeNextPulseSlot (maxSeq : Option Nat) (c : ChanState) (others : List ChanState)
    (p : PulseRec) (barriers : List Int) (proto : Protocol) (drift : Option Drift)
    (blockOverMax : Bool) : Except Err Slot :=
  match c.last with
  | .error e => .error e
  | .ok last =>
  let t0 := last.tf
  let curMax := curMaxOf others last barriers proto
  let buffer := phaseJumpBuffer c t0 (fmtPhase (correctedPhase p drift curMax)) proto
  let delay0 := max (curMax - t0) buffer
  match (if delay0 > 0 then c.adjust delay0.toNat else .ok 0) with
  | .error e => .error e
  | .ok delay =>
  let ti := t0 + (delay : Int)
  let tf := ti + p.dur
  match (if blockOverMax then checkDuration maxSeq tf else .ok ()) with
  | .error e => .error e
  | .ok _ =>
  let p' : PulseRec := match drift with
    | some _ => { p with phase := fmtPhase (correctedPhase p drift ti) }
    | none => p
  .ok ⟨.pulse { p' with proto := proto }, ti, tf, last.targets⟩

/-- `_Schedule.add_pulse` (atomic: the slot is computed before anything is appended
and the inner `add_delay` repeats checks that already passed). -/
def addPulse (maxSeq : Option Nat) (c : ChanState) (others : List ChanState)
    (p : PulseRec) (barriers : List Int) (proto : Protocol) (drift : Option Drift) :
    Except Err ChanState := do
  let last ← c.last
  let slot ← makeNextPulseSlot maxSeq c others p barriers proto drift true
  let delay := slot.ti - last.tf
  let c' ← if delay > 0 then addDelay maxSeq c delay.toNat else pure c
  .ok { c' with slots := c'.slots ++ [slot] }

/-- `_Schedule.enable_eom` on one channel. -/
def enableEom (maxSeq : Option Nat) (c : ChanState) (amp detOn detOff : Rat)
    (skipBuffer skipWait : Bool) : CRes :=
  let r : CRes :=
    if !skipBuffer && c.getDuration false ≠ 0 then
      (if !skipWait then CRes.lift c (waitForFall maxSeq c) else ⟨c, none⟩).bind fun c =>
        CRes.lift c (do
          let buf ← c.adjust (match c.cfg.eom with | some e => e.bufferTime | none => 0)
          if detOff ≠ 0 then
            let p ← mkDetunedDelay c buf detOff c.lastPulsePhase
            addPulse maxSeq c [] p [0] .noDelay none
          else addDelay maxSeq c buf)
    else ⟨c, none⟩
  r.bind fun c =>
    CRes.lift c (do
      let last ← c.last
      .ok { c with eom := c.eom ++ [⟨last.tf, none, amp, detOn, detOff⟩] })

/-- Close the open EOM block at `tf` (`eom_blocks[-1].tf = ...`). -/
def closeLastBlock (l : List EomBlock) (tf : Int) : List EomBlock :=
  match l.reverse with
  | [] => []
  | b :: rest => (({ b with tf := some tf } : EomBlock) :: rest).reverse

/-- `_Schedule.disable_eom` on one channel. -/
def disableEom (maxSeq : Option Nat) (c : ChanState) (skipBuffer : Bool) : CRes :=
  (CRes.lift c (do
      let last ← c.last
      .ok { c with eom := closeLastBlock c.eom last.tf })).bind fun c =>
    if skipBuffer then ⟨c, none⟩
    else
      match c.cfg.eom with
      | some e =>
        if e.customBuffer then
          CRes.lift c (do
            let buf ← c.adjust e.bufferTime
            addDelay maxSeq c buf)
        else CRes.lift c (waitForFall maxSeq c)
      | none => CRes.lift c (waitForFall maxSeq c)

/-- `limit is not None and x > limit`. -/
def overRat (m : Option Rat) (x : Rat) : Bool :=
  match m with
  | some m => decide (x > m)
  | none => false

/-- `limit is not None and x < limit`. -/
def underRat (m : Option Rat) (x : Rat) : Bool :=
  match m with
  | some m => decide (x < m)
  | none => false

/-- `Channel.validate_pulse` / `DMM.validate_pulse` on the oracle summary. -/
def validatePulse (c : ChanState) (σ : PulseSummary) : Except Err Unit :=
  if !σ.finite then .error .nonFinite      -- (repair of F31: NaN passed every `>` test)
  else if overRat c.cfg.maxAmp σ.maxAmp then .error .ampOverMax
  else if overRat c.cfg.maxAbsDet σ.maxAbsDetR then .error .detOverMax
  else if 0 < σ.avgAmp ∧ σ.avgAmp < c.cfg.minAvgAmp then .error .avgAmpLow
  else if !c.cfg.isDmm then .ok ()
  else if σ.maxDetR > 0 then .error .dmmPositive
  else if underRat c.cfg.bottom (c.maxW * σ.minDetR) then .error .dmmBottom
  else if underRat c.cfg.totalBottom (c.sumW * σ.minDetR) then .error .dmmTotalBottom
  else .ok ()

end Pulser
