/-
  PulserModel.Switch — model of `pulser/sequence/helpers/_switch_device.py`
  (`switch_device`: `check_retarget`, `check_channels_match`, `is_good_match`, the product
  search over channel assignments, `build_sequence_from_matching`) and of
  `Sequence.switch_register`, on top of the scheduler model of `PulserModel.Sequence`.

  (a) which fields of a channel configuration the scheduler model reads when it builds a
      timeline (`timingFields`), with the real attribute each stands for;
  (b) `strictMatch`: equality on a list of (real) parameter names, with the guards of the Python;
  (c) the channel-matching search and the replay of the call log with renamed channel ids.

  Core Lean only.
-/
import PulserModel.Sequence
namespace Pulser
namespace Switch

/-! ## (a) Channel parameters: real attribute name ↔ `ChanCfg` field -/

/-- Value of a channel parameter (for table-driven comparison). -/
inductive FVal
  | nat (n : Nat)
  | onat (o : Option Nat)
  | bool (b : Bool)
  | basis (b : Basis)
  | ty (isDmm : Bool) (b : Basis)   -- the channel class: Rydberg / Raman / Microwave (by basis) or DMM
  | rat (r : Rat)
  | orat (o : Option Rat)
  | absent                           -- not a parameter the model knows
  deriving DecidableEq, Repr, Inhabited

/-- The parameter of a channel named as in the Python code (attribute of the real `Channel`
object, `eom_config.x` for attributes of its EOM configuration).

* `mod_bandwidth` stands for `ChanCfg.rise` (`Channel.rise_time` is a function of it) and
  `eom_config.mod_bandwidth` for `EomCfg.rise`;
* `phase_jump_time` (= `custom_phase_jump_time`, or twice the rise time) for `ChanCfg.pjt`;
* `_eom_buffer_time` (= `eom_config.custom_buffer_time or 2 * rise_time`) for `EomCfg.bufferTime`,
  `eom_config.custom_buffer_time` (its truth value) for `EomCfg.customBuffer`;
* `type` for the pair (`isDmm`, `basis`): the four channel classes. -/
def get (c : ChanCfg) (f : String) : FVal :=
  if f = "type" then .ty c.isDmm c.basis
  else if f = "basis" then .basis c.basis
  else if f = "addressing" then .bool c.isLocal
  else if f = "clock_period" then .nat c.clock
  else if f = "min_duration" then .nat c.minDur
  else if f = "mod_bandwidth" then .nat c.rise
  else if f = "phase_jump_time" then .nat c.pjt
  else if f = "min_retarget_interval" then .nat c.minRetarget
  else if f = "fixed_retarget_t" then .nat c.fixedRetarget
  else if f = "eom_config" then .bool c.eom.isSome
  else if f = "eom_config.mod_bandwidth" then .onat (c.eom.map (·.rise))
  else if f = "_eom_buffer_time" then .onat (c.eom.map (·.bufferTime))
  else if f = "eom_config.custom_buffer_time" then .onat (c.eom.map fun e => if e.customBuffer then 1 else 0)
  else if f = "max_duration" then .onat c.maxDur
  else if f = "max_targets" then .onat c.maxTargets
  else if f = "max_amp" then .orat c.maxAmp
  else if f = "max_abs_detuning" then .orat c.maxAbsDet
  else if f = "min_avg_amp" then .rat c.minAvgAmp
  else if f = "bottom_detuning" then .orat c.bottom
  else if f = "total_bottom_detuning" then .orat c.totalBottom
  else .absent

/-- The parameters whose *value* the scheduler model reads when it computes a timeline (every
other field of `ChanCfg` only decides whether a call raises — `Proofs.Switch.stepRaw_erase`).
Where each is read:

* `type` (`isDmm`) — `addCore` (no phase reference on a DMM), `validatePulse`, `stepRaw` (`add` vs
  `add_dmm_detuning`), `available`;  `basis` — `addChannel`/`ensureBasis`, `addCore` (`lastPhases`,
  `lastTimes`, `mapRefs`), `targetCore`, `available`, `measBasisOk`;
* `addressing` (`isLocal`) — `stepRaw` declare (initial target slot of global channels), `targetCore`;
* `clock_period`, `min_duration` — `validateDuration` / `adjustDuration`: every duration and every
  inserted delay (`waitForFall`, `addTarget`, `makeNextPulseSlot`, `enableEom`, `disableEom`, `alignLoop`);
* `mod_bandwidth` (`rise`) — `getDuration` (`durFallAux`), `findAddDelay`, `phaseJumpBuffer` (EOM mode);
  also determines the oracle fall times carried by the operations;
* `phase_jump_time` (`pjt`) — `phaseJumpBuffer`;
* `min_retarget_interval`, `fixed_retarget_t` — `retargetDelta`;
* `eom_config` (presence) — `stepRaw` enable (`noEom`), `disableEom`;  `eom_config.mod_bandwidth`
  (`EomCfg.rise`) — `ChanState.modeRise` (`getDuration`, `findAddDelay` in EOM mode), and the oracle
  `fallEom`;  `_eom_buffer_time`
  (`EomCfg.bufferTime`) — `enableEom`, `disableEom`;  `eom_config.custom_buffer_time`
  (`EomCfg.customBuffer`) — `disableEom`. -/
def timingFields : List String :=
  ["type", "basis", "addressing", "clock_period", "min_duration", "mod_bandwidth", "phase_jump_time",
   "min_retarget_interval", "fixed_retarget_t", "eom_config", "eom_config.mod_bandwidth",
   "_eom_buffer_time", "eom_config.custom_buffer_time"]

/-- The parameters that only decide whether a call is accepted. -/
def limitFields : List String :=
  ["max_duration", "max_targets", "max_amp", "max_abs_detuning", "min_avg_amp", "bottom_detuning",
   "total_bottom_detuning"]

def timingField (f : String) : Bool := timingFields.contains f

/-- Agreement of two configurations on a list of parameters. -/
def agreeOn (fs : List String) (a b : ChanCfg) : Bool := fs.all fun f => get a f == get b f

/-- Two channel lists agree pairwise on the timing fields. -/
def chansAgree (l₁ l₂ : List ChanCfg) : Bool :=
  l₁.length == l₂.length && (l₁.zip l₂).all fun (a, b) => agreeOn timingFields a b

/-- Two devices whose channels (in order) and DMMs agree on every timing field; limits, maximal
sequence duration and channel reusability are free. -/
def devicesAgree (d₁ d₂ : Device) : Bool := chansAgree d₁.chans d₂.chans && chansAgree d₁.dmms d₂.dmms

/-- `min_retarget_interval` as far as `add_target` can see it: when the fixed retarget time covers
it, it plays no role (`retargetDelta` then always equals `fixed_retarget_t`). -/
def effMinRetarget (c : ChanCfg) : Nat :=
  if c.minRetarget ≤ c.fixedRetarget then 0 else c.minRetarget

/-- A configuration with every limit-only field removed (and the retarget interval normalised):
what is left is what the timeline of a successful history depends on. -/
def timing (c : ChanCfg) : ChanCfg :=
  { c with maxDur := none, maxTargets := none, maxAmp := none, maxAbsDet := none, minAvgAmp := 0,
           bottom := none, totalBottom := none, minRetarget := effMinRetarget c }

def eraseChan (c : ChanState) : ChanState := { c with cfg := timing c.cfg }

/-- The device without its limits: no maximal sequence duration, channels always reusable. -/
def eraseDev (d : Device) : Device :=
  { chans := d.chans.map timing, dmms := d.dmms.map timing, reusable := true, maxSeqDur := none }

def erase (s : SeqState) : SeqState :=
  { s with dev := eraseDev s.dev, chans := s.chans.map eraseChan }

/-- What is compared between the original and the switched sequence: per declared channel its
name, instructions and EOM blocks; the phase references; the measurement. -/
def timeline (s : SeqState) : List (ChName × List Slot × List EomBlock) × List (Basis × List QRef) × Option Basis :=
  (s.chans.map fun c => (c.name, c.slots, c.eom), s.refs, s.measured)

/-- Every call of the history is accepted (the sequence is the effect of successful calls only). -/
def allOk : SeqState → List Op → Bool
  | _, [] => true
  | s, op :: rest => (stepRaw s op).err.isNone && allOk (stepRaw s op).st rest

/-! ## (b) The strict comparison -/

/-- `check_retarget`: `ch_obj.addressing == "Local" and ch_obj.fixed_retarget_t <
ch_obj.min_retarget_interval`. -/
def checkRetarget (c : ChanCfg) : Bool := c.isLocal && decide (c.fixedRetarget < c.minRetarget)

/-- The text of `check_retarget` this model mirrors (pinned against the generated table). -/
def checkRetargetSrc : String :=
  "ch_obj.addressing == 'Local' and ch_obj.fixed_retarget_t < ch_obj.min_retarget_interval"

/-- The guards (other than `strict`) under which a parameter is compared, as in the Python. -/
def guards : List (String × String) :=
  [("eom_config", "old_ch_name in active_eom_channels"),
   ("eom_config.mod_bandwidth", "old_ch_name in active_eom_channels"),
   ("min_retarget_interval", "check_retarget(old_ch_obj) or check_retarget(new_ch_obj)")]

/-- Is parameter `p` compared for this pair of channels (guards of `check_channels_match`)? -/
def guardHolds (p : String) (eomActive : Bool) (a b : ChanCfg) : Bool :=
  if p = "eom_config" ∨ p = "eom_config.mod_bandwidth" then eomActive
  else if p = "min_retarget_interval" then checkRetarget a || checkRetarget b
  else true

/-- Comparison of one parameter: `eom_config` is the test `new_ch_obj.eom_config is None` (the old
channel of an EOM-active name has one), everything else is `getattr(new, p) != getattr(old, p)`. -/
def paramEq (p : String) (old new : ChanCfg) : Bool :=
  if p = "eom_config" then new.eom.isSome else get old p == get new p

/-- `strict=True`: every listed parameter whose guard holds is equal. -/
def strictMatch (params : List String) (eomActive : Bool) (old new : ChanCfg) : Bool :=
  params.all fun p => !guardHolds p eomActive old new || paramEq p old new

/-- Timing parameters that the strict switch checks only after the replay, by comparing the
samples of the EOM channels (`np.isclose` on the listed arrays).  This covers them as far as the
*samples* go: idle time that is absorbed again (`align`, a `min-delay` wait) leaves the samples equal
while the delay instructions sit elsewhere — finding F5d, monitor only. -/
def dynamicFields : List String := ["_eom_buffer_time", "eom_config.custom_buffer_time"]

def sampleArrays : List String := ["amp", "det", "phase"]

/-- The timing parameters that the strict switch neither compares (`params`) nor covers by the
post-replay sample comparison (`sampleChecks`). -/
def strictMissing (params sampleChecks : List String) : List String :=
  timingFields.filter fun f =>
    !(params.contains f) && !(dynamicFields.contains f && sampleArrays.all sampleChecks.contains)

/-- Global channels have no retarget interval (`min_retarget_interval is None`; 0 in the model). -/
def retargetWF (c : ChanCfg) : Bool := c.isLocal || decide (c.minRetarget ≤ c.fixedRetarget)

/-- The configuration without its EOM (a channel whose EOM mode the sequence never enables). -/
def noEom (c : ChanCfg) : ChanCfg := { c with eom := none }

/-! ## (c) Channel matching and replay -/

/-- A channel of the new device: a regular channel (index in `channel_objects`) or a DMM. -/
inductive NewId
  | chan (i : Nat)
  | dmm (j : Nat)
  deriving DecidableEq, Repr, Inhabited

/-- `{**new_device.channels, **new_device.dmm_channels}` in dict order. -/
def allNew (d : Device) : List (NewId × ChanCfg) :=
  (d.chans.zipIdx.map fun (c, i) => (NewId.chan i, c)) ++ (d.dmms.zipIdx.map fun (c, j) => (NewId.dmm j, c))

/-- Result of `check_channels_match`: (non-strict message, strict message). -/
inductive MatchRes
  | ok          -- ("", "")
  | nonStrict   -- a non-strict error message
  | strict      -- a strict error message
  deriving DecidableEq, Repr, Inhabited

/-- `params_to_check` with the conditional append, then `min_duration` and `phase_jump_time`
(the repair of F5). -/
def paramsToCheck (old new : ChanCfg) : List String :=
  ["mod_bandwidth", "fixed_retarget_t", "clock_period"] ++
    (if checkRetarget old || checkRetarget new then ["min_retarget_interval"] else []) ++
    ["min_duration", "phase_jump_time"]

/-- `check_channels_match` for a non-parametrized sequence, in statement order (each comparison
written through `get`, old channel first). -/
def checkChannelsMatch (old new : ChanCfg) (eomActive strict : Bool) : MatchRes :=
  if !(get old "type" == get new "type" && get old "basis" == get new "basis"
        && get old "addressing" == get new "addressing") then .nonStrict
  else if eomActive && !new.eom.isSome then .nonStrict
  else if eomActive && strict && !(get old "eom_config.mod_bandwidth" == get new "eom_config.mod_bandwidth") then
    .strict
  else if !strict then .ok
  else if (paramsToCheck old new).all fun p => get old p == get new p then .ok
  else .strict

/-- All parameters `checkChannelsMatch` can compare when `strict`, in source order (pinned against
the generated table). -/
def modelStrictParams : List String :=
  ["type", "basis", "addressing", "eom_config", "eom_config.mod_bandwidth", "mod_bandwidth",
   "fixed_retarget_t", "clock_period", "min_retarget_interval", "min_duration", "phase_jump_time"]

/-- The strict comparison as it was before the repair of F5 (frozen copy of the table then
generated from `_switch_device.py`). -/
def oldStrictParams : List String :=
  ["type", "basis", "addressing", "eom_config", "eom_config.mod_bandwidth", "mod_bandwidth",
   "fixed_retarget_t", "clock_period", "min_retarget_interval"]

/-- `itertools.product(xs, repeat=n)` (first component varies slowest). -/
def product {α : Type} (xs : List α) : Nat → List (List α)
  | 0 => [[]]
  | n + 1 => xs.flatMap fun x => (product xs n).map (x :: ·)

/-- Channels named by an `enable_eom_mode` call of the log. -/
def activeEom (calls : List Op) : List ChName :=
  calls.filterMap fun | .enableEom n _ => some n | _ => none

/-- `is_good_match`: no new channel used twice unless reusable, every pair matches. -/
def isGoodMatch (reusable strict : Bool) (olds : List (ChanCfg × Bool)) (comb : List (NewId × ChanCfg)) : Bool :=
  (reusable || (comb.map (·.1)).eraseDups.length == comb.length) &&
  (olds.zip comb).all fun ((o, act), (_, n)) => checkChannelsMatch o n act strict == .ok

/-- The candidate matchings, in the order they are tried. -/
def possibleMatches (s : SeqState) (newDev : Device) (strict : Bool) : List (List (ChName × NewId)) :=
  let act := activeEom s.calls
  let olds := s.chans.map fun c => (c.cfg, act.contains c.name)
  ((product (allNew newDev) s.chans.length).filter (isGoodMatch newDev.reusable strict olds)).map
    fun comb => (s.chans.map (·.name)).zip (comb.map (·.1))

/-- Bookkeeping of `build_sequence_from_matching`. -/
structure ReplaySt where
  seq : SeqState
  ids : List (ChName × NewId)          -- `channel_match` (old name ↦ new channel id)
  dmmCalls : List ChName := []         -- `dmm_calls`
  dmmNames : List (ChName × ChName) := []  -- `channel_match[dmm_called]` after the overwrite: new DMM name
  deriving Repr

/-- `_get_dmm_name(dmm_id, names)`. -/
def dmmName (id : Nat) (names : List ChName) : ChName :=
  .dmm id (names.filter fun n => match n with | .dmm i _ => i == id | _ => false).length

inductive SwitchErr
  | noMatch                 -- no channel assignment matches (TypeError / ValueError)
  | keyError                -- a renamed call names a channel outside the matching
  | replay (e : Err)        -- an exception other than ValueError raised while replaying
  | allFailed               -- every candidate matching raised a ValueError or changed the EOM samples
  deriving DecidableEq, Repr, Inhabited

/-- `channel_match[arg] if arg in dmm_calls else arg`: a DMM channel declared so far follows its new
name. -/
def renameDmm (r : ReplaySt) (n : ChName) : ChName :=
  if r.dmmCalls.contains n then (r.dmmNames.lookup n).getD n else n

/-- The call with its channel argument switched (`sw_channel_args` / `sw_channel_kw_args`):
`declare_channel`, `config_detuning_map` (`config_slm_mask`), `add_dmm_detuning`, and — since the
repair of F18r (/repo d02eba4b) — `delay` and `align`, the other calls that can name a DMM channel.
`legacy = true` is the replay before that repair: `delay` / `align` keep the *old* name. -/
def renameOp (legacy : Bool) (r : ReplaySt) (op : Op) : Except SwitchErr (ReplaySt × Op) :=
  match op with
  | .delay d n atRest => .ok (r, .delay d (if legacy then n else renameDmm r n) atRest)
  | .align chs atRest => .ok (r, .align (if legacy then chs else chs.map (renameDmm r)) atRest)
  | .declare name _ init =>
    match r.ids.lookup name with
    | some (.chan i) => .ok (r, .declare name i init)
    | _ => .error .keyError
  | .configDetMap dmmId maxW sumW =>
    let called := dmmName dmmId r.dmmCalls
    match r.ids.lookup called with
    | some (.dmm j) =>
      let newName := dmmName j (r.seq.chans.map (·.name))
      .ok ({ r with dmmCalls := r.dmmCalls ++ [called],
                    dmmNames := (called, newName) :: r.dmmNames.filter (·.1 != called) },
           .configDetMap j maxW sumW)
    | _ => .error .keyError
  | .addDmm p ch proto =>
    match r.dmmNames.lookup ch with
    | some n => .ok (r, .addDmm p n proto)
    | none => .error .keyError
  | op => .ok (r, op)

/-- The scheduler-made detuned-delay oracle of the i-th declared channel is that of the i-th
channel of the original (the oracle is a parameter of the model, keyed by the pulse). -/
def copyOracles (old new : List ChanState) : List ChanState :=
  new.zipIdx.map fun (c, i) =>
    match old[i]? with
    | some o => if c.ddOracle.isEmpty then { c with ddOracle := o.ddOracle } else c
    | none => c

/-- The replay loop: `getattr(new_seq, call.name)(*args, **kwargs)` for every stored call. -/
def replayCalls (legacy : Bool) (old : SeqState) : ReplaySt → List Op → Except SwitchErr ReplaySt
  | r, [] => .ok r
  | r, op :: rest =>
    match renameOp legacy r op with
    | .error e => .error e
    | .ok (r1, op') =>
      let raw := stepRaw r1.seq op'
      match raw.err with
      | some e => .error (.replay e)
      | none =>
        replayCalls legacy old { r1 with seq := { raw.st with chans := copyOracles old.chans raw.st.chans } } rest

/-- Exceptions that are `ValueError`s in the Python (the replay loop catches exactly these and
tries the next matching); the others (`RuntimeError`, `TypeError`) leave `switch_device`. -/
def isValueError : Err → Bool
  | .measured | .inEom | .notInEom | .alreadyInEom | .parametrized | .overMaxSeq => false  -- RuntimeError
  | .noEom | .notResizable => false                                                       -- TypeError
  | .oracleMiss .. => false
  | _ => true

/-- `build_sequence_from_matching`.  `samplesClose` stands for the float comparison
(`np.isclose` on `amp`, `det`, `phase`) of the samples of one EOM channel. -/
def buildFromMatching (legacy : Bool) (samplesClose : ChanState → ChanState → Bool) (s : SeqState) (newDev : Device)
    (strict : Bool) (m : List (ChName × NewId)) : Except SwitchErr SeqState :=
  match replayCalls legacy s { seq := SeqState.init newDev s.nQ, ids := m } s.calls with
  | .error e => .error e
  | .ok r =>
    if strict &&
        (activeEom s.calls).any (fun n =>
          match s.getChan n, r.seq.getChan n with
          | some a, some b => !samplesClose a b
          | _, _ => true) then
      .error (.replay .badPulse)   -- ValueError "EOM configuration that does not change the samples"
    else .ok r.seq

/-- The loop over the candidate matchings. -/
def tryMatches (legacy : Bool) (samplesClose : ChanState → ChanState → Bool) (s : SeqState) (newDev : Device)
    (strict : Bool) : List (List (ChName × NewId)) → Except SwitchErr SeqState
  | [] => .error .allFailed
  | m :: rest =>
    match buildFromMatching legacy samplesClose s newDev strict m with
    | .ok s' => .ok s'
    | .error (.replay e) =>
      if isValueError e then tryMatches legacy samplesClose s newDev strict rest else .error (.replay e)
    | .error e => .error e

/-- `switch_device` (after the identical-device shortcut and the device-level checks). -/
def switchDevice (samplesClose : ChanState → ChanState → Bool) (s : SeqState) (newDev : Device)
    (strict : Bool) (legacy : Bool := false) : Except SwitchErr SeqState :=
  match possibleMatches s newDev strict with
  | [] => .error .noMatch
  | ms => tryMatches legacy samplesClose s newDev strict ms

/-- `Sequence.switch_register` to a register with `nQ'` atoms (the scheduler never reads
coordinates): the call log replayed on the same device. -/
def switchRegister (s : SeqState) (nQ' : Nat) : Except Err SeqState :=
  s.calls.foldlM (fun st op =>
    let raw := stepRaw st op
    match raw.err with
    | some e => .error e
    | none => .ok { raw.st with chans := copyOracles s.chans raw.st.chans }) (SeqState.init s.dev nQ')

end Switch
end Pulser
