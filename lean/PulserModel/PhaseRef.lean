/-
  PulserModel.PhaseRef — model of `pulser/sequence/_basis_ref.py`
  (`_PhaseTracker`, `_QubitRef`).  A tracker is the list of (time, phase)
  pairs, i.e. `zip _times _phases`.
-/
import PulserModel.Basic
namespace Pulser

structure QRef where
  tr : List (Int × Rat) := [(0, 0)]
  lastUsed : Int := 0
  deriving DecidableEq, Repr, Inhabited

namespace QRef

def lastTime (q : QRef) : Int := (q.tr.getLast?.getD (0, 0)).1
def lastPhase (q : QRef) : Rat := (q.tr.getLast?.getD (0, 0)).2

/-- Replace the phase of the first entry whose time is `t`. -/
def replaceFirst (t : Int) (ph : Rat) : List (Int × Rat) → List (Int × Rat)
  | [] => []
  | e :: rest => if e.1 = t then (t, ph) :: rest else e :: replaceFirst t ph rest

/-- Insert after every entry with time ≤ `t` (`np.searchsorted(..., side="right")`
on a sorted list). -/
def insertSorted (t : Int) (ph : Rat) : List (Int × Rat) → List (Int × Rat)
  | [] => [(t, ph)]
  | e :: rest => if e.1 ≤ t then e :: insertSorted t ph rest else (t, ph) :: e :: rest

/-- `_PhaseTracker.__setitem__`. -/
def setItem (q : QRef) (t : Int) (phi : Rat) : QRef :=
  let ph := fmtPhase phi
  if q.tr.any (·.1 == t) then { q with tr := replaceFirst t ph q.tr }
  else { q with tr := insertSorted t ph q.tr }

/-- `_QubitRef.increment_phase`. -/
def incrementPhase (q : QRef) (phi : Rat) : QRef := q.setItem q.lastUsed (q.lastPhase + phi)

/-- `_QubitRef.update_last_used`. -/
def updateLastUsed (q : QRef) (t : Int) : QRef := { q with lastUsed := max q.lastUsed t }

end QRef
end Pulser
