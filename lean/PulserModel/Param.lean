/-
  PulserModel.Param — model of the *parametrized* building mode of
  `pulser/sequence/sequence.py` and of `Sequence.build`
  (`sequence/_decorators.py`, `parametrized/{variable,paramobj}.py`,
  `register/mappable_reg.py`).

  A parametrized `Sequence` is a *template*: the live concrete state built before the
  first variable was used (`pre`, whose call log `pre.calls` is `Sequence._calls`) and the
  list of calls stored afterwards (`stored` ≙ `Sequence._to_build_calls`) whose numeric
  arguments may be expression trees over declared variables.  `build` replays `_calls`
  on a fresh sequence and then the stored calls with evaluated arguments.

  What is *not* representable here (and is the job of the correspondence check
  harness/props/C08.py): aliasing between template and built sequence, the
  `Variable._count` / `ParamObj._instance` cache, anything about object identity.

  Model files import nothing outside core Lean.
-/
import PulserModel.Sequence
namespace Pulser
namespace Param

/-! ### Expressions (`Variable`, `VariableItem`, `ParamObj` over operators / ufuncs) -/

/-- `var name idx` is `VariableItem(Variable name, idx)` (a scalar variable is item 0 of a
size-1 variable — exactly what `declare_variable` returns); `fn f a` is a unary function
`ParamObj(f, a)` (abs, sin, sqrt, …) kept as an uninterpreted symbol. -/
inductive Expr
  | const (q : Rat)
  | var (name : Nat) (idx : Nat)
  | add (a b : Expr)
  | sub (a b : Expr)
  | mul (a b : Expr)
  | div (a b : Expr)
  | neg (a : Expr)
  | fn (f : Nat) (a : Expr)
  deriving DecidableEq, Repr, Inhabited

/-- The values given to `build(**vars)`: variable name ↦ array of values. -/
abbrev Assign := List (Nat × List Rat)

def Assign.get (ρ : Assign) (n i : Nat) : Option Rat := (ρ.lookup n).bind (·[i]?)

/-- Interpretation of the symbols the model keeps opaque: unary functions, the
constructors of parametrized pulses (waveform sampling + the float-only oracle fields of
`PulseIn`), the EOM oracle fields and the fall times of an EOM pulse of a given duration. -/
structure Interp where
  fn : Nat → Rat → Option Rat
  pulse : Nat → List Rat → Option PulseIn
  eom : Nat → Rat → Rat → Rat → Bool → Option EomIn
  fall : Nat → Nat → Nat × Nat

/-- `Parametrized.build()` of an expression (`none` ≙ the evaluation raises: unassigned
variable, index out of range, division by zero, function outside its domain). -/
def eval (I : Interp) (ρ : Assign) : Expr → Option Rat
  | .const q => some q
  | .var n i => ρ.get n i
  | .add a b => match eval I ρ a, eval I ρ b with
    | some x, some y => some (x + y) | _, _ => none
  | .sub a b => match eval I ρ a, eval I ρ b with
    | some x, some y => some (x - y) | _, _ => none
  | .mul a b => match eval I ρ a, eval I ρ b with
    | some x, some y => some (x * y) | _, _ => none
  | .div a b => match eval I ρ a, eval I ρ b with
    | some x, some y => if y = 0 then none else some (x / y) | _, _ => none
  | .neg a => (eval I ρ a).map (- ·)
  | .fn f a => (eval I ρ a).bind (I.fn f)

/-- Variables occurring in an expression. -/
def Expr.vars : Expr → List Nat
  | .const _ => []
  | .var n _ => [n]
  | .add a b | .sub a b | .mul a b | .div a b => a.vars ++ b.vars
  | .neg a | .fn _ a => a.vars

/-! ### Parametrized operations -/

/-- A numeric argument: a concrete value or an expression. -/
inductive Arg (α : Type)
  | conc (v : α)
  | param (e : Expr)
  deriving DecidableEq, Repr, Inhabited

def Arg.vars {α : Type} : Arg α → List Nat
  | .conc _ => []
  | .param e => e.vars

/-- An integer-valued position (duration, qubit index): the evaluated value must be an
integer (Python truncates non-integers with a warning — outside the modelled fragment,
reported as a failed evaluation here). -/
def ratToInt (q : Rat) : Option Int := if q.den = 1 then some q.num else none
def ratToNat (q : Rat) : Option Nat := if q.den = 1 ∧ 0 ≤ q.num then some q.num.toNat else none

def evalRat (I : Interp) (ρ : Assign) : Arg Rat → Option Rat
  | .conc v => some v
  | .param e => eval I ρ e
def evalInt (I : Interp) (ρ : Assign) : Arg Int → Option Int
  | .conc v => some v
  | .param e => (eval I ρ e).bind ratToInt
def evalNat (I : Interp) (ρ : Assign) : Arg Nat → Option Nat
  | .conc v => some v
  | .param e => (eval I ρ e).bind ratToNat

/-- Target of `target_index`: concrete indices, or ONE parametrized object (a variable /
a slice of it) that evaluates to a list of indices. -/
inductive TArg
  | conc (qs : List Nat)
  | arr (es : List Expr)
  deriving DecidableEq, Repr, Inhabited

/-- Sorted duplicate-free list from any list of indices (`set(...)`, canonical order). -/
def insertU (x : Nat) : List Nat → List Nat
  | [] => [x]
  | y :: rest => if x < y then x :: y :: rest else if x = y then y :: rest else y :: insertU x rest
def normTargets (l : List Nat) : List Nat := l.foldr insertU []

def evalList (I : Interp) (ρ : Assign) : List Expr → Option (List Nat)
  | [] => some []
  | e :: rest => match (eval I ρ e).bind ratToNat, evalList I ρ rest with
    | some x, some xs => some (x :: xs) | _, _ => none

def evalTArg (I : Interp) (ρ : Assign) : TArg → Option (List Nat)
  | .conc qs => some qs
  | .arr es => (evalList I ρ es).map normTargets

def evalNats (I : Interp) (ρ : Assign) : List (Arg Nat) → Option (List Nat)
  | [] => some []
  | a :: rest => match evalNat I ρ a, evalNats I ρ rest with
    | some x, some xs => some (x :: xs) | _, _ => none

/-- A pulse argument: a concrete `Pulse`, or a `ParamObj` holding a constructor call. -/
inductive PPulse
  | conc (p : PulseIn)
  | param (mk : Nat) (args : List Expr)
  deriving DecidableEq, Repr, Inhabited

def evalExprs (I : Interp) (ρ : Assign) : List Expr → Option (List Rat)
  | [] => some []
  | e :: rest => match eval I ρ e, evalExprs I ρ rest with
    | some x, some xs => some (x :: xs) | _, _ => none

def evalPulse (I : Interp) (ρ : Assign) : PPulse → Option PulseIn
  | .conc p => some p
  | .param mk args => (evalExprs I ρ args).bind (I.pulse mk)

/-- Arguments of `enable_eom_mode` / `modify_eom_setpoint`. -/
inductive PEom
  | conc (e : EomIn)
  | param (mk : Nat) (amp detOn optimal : Arg Rat) (corr : Bool)
  deriving DecidableEq, Repr, Inhabited

def evalEom (I : Interp) (ρ : Assign) : PEom → Option EomIn
  | .conc e => some e
  | .param mk a d o corr =>
    match evalRat I ρ a, evalRat I ρ d, evalRat I ρ o with
    | some a, some d, some o => I.eom mk a d o corr
    | _, _, _ => none

/-- The calls that are *stored* while the sequence is parametrized (`@store`, and the
manual storing of the two EOM calls).  `declare_channel` is never stored there (it acts on
the live prefix) and DMM configuration while parametrized is outside this fragment. -/
inductive POp
  | target (qs : TArg) (ch : ChName)
  | add (p : PPulse) (ch : ChName) (proto : Option Protocol)
  | addDmm (p : PPulse) (ch : ChName) (proto : Option Protocol)
  | addEom (ch : ChName) (dur : Arg Nat) (phase post : Arg Rat) (proto : Option Protocol)
      (corr : Bool) (fall : Nat) (ref : Nat)
  | delay (d : Arg Int) (ch : ChName) (atRest : Bool)
  | align (chs : List ChName) (atRest : Bool)
  | phaseShift (phi : Arg Rat) (qs : List (Arg Nat)) (basis : Basis)
  | enableEom (ch : ChName) (e : PEom)
  | modifyEom (ch : ChName) (e : PEom)
  | disableEom (ch : ChName) (corr : Bool)
  | measure (basis : Basis)
  deriving DecidableEq, Repr, Inhabited

/-- The loop body of `Sequence.build`: every `Parametrized` argument is built. -/
def evalOp (I : Interp) (ρ : Assign) : POp → Option Op
  | .target qs ch => (evalTArg I ρ qs).map (Op.target · ch)
  | .add p ch proto => (evalPulse I ρ p).map (Op.add · ch proto)
  | .addDmm p ch proto => (evalPulse I ρ p).map (Op.addDmm · ch proto)
  | .addEom ch dur phase post proto corr fall ref =>
    match evalNat I ρ dur, evalRat I ρ phase, evalRat I ρ post with
    | some d, some ph, some po =>
      some (Op.addEom ch d ph po proto corr (I.fall fall d).1 (I.fall fall d).2 ref)
    | _, _, _ => none
  | .delay d ch atRest => (evalInt I ρ d).map (Op.delay · ch atRest)
  | .align chs atRest => some (Op.align chs atRest)
  | .phaseShift phi qs b =>
    match evalRat I ρ phi, evalNats I ρ qs with
    | some x, some l => some (Op.phaseShift x (normTargets l) b)
    | _, _ => none
  | .enableEom ch e => (evalEom I ρ e).map (Op.enableEom ch)
  | .modifyEom ch e => (evalEom I ρ e).map (Op.modifyEom ch)
  | .disableEom ch corr => some (Op.disableEom ch corr)
  | .measure b => some (Op.measure b)

def evalOps (I : Interp) (ρ : Assign) : List POp → Option (List Op)
  | [] => some []
  | p :: rest => match evalOp I ρ p, evalOps I ρ rest with
    | some o, some os => some (o :: os) | _, _ => none

/-- Variables of a stored call. -/
def POp.vars : POp → List Nat
  | .target (.conc _) _ => []
  | .target (.arr es) _ => es.flatMap Expr.vars
  | .add (.conc _) _ _ | .addDmm (.conc _) _ _ => []
  | .add (.param _ args) _ _ | .addDmm (.param _ args) _ _ => args.flatMap Expr.vars
  | .addEom _ d ph po _ _ _ _ => d.vars ++ ph.vars ++ po.vars
  | .delay d _ _ => d.vars
  | .align _ _ => []
  | .phaseShift phi qs _ => phi.vars ++ qs.flatMap Arg.vars
  | .enableEom _ (.conc _) | .modifyEom _ (.conc _) => []
  | .enableEom _ (.param _ a d o _) | .modifyEom _ (.param _ a d o _) => a.vars ++ d.vars ++ o.vars
  | .disableEom _ _ | .measure _ => []

/-- Does the call carry a `Parametrized` argument (⇒ the sequence becomes parametrized)? -/
def POp.isParam : POp → Bool
  | .target (.arr _) _ => true
  | .add (.param ..) _ _ | .addDmm (.param ..) _ _ => true
  | .addEom _ d ph po _ _ _ _ =>
    (match d with | .param _ => true | _ => false) || (match ph with | .param _ => true | _ => false)
      || (match po with | .param _ => true | _ => false)
  | .delay (.param _) _ _ => true
  | .phaseShift phi qs _ =>
    (match phi with | .param _ => true | _ => false)
      || qs.any (fun a => match a with | .param _ => true | _ => false)
  | .enableEom _ (.param ..) | .modifyEom _ (.param ..) => true
  | _ => false

/-! ### Running a list of concrete calls the way `build` / a script does: the first
exception propagates (nothing is returned). -/

/-- All calls must succeed; the index and error of the first failing call otherwise. -/
def runAllFrom (k : Nat) (s : SeqState) : List Op → Except (Nat × Err) SeqState
  | [] => .ok s
  | op :: rest =>
    match (stepRaw s op).err with
    | none => runAllFrom (k + 1) (stepRaw s op).st rest
    | some e => .error (k, e)

def runAll (s : SeqState) (ops : List Op) : Except (Nat × Err) SeqState := runAllFrom 0 s ops

/-! ### Templates -/

/-- Errors of the parametrized mode: a sequence error raised by a store-time check, a
variable that was not declared in this sequence (`verify_variable`), an argument that
cannot be evaluated at build time. -/
inductive PErr
  | seq (e : Err)
  | unknownVariable
  | missingValue
  | evalFailed (k : Nat)
  | buildFailed (k : Nat) (e : Err)
  deriving DecidableEq, Repr, Inhabited

structure Tmpl where
  pre : SeqState                      -- live concrete state; `pre.calls` ≙ `_calls[1:]`
  stored : List POp := []             -- `_to_build_calls`
  vars : List (Nat × Nat) := []       -- `_variables`: name ↦ size
  param : Bool := false               -- `not _building`
  paramMeas : Option Basis := none    -- `_param_measurement`
  deriving DecidableEq, Repr, Inhabited

/-- `is_in_eom_mode` while parametrized: the latest stored enable/disable call of the
channel, looking through `_calls + _to_build_calls` backwards. -/
def eomMarkP (n : ChName) : POp → Option Bool
  | .enableEom ch _ => if ch = n then some true else none
  | .disableEom ch _ => if ch = n then some false else none
  | _ => none
def eomMark (n : ChName) : Op → Option Bool
  | .enableEom ch _ => if ch = n then some true else none
  | .disableEom ch _ => if ch = n then some false else none
  | _ => none

def inEomT (t : Tmpl) (n : ChName) : Bool :=
  match t.stored.reverse.findSome? (eomMarkP n) with
  | some b => b
  | none =>
    match t.pre.calls.reverse.findSome? (eomMark n) with
    | some b => b
    | none => false

/-- `verify_variable`: every variable of the call was declared by this sequence. -/
def varsDeclared (t : Tmpl) (p : POp) : Bool := p.vars.all fun n => t.vars.any (·.1 == n)

def concIdxBad (nQ : Nat) (qs : List (Arg Nat)) : Bool :=
  qs.any fun a => match a with | .conc i => decide (i ≥ nQ) | .param _ => false

/-- The checks every method performs at STORE time while the sequence is parametrized
(`none` ≙ the call is accepted and stored).  Follows the statement order of the methods. -/
def storeCheck (t : Tmpl) (p : POp) : Option Err :=
  let s := t.pre
  match p with
  | .target qs n =>
    -- @block_if_measured (of `_target`), `_validate_channel(block_eom_mode=True)`, emptiness,
    -- addressing, max_targets, `_check_qubits_give_ids(_index=True)` on the concrete indices
    if t.paramMeas.isSome then some .measured
    else match s.getChan n with
    | none => some .notDeclared
    | some c =>
      if inEomT t n then some .inEom
      else
      let len := match qs with | .conc l => l.length | .arr es => es.length
      if len = 0 then some .emptyTargets
      else if !c.cfg.isLocal then some .notLocal
      else if overNat c.cfg.maxTargets len then some .tooManyTargets
      else match qs with
        | .conc l => if l.any (· ≥ s.nQ) then some .unknownQubit else none
        | .arr _ => none
  | .add p n proto =>
    if t.paramMeas.isSome then some .measured
    else match s.getChan n with
    | none => some .notDeclared
    | some c =>
      if inEomT t n then some .inEom
      else if c.cfg.isDmm then some .isDmm
      else match proto with
      | none => some .badProtocol
      | some _ =>
        match p with
        | .param .. => none
        | .conc pi => match validateAndAdjust c pi none with | .error e => some e | .ok _ => none
  | .addDmm p n proto =>
    if t.paramMeas.isSome then some .measured
    else match s.getChan n with
    | none => some .notDeclared
    | some c =>
      if !c.cfg.isDmm then some .notDmm
      else match proto with
      | none => some .badProtocol
      | some _ =>
        match p with
        | .param .. => none
        | .conc pi => match validateAndAdjust c pi none with | .error e => some e | .ok _ => none
  | .addEom n dur _ _ proto _ _ _ =>
    if t.paramMeas.isSome then some .measured
    else match s.getChan n with
    | none => some .notDeclared
    | some c =>
      if !inEomT t n then some .notInEom
      else match proto with
      | none => some .badProtocol
      | some _ =>
        match dur with
        | .param _ => none
        | .conc d => match validateDuration c.cfg d with | .error e => some e | .ok _ => none
  | .delay _ n _ =>
    if t.paramMeas.isSome then some .measured
    else match s.getChan n with
    | none => some .notDeclared
    | some _ => none
  | .align chs _ =>
    if t.paramMeas.isSome then some .measured
    else if chs.any (fun n => (s.getChan n).isNone) then some .alignUnknown
    else if chs.eraseDups.length ≠ chs.length then some .alignDup
    else if chs.length < 2 then some .alignFew
    else none
  | .phaseShift _ qs b =>
    if (s.getRefs b).isNone then some .noBasis
    else if concIdxBad s.nQ qs then some .unknownQubit
    else none
  | .enableEom n e =>
    if t.paramMeas.isSome then some .measured
    else match s.getChan n with
    | none => some .notDeclared
    | some c =>
      if inEomT t n then some .alreadyInEom
      else if c.cfg.eom.isNone then some .noEom
      else match e with
      | .param .. => none
      | .conc e => match processEomParams c e with | .error er => some er | .ok _ => none
  | .modifyEom n e =>
    if t.paramMeas.isSome then some .measured
    else match s.getChan n with
    | none => some .notDeclared
    | some c =>
      if !inEomT t n then some .notInEom
      else match e with
      | .param .. => none
      | .conc e => match processEomParams c e with | .error er => some er | .ok _ => none
  | .disableEom n _ =>
    if t.paramMeas.isSome then some .measured
    else match s.getChan n with
    | none => some .notDeclared
    | some _ => if !inEomT t n then some .notInEom else none
  | .measure b =>
    if t.paramMeas.isSome then some .measured
    else if !measBasisOk s b then some .badMeasBasis
    else none

/-- What is appended to `_to_build_calls`: the call itself, except that the two EOM calls
given with concrete arguments store the chosen `detuning_off` as `optimal_detuning_off`. -/
def storedForm (t : Tmpl) (p : POp) : POp :=
  match p with
  | .enableEom n (.conc e) =>
    (match t.pre.getChan n with
     | some c => (match processEomParams c e with
        | .ok d => .enableEom n (.conc { e with optimal := d }) | .error _ => p)
     | none => p)
  | .modifyEom n (.conc e) =>
    (match t.pre.getChan n with
     | some c => (match processEomParams c e with
        | .ok d => .modifyEom n (.conc { e with optimal := d }) | .error _ => p)
     | none => p)
  | _ => p

/-- The concrete call denoted by a call without `Parametrized` arguments. -/
def concretize (p : POp) : Option Op := evalOp ⟨fun _ _ => none, fun _ _ => none, fun _ _ _ _ _ => none, fun _ _ => (0, 0)⟩ [] p

/-- One API call on a template, in Python statement order:
`verify_parametrization` (the variables of the arguments must be the sequence's own; only then
does the sequence become parametrized — the order since the repair of finding F3 — and a call
refused by a store-time check puts the flag back), then either the concrete method body or the
store-time checks. -/
def tstep (t : Tmpl) (p : POp) : Tmpl × Option PErr :=
  if p.isParam && !varsDeclared t p then (t, some .unknownVariable)
  else
  let t1 : Tmpl := if p.isParam then { t with param := true } else t
  if !t1.param then
    match concretize p with
    | none => (t1, some (.evalFailed 0))
    | some op =>
      let r := stepRaw t1.pre op
      ({ t1 with pre := r.st }, r.err.map PErr.seq)
  else
    match storeCheck t1 p with
    | some e => (t, some (.seq e))     -- refused: the template is as it was, `param` included
    | none =>
      let t2 := { t1 with stored := t1.stored ++ [storedForm t1 p] }
      (match p with
       | .measure b => ({ t2 with paramMeas := some b }, none)
       | _ => (t2, none))

/-- `declare_variable`. -/
def declareVar (t : Tmpl) (name size : Nat) : Tmpl × Option PErr :=
  if t.vars.any (·.1 == name) then (t, some .unknownVariable)
  else ({ t with vars := t.vars ++ [(name, size)] }, none)

/-- `_cross_check_vars` + `Variable._validate_value`: a value of the declared size for
every declared variable. -/
def covers (vars : List (Nat × Nat)) (ρ : Assign) : Bool :=
  vars.all fun (n, sz) => match ρ.lookup n with | some vs => vs.length == sz | none => false

/-- `Sequence.build(**vars)`: a fresh sequence replays `_calls`, then every stored call
with its arguments evaluated; the first exception propagates. -/
def build (I : Interp) (t : Tmpl) (ρ : Assign) : Except PErr SeqState :=
  if !covers t.vars ρ then .error .missingValue
  else
    let fresh := run (SeqState.init t.pre.dev t.pre.nQ) t.pre.calls
    match evalOps I ρ t.stored with
    | none => .error (.evalFailed 0)
    | some ops =>
      match runAll fresh ops with
      | .ok s => .ok s
      | .error (k, e) => .error (.buildFailed k e)

/-! ### The mutable part of the real template: the values last assigned to the variables

`Sequence.build` assigns the given values to the `Variable` objects of the template
(`Variable._assign`) and every `ParamObj.build()` reads them back.  `VStore` is that
store; `buildM` is `build` as the real method performs it — through the store. -/

abbrev VStore := List (Nat × List Rat)

/-- Assign every given value (`for name, value in vars.items(): self._variables[name]._assign(value)`):
the new binding shadows the old one. -/
def assignAll (st : VStore) (ρ : Assign) : VStore := ρ ++ st

def buildM (I : Interp) (t : Tmpl) (st : VStore) (ρ : Assign) : VStore × Except PErr SeqState :=
  if !covers t.vars ρ then (st, .error .missingValue)
  else
    let st' := assignAll st ρ
    let fresh := run (SeqState.init t.pre.dev t.pre.nQ) t.pre.calls
    match evalOps I st' t.stored with
    | none => (st', .error (.evalFailed 0))
    | some ops =>
      match runAll fresh ops with
      | .ok s => (st', .ok s)
      | .error (k, e) => (st', .error (.buildFailed k e))

/-! ### Mappable registers (`MappableRegister.build_register`, index targeting) -/

/-- `build_register(qubits)`: `declared` are the qubit ids of the mappable register in
declaration order, `chosen` the `qubits` mapping (id ↦ trap) in the caller's order.  The
ids must be exactly the first `len(chosen)` declared ids; the register lists them in
DECLARED order with the requested traps. -/
def buildRegister (declared : List Nat) (chosen : List (Nat × Nat)) : Option (List (Nat × Nat)) :=
  let ids := chosen.map (·.1)
  if !(ids.all (declared.contains ·)) then none
  else
    let firstK := declared.take ids.length
    if !(ids.all (firstK.contains ·) && firstK.all (ids.contains ·)) then none
    else some ((declared.filter (ids.contains ·)).filterMap fun id => (chosen.lookup id).map (id, ·))

/-- `register.qubit_ids[index]` of `_check_qubits_give_ids(_index=True)`. -/
def resolveIndex (reg : List (Nat × Nat)) (i : Nat) : Option Nat := (reg[i]?).map (·.1)

end Param
end Pulser
