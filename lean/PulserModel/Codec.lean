/-
  PulserModel.Codec — record codec with optional-field elision (property C17).

  Mirrors, in statement order,
    * `Channel._to_abstract_repr` / `DMM._to_abstract_repr`   (channels/base_channel.py:680, channels/dmm.py)
    * `BaseEOM._to_abstract_repr`                              (channels/eom.py)
    * `BaseDevice._to_abstract_repr`                           (devices/_device_datacls.py:583)
    * `RegisterLayout._to_abstract_repr`                       (register/register_layout.py:270)
    * `_deserialize_channel`, `_deserialize_layout`, `_deserialize_device_object`
                                                               (json/abstract_repr/deserializer.py:338-504)
    * `NoiseModel.__init__`, `_find_relevant_params`, `_to_abstract_repr`, `_deserialize_noise_model`
                                                               (noise_model.py, deserializer.py:437)
    * `SimConfig.from_noise_model` / `to_noise_model`          (pulser_simulation/simconfig.py:129)

  A python object is a *record*: the ordered list of its dataclass fields with their values.
  Values are JSON-like; floats are exact rationals (the harness converts every float64 exactly),
  enums are their names, tuples are lists.  What the tables say about a class (fields, defaults,
  OPTIONAL_* tuples, decoder defaults, schema keys) is *generated from the live code on every
  run* (`PulserModel/Generated/Fields.lean`, written by `harness/tables_c17.py`).

  Only core Lean is imported (this file is linked into `pm_codec`).
-/
namespace Pulser
namespace Codec

/-! ### Values -/

/-- JSON-like values.  `num` carries ints and floats alike (python `0 == 0.0`). -/
inductive Value where
  | null
  | bool (b : Bool)
  | num (q : Rat)
  | str (s : String)
  | list (xs : List Value)
  | obj (kvs : List (String × Value))
  deriving Repr, Inhabited

namespace Value

mutual
/-- Structural equality test (python `==` on the canonicalised values). -/
def beq : Value → Value → Bool
  | .null, .null => true
  | .bool a, .bool b => a == b
  | .num a, .num b => a == b
  | .str a, .str b => a == b
  | .list a, .list b => beqList a b
  | .obj a, .obj b => beqObj a b
  | _, _ => false
def beqList : List Value → List Value → Bool
  | [], [] => true
  | x :: xs, y :: ys => beq x y && beqList xs ys
  | _, _ => false
def beqObj : List (String × Value) → List (String × Value) → Bool
  | [], [] => true
  | (k, x) :: xs, (l, y) :: ys => k == l && beq x y && beqObj xs ys
  | _, _ => false
end

mutual
theorem eq_of_beq : ∀ (a b : Value), beq a b = true → a = b
  | .null, .null, _ => rfl
  | .bool a, .bool b, h => by simp [beq] at h; rw [h]
  | .num a, .num b, h => by simp [beq] at h; rw [h]
  | .str a, .str b, h => by simp [beq] at h; rw [h]
  | .list a, .list b, h => by simp [beq] at h; rw [eq_of_beqList a b h]
  | .obj a, .obj b, h => by simp [beq] at h; rw [eq_of_beqObj a b h]
  | .null, .bool _, h | .null, .num _, h | .null, .str _, h | .null, .list _, h
  | .null, .obj _, h => by simp [beq] at h
  | .bool _, .null, h | .bool _, .num _, h | .bool _, .str _, h | .bool _, .list _, h
  | .bool _, .obj _, h => by simp [beq] at h
  | .num _, .null, h | .num _, .bool _, h | .num _, .str _, h | .num _, .list _, h
  | .num _, .obj _, h => by simp [beq] at h
  | .str _, .null, h | .str _, .bool _, h | .str _, .num _, h | .str _, .list _, h
  | .str _, .obj _, h => by simp [beq] at h
  | .list _, .null, h | .list _, .bool _, h | .list _, .num _, h | .list _, .str _, h
  | .list _, .obj _, h => by simp [beq] at h
  | .obj _, .null, h | .obj _, .bool _, h | .obj _, .num _, h | .obj _, .str _, h
  | .obj _, .list _, h => by simp [beq] at h
theorem eq_of_beqList : ∀ (a b : List Value), beqList a b = true → a = b
  | [], [], _ => rfl
  | x :: xs, y :: ys, h => by
    simp [beqList] at h; rw [eq_of_beq x y h.1, eq_of_beqList xs ys h.2]
  | [], _ :: _, h | _ :: _, [], h => by simp [beqList] at h
theorem eq_of_beqObj : ∀ (a b : List (String × Value)), beqObj a b = true → a = b
  | [], [], _ => rfl
  | (k, x) :: xs, (l, y) :: ys, h => by
    simp [beqObj] at h; rw [h.1.1, eq_of_beq x y h.1.2, eq_of_beqObj xs ys h.2]
  | [], _ :: _, h | _ :: _, [], h => by simp [beqObj] at h
end

mutual
theorem beq_refl : ∀ (a : Value), beq a a = true
  | .null => rfl
  | .bool a => by simp [beq]
  | .num a => by simp [beq]
  | .str a => by simp [beq]
  | .list a => by simp [beq, beqList_refl a]
  | .obj a => by simp [beq, beqObj_refl a]
theorem beqList_refl : ∀ (a : List Value), beqList a a = true
  | [] => rfl
  | x :: xs => by simp [beqList, beq_refl x, beqList_refl xs]
theorem beqObj_refl : ∀ (a : List (String × Value)), beqObj a a = true
  | [] => rfl
  | (k, x) :: xs => by simp [beqObj, beq_refl x, beqObj_refl xs]
end

instance : DecidableEq Value := fun a b =>
  if h : beq a b = true then isTrue (eq_of_beq a b h)
  else isFalse (fun e => h (e ▸ beq_refl a))

/-- Python truthiness of a (canonicalised) value: `None`, `False`, `0`, `0.0`, `""`, `()`, `{}` are falsy. -/
def truthy : Value → Bool
  | .null => false
  | .bool b => b
  | .num q => q != 0
  | .str s => s != ""
  | .list xs => !xs.isEmpty
  | .obj kvs => !kvs.isEmpty

end Value

/-! ### Records -/

abbrev Record := List (String × Value)

/-- First value stored under key `k` (python `d[k]` / `k in d`). -/
def Record.get? : Record → String → Option Value
  | [], _ => none
  | (k', v) :: rest, k => if k' = k then some v else Record.get? rest k

def Record.keys (r : Record) : List String := r.map Prod.fst

def Record.has (r : Record) (k : String) : Bool := (r.get? k).isSome

/-- `mapM` in `Option`, spelled out (first failure wins). -/
def mapOpt {α β : Type} (f : α → Option β) : List α → Option (List β)
  | [] => some []
  | a :: rest =>
    match f a with
    | none => none
    | some b =>
      match mapOpt f rest with
      | none => none
      | some bs => some (b :: bs)

/-! ### Tables (generated from the live code) -/

/-- One row of `dataclasses.fields(cls)`. -/
structure FieldSpec where
  name : String
  /-- `Field.init`: whether the constructor takes it. -/
  init : Bool
  /-- `get_dataclass_defaults`: the dataclass default, if any.  This is the value the *encoder*
  compares with when it decides to drop an optional field. -/
  dflt : Option Value
  deriving DecidableEq, Repr

/-- Everything the translator extracts for one class. -/
structure Tables where
  cls : String
  /-- `dataclasses.fields(cls)` (for layouts: the constructor signature), in order. -/
  fields : List FieldSpec
  /-- The `OPTIONAL_*` tuple(s) the encoder iterates over: dropped when equal to the default. -/
  optional : List String
  /-- Fields the encoder never writes (`short_description`). -/
  encSkip : List String
  /-- Fields whose elision test is not "equal to the dataclass default" but "equal to this value"
  (`dmm_objects`: `if dmm_list: params["dmm_objects"] = dmm_list`, i.e. dropped when empty). -/
  encOverride : List (String × Value)
  /-- Constant keys the encoder adds (`basis`, `version`, `is_virtual`, …). -/
  consts : List (String × Value)
  /-- What the live decoder puts in a field when its key is absent (probed on the live
  decoder); a field without entry makes the decoder raise. -/
  decDefault : List (String × Value)
  /-- Keys whose absence makes the live decoder raise (probed). -/
  decRequired : List String
  /-- `properties` of the matching schema definition(s) (intersection over the alternatives). -/
  schemaProps : List String
  /-- `required` of the matching schema definition(s) (union over the alternatives). -/
  schemaRequired : List String
  deriving Repr

def Tables.names (T : Tables) : List String := T.fields.map (·.name)

def Tables.spec? (T : Tables) (f : String) : Option FieldSpec := T.fields.find? (·.name = f)

/-- The dataclass default of field `f`. -/
def Tables.dfltOf (T : Tables) (f : String) : Option Value :=
  match T.spec? f with
  | some fs => fs.dflt
  | none => none

def Tables.decDefaultOf (T : Tables) (f : String) : Option Value := Record.get? T.decDefault f

/-- The value at which the encoder drops optional field `f`. -/
def Tables.encDfltOf (T : Tables) (f : String) : Option Value :=
  match Record.get? T.encOverride f with
  | some v => some v
  | none => T.dfltOf f

/-- Keys that may appear in an encoding. -/
def Tables.emittedKeys (T : Tables) : List String :=
  T.consts.map Prod.fst ++ T.names.filter (fun f => !T.encSkip.contains f)

/-- Keys that appear in every encoding. -/
def Tables.alwaysKeys (T : Tables) : List String :=
  T.consts.map Prod.fst ++ T.names.filter (fun f => !T.encSkip.contains f && !T.optional.contains f)

/-! ### Nested codecs -/

/-- How the value of one field travels (identity for leaves). -/
structure Sub where
  enc : Value → Value
  dec : Value → Option Value

def Sub.id : Sub := ⟨fun v => v, some⟩

/-- The values a nested codec is meant for: they survive `dec ∘ enc`. -/
def Sub.Good (s : Sub) (v : Value) : Prop := s.dec (s.enc v) = some v

/-! ### Encoder (`_to_abstract_repr`) -/

/-- `params[p] == defaults[p]` for `p` in the OPTIONAL tuple → `params.pop(p)`. -/
def elided (T : Tables) (kv : String × Value) : Bool :=
  T.optional.contains kv.1 && (T.encDfltOf kv.1 == some kv.2)

def kept (T : Tables) (kv : String × Value) : Bool :=
  !T.encSkip.contains kv.1 && !elided T kv

/-- `{consts…, **params}` after the optional fields at their default were popped. -/
def encode (T : Tables) (sub : String → Sub) (r : Record) : Record :=
  T.consts ++ (r.filter (kept T)).map (fun kv => (kv.1, (sub kv.1).enc kv.2))

/-! ### Decoder (`_deserialize_*`: loop over `dataclasses.fields`) -/

/-- One iteration of `for param in fields: …`:
    non-init fields are never read (the constructor sets their default);
    a present key is used; an absent key falls back to the decoder default;
    no fallback → `KeyError` (`none`). -/
def decodeField (T : Tables) (sub : String → Sub) (j : Record) (fs : FieldSpec) :
    Option (String × Value) :=
  if fs.init = false then fs.dflt.map (fun d => (fs.name, d))
  else
    match j.get? fs.name with
    | some v => ((sub fs.name).dec v).map (fun x => (fs.name, x))
    | none => (T.decDefaultOf fs.name).map (fun d => (fs.name, d))

def decode (T : Tables) (sub : String → Sub) (j : Record) : Option Record :=
  mapOpt (decodeField T sub j) T.fields

/-! ### The decidable side condition on tables -/

/-- Per-field agreement of the two defaults, for an optional field:
    it is an init field with a dataclass default and the decoder falls back to *the same* value. -/
def optionalOk (T : Tables) (f : String) : Bool :=
  match T.spec? f with
  | some fs => fs.init && (T.encDfltOf f).isSome && (T.decDefaultOf f == T.encDfltOf f)
  | none => false

/-- `TablesOk T ex`: everything the round-trip needs, except that the optional fields listed in
`ex` are exempt from the same-default rule (known findings; the theorem then excludes records in
which such a field is at its elided value). -/
def tablesOk (T : Tables) (ex : List String) : Bool :=
  -- field names are unique and differ from the constant keys
  decide (T.names.Nodup) &&
  T.consts.all (fun kv => !T.names.contains kv.1) &&
  -- every optional field has a default and both sides use the same one
  T.optional.all (fun f => ex.contains f || optionalOk T f) &&
  ex.all (fun f => T.optional.contains f && (T.spec? f).isSome) &&
  -- every non-init field has a default (the decoder never has to supply it)
  T.fields.all (fun fs => fs.init || fs.dflt.isSome) &&
  -- a field the encoder never writes must have a decoder fallback
  T.encSkip.all (fun f => match T.spec? f with
    | some fs => !fs.init || (T.decDefaultOf f).isSome
    | none => true) &&
  -- whatever the live decoder insists on is always written …
  T.decRequired.all (fun k => T.alwaysKeys.contains k && (T.decDefaultOf k).isNone) &&
  -- … and so is every init field for which the decoder has no fallback
  T.fields.all (fun fs => !fs.init || T.encSkip.contains fs.name ||
      (T.decDefaultOf fs.name).isSome || !T.optional.contains fs.name) &&
  -- schema: emitted keys ⊆ properties, required ⊆ always-emitted
  T.emittedKeys.all (fun k => T.schemaProps.contains k) &&
  T.schemaRequired.all (fun k => T.alwaysKeys.contains k)

def TablesOk (T : Tables) (ex : List String := []) : Prop := tablesOk T ex = true

instance (T : Tables) (ex : List String) : Decidable (TablesOk T ex) := by
  unfold TablesOk; exact inferInstance

/-- A record of class `T`: one entry per field, in order; non-init fields hold their default;
fields the encoder never writes hold the decoder's fallback (for `Device.short_description`
this is a genuine restriction — see finding "short_description"). -/
structure WellTyped (T : Tables) (r : Record) : Prop where
  keys : r.keys = T.names
  nonInit : ∀ fs ∈ T.fields, fs.init = false → r.get? fs.name = fs.dflt
  skipped : ∀ fs ∈ T.fields, fs.init = true → T.encSkip.contains fs.name = true →
    r.get? fs.name = T.decDefaultOf fs.name

/-- No exempt field is at the value the encoder drops. -/
def AvoidsExempt (T : Tables) (ex : List String) (r : Record) : Prop :=
  ∀ kv ∈ r, ex.contains kv.1 = true → elided T kv = false

/-- Every field value is one its nested codec is meant for. -/
def SubOk (sub : String → Sub) (r : Record) : Prop :=
  ∀ kv ∈ r, (sub kv.1).Good kv.2

/-! ### Combinators for nested values -/

/-- A nested record (an EOM inside a channel, a layout inside a device). -/
def recSub (T : Tables) (sub : String → Sub) : Sub where
  enc := fun v => match v with
    | .obj r => .obj (encode T sub r)
    | v => v
  dec := fun v => match v with
    | .obj j => (decode T sub j).map Value.obj
    | _ => none

/-- `None` or a nested value. -/
def optSub (s : Sub) : Sub where
  enc := fun v => match v with
    | .null => .null
    | v => s.enc v
  dec := fun v => match v with
    | .null => some .null
    | v => s.dec v

/-- A tuple of nested values. -/
def listSub (s : Sub) : Sub where
  enc := fun v => match v with
    | .list xs => .list (xs.map s.enc)
    | v => v
  dec := fun v => match v with
    | .list xs => (mapOpt s.dec xs).map Value.list
    | _ => none

/-! ### Channels: a tagged union, dispatched on `basis` by the decoder -/

/-- One branch of the `if obj["basis"] == … / if "bottom_detuning" in obj` chain of
`_deserialize_channel`: (basis constant, key that must be present, class chosen). -/
structure DispatchRule where
  basis : String
  key : Option String
  cls : String
  deriving DecidableEq, Repr

/-- The class tag of a model channel record is its first entry. -/
def classKey : String := "__class__"

structure ChannelTables where
  /-- Tables by class name (`Rydberg`, `Raman`, `Microwave`, `DMM`). -/
  classes : List Tables
  /-- The EOM tables (`RydbergEOM`). -/
  eom : Tables
  dispatch : List DispatchRule

def ChannelTables.find? (C : ChannelTables) (cls : String) : Option Tables :=
  C.classes.find? (·.cls = cls)

/-- `eom_config` is a nested optional EOM record; everything else is a leaf. -/
def chanSub (C : ChannelTables) (f : String) : Sub :=
  if f = "eom_config" then optSub (recSub C.eom (fun _ => Sub.id)) else Sub.id

/-- First rule whose basis matches and whose key (if any) is present. -/
def dispatchClass (rules : List DispatchRule) (j : Record) : Option String :=
  match j.get? "basis" with
  | some (.str b) =>
    (rules.find? (fun ru => ru.basis = b && (match ru.key with
        | some k => j.has k
        | none => true))).map (·.cls)
  | _ => none

def channelSub (C : ChannelTables) : Sub where
  enc := fun v => match v with
    | .obj ((ck, .str cls) :: r) =>
      if ck = classKey then
        match C.find? cls with
        | some T => .obj (encode T (chanSub C) r)
        | none => .null
      else .null
    | _ => .null
  dec := fun v => match v with
    | .obj j =>
      match dispatchClass C.dispatch j with
      | some cls =>
        match C.find? cls with
        | some T => (decode T (chanSub C) j).map (fun r => .obj ((classKey, .str cls) :: r))
        | none => none
      | none => none
    | _ => none

/-- The `basis` constant of a class. -/
def Tables.basis? (T : Tables) : Option String :=
  match Record.get? T.consts "basis" with
  | some (.str b) => some b
  | _ => none

/-- Walking the rules in order for class `T`: every earlier rule of the same basis asks for a key
`T` never writes; the first rule that applies asks for nothing or for a key `T` always writes, and
names `T`. -/
def dispatchOkFor (T : Tables) (b : String) : List DispatchRule → Bool
  | [] => false
  | ru :: rest =>
    if ru.basis = b then
      match ru.key with
      | none => ru.cls = T.cls
      | some k =>
        if T.alwaysKeys.contains k then ru.cls = T.cls
        else !T.emittedKeys.contains k && dispatchOkFor T b rest
    else dispatchOkFor T b rest

def channelTablesOk (C : ChannelTables) : Bool :=
  C.classes.all (fun T => tablesOk T [] &&
    (match T.basis? with
     | some b => dispatchOkFor T b C.dispatch
     | none => false) &&
    (C.find? T.cls).map (·.cls) == some T.cls) &&
  decide ((C.classes.map (·.cls)).Nodup) &&
  tablesOk C.eom []

/-! ### Devices -/

structure DeviceTables where
  /-- `Device` and `VirtualDevice` after `PARAMS_WITH_ABSTR_REPR` were replaced by their abstract
  keys (`channels`, `dmm_objects`); see `harness/tables_c17.py`. -/
  physical : Tables
  virtual : Tables
  layout : Tables
  chans : ChannelTables

def layoutSub (D : DeviceTables) : Sub := recSub D.layout (fun _ => Sub.id)

/-- Nested codecs of a device record.  `noise` is the codec of `default_noise_model`
(`NoiseModel._to_abstract_repr` / `_deserialize_noise_model`, modelled below). -/
def devSub (D : DeviceTables) (noise : Sub) (f : String) : Sub :=
  if f = "channels" then listSub (channelSub D.chans)
  else if f = "dmm_objects" then listSub (channelSub D.chans)
  else if f = "pre_calibrated_layouts" then listSub (layoutSub D)
  else if f = "default_noise_model" then optSub noise
  else Sub.id

/-- `device_cls = VirtualDevice if obj["is_virtual"] else Device`. -/
def deviceSub (D : DeviceTables) (noise : Sub) : Sub where
  enc := fun v => match v with
    | .obj ((ck, .str cls) :: r) =>
      if ck = classKey then
        if cls = D.virtual.cls then .obj (encode D.virtual (devSub D noise) r)
        else if cls = D.physical.cls then .obj (encode D.physical (devSub D noise) r)
        else .null
      else .null
    | _ => .null
  dec := fun v => match v with
    | .obj j =>
      match Record.get? j "is_virtual" with
      | some (.bool true) =>
        (decode D.virtual (devSub D noise) j).map (fun r => .obj ((classKey, .str D.virtual.cls) :: r))
      | some (.bool false) =>
        (decode D.physical (devSub D noise) j).map (fun r => .obj ((classKey, .str D.physical.cls) :: r))
      | _ => none
    | _ => none

def deviceTablesOk (D : DeviceTables) (exVirtual : List String) : Bool :=
  tablesOk D.physical [] && tablesOk D.virtual exVirtual && tablesOk D.layout [] &&
  channelTablesOk D.chans &&
  (Record.get? D.physical.consts "is_virtual" == some (.bool false)) &&
  (Record.get? D.virtual.consts "is_virtual" == some (.bool true)) &&
  (D.physical.cls != D.virtual.cls)

/-! ### Executable versions of the theorems' hypotheses

The driver evaluates these on every record it is sent, so the harness knows (and reports) how many
generated objects lie inside the domain the theorems speak about. -/

def wellTypedB (T : Tables) (r : Record) : Bool :=
  (r.keys == T.names) &&
  T.fields.all (fun fs => fs.init || (r.get? fs.name == fs.dflt)) &&
  T.fields.all (fun fs => !fs.init || !T.encSkip.contains fs.name ||
    (r.get? fs.name == T.decDefaultOf fs.name))

def avoidsExemptB (T : Tables) (ex : List String) (r : Record) : Bool :=
  r.all (fun kv => !ex.contains kv.1 || !elided T kv)

def eomOkB (C : ChannelTables) : Value → Bool
  | .null => true
  | .obj e => wellTypedB C.eom e
  | _ => false

def channelRecOkB (C : ChannelTables) (T : Tables) (r : Record) : Bool :=
  wellTypedB T r && r.all (fun kv => kv.1 != "eom_config" || eomOkB C kv.2)

def channelValOkB (C : ChannelTables) : Value → Bool
  | .obj ((ck, .str cls) :: rc) =>
    ck == classKey &&
    (match C.find? cls with
     | some T => channelRecOkB C T rc
     | none => false)
  | _ => false

def channelListOkB (C : ChannelTables) : Value → Bool
  | .list xs => xs.all (channelValOkB C)
  | _ => false

def layoutListOkB (D : DeviceTables) : Value → Bool
  | .list xs => xs.all (fun x => match x with
      | .obj l => wellTypedB D.layout l
      | _ => false)
  | _ => false

/-- The default noise model is absent, or survives its own codec (computed, not assumed). -/
def noiseValOkB (noise : Sub) (v : Value) : Bool :=
  v == .null || (noise.enc v != .null && noise.dec (noise.enc v) == some v)

def deviceRecOkB (D : DeviceTables) (noise : Sub) (T : Tables) (ex : List String) (r : Record) : Bool :=
  wellTypedB T r && avoidsExemptB T ex r &&
  r.all (fun kv =>
    if kv.1 = "channels" then channelListOkB D.chans kv.2
    else if kv.1 = "dmm_objects" then channelListOkB D.chans kv.2
    else if kv.1 = "pre_calibrated_layouts" then layoutListOkB D kv.2
    else if kv.1 = "default_noise_model" then noiseValOkB noise kv.2
    else true)

/-! ### Noise model

`NoiseModel.__init__` decides the active noise types from which parameters are *truthy*,
replaces `None` by `0.0` for the rate-like parameters and stores **every** parameter (also the
ones no active noise type uses — with a warning). -/

structure NoiseTables where
  /-- `_NOISE_TYPE_PARAMS`. -/
  typeParams : List (String × List String)
  /-- `_PARAM_TO_NOISE_TYPE`. -/
  paramType : List (String × String)
  /-- `_POSITIVE | _PROBABILITY_LIKE`: `param_vals[p] = param_vals[p] or 0.0`. -/
  zeroed : List String
  /-- The `__init__` parameters, in order. -/
  params : List String
  /-- Their defaults in the signature (`None`, `()`, `False`). -/
  defaults : List (String × Value)
  /-- `_DIFF_NOISE_PARAMS` (NoiseModel name ↦ SimConfig name). -/
  simRename : List (String × String)
  deriving Repr

def lookupStr (l : List (String × String)) (k : String) : Option String :=
  match l with
  | [] => none
  | (a, b) :: rest => if a = k then some b else lookupStr rest k

def NoiseTables.dfl (N : NoiseTables) (p : String) : Value := (Record.get? N.defaults p).getD .null

def NoiseTables.paramsOf (N : NoiseTables) (t : String) : List String :=
  match N.typeParams.find? (·.1 = t) with
  | some (_, ps) => ps
  | none => []

/-- Insert into a strictly increasing list (python `sorted(set(...))`). -/
def insertSorted (s : String) : List String → List String
  | [] => [s]
  | x :: xs => if s < x then s :: x :: xs else if s = x then x :: xs else x :: insertSorted s xs

/-- `true_noise_types = {_PARAM_TO_NOISE_TYPE[p] for p in param_vals if param_vals[p] and p in
_PARAM_TO_NOISE_TYPE}`, then `tuple(sorted(…))`. -/
def activeTypes (N : NoiseTables) (args : Record) : List String :=
  args.foldr (fun kv acc =>
    if kv.2.truthy then
      match lookupStr N.paramType kv.1 with
      | some t => insertSorted t acc
      | none => acc
    else acc) []

/-- The condition under which `_find_relevant_params` adds `runs` and `samples_per_run`. -/
def needsRuns (types : List String) (statePrep ampSigma : Value) : Bool :=
  types.contains "doppler" || (types.contains "amplitude" && ampSigma != .num 0) ||
    (types.contains "SPAM" && statePrep != .num 0)

/-- Membership in `_find_relevant_params(noise_types, state_prep_error, amp_sigma, laser_waist)`
(python builds a set; only membership is ever used). -/
def isRelevant (N : NoiseTables) (types : List String) (statePrep ampSigma laserWaist : Value)
    (p : String) : Bool :=
  (types.any (fun t => (N.paramsOf t).contains p) ||
    ((p = "runs" || p = "samples_per_run") && needsRuns types statePrep ampSigma)) &&
  !(p = "laser_waist" && laserWaist == .null)

def Record.getD (r : Record) (k : String) (d : Value) : Value := (r.get? k).getD d

/-- Strings of a `.list` of `.str`. -/
def strList : Value → List String
  | .list ts => ts.filterMap (fun v => match v with | .str s => some s | _ => none)
  | _ => []

/-- `param_vals[p] = param_vals[p] or 0.0` for the rate-like parameters. -/
def normParam (N : NoiseTables) (kv : String × Value) : String × Value :=
  if N.zeroed.contains kv.1 && !kv.2.truthy then (kv.1, Value.num 0) else kv

/-- The instance `__init__` builds: `noise_types` followed by every parameter as stored
(i.e. the dataclass fields of the instance, in order). -/
def noiseInit (N : NoiseTables) (args : Record) : Record :=
  ("noise_types", .list ((activeTypes N args).map .str)) :: args.map (normParam N)

/-- The constructor arguments as a record, from a valuation of the parameter names. -/
def argsOf (N : NoiseTables) (vals : String → Value) : Record := N.params.map (fun p => (p, vals p))

/-- `relevant_params` of a stored noise model (`__repr__`, `from_noise_model`, decoder). -/
def noiseRelevant (N : NoiseTables) (nm : Record) (p : String) : Bool :=
  isRelevant N (strList (nm.getD "noise_types" (.list []))) (nm.getD "state_prep_error" (.num 0))
    (nm.getD "amp_sigma" (.num 0)) (nm.getD "laser_waist" .null) p

/-- `NoiseModel._to_abstract_repr`: `asdict`, drop `with_leakage`, zip rates and operators. -/
def noiseEncode (nm : Record) : Record :=
  let rates := match nm.get? "eff_noise_rates" with | some (.list xs) => xs | _ => []
  let opers := match nm.get? "eff_noise_opers" with | some (.list xs) => xs | _ => []
  (nm.filter (fun kv => kv.1 ≠ "with_leakage" && kv.1 ≠ "eff_noise_rates" && kv.1 ≠ "eff_noise_opers"))
    ++ [("eff_noise", .list (List.zipWith (fun a b => Value.list [a, b]) rates opers))]

def pairFst : Value → Option Value
  | .list [a, _] => some a
  | _ => none

def pairSnd : Value → Option Value
  | .list [_, b] => some b
  | _ => none

/-- `_deserialize_noise_model`: only the *relevant* parameters are handed to the constructor. -/
def noiseDecode (N : NoiseTables) (j : Record) : Record :=
  let pairs := match j.get? "eff_noise" with | some (.list xs) => xs | _ => []
  let rates := pairs.filterMap pairFst
  let opers := pairs.filterMap pairSnd
  let types := strList (j.getD "noise_types" (.list []))
  let withLeakage := types.contains "leakage"
  let rel := isRelevant N types (j.getD "state_prep_error" (.num 0)) (j.getD "amp_sigma" (.num 0))
      (j.getD "laser_waist" .null)
  noiseInit N (argsOf N (fun p =>
    if p = "eff_noise_rates" then .list rates
    else if p = "eff_noise_opers" then .list opers
    else if p = "with_leakage" then .bool withLeakage
    else if rel p then j.getD p .null
    else N.dfl p))

def noiseSub (N : NoiseTables) : Sub where
  enc := fun v => match v with
    | .obj nm => .obj (noiseEncode nm)
    | v => v
  dec := fun v => match v with
    | .obj j => some (.obj (noiseDecode N j))
    | _ => none

/-- Decidable well-formedness of the noise tables: `_PARAM_TO_NOISE_TYPE` is the inverse of
`_NOISE_TYPE_PARAMS`, no parameter belongs to two types, `leakage` is governed by `with_leakage`
alone, and the SimConfig renaming is injective and does not collide with an unrenamed parameter. -/
def noiseTablesOk (N : NoiseTables) : Bool :=
  decide ((N.typeParams.map Prod.fst).Nodup) &&
  N.typeParams.all (fun tp => tp.2.all (fun p => lookupStr N.paramType p == some tp.1)) &&
  N.paramType.all (fun pt => (N.paramsOf pt.2).contains pt.1) &&
  N.paramType.all (fun pt => N.params.contains pt.1) &&
  decide (N.params.Nodup) &&
  !N.params.contains "noise_types" &&
  (N.paramsOf "leakage" == ["with_leakage"]) &&
  -- the names `_find_relevant_params` hard-codes belong to the types it tests
  (N.paramsOf "SPAM").contains "state_prep_error" &&
  (N.paramsOf "amplitude").contains "amp_sigma" &&
  (N.paramsOf "amplitude").contains "laser_waist" &&
  !N.zeroed.contains "with_leakage" &&
  N.defaults.all (fun kv => !kv.2.truthy) &&
  -- the names `_to_abstract_repr` / `_deserialize_noise_model` treat specially
  N.params.contains "eff_noise_rates" && N.params.contains "eff_noise_opers" &&
  !N.params.contains "eff_noise" &&
  !N.zeroed.contains "eff_noise_rates" && !N.zeroed.contains "eff_noise_opers" &&
  decide (((N.params.filter (· ≠ "with_leakage")).map (fun p => (lookupStr N.simRename p).getD p)).Nodup) &&
  !((N.params.map (fun p => (lookupStr N.simRename p).getD p)).contains "noise")

def NoiseTablesOk (N : NoiseTables) : Prop := noiseTablesOk N = true

instance (N : NoiseTables) : Decidable (NoiseTablesOk N) := by
  unfold NoiseTablesOk; exact inferInstance

/-! ### NoiseModel ⇄ SimConfig -/

def simName (N : NoiseTables) (p : String) : String := (lookupStr N.simRename p).getD p

/-- µK → K in `SimConfig.__post_init__` (exact over ℚ; the float rounding is not modelled). -/
def scaleTemp (p : String) (down : Bool) (v : Value) : Value :=
  if p = "temperature" then
    match v with
    | .num q => .num (if down then q / 1000000 else q * 1000000)
    | v => v
  else v

/-- `SimConfig.from_noise_model`: the keyword arguments it passes — `noise` and the relevant
parameters under their SimConfig names (`with_leakage` is popped; `laser_waist`, when not
relevant although `amplitude` is active, is set to ∞, which `to_noise_model` reads back as `None`:
modelled as an absent entry). -/
def simFromNoise (N : NoiseTables) (nm : Record) : Record :=
  ("noise", nm.getD "noise_types" (.list [])) ::
  ((N.params.filter (fun p => noiseRelevant N nm p && p != "with_leakage")).map (fun p =>
    (simName N p, scaleTemp p true (nm.getD p .null))))

/-- `SimConfig.to_noise_model`: the relevant parameters read back under their SimConfig names
(`with_leakage` is the property `"leakage" in noise`; `temperature` back to µK). -/
def simToNoise (N : NoiseTables) (sc : Record) : Record :=
  let types := strList (sc.getD "noise" (.list []))
  let rel := isRelevant N types (sc.getD (simName N "state_prep_error") (.num 0))
      (sc.getD (simName N "amp_sigma") (.num 0)) (sc.getD (simName N "laser_waist") .null)
  noiseInit N (argsOf N (fun p =>
    if rel p then
      if p = "with_leakage" then .bool (types.contains "leakage")
      else scaleTemp p false (sc.getD (simName N p) .null)
    else N.dfl p))

end Codec
end Pulser
