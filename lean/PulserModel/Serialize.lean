/-
  PulserModel.Serialize — model of the abstract-representation codec of sequences
  (`pulser/json/abstract_repr/serializer.py: serialize_abstract_sequence`,
  `deserializer.py: deserialize_abstract_sequence / _deserialize_operation`) at the level
  of the model's `Op` language (PulserModel/Sequence.lean) and of the expression trees
  of PulserModel/Param.lean.

  * `encode` walks the call log: channel declarations are hoisted into the `channels`
    table (without initial target — an initial target becomes a `target` operation at the
    position of the declaration), `measure` goes to the `measurement` field, every other
    call becomes one abstract operation; optional boolean arguments are *elided* when
    they equal the default the encoder reads from the live `Sequence` signature.
  * `decode` declares all channels first, then replays the operations — re-inserting
    the default the decoder uses for an absent key — and measures last.

  The defaults come from the table GENERATED from the source on every run
  (PulserModel/Generated/AbstractOps.lean): both functions take it as a parameter.

  Model files import nothing outside core Lean.
-/
import PulserModel.Param
import PulserModel.Generated.AbstractOps
namespace Pulser
namespace Serialize
open Generated.AbstractOps

/-! ### Looking defaults up in the generated table -/

def parseBool : String → Option Bool
  | "True" => some true
  | "False" => some false
  | _ => none

/-- The row that describes abstract operation `op` as produced from call `call`. -/
def rowOf (T : List OpRow) (op call : String) : Option OpRow :=
  T.find? fun r => r.op == op && r.calls.contains call

/-- The default at which the encoder removes key `key` (`none`: it always writes the key). -/
def encElide (T : List OpRow) (op call key : String) : Option Bool :=
  (rowOf T op call).bind fun r => (r.elided.lookup key).bind parseBool

/-- The value the decoder uses when `key` is absent (`none`: it reads `op[key]`, a KeyError). -/
def decDefault (T : List OpRow) (op call key : String) : Option Bool :=
  (rowOf T op call).bind fun r => (r.decOptional.lookup key).bind parseBool

/-- `remove_kwarg_if_default`: what is written for a boolean argument. -/
def encFlag (T : List OpRow) (op call key : String) (v : Bool) : Option Bool :=
  match encElide T op call key with
  | some d => if v = d then none else some v
  | none => some v

/-- `op.get(key, default)` / `op[key]`: what the decoder passes on (`none` ≙ KeyError). -/
def decFlag (T : List OpRow) (op call key : String) (o : Option Bool) : Option Bool :=
  match o with
  | some v => some v
  | none => decDefault T op call key

/-! ### Abstract operations -/

inductive AbsOp
  | target (ch : ChName) (qs : List Nat)
  | configDetMap (dmmId : Nat) (maxW sumW : Rat)
  | align (chs : List ChName) (atRest : Option Bool)
  | delay (ch : ChName) (time : Int) (atRest : Option Bool)
  | pulse (ch : ChName) (proto : Option Protocol) (p : PulseIn)
  | addDmm (ch : ChName) (proto : Option Protocol) (p : PulseIn)
  | phaseShift (phi : Rat) (targets : List Nat) (basis : Basis)
  | enableEom (ch : ChName) (e : EomIn) (corr : Option Bool)
  | modifyEom (ch : ChName) (e : EomIn) (corr : Option Bool)
  | addEom (ch : ChName) (dur : Nat) (phase post : Rat) (proto : Option Protocol) (corr : Option Bool)
      (fallStd fallEom ref : Nat)
  | disableEom (ch : ChName) (corr : Option Bool)
  deriving DecidableEq, Repr, Inhabited

structure AbsSeq where
  channels : List (ChName × Nat) := []     -- `"channels": {name: channel_id}` (insertion order)
  ops : List AbsOp := []                   -- `"operations"`
  measurement : Option Basis := none       -- `"measurement"`
  deriving DecidableEq, Repr, Inhabited

/-- The abstract operations one stored call contributes (`elif call.name == …` chain). -/
def encodeOp (T : List OpRow) : Op → List AbsOp
  | .declare n _ (some qs) => [.target n qs]
  | .declare _ _ none => []
  | .configDetMap id w s => [.configDetMap id w s]
  | .target qs n => [.target n qs]
  | .add p n proto => [.pulse n proto p]
  | .addDmm p n proto => [.addDmm n proto p]
  | .addEom n dur ph po proto corr fs fe ref =>
    [.addEom n dur ph po proto (encFlag T "add_eom_pulse" "add_eom_pulse" "correct_phase_drift" corr) fs fe ref]
  | .delay d n atRest => [.delay n d (encFlag T "delay" "delay" "at_rest" atRest)]
  | .align chs atRest => [.align chs (encFlag T "align" "align" "at_rest" atRest)]
  | .phaseShift phi qs b => [.phaseShift phi qs b]
  | .enableEom n e =>
    [.enableEom n { e with corr := false }
      (encFlag T "enable_eom_mode" "enable_eom_mode" "correct_phase_drift" e.corr)]
  | .modifyEom n e =>
    [.modifyEom n { e with corr := false }
      (encFlag T "modify_eom_setpoint" "modify_eom_setpoint" "correct_phase_drift" e.corr)]
  | .disableEom n corr =>
    [.disableEom n (encFlag T "disable_eom_mode" "disable_eom_mode" "correct_phase_drift" corr)]
  | .measure _ => []
  | .getDuration .. | .estimate .. | .phaseRef .. => []   -- queries are never in the log

def channelOf : Op → Option (ChName × Nat)
  | .declare n id _ => some (n, id)
  | _ => none

/-- `res["measurement"] = data["basis"]` (the last stored `measure`). -/
def measStep (acc : Option Basis) : Op → Option Basis
  | .measure b => some b
  | _ => acc

def measOf (log : List Op) : Option Basis := log.foldl measStep none

def encode (T : List OpRow) (log : List Op) : AbsSeq :=
  { channels := log.filterMap channelOf,
    ops := log.flatMap (encodeOp T),
    measurement := measOf log }

/-- `_deserialize_operation`. -/
def decodeOp (T : List OpRow) : AbsOp → Option Op
  | .target n qs => some (.target qs n)
  | .configDetMap id w s => some (.configDetMap id w s)
  | .align chs o => (decFlag T "align" "align" "at_rest" o).map (Op.align chs)
  | .delay n d o => (decFlag T "delay" "delay" "at_rest" o).map (Op.delay d n)
  | .pulse n proto p => some (.add p n proto)
  | .addDmm n proto p => some (.addDmm p n proto)
  | .phaseShift phi qs b => some (.phaseShift phi qs b)
  | .enableEom n e o =>
    (decFlag T "enable_eom_mode" "enable_eom_mode" "correct_phase_drift" o).map
      fun c => Op.enableEom n { e with corr := c }
  | .modifyEom n e o =>
    (decFlag T "modify_eom_setpoint" "modify_eom_setpoint" "correct_phase_drift" o).map
      fun c => Op.modifyEom n { e with corr := c }
  | .addEom n dur ph po proto o fs fe ref =>
    (decFlag T "add_eom_pulse" "add_eom_pulse" "correct_phase_drift" o).map
      fun c => Op.addEom n dur ph po proto c fs fe ref
  | .disableEom n o =>
    (decFlag T "disable_eom_mode" "disable_eom_mode" "correct_phase_drift" o).map (Op.disableEom n)

def decodeOps (T : List OpRow) : List AbsOp → Option (List Op)
  | [] => some []
  | a :: rest =>
    match decodeOp T a, decodeOps T rest with
    | some o, some os => some (o :: os)
    | _, _ => none

/-- `deserialize_abstract_sequence`: all channels first, then the operations, then the
measurement. -/
def decode (T : List OpRow) (a : AbsSeq) : Option (List Op) :=
  (decodeOps T a.ops).map fun ops =>
    a.channels.map (fun (n, id) => Op.declare n id none) ++ ops ++
      (match a.measurement with | some b => [Op.measure b] | none => [])

/-! ### The canonical form of a call log (what a decoded program looks like) -/

def declOf : Op → Option Op
  | .declare n id _ => some (.declare n id none)
  | _ => none

def bodyOf : Op → List Op
  | .declare n _ (some qs) => [.target qs n]
  | .declare _ _ none => []
  | .measure _ => []
  | .getDuration .. | .estimate .. | .phaseRef .. => []
  | op => [op]

/-- Declarations first (without initial targets), every other call in its order (an
initial target as a `target` call where the declaration was), the measurement last. -/
def canon (log : List Op) : List Op :=
  log.filterMap declOf ++ log.flatMap bodyOf ++
    (match measOf log with | some b => [.measure b] | none => [])

/-- Two call logs denote the same abstract program. -/
def Equiv (a b : List Op) : Prop := canon a = canon b

/-! ### Expressions (`ParamObj._to_abstract_repr`, `_deserialize_parameter`) -/

/-- The JSON shape of a parameter: a literal, `{"variable": n}`, `{"expression": …}`. -/
inductive AExpr
  | lit (q : Rat)
  | varRef (name : Nat)
  | index (lhs : AExpr) (i : Nat)
  | unary (op : String) (a : AExpr)
  | binary (op : String) (a b : AExpr)
  deriving DecidableEq, Repr, Inhabited

/-- Names of the opaque unary functions (symbol `f` ↦ `"abs"`, `"sin"`, …). -/
abbrev FnNames := List (Nat × String)

def encExpr (names : FnNames) : Param.Expr → Option AExpr
  | .const q => some (.lit q)
  | .var n i => some (.index (.varRef n) i)
  | .add a b => match encExpr names a, encExpr names b with
    | some x, some y => some (.binary "add" x y) | _, _ => none
  | .sub a b => match encExpr names a, encExpr names b with
    | some x, some y => some (.binary "sub" x y) | _, _ => none
  | .mul a b => match encExpr names a, encExpr names b with
    | some x, some y => some (.binary "mul" x y) | _, _ => none
  | .div a b => match encExpr names a, encExpr names b with
    | some x, some y => some (.binary "div" x y) | _, _ => none
  | .neg a => (encExpr names a).map (.unary "neg")
  | .fn f a => match names.lookup f, encExpr names a with
    | some nm, some x => some (.unary nm x) | _, _ => none

def fnOfName (names : FnNames) (nm : String) : Option Nat :=
  (names.find? (·.2 == nm)).map (·.1)

def decExpr (names : FnNames) : AExpr → Option Param.Expr
  | .lit q => some (.const q)
  | .varRef _ => none                     -- a whole variable is not a scalar expression
  | .index (.varRef n) i => some (.var n i)
  | .index _ _ => none
  | .unary op a =>
    if op = "neg" then (decExpr names a).map .neg
    else match fnOfName names op, decExpr names a with
      | some f, some x => some (.fn f x) | _, _ => none
  | .binary op a b =>
    match decExpr names a, decExpr names b with
    | some x, some y =>
      if op = "add" then some (.add x y) else if op = "sub" then some (.sub x y)
      else if op = "mul" then some (.mul x y) else if op = "div" then some (.div x y) else none
    | _, _ => none

end Serialize
end Pulser
