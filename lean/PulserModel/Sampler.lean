/-
  PulserModel.Sampler — structural model of sampling (C06):

  * `_ChannelSchedule.get_samples`      (pulser/sequence/_schedule.py)
  * `ChannelSamples.extend_duration`    (pulser/sampler/samples.py)
  * `SequenceSamples.to_nested_dict`    (pulser/sampler/samples.py)
  * `_Schedule.find_slm_mask_times`     (pulser/sequence/_schedule.py)

  The rendering is *structural*: a sample is not a number but the multiset of
  its terms, each term being "sample number `off` of the pulse held by
  instruction number `slot` of the channel" (the code accumulates with `+=`).
  The values of the pulses' own samples belong to C16.  The phase array holds
  the instruction number of the pulse whose phase was painted last (`none` is
  the initial `0.0`).

  Python slices: every slice bound met here is non-negative and inside the
  array under the timeline invariant (`Proofs/Sampler.lean: pulse_fits`), so
  `a[lo:hi]` is modelled as `lo ≤ t < hi`.
-/
import PulserModel.Schedule
namespace Pulser

/-- One term of a sample: (instruction number `i` of the channel — `c.slots[i]` is a pulse —,
index into that pulse's own `samples`). -/
abbrev Contrib := Nat × Int

/-- An element of `channel_slots` (the pulse instructions), with its position in the
full instruction list. -/
structure PSlot where
  idx : Nat
  s : Slot
  p : PulseRec
  deriving DecidableEq, Repr, Inhabited

/-- `channel_slots = [s for s in self.slots if isinstance(s.type, Pulse)]`, numbering from `i`. -/
def pulseSlotsFrom (i : Nat) : List Slot → List PSlot
  | [] => []
  | s :: rest =>
    match s.kind with
    | .pulse p => ⟨i, s, p⟩ :: pulseSlotsFrom (i + 1) rest
    | _ => pulseSlotsFrom (i + 1) rest

def ChanState.pulseSlots (c : ChanState) : List PSlot := pulseSlotsFrom 0 c.slots

/-- The terms accumulated at index `t` by the loop
`for s in channel_slots: arr[s.ti : s.tf] += pulse.<quantity>.samples`, in loop order. -/
def contribAt (l : List PSlot) (t : Int) : List Contrib :=
  l.filterMap fun x => if x.s.ti ≤ t ∧ t < x.s.tf then some (x.idx, t - x.s.ti) else none

/-- `amp[t]` after `amp[s.ti : s.tf] += pulse.amplitude.samples` for every pulse. -/
def ampAt (c : ChanState) (t : Int) : List Contrib := contribAt c.pulseSlots t

/-- `det[t]` after `det[s.ti : s.tf] += pulse.detuning.samples` for every pulse. -/
def detAt (c : ChanState) (t : Int) : List Contrib := contribAt c.pulseSlots t

/-- The value of a structural sample once the pulses' own samples `σ slot index` are given
(what the `+=` of `get_samples` accumulate into the initial zero). -/
def termsValue (σ : Nat → Int → Rat) (l : List Contrib) : Rat :=
  (l.map fun (x : Contrib) => σ x.1 x.2).sum

/-- `not (ignore_detuned_delay_phase and self.is_detuned_delay(pulse))`. -/
def counts (ign : Bool) (x : PSlot) : Bool := !(ign && x.p.dd)

/-- The look-back loop `for last_pulse_ind in range(ind - 1, -1, -1)` with its `else`:
`prevRev` are the earlier pulse instructions, latest first. -/
def tStart (pjt : Nat) (ign : Bool) (prevRev : List PSlot) (x : PSlot) : Int :=
  match prevRev.find? (counts ign) with
  | some l => max (x.s.ti - (pjt : Int)) l.s.tf
  | none => 0

/-- `phase[t_start:] = pulse.phase` on an array given as a function of the index. -/
def paintFrom (arr : Int → Option Nat) (ts : Int) (idx : Nat) : Int → Option Nat :=
  fun t => if ts ≤ t then some idx else arr t

/-- The phase part of the loop over `channel_slots` (detuned delays `continue`). -/
def paintLoop (pjt : Nat) (ign : Bool) : List PSlot → List PSlot → (Int → Option Nat) → Int → Option Nat
  | _, [], arr => arr
  | prevRev, x :: rest, arr =>
    paintLoop pjt ign (x :: prevRev) rest
      (if counts ign x then paintFrom arr (tStart pjt ign prevRev x) x.idx else arr)

/-- `phase[t]`: the instruction whose phase the array holds at `t` (`none` = the initial 0). -/
def phaseAt (c : ChanState) (ign : Bool) (t : Int) : Option Nat :=
  paintLoop c.cfg.pjt ign [] c.pulseSlots (fun _ => none) t

/-- `in_eom_mode(time_slot)`: `any(start <= slot.ti < end ...)` over `get_eom_mode_intervals()`. -/
def ChanState.inEomAt (c : ChanState) (t : Int) : Bool :=
  c.eom.any fun b => decide (b.ti ≤ t) && decide (t < b.tf.getD (c.getDuration false))

/-- `_PulseTargetSlot`. -/
structure PTSlot where
  ti : Int
  tf : Int
  targets : List Nat
  deriving DecidableEq, Repr, Inhabited

/-- `slots.append(_PulseTargetSlot(s.ti, tf, s.targets))` with
`tf += min(fall_time, channel_slots[ind + 1].ti - s.tf) if ind < len - 1 else fall_time`. -/
def ptSlotsAux (c : ChanState) : List PSlot → List PTSlot
  | [] => []
  | [x] => [⟨x.s.ti, x.s.tf + (x.p.fall (c.inEomAt x.s.ti) : Nat), x.s.targets⟩]
  | x :: y :: rest =>
    ⟨x.s.ti, x.s.tf + min ((x.p.fall (c.inEomAt x.s.ti) : Nat) : Int) (y.s.ti - x.s.tf), x.s.targets⟩
      :: ptSlotsAux c (y :: rest)

def ChanState.ptSlots (c : ChanState) : List PTSlot := ptSlotsAux c c.pulseSlots

/-- A detuning sample: pulse terms plus a constant (the padding of `extend_duration`). -/
structure DetCell where
  terms : List Contrib
  const : Rat := 0
  deriving DecidableEq, Repr, Inhabited

/-- What `to_nested_dict` / `extend_duration` read of a `ChannelSamples`. -/
structure ChanSamples where
  amp : List (List Contrib)
  det : List DetCell
  phase : List (Option Nat)
  slots : List PTSlot
  /-- `eom_blocks[-1].detuning_off` when `eom_blocks and eom_blocks[-1].tf is None`. -/
  openDetOff : Option Rat
  /-- `target_time_slots[0].targets if target_time_slots else set()`. -/
  initialTargets : List Nat
  deriving DecidableEq, Repr, Inhabited

def ChanSamples.duration (cs : ChanSamples) : Nat := cs.amp.length

/-- `dt = self.get_duration()`; the arrays are `np.zeros(dt)`. -/
def ChanState.sampleLen (c : ChanState) : Nat := (c.getDuration false).toNat

def ChanState.initialTargets (c : ChanState) : List Nat :=
  match c.slots.find? Slot.isTarget with
  | some s => s.targets
  | none => []

def ChanState.openDetOff (c : ChanState) : Option Rat :=
  match c.eom.getLast? with
  | some b => if b.tf.isNone then some b.detOff else none
  | none => none

/-- `_ChannelSchedule.get_samples(ignore_detuned_delay_phase)`. -/
def getSamples (c : ChanState) (ign : Bool) : ChanSamples :=
  let ts : List Int := (List.range c.sampleLen).map fun (t : Nat) => (t : Int)
  { amp := ts.map (ampAt c),
    det := ts.map fun t => ⟨detAt c t, 0⟩,
    phase := ts.map (phaseAt c ign),
    slots := c.ptSlots,
    openDetOff := c.openDetOff,
    initialTargets := c.initialTargets }

/-- `ChannelSamples.extend_duration(new_duration)`; `none` is the `ValueError`
"Can't extend samples to a lower duration." -/
def extendDuration (cs : ChanSamples) (newDuration : Int) : Option ChanSamples :=
  let extension : Int := newDuration - (cs.duration : Int)
  if extension < 0 then none
  else
    let k := extension.toNat
    -- `final_detuning = float(eom_blocks[-1].detuning_off)` when still in EOM mode, else 0.0
    let finalDetuning : Rat := match cs.openDetOff with | some d => d | none => 0
    some { cs with
      amp := cs.amp ++ List.replicate k [],
      det := cs.det ++ List.replicate k ⟨[], finalDetuning⟩,
      -- mode "edge" when the array is not empty, else "constant" (zero)
      phase := cs.phase ++ List.replicate k (cs.phase.getLast?.getD none) }

/-! ### `SequenceSamples.to_nested_dict` -/

/-- `_SlmMask(targets, end)`; the default is `(set(), 0)`. -/
structure SlmMask where
  targets : List Nat := []
  end_ : Int := 0
  deriving DecidableEq, Repr, Inhabited

/-- One `(chname, samples)` pair as `to_nested_dict` sees it. -/
structure ChanView where
  basis : Basis
  isLocal : Bool      -- `addr == "Local"`
  isDmm : Bool        -- `isinstance(samples, DMMSamples)`
  slots : List PTSlot
  initialTargets : List Nat
  /-- `det_map.get_qubit_weight_map(samples.qubits)` by qubit index (DMM only). -/
  weights : List Rat := []
  /-- `bool(cs.eom_blocks) and cs.eom_blocks[-1].tf is None`: the channel is left in EOM mode. -/
  openEom : Bool := false
  /-- `cs.target_time_slots[-1].targets` (empty without target slots). -/
  lastTargets : List Nat := []
  deriving DecidableEq, Repr, Inhabited

/-- `det_weight_map[t]`: `defaultdict(int, weight map)` for a DMM, `defaultdict(lambda: 1.0)` otherwise. -/
def ChanView.weight (v : ChanView) (q : Nat) : Rat :=
  if v.isDmm then v.weights.getD q 0 else 1

/-- One statement `d[addr][basis](…)[qty][lo:hi] += cs.qty[lo:hi]` (`det` times `w`);
`q = none` is `d["Global"][basis]`, `q = some t` is `d["Local"][basis][t]`;
`touch` is the bare `d["Local"][basis][t]` that creates the entry. -/
inductive NInstr
  | add (basis : Basis) (q : Option Nat) (chan : Nat) (lo : Int) (hi : Option Int) (w : Rat)
  | touch (basis : Basis) (q : Nat)
  deriving DecidableEq, Repr, Inhabited

/-- `start_t = self._slm_mask.end if in_xy else 0`. -/
def startT (m : SlmMask) (v : ChanView) : Int := if v.basis == .xy then m.end_ else 0

/-- The branch `addr == _GLOBAL and not all_local and not is_dmm`. -/
def ChanView.globalBranch (v : ChanView) (allLocal : Bool) : Bool :=
  !v.isLocal && !allLocal && !v.isDmm

/-- `for ind, s in enumerate(cs.slots)` with `last_open = open_eom and ind == len(cs.slots) - 1`:
every pulse-target slot with the end of its slice, `None` (to the end of the arrays) for the last
slot of a channel left in EOM mode — such a channel keeps idling at `detuning_off`, which is
what `extend_duration` pads with (repair of F-C06-5). -/
def slotWindows (openEom : Bool) : List PTSlot → List (PTSlot × Option Int)
  | [] => []
  | [s] => [(s, if openEom then none else some s.tf)]
  | s :: s' :: rest => (s, some s.tf) :: slotWindows openEom (s' :: rest)

/-- Body of the loop of `to_nested_dict` for the channel at position `k`, in statement order
(a Python `set` holds every qubit once: `eraseDups`). -/
def chanInstrs (allLocal : Bool) (m : SlmMask) (k : Nat) (v : ChanView) : List NInstr :=
  if v.globalBranch allLocal then
    NInstr.add v.basis none k (startT m v) none 1 ::
      (if startT m v = 0 then []
       else
        match v.slots.head? with
        -- `if not cs.slots: continue` (a channel without pulses adds nothing; repair of F-C06-2)
        | none => []
        | some s0 =>
          -- `unmasked_targets = cs.slots[0].targets - self._slm_mask.targets`
          let unmasked := s0.targets.eraseDups.filter fun q => !m.targets.contains q
          unmasked.map fun q => NInstr.add v.basis (some q) k 0 (some (startT m v)) 1)
  else
    (if v.slots.isEmpty then
       v.initialTargets.eraseDups.map (NInstr.touch v.basis) ++
       -- `if open_eom and cs.target_time_slots:` the last targets over `slice(0, None)`
       (if v.openEom then
          v.lastTargets.eraseDups.map fun q => NInstr.add v.basis (some q) k 0 none (v.weight q)
        else [])
     else []) ++
    (slotWindows v.openEom v.slots).flatMap fun sw => sw.1.targets.eraseDups.map fun q =>
      -- `if in_xy and t in self._slm_mask.targets: ti = max(ti, self._slm_mask.end)`
      let ti := if v.basis == .xy && m.targets.contains q then max sw.1.ti m.end_ else sw.1.ti
      -- `times = slice(ti, None if last_open else s.tf)`
      NInstr.add v.basis (some q) k ti sw.2 (v.weight q)

def nestedInstrsFrom (allLocal : Bool) (m : SlmMask) (k : Nat) : List ChanView → List NInstr
  | [] => []
  | v :: rest => chanInstrs allLocal m k v ++ nestedInstrsFrom allLocal m (k + 1) rest

/-- All accumulation statements of `to_nested_dict(all_local)`, in execution order. -/
def nestedInstrs (allLocal : Bool) (m : SlmMask) (views : List ChanView) : List NInstr :=
  nestedInstrsFrom allLocal m 0 views

/-- Does the statement add sample `t` of its channel to entry `(basis, q)`?  Returns the
channel position and the factor applied to the detuning. -/
def NInstr.hits (i : NInstr) (b : Basis) (q : Option Nat) (t : Int) : Option (Nat × Rat) :=
  match i with
  | .add b' q' k lo (some h) w => if b' = b ∧ q' = q ∧ lo ≤ t ∧ t < h then some (k, w) else none
  | .add b' q' k lo none w => if b' = b ∧ q' = q ∧ lo ≤ t then some (k, w) else none
  | .touch _ _ => none

/-- The channels (with detuning factor) whose sample `t` is added to entry `(basis, q)`;
one element per `+=` executed. -/
def attribAt (instrs : List NInstr) (b : Basis) (q : Option Nat) (t : Int) : List (Nat × Rat) :=
  instrs.filterMap (·.hits b q t)

/-! #### The accumulation rule `_add_channel_samples`

Amplitudes and detunings add up (`+=`).  Phases used to add up as well
(`d[..][PHASE] += cs.phase`, `entryPhaseSum` below; finding F23 / F-C06-1: a channel's phase
is painted over its whole duration, so the sum is wrong as soon as two channels write one
entry).  Since the repair (`fix: a pulse on a second channel of the same basis is emulated
with its own phase`) `to_nested_dict` calls `_add_channel_samples`, which does not simply add:
`phase = phase * (1 - only_new) + cs.phase * (1 - only_prev)` where `only_new` /
`only_prev` say that only the added channel / only the entry so far has a non-zero amplitude.
Structurally the phase sample of an entry is the list of channels whose (painted) phase
samples are summed in it.  Whether an amplitude sample is non-zero is a fact about sample
*values* (C16): it enters as the oracle `on k` ("channel `k` has a non-zero amplitude at this
time"); amplitudes are non-negative, so the entry's amplitude so far is non-zero iff one of
the channels added so far is on.  The harness detects which of the two rules the tree under
test has and expands the model's statements with that rule. -/

/-- Phase part of `_add_channel_samples` on one sample: `prev` are the channels whose phases
the entry sums so far, `prevOn` / `newOn` the two `!= 0` tests, `k` the added channel. -/
def mergePhase (prev : List Nat) (prevOn newOn : Bool) (k : Nat) : List Nat :=
  (if newOn && !prevOn then [] else prev) ++ (if prevOn && !newOn then [] else [k])

/-- One `_add_channel_samples` on the pair (channels whose phases are summed, amplitude non-zero). -/
def phaseStep (on : Nat → Bool) (acc : List Nat × Bool) (k : Nat) : List Nat × Bool :=
  (mergePhase acc.1 acc.2 (on k) k, acc.2 || on k)

/-- The phase sample of an entry after the channels `writers` (in execution order) were added. -/
def entryPhase (on : Nat → Bool) (writers : List Nat) : List Nat × Bool :=
  writers.foldl (phaseStep on) ([], false)

/-- The rule before the repair (`d[..][PHASE] += cs.phase`): every writer's phase is summed. -/
def entryPhaseSum (writers : List Nat) : List Nat := writers

/-- The phase sample at `t` of entry `(b, q)` of `to_nested_dict`. -/
def nestedPhaseAt (instrs : List NInstr) (on : Nat → Bool) (b : Basis) (q : Option Nat) (t : Int) : List Nat :=
  (entryPhase on ((attribAt instrs b q t).map (·.1))).1

/-- The view of a scheduled channel. -/
def ChanState.lastTargets (c : ChanState) : List Nat :=
  match c.slots.reverse.find? Slot.isTarget with
  | some s => s.targets
  | none => []

def ChanState.view (c : ChanState) (weights : List Rat) : ChanView :=
  { basis := c.cfg.basis, isLocal := c.cfg.isLocal, isDmm := c.cfg.isDmm,
    slots := c.ptSlots, initialTargets := c.initialTargets, weights := weights,
    openEom := c.openDetOff.isSome, lastTargets := c.lastTargets }

/-! ### `_Schedule.find_slm_mask_times` (XY mode) -/

/-- The first pulse that is not a detuned delay (`for slot in ch_schedule: … break`). -/
def firstRealPulse (c : ChanState) : Option Slot :=
  c.slots.find? fun s => match s.kind with | .pulse p => !p.dd | _ => false

/-- Loop body: `if mask_time: if ti < mask_time[0]: mask_time = [ti, tf]  else: mask_time = [ti, tf]`. -/
def slmStep (acc : Option (Int × Int)) (c : ChanState) : Option (Int × Int) :=
  if c.cfg.isLocal || c.cfg.isDmm then acc
  else
    match firstRealPulse c with
    | none => acc
    | some s =>
      match acc with
      | some (ti0, tf0) => if s.ti < ti0 then some (s.ti, s.tf) else some (ti0, tf0)
      | none => some (s.ti, s.tf)

def findSlmMaskTimes (chans : List ChanState) : Option (Int × Int) := chans.foldl slmStep none

/-- `_SlmMask(seq._slm_mask_targets, seq._slm_mask_time[1])` when both are non-empty
(XY mode; in Ising mode the mask is a DMM pulse and `to_nested_dict` ignores `_slm_mask`). -/
def slmMaskOf (chans : List ChanState) (targets : List Nat) : SlmMask :=
  if targets.isEmpty then {}
  else
    match findSlmMaskTimes chans with
    | some (_, tf) => { targets := targets, end_ := tf }
    | none => {}

end Pulser
