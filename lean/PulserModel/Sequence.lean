/-
  PulserModel.Sequence — model of the non-parametrized building API of
  `pulser/sequence/sequence.py`.

  `stepRaw` follows the statement order of the Python methods: when a call
  raises, the returned state is the state *as the object would be left*
  (possibly partially mutated).  This is what property C09 is about.
-/
import PulserModel.Schedule
import PulserModel.PhaseRef
namespace Pulser

/-- A pulse as handed to `Sequence.add` (before duration adjustment).  The
oracle fields describe the pulse *after* adjustment to the channel. -/
structure PulseIn where
  dur : Nat                 -- requested duration (≥ 1)
  resizable : Bool := true  -- both waveforms implement change_duration
  phase : Rat := 0          -- Pulse.phase (already reduced by Pulse.__init__)
  post : Rat := 0
  fallStd : Nat := 0
  fallEom : Nat := 0
  dd : Bool := false
  ref : Nat := 0
  sum : PulseSummary := {}
  sumAdj : PulseSummary := sum  -- ORACLE summary of the pulse lengthened to the adjusted duration
  const : Bool := false     -- both waveforms constant, with the values below
  amp : Rat := 0
  det : Rat := 0
  deriving DecidableEq, Repr, Inhabited

/-- Parameters of `enable_eom_mode` / `modify_eom_setpoint`. -/
structure EomIn where
  amp : Rat
  detOn : Rat
  optimal : Rat                 -- optimal_detuning_off
  corr : Bool := false          -- correct_phase_drift
  opts : List Rat := []         -- ORACLE eom_config.detuning_off_options(amp, detOn)
  onSum : PulseSummary := {}    -- ORACLE summary of ConstantPulse(min_duration, amp, detOn)
  offSums : List PulseSummary := []  -- ORACLE summaries of the off pulse, per option
  deriving DecidableEq, Repr, Inhabited

inductive Op
  | declare (name : ChName) (chId : Nat) (init : Option (List Nat))
  | configDetMap (dmmId : Nat) (maxW sumW : Rat)
  | target (qs : List Nat) (ch : ChName)
  | add (p : PulseIn) (ch : ChName) (proto : Option Protocol)
  | addDmm (p : PulseIn) (ch : ChName) (proto : Option Protocol)
  | addEom (ch : ChName) (dur : Nat) (phase post : Rat) (proto : Option Protocol) (corr : Bool)
      (fallStd fallEom : Nat) (ref : Nat)
  | delay (d : Int) (ch : ChName) (atRest : Bool)
  | align (chs : List ChName) (atRest : Bool)
  | phaseShift (phi : Rat) (qs : List Nat) (basis : Basis)
  | enableEom (ch : ChName) (e : EomIn)
  | modifyEom (ch : ChName) (e : EomIn)
  | disableEom (ch : ChName) (corr : Bool)
  | measure (basis : Basis)
  -- read-only queries
  | getDuration (ch : Option ChName) (fall : Bool)
  | estimate (p : PulseIn) (ch : ChName) (proto : Option Protocol)
  | phaseRef (q : Nat) (basis : Basis)
  deriving DecidableEq, Repr, Inhabited

structure SeqState where
  dev : Device
  nQ : Nat
  chans : List ChanState := []              -- declaration order (dict order of _schedule)
  refs : List (Basis × List QRef) := []     -- creation order (dict order of _basis_ref)
  inXY : Bool := false
  inIsing : Bool := false
  empty : Bool := true
  measured : Option Basis := none
  calls : List Op := []                     -- successful building calls, as stored
  deriving DecidableEq, Repr, Inhabited

/-- The result of one API call: post-state (as the object is left), the
exception raised if any, and the returned value of a query. -/
structure Raw where
  st : SeqState
  err : Option Err := none
  out : Option Int := none
  deriving DecidableEq, Repr, Inhabited

def Raw.bind (r : Raw) (f : SeqState → Raw) : Raw :=
  match r.err with
  | none => f r.st
  | some _ => r

def fail (s : SeqState) (e : Err) : Raw := ⟨s, some e, none⟩
def done (s : SeqState) : Raw := ⟨s, none, none⟩

namespace SeqState

def init (dev : Device) (nQ : Nat) : SeqState := { dev := dev, nQ := nQ }

def getChan (s : SeqState) (n : ChName) : Option ChanState := s.chans.find? (·.name == n)

/-- Replace the (first) channel named like `c` — `self._schedule[name]` is a dict entry. -/
def replaceChan (c : ChanState) : List ChanState → List ChanState
  | [] => []
  | x :: rest => if x.name == c.name then c :: rest else x :: replaceChan c rest

def setChan (s : SeqState) (c : ChanState) : SeqState :=
  { s with chans := replaceChan c s.chans }

def others (s : SeqState) (n : ChName) : List ChanState := s.chans.filter (·.name != n)

def allQubits (s : SeqState) : List Nat := List.range s.nQ

def getRefs (s : SeqState) (b : Basis) : Option (List QRef) :=
  (s.refs.find? (·.1 == b)).map (·.2)

def setRefs (s : SeqState) (b : Basis) (l : List QRef) : SeqState :=
  { s with refs := s.refs.map fun x => if x.1 == b then (b, l) else x }

/-- Apply `f` to the references of the qubits `qs` in basis `b`. -/
def mapRefs (s : SeqState) (b : Basis) (qs : List Nat) (f : QRef → QRef) : SeqState :=
  match s.getRefs b with
  | none => s
  | some l => s.setRefs b ((List.zipIdx l).map fun (r, i) => if qs.contains i then f r else r)

def ensureBasis (s : SeqState) (b : Basis) : SeqState :=
  if s.refs.any (·.1 == b) then s
  else { s with refs := s.refs ++ [(b, List.replicate s.nQ {})] }

/-- Run a channel-level operation on the channel named `n`. -/
def withChan (s : SeqState) (n : ChName) (f : ChanState → CRes) : Raw :=
  match s.getChan n with
  | none => fail s .notDeclared
  | some c => let r := f c; ⟨s.setChan r.c, r.err, none⟩

/-- Device channel ids (regular / DMM) currently occupied by declared channels. -/
def occupied (s : SeqState) (isDmm : Bool) (id : Nat) : Bool :=
  s.chans.any fun c => c.cfg.isDmm == isDmm && c.chId == id

/-- `id in self.available_channels` for a regular channel / a DMM of the device
(without the SLM-mask special cases, which this model does not cover). -/
def available (s : SeqState) (isDmm : Bool) (id : Nat) (cfg : ChanCfg) : Bool :=
  if !s.inXY && !s.inIsing then true
  else
    (!(s.occupied isDmm id) || s.dev.reusable) &&
    (if s.inXY then cfg.basis == .xy || isDmm else cfg.basis != .xy)

/-- A freshly declared channel; global channels (and DMMs) start with their
initial target slot. -/
def freshChan (name : ChName) (chId : Nat) (cfg : ChanCfg) (qs : List Nat) (withTarget : Bool)
    (maxW sumW : Rat) : ChanState :=
  { name := name, chId := chId, cfg := cfg, maxW := maxW, sumW := sumW,
    slots := if withTarget then [⟨.target, -1, 0, qs⟩] else [] }

/-- Register a new channel: mode flags, schedule entry, phase references of its basis. -/
def addChannel (s : SeqState) (c : ChanState) : SeqState :=
  let s1 : SeqState :=
    if c.cfg.basis == .xy then { s with inXY := true } else { s with inIsing := true }
  ({ s1 with chans := s1.chans ++ [c] }).ensureBasis c.cfg.basis

/-- `Sequence._validate_channel`. -/
def validateChannel (s : SeqState) (n : ChName) (blockEom : Bool) : Except Err ChanState :=
  match s.getChan n with
  | none => .error .notDeclared
  | some c => if blockEom && c.inEomMode then .error .inEom else .ok c

/-- Last phases of the references of `qs` in basis `b`. -/
def lastPhases (s : SeqState) (b : Basis) (qs : List Nat) : List Rat :=
  match s.getRefs b with
  | none => []
  | some l => qs.filterMap fun q => (l[q]?).map QRef.lastPhase

def lastTimes (s : SeqState) (b : Basis) (qs : List Nat) : List Int :=
  match s.getRefs b with
  | none => []
  | some l => qs.filterMap fun q => (l[q]?).map QRef.lastTime

/-- `Sequence._phase_shift` for concrete targets (non-parametrized). -/
def phaseShift (s : SeqState) (phi : Rat) (qs : List Nat) (b : Basis) : Raw :=
  if (s.getRefs b).isNone then fail s .noBasis
  else
    let qs := if qs.isEmpty then s.allQubits else qs
    if qs.any (· ≥ s.nQ) then fail s .unknownQubit
    else done (s.mapRefs b qs (·.incrementPhase phi))

end SeqState

/-- Are all elements of the list equal (`len(set(l)) == 1` for a non-empty list)? -/
def allSame : List Rat → Bool
  | [] => false
  | x :: rest => rest.all (· == x)

/-- `Sequence._validate_and_adjust_pulse`: returns the pulse record to schedule. -/
def validateAndAdjust (c : ChanState) (p : PulseIn) (phaseRef : Option Rat) :
    Except Err PulseRec :=
  match validatePulse c p.sum with
  | .error e => .error e
  | .ok _ =>
  match validateDuration c.cfg p.dur with
  | .error e => .error e
  | .ok d =>
  if d ≠ p.dur ∧ !p.resizable then .error .notResizable
  else
  -- the lengthened pulse has other samples: it is validated as scheduled (repair of F37)
  match (if d ≠ p.dur then validatePulse c p.sumAdj else .ok ()) with
  | .error e => .error e
  | .ok _ =>
  let ph := fmtPhase (p.phase + (match phaseRef with | some r => r | none => 0))
  .ok { dur := d, phase := ph, post := p.post, fallStd := p.fallStd, fallEom := p.fallEom,
        dd := p.dd, ref := p.ref, sum := if d ≠ p.dur then p.sumAdj else p.sum,
        const := p.const, amp := p.amp, det := p.det }

/-- `argmin |opts - x|` (first on ties); `none` when there are no options. -/
def closestIdx (opts : List Rat) (x : Rat) : Option Nat :=
  let rec go (best : Nat) (bestD : Rat) (i : Nat) : List Rat → Nat
    | [] => best
    | o :: rest =>
      let d := if o - x < 0 then x - o else o - x
      if d < bestD then go i d (i + 1) rest else go best bestD (i + 1) rest
  match opts with
  | [] => none
  | o :: rest => some (go 0 (if o - x < 0 then x - o else o - x) 1 rest)

/-- `Sequence._process_eom_parameters` (concrete arguments): the chosen detuning_off. -/
def processEomParams (c : ChanState) (e : EomIn) : Except Err Rat :=
  if e.amp < 0 then .error .badPulse
  else
  match validatePulse c e.onSum with
  | .error er => .error er
  | .ok _ =>
  match closestIdx e.opts e.optimal with
  | none => .error .badPulse
  | some i =>
    match e.opts[i]?, e.offSums[i]? with
    | some detOff, some σ =>
      (match validatePulse c σ with
       | .error er => .error er
       | .ok _ => .ok detOff)
    | _, _ => .error .badPulse

/-- `_get_last_eom_pulse_phase_drift`. -/
def lastEomPulseDrift (c : ChanState) : Drift :=
  let (detOff, bti) : Rat × Int :=
    match c.eom.getLast? with
    | some b => (b.detOff, b.ti)
    | none => (0, 0)
  let lastTf : Int := match c.lastPulseSlot true with | some (s, _) => s.tf | none => 0
  { rate := -detOff, ti := max bti lastTf }

/-- `total_phase_shift` of `_add`: the post-phase-shift minus the drift correction. -/
def totalShift (post : Rat) (drift : Option Drift) (ti : Int) : Rat :=
  post - (match drift with | some d => d.calc ti | none => 0)

/-- The common part of `Sequence._add` after the channel has been validated. -/
def addCore (s : SeqState) (p : PulseIn) (n : ChName) (proto : Option Protocol)
    (drift : Option Drift) : Raw :=
  match proto with
  | none => fail s .badProtocol
  | some proto =>
  match s.getChan n with
  | none => fail s .notDeclared
  | some c =>
  match c.last with
  | .error e => fail s e
  | .ok last =>
  let phs := s.lastPhases c.cfg.basis last.targets
  if !c.cfg.isDmm && !allSame phs then fail s .diffPhaseRefs
  else
  let phaseRef : Option Rat := if c.cfg.isDmm then none else phs.head?
  match validateAndAdjust c p phaseRef with
  | .error e => fail s e
  | .ok pr =>
  let barriers := s.lastTimes c.cfg.basis last.targets
  match addPulse s.dev.maxSeqDur c (s.others n) pr barriers proto drift with
  | .error e => fail s e
  | .ok c' =>
  let s1 := s.setChan c'
  match c'.last with
  | .error e => fail s1 e
  | .ok newSlot =>
  let s2 := s1.mapRefs c.cfg.basis last.targets (·.updateLastUsed newSlot.tf)
  let total : Rat := totalShift pr.post drift newSlot.ti
  if total ≠ 0 then s2.phaseShift total last.targets c.cfg.basis else done s2

/-- `estimate_added_delay` after channel validation. -/
def estimateCore (s : SeqState) (p : PulseIn) (c : ChanState) (proto : Protocol) : Raw :=
  match c.last with
  | .error e => fail s e
  | .ok last =>
  let phs := s.lastPhases c.cfg.basis last.targets
  if !c.cfg.isDmm && !allSame phs then fail s .diffPhaseRefs
  else
  let phaseRef : Option Rat := if c.cfg.isDmm then none else phs.head?
  match validateAndAdjust c p phaseRef with
  | .error e => fail s e
  | .ok pr =>
  let barriers := s.lastTimes c.cfg.basis last.targets
  match makeNextPulseSlot s.dev.maxSeqDur c (s.others c.name) pr barriers proto none false with
  | .error e => fail s e
  | .ok slot => ⟨s, none, some (slot.ti - last.tf)⟩

/-- `Sequence._target` (concrete). -/
def targetCore (s : SeqState) (qs : List Nat) (n : ChName) : Raw :=
  if s.measured.isSome then fail s .measured
  else
  match s.validateChannel n true with
  | .error e => fail s e
  | .ok c =>
  if qs.isEmpty then fail s .emptyTargets
  else if !c.cfg.isLocal then fail s .notLocal
  else if overNat c.cfg.maxTargets qs.length then fail s .tooManyTargets
  else if qs.any (· ≥ s.nQ) then fail s .unknownQubit
  else if !allSame (s.lastPhases c.cfg.basis qs) then fail s .diffPhaseRefs
  else s.withChan n fun c => addTarget s.dev.maxSeqDur c qs

/-- `Sequence._delay` (concrete). -/
def delayCore (s : SeqState) (d : Int) (n : ChName) (atRest : Bool) : Raw :=
  if s.measured.isSome then fail s .measured
  else
  match s.validateChannel n false with
  | .error e => fail s e
  | .ok _ =>
  (if atRest then s.withChan n fun c => CRes.lift c (waitForFall s.dev.maxSeqDur c)
   else done s).bind fun s =>
    if d = 0 then done s
    else s.withChan n fun c =>
      -- `add_delay` reads the last slot first, then validates the duration
      CRes.lift c (if d < 0 then (do let _ ← c.last; .error .durTooShort)
                   else addDelay s.dev.maxSeqDur c d.toNat)

/-- `Sequence._delay` as called by `delay(..., at_rest=True)`: a delay that `validate_duration` is
going to refuse is refused before the wait for the fall time is appended (repair of F2.1/F2.2:
the refused call used to leave the fall wait behind). -/
def delayChecked (s : SeqState) (d : Int) (n : ChName) (atRest : Bool) : Raw :=
  if atRest && decide (d ≠ 0) && s.measured.isNone then
    match s.validateChannel n false with
    | .ok c =>
      (match (if d < 0 then (.error .durTooShort : Except Err Nat) else validateDuration c.cfg d.toNat) with
       | .error e => fail s e
       | .ok _ => delayCore s d n atRest)
    | .error _ => delayCore s d n atRest
  else delayCore s d n atRest

theorem delayChecked_cases (s : SeqState) (d : Int) (n : ChName) (atRest : Bool) :
    delayChecked s d n atRest = delayCore s d n atRest ∨ ∃ e, delayChecked s d n atRest = fail s e := by
  unfold delayChecked
  split
  · split
    · split
      · exact .inr ⟨_, rfl⟩
      · exact .inl rfl
    · exact .inl rfl
  · exact .inl rfl

/-- The loop of `Sequence.align`. -/
def alignLoop (tf : Int) (lastTs : List (ChName × Int)) (s : SeqState) : Raw :=
  match lastTs with
  | [] => done s
  | (n, _) :: rest =>
    match s.getChan n with
    | none => fail s .notDeclared
    | some c =>
      -- measured from the channel's current (bare) end, where the delay is appended
      -- (repair of F1; it used to be measured from the end including fall time)
      let delta := tf - c.getDuration false
      if delta > 0 then
        match c.adjust delta.toNat with
        | .error e => fail s e
        | .ok d => (delayCore s d n false).bind (alignLoop tf rest)
      else alignLoop tf rest s

/-- Store a successful building call. -/
def store (op : Op) (r : Raw) : Raw :=
  match r.err with
  | none => { r with st := { r.st with calls := r.st.calls ++ [op] } }
  | some _ => r

def markNonEmpty (r : Raw) : Raw :=
  match r.err with
  | none => { r with st := { r.st with empty := false } }
  | some _ => r

/-- `basis in available` of `Sequence.measure`: the device's bases without XY outside XY
mode, only XY in XY mode. -/
def measBasisOk (s : SeqState) (b : Basis) : Bool :=
  if s.inXY then b == .xy else (s.dev.chans.any (·.basis == b) && b != .xy)

/-- `enable_eom_mode` after its parameters have been validated: fall wait + buffer, the new
block, the optional drift correction, and the stored call (with the chosen off-detuning). -/
def enableEomCommit (s : SeqState) (n : ChName) (c : ChanState) (e : EomIn) (detOff : Rat) : Raw :=
  (s.withChan n fun c => enableEom s.dev.maxSeqDur c e.amp e.detOn detOff false false).bind fun s1 =>
    let r : Raw :=
      if e.corr then
        match (s1.getChan n).bind (·.slots.getLast?) with
        | some buf =>
          -- the drift runs over the buffer at `detuning_off`: from its start (after the adjusted
          -- fall wait; repair of F40), not from the end of the previous pulse's fall time
          let drift : Drift := { rate := -detOff, ti := max buf.ti 0 }
          s1.phaseShift (-(drift.calc buf.tf)) buf.targets c.cfg.basis
        | none => fail s1 .noTarget
      else done s1
    store (.enableEom n { e with optimal := detOff }) r

/-- `modify_eom_setpoint` after validation: close the running block, open the new one behind
a buffer (no fall wait), optional drift correction, stored call. -/
def modifyEomCommit (s : SeqState) (n : ChName) (c : ChanState) (e : EomIn) (detOff : Rat) : Raw :=
  (s.withChan n fun c => disableEom s.dev.maxSeqDur c true).bind fun s1 =>
    match s1.getChan n with
    | none => fail s1 .notDeclared
    | some c1 =>
    let oldDrift := lastEomPulseDrift c1
    let newDrift : Drift := { rate := -detOff, ti := c1.getDuration false }
    (s1.withChan n fun c => enableEom s.dev.maxSeqDur c e.amp e.detOn detOff false true).bind
      fun s2 =>
      let r : Raw :=
        if e.corr then
          match (s2.getChan n).bind (·.slots.getLast?) with
          | some buf =>
            s2.phaseShift (-(oldDrift.calc (max buf.ti 0) + newDrift.calc buf.tf)) buf.targets c.cfg.basis
          | none => fail s2 .noTarget
        else done s2
      store (.modifyEom n { e with optimal := detOff }) r

/-- A refused call leaves nothing behind.  `declare_channel(..., initial_target=...)`: when the
initial target is refused nothing stays declared (repair of F2.9–F2.13).  `delay`, `align`,
`target`, `enable_eom_mode`, `modify_eom_setpoint`, `disable_eom_mode`: the instructions appended
before the refusal (fall-time waits, delays on the other channels, EOM buffers, the closed block)
are taken back (`_Schedule.restored_on_error`; repair of F2.3–F2.8, F2.14–F2.19).  In the model the
whole call is wrapped; the parts of these calls that come after the scheduler step (drift
correction, record) cannot fail on a reachable state. -/
def Raw.orRollback (r : Raw) (s : SeqState) : Raw :=
  match r.err with
  | none => r
  | some e => fail s e

theorem Raw.orRollback_cases (r : Raw) (s : SeqState) :
    r.orRollback s = r ∨ ∃ e, r.orRollback s = fail s e := by
  unfold Raw.orRollback
  cases r.err with
  | none => exact .inl rfl
  | some e => exact .inr ⟨e, rfl⟩

theorem Raw.orRollback_err (r : Raw) (s : SeqState) : (r.orRollback s).err = r.err := by
  unfold Raw.orRollback
  cases h : r.err with
  | none => exact h
  | some e => rfl

theorem Raw.orRollback_ok {r : Raw} {s : SeqState} (h : (r.orRollback s).err = none) :
    r.orRollback s = r := by
  rw [Raw.orRollback_err] at h
  unfold Raw.orRollback
  rw [h]

theorem Raw.orRollback_st_of_err {r : Raw} {s : SeqState} {e : Err} (h : (r.orRollback s).err = some e) :
    (r.orRollback s).st = s := by
  rw [Raw.orRollback_err] at h
  unfold Raw.orRollback
  rw [h]; rfl

/-- One API call, in Python statement order. -/
def stepRaw (s : SeqState) (op : Op) : Raw :=
  match op with
  | .declare name chId init =>
    if s.measured.isSome then fail s .measured
    else match name with
    | .dmm _ _ => fail s .nameReserved
    | .user _ =>
    if (s.getChan name).isSome then fail s .nameInUse
    else match s.dev.chans[chId]? with
    | none => fail s .noSuchChannel
    | some cfg =>
    if !s.available false chId cfg then
      (if s.inXY && cfg.basis != .xy then fail s .xyConflict
       else if !s.inXY && cfg.basis == .xy then fail s .xyConflict
       else fail s .notAvailable)
    else
    let s3 := s.addChannel (SeqState.freshChan name chId cfg s.allQubits (!cfg.isLocal) 1 1)
    let r : Raw :=
      if !cfg.isLocal then done s3
      else match init with
        | some qs => (targetCore s3 qs name).orRollback s
        | none => done s3
    store op r
  | .configDetMap dmmId maxW sumW =>
    if s.measured.isSome then fail s .measured
    else match s.dev.dmms[dmmId]? with
    | none => fail s .noDmm
    | some cfg =>
    if s.inXY then fail s .xyConflict
    else if !s.available true dmmId cfg then fail s .notAvailable
    else
    let k := (s.chans.filter fun c => match c.name with | .dmm i _ => i == dmmId | _ => false).length
    let c := SeqState.freshChan (ChName.dmm dmmId k) dmmId cfg s.allQubits true maxW sumW
    store op (done (s.addChannel c))
  | .target qs n => store op ((targetCore s qs n).orRollback s)
  | .add p n proto =>
    store op <| markNonEmpty <|
      if s.measured.isSome then fail s .measured
      else match s.validateChannel n true with
      | .error e => fail s e
      | .ok c => if c.cfg.isDmm then fail s .isDmm else addCore s p n proto none
  | .addDmm p n proto =>
    store op <| markNonEmpty <|
      if s.measured.isSome then fail s .measured
      else match s.validateChannel n false with
      | .error e => fail s e
      | .ok c => if !c.cfg.isDmm then fail s .notDmm else addCore s p n proto none
  | .addEom n dur phase post proto corr fs fe ref =>
    store op <| markNonEmpty <|
      if s.measured.isSome then fail s .measured
      else match s.validateChannel n false with
      | .error e => fail s e
      | .ok c =>
      match c.eom.getLast? with
      | none => fail s .notInEom
      | some b =>
      if b.tf.isSome then fail s .notInEom
      else
      let absDet := if b.detOn < 0 then -b.detOn else b.detOn
      -- the summary of a constant pulse (rounding of the detuning is the identity
      -- on the values the harness generates; monitored there)
      let p : PulseIn := { dur := dur, resizable := true, phase := fmtPhase phase, post := post,
                           fallStd := fs, fallEom := fe, dd := (b.amp == 0), ref := ref,
                           const := true, amp := b.amp, det := b.detOn,
                           sum := { maxAmp := b.amp, avgAmp := b.amp, maxAbsDetR := absDet,
                                    maxDetR := b.detOn, minDetR := b.detOn } }
      addCore s p n proto (if corr then some (lastEomPulseDrift c) else none)
  | .delay d n atRest => store op ((delayChecked s d n atRest).orRollback s)
  | .align chs atRest =>
    store op <| Raw.orRollback (s := s) <|
      if s.measured.isSome then fail s .measured
      else if chs.any (fun n => (s.getChan n).isNone) then fail s .alignUnknown
      else if chs.eraseDups.length ≠ chs.length then fail s .alignDup
      else if chs.length < 2 then fail s .alignFew
      else
      let lastTs : List (ChName × Int) :=
        chs.filterMap fun n => (s.getChan n).map fun c => (n, c.getDuration atRest)
      match lastTs with
      | [] => done s
      | (_, t0) :: rest =>
        let tf := maxList t0 (rest.map (·.2))
        alignLoop tf lastTs s
  | .phaseShift phi qs b => store op (s.phaseShift phi qs b)
  | .enableEom n e =>
    if s.measured.isSome then fail s .measured
    else match s.validateChannel n false with
    | .error er => fail s er
    | .ok c =>
    if c.inEomMode then fail s .alreadyInEom
    else if c.cfg.eom.isNone then fail s .noEom
    else match processEomParams c e with
    | .error er => fail s er
    | .ok detOff =>
    (enableEomCommit s n c e detOff).orRollback s
  | .modifyEom n e =>
    if s.measured.isSome then fail s .measured
    else match s.validateChannel n false with
    | .error er => fail s er
    | .ok c =>
    if !c.inEomMode then fail s .notInEom
    else match processEomParams c e with
    | .error er => fail s er
    | .ok detOff =>
    (modifyEomCommit s n c e detOff).orRollback s
  | .disableEom n corr =>
    store op <| Raw.orRollback (s := s) <|
      if s.measured.isSome then fail s .measured
      else match s.validateChannel n false with
      | .error er => fail s er
      | .ok c =>
      if !c.inEomMode then fail s .notInEom
      else
      (s.withChan n fun c => disableEom s.dev.maxSeqDur c false).bind fun s1 =>
        if corr then
          match s1.getChan n with
          | none => fail s1 .notDeclared
          | some c1 =>
            let lastTf : Int := match c1.eom.getLast? with
              | some b => b.tf.getD 0 | none => 0
            let d := lastEomPulseDrift c1
            match c1.slots.getLast? with
            | some l => s1.phaseShift (-(d.calc lastTf)) l.targets c.cfg.basis
            | none => fail s1 .noTarget
        else done s1
  | .measure b =>
    store op <|
      if s.measured.isSome then fail s .measured
      else
      if !measBasisOk s b then fail s .badMeasBasis else done { s with measured := some b }
  | .getDuration ch fall =>
    match ch with
    | some n =>
      match s.getChan n with
      | none => fail s .notDeclared
      | some c => ⟨s, none, some (c.getDuration fall)⟩
    | none => ⟨s, none, some (maxList 0 (s.chans.map (·.getDuration fall)))⟩
  | .estimate p n proto =>
    match s.validateChannel n false with
    | .error e => fail s e
    | .ok c =>
      match proto with
      | none => fail s .badProtocol
      | some proto => estimateCore s p c proto
  | .phaseRef q b =>
    if q ≥ s.nQ then fail s .unknownQubit
    else match s.getRefs b with
    | none => fail s .noBasis
    | some _ => ⟨s, none, none⟩  -- the value is read from the snapshot

/-- Histories: the user catches exceptions and goes on, from whatever the failed
call left behind. -/
def run (s : SeqState) (ops : List Op) : SeqState := ops.foldl (fun s op => (stepRaw s op).st) s

/-- An oracle answer: the fall times `(fs, fe)` of the detuned-delay pulse
`ConstantPulse(dur, 0, detOff, ·)` on channel `n` (what `Pulse.fall_time` returns for it, in
standard and in EOM mode).  The harness supplies it when the model asks (`need`); in the
theorems it may arrive at any time and with any values. -/
def SeqState.injectOracle (s : SeqState) (n : ChName) (detOff : Rat) (dur fs fe : Nat) : SeqState :=
  { s with chans := s.chans.map fun c =>
      if c.name == n then { c with ddOracle := ((detOff, dur), (fs, fe)) :: c.ddOracle } else c }

/-- Events of a history: API calls and oracle answers. -/
inductive Ev
  | call (op : Op)
  | oracle (n : ChName) (detOff : Rat) (dur fs fe : Nat)
  deriving Repr, Inhabited

def stepEv (s : SeqState) : Ev → SeqState
  | .call op => (stepRaw s op).st
  | .oracle n detOff dur fs fe => s.injectOracle n detOff dur fs fe

/-- Histories with oracle answers interleaved. -/
def runEv (s : SeqState) (evs : List Ev) : SeqState := evs.foldl stepEv s

end Pulser
