/-
  PulserModel.Modulation — output modulation (property C14), scalar-polymorphic.

  Mirrors `Channel.modulate` / `Channel.apply_modulation` (channels/base_channel.py),
  `Waveform.modulated_samples` (waveforms.py), `ChannelSamples.modulate` / `extend_duration`
  (sampler/samples.py, channels without EOM blocks) and the `modulation=True` branch of
  `sampler.sample`.

  Two readings of the filter, both generic in the scalar `α` (instantiated with `Float` in the
  driver, with any commutative (semi)ring / field in the proofs):

  * `modulateDft pw pwInv ninv m x` — what the code computes, `ifft(fft(x) * m)`, with the
    powers of the n-th root of unity passed as tables `pw t = ω^t`, `pwInv t = ω^(-t)`;
  * `circConv h x` — circular convolution with a kernel `h`.

  The padding / slicing / length bookkeeping is over `List` and `Nat`/`Int` with Python's slice
  semantics (`l[a:b]` with negative bounds: `Wave.pyAdjust`).  `np.pad(..., mode="edge")` of an
  empty array with a positive width is an error (`none`), exactly as in numpy; since /repo d9bdcf58
  the code guards it (`padKeep`), and `channelModulateOld` keeps the earlier, unguarded form.

  Model files import nothing outside core Lean.
-/
import PulserModel.Waveform
namespace Pulser
namespace Mod

/-! ## 1. The filter -/

section Filter
variable {α : Type} [Add α] [Mul α] [Zero α]

/-- `Σ_{i<n} f i`. -/
def sumFin {n : Nat} (f : Fin n → α) : α := ((List.finRange n).map f).sum

/-- Circular convolution `(h ⊛ x) i = Σ_j h (i − j) · x j` (indices mod n). -/
def circConv {n : Nat} (h x : Fin n → α) : Fin n → α :=
  fun i => sumFin fun j => h (i - j) * x j

/-- Discrete Fourier transform with the powers of the root of unity given as a table:
`(dftWith pw x) k = Σ_j x j · pw (j·k mod n)`. -/
def dftWith {n : Nat} (pw : Nat → α) (x : Fin n → α) : Fin n → α :=
  fun k => sumFin fun j => x j * pw (j.val * k.val % n)

/-- `Channel.apply_modulation`: `ifft(fft(x) * modulation)` — forward transform with `pw`,
point-wise product with the transfer function `m`, inverse transform with `pwInv` and the
normalisation `ninv = 1/n`. -/
def modulateDft {n : Nat} (pw pwInv : Nat → α) (ninv : α) (m x : Fin n → α) : Fin n → α :=
  fun i => ninv * dftWith pwInv (fun k => dftWith pw x k * m k) i

/-- The impulse response of `modulateDft`: `h t = ninv · Σ_k m k · pwInv (k·t mod n)`, the inverse
transform of the transfer function. -/
def kernelOf {n : Nat} (pwInv : Nat → α) (ninv : α) (m : Fin n → α) : Fin n → α :=
  fun t => ninv * dftWith pwInv m t

/-- A length-preserving filter on lists from a family of filters on `Fin n → α`. -/
def filterList (F : (n : Nat) → (Fin n → α) → Fin n → α) (l : List α) : List α :=
  List.ofFn (F l.length fun i => l[i])

end Filter

/-! ## 2. Padding and slicing -/

section Lists
variable {α : Type}

/-- `np.pad(x, k)` (zeros on both sides). -/
def padZero [Zero α] (x : List α) (k : Nat) : List α :=
  List.replicate k 0 ++ x ++ List.replicate k 0

/-- `np.pad(x, k, mode="edge")`; numpy raises `ValueError: can't extend empty axis 0 using modes
other than 'constant' or 'empty'` for an empty `x` and `k > 0` (and returns `[]` for `k = 0`). -/
def padEdge (x : List α) (k : Nat) : Option (List α) :=
  match x.head?, x.getLast? with
  | some a, some b => some (List.replicate k a ++ x ++ List.replicate k b)
  | _, _ => if k = 0 then some [] else none

/-- `np.pad(x, (0, k), mode="edge")`. -/
def padEdgeRight (x : List α) (k : Nat) : Option (List α) :=
  match x.getLast? with
  | some b => some (x ++ List.replicate k b)
  | none => if k = 0 then some [] else none

/-- `pm.pad(x, k, mode="edge" if x.size > 0 else "constant")`: the guarded edge padding used by
`Channel.modulate(keep_ends=True)` since /repo d9bdcf58 (before, the raw `padEdge` — finding F14). -/
def padKeep [Zero α] (x : List α) (k : Nat) : List α :=
  match padEdge x k with
  | some y => y
  | none => List.replicate (k + k) 0

/-- `pm.pad(x, (0, k), mode="edge" if x.size > 0 else "constant")` (phase arrays). -/
def padKeepRight [Zero α] (x : List α) (k : Nat) : List α :=
  match padEdgeRight x k with
  | some y => y
  | none => List.replicate k 0

/-- Python `l[a:b]` for integers `a`, `b` (negative = from the end, clamped). -/
def pySlice (l : List α) (a b : Int) : List α :=
  let s := (Wave.pyAdjust l.length (some a) 0).toNat
  let e := (Wave.pyAdjust l.length (some b) l.length).toNat
  (l.drop s).take (e - s)

end Lists

/-! ## 3. `Channel.modulate`, `Waveform.modulated_samples` -/

/-- What `Channel.modulate` reads from the channel: whether this call filters at all
(`mod_bandwidth` defined, or `eom=True`), `Channel.rise_time`, and `mod_padding`
(`rise_time`, or the EOM's rise time when `eom=True`). -/
structure ModCfg where
  filters : Bool
  rise : Nat
  pad : Nat
  deriving DecidableEq, Repr

section Modulate
variable {α : Type} [Zero α]

/-- `Channel.modulate(input_samples, keep_ends, eom)` with the length-preserving transfer step
`filt` = `apply_modulation(·, mod_bandwidth)`. -/
def channelModulate (filt : List α → List α) (c : ModCfg) (x : List α) (keepEnds : Bool) : List α :=
  if !c.filters then x                      -- warns and returns the input unchanged
  else if keepEnds then
    -- samples = pad(input, mod_padding + rise_time, mode="edge" if input.size else "constant");
    -- return apply_modulation(samples)[rise_time : -rise_time]
    pySlice (filt (padKeep x (c.pad + c.rise))) (c.rise : Int) (-(c.rise : Int))
  else filt (padZero x c.pad)

/-- `Channel.modulate` **before** /repo d9bdcf58 (finding F14): the edge padding was unguarded, so an
empty input with `keep_ends=True` was numpy's "can't extend empty axis" error (`none`). -/
def channelModulateOld (filt : List α → List α) (c : ModCfg) (x : List α) (keepEnds : Bool) :
    Option (List α) :=
  if !c.filters then some x
  else if keepEnds then
    (padEdge x (c.pad + c.rise)).map fun s => pySlice (filt s) (c.rise : Int) (-(c.rise : Int))
  else some (filt (padZero x c.pad))

/-- `Waveform.modulated_samples`: `mod_samples[tr - start : len(mod_samples) - tr + end]`, with `tr`
and the buffers those of the EOM when `eom=True` (since /repo 7f048567; before, always the channel's). -/
def trimModulated (mod : List α) (tr start stop : Nat) : List α :=
  pySlice mod ((tr : Int) - start) ((mod.length : Int) - tr + stop)

/-- amp / det / phase arrays of `ChannelSamples` (no EOM blocks). -/
structure CS (α : Type) where
  amp : List α
  det : List α
  phase : List α

/-- `ChannelSamples.extend_duration(new)`: zeros for amp and det (final detuning 0 outside EOM),
phase kept at its last value (`constant` mode when empty); `none` = "Can't extend samples to a
lower duration". -/
def extendDuration (s : CS α) (new : Nat) : Option (CS α) :=
  if new < s.amp.length then none
  else
    let ext := new - s.amp.length
    let ph := match s.phase.getLast? with
      | some b => s.phase ++ List.replicate ext b
      | none => List.replicate ext 0
    some { amp := s.amp ++ List.replicate ext 0, det := s.det ++ List.replicate ext 0, phase := ph }

/-- `ChannelSamples.modulate(channel_obj, max_duration)` without EOM blocks:
`amp = modulate(amp)`, `det = modulate(det, keep_ends=True)`, phase padded to the new length with
its last value (zeros if empty), everything cut to `[0:max_duration]`; samples of duration zero
are returned unchanged. -/
def csModulate (filt : List α → List α) (c : ModCfg) (s : CS α) (maxDur : Option Nat) : CS α :=
  if s.amp.length = 0 then s     -- `if self.duration == 0: return replace(self)` (/repo 0b0bffd1)
  else
  let amp := channelModulate filt c s.amp false
  let det := channelModulate filt c s.det true
  let ph := padKeepRight s.phase (amp.length - s.phase.length)
  let cut : List α → List α := fun l => match maxDur with
    | none => l
    | some m => l.take m
  { amp := cut amp, det := cut det, phase := cut ph }

/-- The per-channel body of `sampler.sample(seq, modulation, extended_duration)` applied to the
plain samples `s` of a channel whose `get_duration(include_fall_time=True)` is `durWithFall`.
`extended = 0` stands for `None` (the code tests truthiness). -/
def sampleChannel (filt : List α → List α) (c : ModCfg) (s : CS α) (modulation : Bool)
    (extended durWithFall : Nat) : Option (CS α) :=
  match (if extended ≠ 0 then extendDuration s extended else some s) with
  | none => none
  | some s1 =>
    if modulation then
      some (csModulate filt c s1 (some (if extended ≠ 0 then extended else durWithFall)))
    else some s1

end Modulate

end Mod
end Pulser
