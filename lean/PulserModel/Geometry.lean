/-
  PulserModel.Geometry — which registers / layouts a device accepts, and which device
  parameter records can be constructed.

  Mirrors pulser-core/pulser/devices/_device_datacls.py (Pulser 1.5dev0):
  `validate_register`, `_validate_coords`, `_validate_atom_number`, `_validate_atom_distance`,
  `_validate_radial_distance`, `validate_layout`, `validate_layout_filling`,
  `BaseDevice.__post_init__`, `Device.__post_init__`.

  Conventions
  * Coordinates, `min_atom_distance` and the filling fractions are exact rationals (the
    float64 values converted exactly by the harness).  Distances are compared through
    their squares: for `d = √s ≥ 0`,  `d − m < −ε  ∨  d < ε`  ⇔  `tooClose m s`
    (Proofs/Geometry.lean, `tooClose_iff`), with `ε = 10⁻⁶` (`10 ** (-COORD_PRECISION)`).
  * Atoms / traps are referred to by their index in the register / `traps_dict` order;
    the harness maps the ids of the error payloads to indices.
  * `int(n_traps * max_layout_filling)` is `⌊n_traps · max_layout_filling⌋` over ℚ (the float
    product can differ when it falls within an ulp of an integer: the harness counts those
    cases as float-ambiguous).
  * Core Lean only (linked into the `pm_geom` executable).
-/
namespace Pulser
namespace Geom

abbrev Pos := List Rat

/-- The geometric parameters of a device. -/
structure DeviceGeom where
  dims : Nat
  minDist : Rat
  /-- `None` only on a `VirtualDevice` -/
  maxAtomNum : Option Nat
  /-- `None` only on a `VirtualDevice` -/
  maxRadial : Option Nat
  minTraps : Nat
  maxTraps : Option Nat
  maxFilling : Rat
deriving DecidableEq, Repr

/-- `10 ** (-COORD_PRECISION)` -/
def eps : Rat := 1 / 1000000

/-- Squared Euclidean distance (`pm.pdist`, squared). -/
def sqDist (a b : Pos) : Rat := (List.zipWith (fun x y => (x - y) * (x - y)) a b).sum

/-- Squared norm (`np.linalg.norm(…, axis=1)`, squared). -/
def sqNorm (a : Pos) : Rat := (a.map fun x => x * x).sum

/-- `invalid_dists` of `_validate_atom_distance` on the squared distance `s`:
`cond1 = d − m < −ε` (closer than the minimum distance, with the 1e-6 slack),
`cond2 = d < ε` (identical positions, relevant when `m = 0`). -/
def tooClose (m s : Rat) : Bool :=
  (decide (0 < m - eps) && decide (s < (m - eps) * (m - eps))) || decide (s < eps * eps)

/-- Index pairs `i < j < n` in the order of `np.argwhere` on the upper triangle. -/
def allPairs (n : Nat) : List (Nat × Nat) :=
  (List.range n).flatMap fun i =>
    ((List.range n).filter fun j => decide (i < j)).map fun j => (i, j)

/-- `bad_pairs` of `_validate_atom_distance`. -/
def badPairs (dev : DeviceGeom) (ps : List Pos) : List (Nat × Nat) :=
  (allPairs ps.length).filter fun ij =>
    tooClose dev.minDist (sqDist (ps.getD ij.1 []) (ps.getD ij.2 []))

/-- `np.where(too_far)[0]` of `_validate_radial_distance`. -/
def tooFar (R : Nat) (ps : List Pos) : List Nat :=
  (List.range ps.length).filter fun i => decide ((R : Rat) * R < sqNorm (ps.getD i []))

inductive CoordErr where
  | atomsNumber (n : Nat)                    -- AtomsNumberError(invalid=n)
  | distance (pairs : List (Nat × Nat))      -- DistanceError(invalid=pairs)
  | radius (ids : List Nat)                  -- RadiusError(invalid=ids)
deriving DecidableEq, Repr

inductive LayoutErr where
  | dimension                                -- DimensionTooHighError
  | trapsLow (n : Nat)                       -- TrapsNumberTooLowError
  | trapsHigh (n : Nat)                      -- TrapsNumberTooHighError
  | coords (e : CoordErr)
deriving DecidableEq, Repr

inductive RegErr where
  | dimension                                -- DimensionPositionsTooHighError
  | coords (e : CoordErr)
  | layout (e : LayoutErr)                   -- PulserValueError("… incompatible register layout") from e
  | filling (n max : Nat)                    -- QubitsNumberError(invalid=n, max=max)
deriving DecidableEq, Repr

/-- `n` exceeds an optional limit (`None` = no limit). -/
def exceeds (lim : Option Nat) (n : Nat) : Bool :=
  match lim with
  | some k => decide (k < n)
  | none => false

/-- `_validate_radial_distance`, skipped when `max_radial_distance` is undefined. -/
def radiusCheck (lim : Option Nat) (ps : List Pos) : Option CoordErr :=
  match lim with
  | some R => if tooFar R ps ≠ [] then some (.radius (tooFar R ps)) else none
  | none => none

/-- `_validate_coords(coords_dict, kind)`; `atoms = (kind == "atoms")`. -/
def validateCoords (dev : DeviceGeom) (ps : List Pos) (atoms : Bool) : Option CoordErr :=
  if atoms && exceeds dev.maxAtomNum ps.length then some (.atomsNumber ps.length)
  else if badPairs dev ps ≠ [] then some (.distance (badPairs dev ps))
  else radiusCheck dev.maxRadial ps

structure LayoutG where
  dim : Nat
  /-- trap coordinates by trap id -/
  traps : List Pos
deriving DecidableEq, Repr

structure RegG where
  dim : Nat
  atoms : List Pos
  layout : Option LayoutG
deriving DecidableEq, Repr

/-- `validate_layout(layout)`. -/
def validateLayout (dev : DeviceGeom) (L : LayoutG) : Option LayoutErr :=
  if dev.dims < L.dim then some .dimension
  else if L.traps.length < dev.minTraps then some (.trapsLow L.traps.length)
  else if exceeds dev.maxTraps L.traps.length then some (.trapsHigh L.traps.length)
  else (validateCoords dev L.traps false).map .coords

/-- `int(layout.number_of_traps * self.max_layout_filling)`. -/
def maxQubits (dev : DeviceGeom) (nTraps : Nat) : Nat := ((nTraps : Rat) * dev.maxFilling).floor.toNat

/-- `validate_layout_filling` for `n` qubits on a layout of `nTraps` traps. -/
def validateFilling (dev : DeviceGeom) (n nTraps : Nat) : Option RegErr :=
  if maxQubits dev nTraps < n then some (.filling n (maxQubits dev nTraps)) else none

/-- `validate_register(register)`. -/
def validateRegister (dev : DeviceGeom) (reg : RegG) : Option RegErr :=
  if dev.dims < reg.dim then some .dimension
  else
    match validateCoords dev reg.atoms true with
    | some e => some (.coords e)
    | none =>
      match reg.layout with
      | none => none
      | some L =>
        match validateLayout dev L with
        | some e => some (.layout e)
        | none => validateFilling dev reg.atoms.length L.traps.length

/-- `Sequence(MappableRegister, device)`: `validate_layout` then `validate_layout_filling` with the
number of declared qubit ids. -/
def validateMappable (dev : DeviceGeom) (L : LayoutG) (nQubits : Nat) : Option RegErr :=
  match validateLayout dev L with
  | some e => some (.layout e)
  | none => validateFilling dev nQubits L.traps.length

/-! ### Device construction (`__post_init__`) -/

structure ChanP where
  /-- `basis == "XY"` (Microwave channel) -/
  xy : Bool
  /-- `is_virtual()`: some optional field left undefined -/
  virtualCh : Bool
deriving DecidableEq, Repr

structure DevParams where
  /-- `VirtualDevice` (else `Device`) -/
  virtualDev : Bool
  dimensions : Int
  rydbergLevel : Int
  minAtomDistance : Option Rat
  maxAtomNum : Option Int
  maxRadialDistance : Option Int
  maxSequenceDuration : Option Int
  maxRuns : Option Int
  minLayoutTraps : Option Int
  maxLayoutTraps : Option Int
  maxLayoutFilling : Rat
  optimalLayoutFilling : Option Rat
  supportsSlmMask : Bool
  channels : List ChanP
  dmms : List ChanP
  channelIds : Option (List String)
  /-- `isinstance(interaction_coeff_xy, float)` -/
  coeffXYIsFloat : Bool
  /-- `pre_calibrated_layouts` (`Device` only) -/
  layouts : List LayoutG
deriving DecidableEq, Repr

inductive DErr where
  | dimensionChoice                 -- DimensionChoiceError
  | rydbergLevel                    -- RydbergLevelError
  | noneNotAllowed (param : String) -- TypeError "'p' can't be None in a 'Device' instance."
  | minDistNegative                 -- ValueError "'min_atom_distance' must be greater than or equal to zero"
  | notPositive (param : String)    -- ValueError "'p' must be greater than zero"
  | maxFilling                      -- ValueError "The maximum layout filling fraction must be …"
  | optimalFilling                  -- OptimalLayoutFillingError
  | maxTrapsBelowMin                -- MaxNumberOfTrapsError
  | fillingTooSmallForAtoms         -- "a layout supports at most N atoms, which is less than the maximum number of atoms"
  | slmNeedsDmm                     -- "One DMM object should be defined to support SLM mask."
  | channelIdsRepeated
  | channelIdsCount
  | channelIdsDmmClash
  | xyCoeff                         -- TypeError: Microwave channel without float interaction_coeff_xy
  | virtualChannel                  -- "A 'Device' instance cannot contain virtual channels."
  | layout (e : LayoutErr)          -- a pre-calibrated layout does not validate
deriving DecidableEq, Repr

/-- One turn of the loop over the integer parameters. -/
def checkInt (name : String) (optional : Bool) (v : Option Int) : Option DErr :=
  match v with
  | none => if optional then none else some (.noneNotAllowed name)
  | some x => if 0 < x then none else some (.notPositive name)

def checkMinDist (v : Option Rat) : Option DErr :=
  match v with
  | none => some (.noneNotAllowed "min_atom_distance")
  | some m => if 0 ≤ m then none else some .minDistNegative

/-- First error of a list of checks (the statements of `__post_init__` in order). -/
def firstErr {ε : Type} : List (Option ε) → Option ε
  | [] => none
  | some e :: _ => some e
  | none :: rest => firstErr rest

def dmmNames (n : Nat) : List String := (List.range n).map fun i => "dmm_" ++ toString i

/-- The geometry a successfully constructed device validates with. -/
def DevParams.geom (p : DevParams) : DeviceGeom :=
  { dims := p.dimensions.toNat
    minDist := p.minAtomDistance.getD 0
    maxAtomNum := p.maxAtomNum.map Int.toNat
    maxRadial := p.maxRadialDistance.map Int.toNat
    minTraps := (p.minLayoutTraps.getD 1).toNat
    maxTraps := p.maxLayoutTraps.map Int.toNat
    maxFilling := p.maxLayoutFilling }

def checkTraps (p : DevParams) : Option DErr :=
  match p.maxLayoutTraps with
  | none => none
  | some mx =>
    if mx < p.minLayoutTraps.getD 1 then some .maxTrapsBelowMin
    else
      match p.maxAtomNum with
      | none => none
      | some a =>
        if (p.maxLayoutFilling * (mx : Rat)).floor < a then some .fillingTooSmallForAtoms else none

def checkChannelIds (p : DevParams) : Option DErr :=
  match p.channelIds with
  | none => none
  | some ids =>
    if ¬ ids.Nodup then some .channelIdsRepeated
    else if ids.length ≠ p.channels.length then some .channelIdsCount
    else if ids.any (fun s => (dmmNames p.dmms.length).contains s) then some .channelIdsDmmClash
    else none

def checkLayouts (g : DeviceGeom) : List LayoutG → Option DErr
  | [] => none
  | L :: rest =>
    match validateLayout g L with
    | some e => some (.layout e)
    | none => checkLayouts g rest

/-- `Device(**p)` / `VirtualDevice(**p)`: `none` = the object is constructed. -/
def mkDevice (p : DevParams) : Option DErr :=
  firstErr [
    (if p.dimensions = 2 ∨ p.dimensions = 3 then none else some .dimensionChoice),
    (if 49 < p.rydbergLevel ∧ p.rydbergLevel < 101 then none else some .rydbergLevel),
    checkMinDist p.minAtomDistance,
    checkInt "max_atom_num" p.virtualDev p.maxAtomNum,
    checkInt "max_radial_distance" p.virtualDev p.maxRadialDistance,
    checkInt "max_sequence_duration" true p.maxSequenceDuration,
    checkInt "max_runs" true p.maxRuns,
    checkInt "min_layout_traps" false p.minLayoutTraps,
    checkInt "max_layout_traps" true p.maxLayoutTraps,
    (if 0 < p.maxLayoutFilling ∧ p.maxLayoutFilling ≤ 1 then none else some .maxFilling),
    (match p.optimalLayoutFilling with
      | none => none
      | some o => if 0 < o ∧ o ≤ p.maxLayoutFilling then none else some .optimalFilling),
    checkTraps p,
    (if p.supportsSlmMask ∧ p.dmms = [] then some .slmNeedsDmm else none),
    checkChannelIds p,
    (if p.channels.any (·.xy) ∧ ¬ p.coeffXYIsFloat then some .xyCoeff else none),
    (if ¬ p.virtualDev ∧ (p.channels ++ p.dmms).any (·.virtualCh) then some .virtualChannel else none),
    (if p.virtualDev then none else checkLayouts p.geom p.layouts) ]

end Geom
end Pulser
