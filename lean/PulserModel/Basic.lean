/-
  PulserModel.Basic — shared vocabulary of the scheduler model:
  errors, bases, protocols, channel / device configuration and the duration
  arithmetic of `Channel.validate_duration` / `_ChannelSchedule.adjust_duration`.

  Model files import nothing outside core Lean (they are linked into `pmdriver`).
-/
namespace Pulser

/-- Channel names: user names are opaque naturals; `dmm id k` stands for the
automatically generated `dmm_<id>` (k = 0) / `dmm_<id>_<k>` names. -/
inductive ChName
  | user (n : Nat)
  | dmm (id : Nat) (k : Nat)
  deriving DecidableEq, Repr, Inhabited

/-- Small error enumeration; message texts are not modelled.  The Python
adapter maps (exception type, message keyword) to these names. -/
inductive Err
  -- typestate errors: depend on the *mode* of the sequence only
  | measured | nameInUse | notAvailable | xyConflict | notDeclared
  | inEom | notInEom | alreadyInEom | noTarget | slmWaiting | parametrized
  -- argument errors
  | nameReserved | noSuchChannel | noEom | isDmm | notDmm | badProtocol
  | diffPhaseRefs | durTooShort | durTooLong | notResizable
  | ampOverMax | detOverMax | avgAmpLow | dmmPositive | dmmBottom | dmmTotalBottom
  | overMaxSeq | emptyTargets | notLocal | tooManyTargets | unknownQubit
  | noBasis | alignUnknown | alignDup | alignFew | badMeasBasis | noDmm | badPulse | nonFinite
  -- protocol-level (never produced by Python): the driver needs the fall times of
  -- the detuned-delay pulse (detuning_off, duration) on channel `n`
  | oracleMiss (n : ChName) (detOff : Rat) (dur : Nat)
  deriving DecidableEq, Repr, Inhabited

def Err.isTypestate : Err → Bool
  | .measured | .nameInUse | .notAvailable | .xyConflict | .notDeclared
  | .inEom | .notInEom | .alreadyInEom | .noTarget | .slmWaiting | .parametrized => true
  | _ => false

inductive Basis | groundRydberg | digital | xy
  deriving DecidableEq, Repr, Inhabited

inductive Protocol | minDelay | noDelay | waitForAll
  deriving DecidableEq, Repr, Inhabited

structure EomCfg where
  rise : Nat            -- eom_config.rise_time
  bufferTime : Nat      -- Channel._eom_buffer_time (custom or 2·rise_time of the channel)
  customBuffer : Bool   -- bool(eom_config.custom_buffer_time)
  deriving DecidableEq, Repr, Inhabited

structure ChanCfg where
  isDmm : Bool := false
  basis : Basis := .groundRydberg
  isLocal : Bool := false
  clock : Nat := 1
  minDur : Nat := 1
  maxDur : Option Nat := none
  rise : Nat := 0                -- Channel.rise_time
  pjt : Nat := 0                 -- Channel.phase_jump_time
  minRetarget : Nat := 0
  fixedRetarget : Nat := 0
  maxTargets : Option Nat := none
  eom : Option EomCfg := none
  maxAmp : Option Rat := none
  maxAbsDet : Option Rat := none
  minAvgAmp : Rat := 0
  bottom : Option Rat := none       -- DMM.bottom_detuning
  totalBottom : Option Rat := none  -- DMM.total_bottom_detuning
  deriving DecidableEq, Repr, Inhabited

structure Device where
  chans : List ChanCfg
  dmms : List ChanCfg
  reusable : Bool
  maxSeqDur : Option Nat
  deriving DecidableEq, Repr, Inhabited

/-- `limit is not None and x > limit`. -/
def overNat (m : Option Nat) (d : Nat) : Bool :=
  match m with
  | some m => decide (d > m)
  | none => false

/-- `Channel.validate_duration`: the requested duration is compared with the limits,
rounded up to the clock, and the rounded value compared with the maximum again
(the last test is the repair of finding F12). -/
def validateDuration (c : ChanCfg) (d : Nat) : Except Err Nat :=
  if d < c.minDur then .error .durTooShort
  else if overNat c.maxDur d then .error .durTooLong
  else if d % c.clock ≠ 0 then
    -- rounded up to the next clock multiple, which must still respect the maximum
    if overNat c.maxDur (d + (c.clock - d % c.clock)) then .error .durTooLong
    else .ok (d + (c.clock - d % c.clock))
  else .ok d

/-- `_ChannelSchedule.adjust_duration`. -/
def adjustDuration (c : ChanCfg) (d : Nat) : Except Err Nat :=
  validateDuration c (max d c.minDur)

/-- The exact rational value of the float `2*np.pi`. -/
def twoPi : Rat := (884279719003555 : Rat) / 140737488355328

/-- `_PhaseTracker._format` / `Pulse.__init__` phase reduction: `phi % (2*np.pi)`
(Python's float `%` is an exact `fmod` for non-negative arguments). -/
def fmtPhase (x : Rat) : Rat := x - ((x / twoPi).floor : Int) * twoPi

end Pulser
