/-
  PulserModel.Hamiltonian — the Hamiltonian the QuTiP emulator builds at ONE
  sample time, as a function of the values sampled for that time.

  Mirrors `pulser_simulation/hamiltonian.py`:
    `_get_eigenbasis` / `_get_basis_op_matrices`  → `eigenbasisOf`, `sigma`
    `_build_operator` (qutip.tensor)               → `kron`, `tensorN`, `buildOp`
    `_construct_hamiltonian`                       → `interaction`, `globalTerms`,
                                                     `localTerms`, `hamHalf`, `H_code`
  and states the documented formula (docs/source/conventions.md, "Hamiltonians")
  entry-wise over configurations: `H_docC`, `H_doc`.

  Scalar-polymorphic: `K` is any type with `+ * - 0 1` and a conjugation
  (`HasConj`).  The driver instantiates `K := Cx Float` (pairs of floats), the
  proofs take `K` a commutative ring, the examples use `Cx Rat`.
  Matrices are total functions `Nat → Nat → K`; only the entries with both
  indices `< d ^ n` are meaningful.  Core Lean only (linked into `pm_ham`).
-/
namespace Pulser
namespace Ham

/-! ## scalars -/

/-- Conjugation on the scalar type. -/
class HasConj (K : Type) where
  conj : K → K

export HasConj (conj)

/-- Complex numbers over `R` as pairs (re, im). -/
structure Cx (R : Type) where
  re : R
  im : R
deriving DecidableEq, Repr

namespace Cx
variable {R : Type} [Add R] [Mul R] [Neg R] [Sub R] [Zero R] [One R]

instance : Add (Cx R) := ⟨fun a b => ⟨a.re + b.re, a.im + b.im⟩⟩
instance : Mul (Cx R) := ⟨fun a b => ⟨a.re * b.re - a.im * b.im, a.re * b.im + a.im * b.re⟩⟩
instance : Neg (Cx R) := ⟨fun a => ⟨-a.re, -a.im⟩⟩
instance : Zero (Cx R) := ⟨⟨0, 0⟩⟩
instance : One (Cx R) := ⟨⟨1, 0⟩⟩
instance : HasConj (Cx R) := ⟨fun a => ⟨a.re, -a.im⟩⟩

/-- A real number as a complex one. -/
def ofReal (x : R) : Cx R := ⟨x, 0⟩

end Cx

/-! ## matrices, Kronecker products, register tensor order -/

abbrev Mat (K : Type) := Nat → Nat → K

section Defs
variable {K : Type} [Add K] [Mul K] [Neg K] [Zero K] [One K] [HasConj K]

def Mat.zero : Mat K := fun _ _ => 0
def Mat.add (A B : Mat K) : Mat K := fun i j => A i j + B i j
def Mat.smul (c : K) (A : Mat K) : Mat K := fun i j => c * A i j
/-- `Qobj.dag()`: conjugate transpose. -/
def Mat.dagger (A : Mat K) : Mat K := fun i j => conj (A j i)
/-- `qutip.qeye(d)`. -/
def Mat.id : Mat K := fun i j => if i = j then 1 else 0

/-- `Σ_{i<n} f i`. -/
def sumN {α : Type} [Add α] [Zero α] (n : Nat) (f : Nat → α) : α :=
  match n with
  | 0 => 0
  | m + 1 => sumN m f + f m

/-- `Π_{i<n} f i`. -/
def prodN {α : Type} [Mul α] [One α] (n : Nat) (f : Nat → α) : α :=
  match n with
  | 0 => 1
  | m + 1 => prodN m f * f m

/-- Sum of matrices `Σ_{q<n} F q` (python `sum(...)` over the register). -/
def Mat.sumN (n : Nat) (F : Nat → Mat K) : Mat K := fun i j => Ham.sumN n (fun q => F q i j)

/-- Sum over pairs `q1 < q2 < n` (`itertools.combinations(qubits, 2)`). -/
def sumPairs {α : Type} [Add α] [Zero α] (n : Nat) (f : Nat → Nat → α) : α :=
  sumN n fun q1 => sumN n fun q2 => if q1 < q2 then f q1 q2 else 0

def Mat.sumPairs (n : Nat) (F : Nat → Nat → Mat K) : Mat K :=
  fun i j => Ham.sumPairs n (fun q1 q2 => F q1 q2 i j)

/-- Kronecker product `A ⊗ B` where `B` is `q × q`:
`(A ⊗ B)[i, j] = A[i / q, j / q] * B[i % q, j % q]` (the left factor is the most significant). -/
def kron (q : Nat) (A B : Mat K) : Mat K :=
  fun i j => A (i / q) (j / q) * B (i % q) (j % q)

/-- `qutip.tensor([F 0, F 1, …, F (n-1)])` for `d × d` factors: the first factor is the most
significant one.  (Built from the left, `(… (F 0 ⊗ F 1) ⊗ …) ⊗ F (n-1)`; the Kronecker
product is associative, so this is the same matrix as the right-nested one.) -/
def tensorN (d : Nat) : (n : Nat) → (Nat → Mat K) → Mat K
  | 0, _ => fun _ _ => 1
  | n + 1, F => kron d (tensorN d n F) (F n)

/-- Index of the configuration `s 0, s 1, …, s (n-1)` (atom 0 most significant):
`s 0 * d^(n-1) + … + s (n-1)`. -/
def idxOf (d : Nat) : (n : Nat) → (Nat → Nat) → Nat
  | 0, _ => 0
  | n + 1, s => idxOf d n s * d + s n

/-- Local state of atom `j` (of `n`) in the basis state number `k`: the `j`-th base-`d` digit,
most significant first. -/
def digit (d n j k : Nat) : Nat := k / d ^ (n - 1 - j) % d

/-- `_build_operator`: `op_list = [I] * n`, then `op_list[q] = operator` for each listed
operation (later ones win), then `qutip.tensor(op_list)`. -/
def opList (ops : List (Nat × Mat K)) : Nat → Mat K :=
  ops.foldl (fun F qa => fun k => if k = qa.1 then qa.2 else F k) (fun _ => Mat.id)

def buildOp (d n : Nat) (ops : List (Nat × Mat K)) : Mat K := tensorN d n (opList ops)

/-- `build_operator([(A, 'global')])`: `Σ_q A_q`. -/
def globalOp (d n : Nat) (A : Mat K) : Mat K := Mat.sumN n fun q => buildOp d n [(q, A)]

/-- Entry-wise definition of "`A` on atom `i`, identity elsewhere". -/
def embedEntry (d n i : Nat) (A : Mat K) : Mat K :=
  fun k l => if ∀ j, j < n → j ≠ i → digit d n j k = digit d n j l
    then A (digit d n i k) (digit d n i l) else 0

end Defs

/-! ## states and bases -/

inductive St | u | d | r | g | h | x
deriving DecidableEq, Repr

/-- `STATES_RANK` (pulser/channels/base_channel.py): decreasing eigen-energy. -/
def STATES_RANK : List St := [.u, .d, .r, .g, .h, .x]

inductive Basis | groundRydberg | digital | XY
deriving DecidableEq, Repr

/-- `EIGENSTATES`. -/
def EIGENSTATES : Basis → List St
  | .groundRydberg => [.r, .g]
  | .digital => [.g, .h]
  | .XY => [.u, .d]

/-- `SequenceSamples.eigenbasis` + `Hamiltonian._get_eigenbasis` (no leakage state):
the states of the used bases (of the default basis when none is used) in `STATES_RANK` order. -/
def eigenbasisOf (used : List Basis) (inXY : Bool) : List St :=
  let bases := if used.isEmpty then [if inXY then Basis.XY else Basis.groundRydberg] else used
  STATES_RANK.filter fun s => bases.any fun b => (EIGENSTATES b).contains s

/-- `op_ids` of `build_coeffs_ops`: `(a, b)` such that the amplitude coefficient sits on
`sigma_ab = |a⟩⟨b|` and the detuning coefficient on `sigma_bb`:
ground-rydberg `sigma_gr, sigma_rr`; digital `sigma_hg, sigma_gg`; XY `sigma_du, sigma_uu`. -/
def Basis.a : Basis → St
  | .groundRydberg => .g
  | .digital => .h
  | .XY => .d

def Basis.b : Basis → St
  | .groundRydberg => .r
  | .digital => .g
  | .XY => .u

section Ham
variable {K : Type} [Add K] [Mul K] [Neg K] [Zero K] [One K] [HasConj K]

/-- `op_matrix["sigma_pq"] = basis[p] * basis[q].dag()` with `basis[b] = qutip.basis(dim, i)`
for `i, b in enumerate(eigenbasis)`: a one at (row of `p`, column of `q`). -/
def sigma (eb : List St) (p q : St) : Mat K :=
  fun i j => if eb[i]? = some p ∧ eb[j]? = some q then 1 else 0

/-- The three sampled numbers of one entry of the samples dictionary at one time. -/
structure Drive (K : Type) where
  amp : K
  det : K
  /-- `exp(-1j * phase)` -/
  eip : K

/-- Everything `_construct_hamiltonian` uses at one sample time. -/
structure HamIn (K : Type) where
  n : Nat
  eb : List St
  /-- interaction type: `true` = "XY", `false` = "ising" -/
  xy : Bool
  /-- the scalar 0.5 -/
  half : K
  /-- `samples["Global"][basis]` at this time -/
  glob : Basis → Drive K
  /-- `samples["Local"][basis][q]` at this time -/
  loc : Basis → Nat → Drive K
  /-- pair coefficient for `q1 < q2`: `C6 / R^6` (Ising) or `C3 (1 - 3 cos²θ) / R^3` (XY) -/
  U : Nat → Nat → K
  /-- SLM mask targets -/
  mask : Nat → Bool
  /-- the mask is on at this time (XY mode only) -/
  maskOn : Bool

def HamIn.d (c : HamIn K) : Nat := c.eb.length

def bases : List Basis := [.groundRydberg, .digital, .XY]

/-- `make_vdw_term`: `U = 0.5 * C6 / dist**6`; `U * build_operator([("sigma_rr", [q1, q2])])`. -/
def vdwTerm (c : HamIn K) (q1 q2 : Nat) : Mat K :=
  Mat.smul (c.half * c.U q1 q2)
    (buildOp c.d c.n [(q1, sigma c.eb .r .r), (q2, sigma c.eb .r .r)])

/-- `make_xy_term`: `U * build_operator([("sigma_ud", [q1]), ("sigma_du", [q2])])` (no 0.5: the
hermitian conjugate added at the end supplies the other half of the exchange). -/
def xyTerm (c : HamIn K) (q1 q2 : Nat) : Mat K :=
  Mat.smul (c.U q1 q2)
    (buildOp c.d c.n [(q1, sigma c.eb .u .d), (q2, sigma c.eb .d .u)])

/-- `make_interaction_term(masked)`: pairs with a masked atom are skipped in XY mode.
(With fewer than two unmasked atoms python returns `0 * I`; the pair sum is then empty.) -/
def interactionTerm (c : HamIn K) (masked : Bool) : Mat K :=
  Mat.sumPairs c.n fun q1 q2 =>
    if c.xy then
      (if masked && (c.mask q1 || c.mask q2) then Mat.zero else xyTerm c q1 q2)
    else vdwTerm c q1 q2

/-- The interaction part of `qobj_list`: present unless the basis is "digital"; in XY mode with
an SLM mask the two terms carry 0/1 indicator coefficients, so at a sample time exactly one of
them is present. -/
def interaction (c : HamIn K) : Mat K :=
  if c.xy || c.eb.contains .r then interactionTerm c c.maskOn else Mat.zero

/-- `coeffs = [0.5 * amp * exp(-1j * phase), -0.5 * det]`. -/
def coeffAmp (c : HamIn K) (dr : Drive K) : K := c.half * dr.amp * dr.eip
def coeffDet (c : HamIn K) (dr : Drive K) : K := -(c.half) * dr.det

/-- `build_coeffs_ops(basis, "Global")`: the two global operators with their coefficients
(python drops a term whose coefficient array is identically zero). -/
def globalTerms (c : HamIn K) (β : Basis) : Mat K :=
  Mat.add
    (Mat.smul (coeffAmp c (c.glob β)) (globalOp c.d c.n (sigma c.eb β.a β.b)))
    (Mat.smul (coeffDet c (c.glob β)) (globalOp c.d c.n (sigma c.eb β.b β.b)))

/-- `build_coeffs_ops(basis, "Local")`. -/
def localTerms (c : HamIn K) (β : Basis) : Mat K :=
  Mat.sumN c.n fun q =>
    Mat.add
      (Mat.smul (coeffAmp c (c.loc β q)) (buildOp c.d c.n [(q, sigma c.eb β.a β.b)]))
      (Mat.smul (coeffDet c (c.loc β q)) (buildOp c.d c.n [(q, sigma c.eb β.b β.b)]))

def driveTerms (c : HamIn K) (β : Basis) : Mat K := Mat.add (globalTerms c β) (localTerms c β)

/-- The `QobjEvo(qobj_list)` evaluated at the sample time (before `+ dag`). -/
def hamHalf (c : HamIn K) : Mat K :=
  Mat.add (interaction c)
    (Mat.add (driveTerms c .groundRydberg) (Mat.add (driveTerms c .digital) (driveTerms c .XY)))

/-- `ham = ham + ham.dag()`. -/
def H_code (c : HamIn K) : Mat K := Mat.add (hamHalf c) (Mat.dagger (hamHalf c))

/-! ## the documented formula, entry-wise over configurations -/

/-- The configurations agree on every atom not listed in `ex`. -/
def agreeOff (n : Nat) (ex : List Nat) (s t : Nat → Nat) : Prop :=
  ∀ j, j < n → j ∉ ex → s j = t j

instance (n : Nat) (ex : List Nat) (s t : Nat → Nat) : Decidable (agreeOff n ex s t) :=
  inferInstanceAs (Decidable (∀ j, j < n → j ∉ ex → s j = t j))

/-- Local level number `k` is the state `p`. -/
def isSt (eb : List St) (k : Nat) (p : St) : Prop := eb[k]? = some p

instance (eb : List St) (k : Nat) (p : St) : Decidable (isSt eb k p) :=
  inferInstanceAs (Decidable (eb[k]? = some p))

/-- `Ω_i/2 e^{-iφ_i}` of the statement: everything that drives atom `i` on basis `β`. -/
def totalAmp (c : HamIn K) (β : Basis) (i : Nat) : K :=
  c.half * (c.glob β).amp * (c.glob β).eip + c.half * (c.loc β i).amp * (c.loc β i).eip

/-- `δ_i` of the statement. -/
def totalDet (c : HamIn K) (β : Basis) (i : Nat) : K := (c.glob β).det + (c.loc β i).det

/-- `⟨s| Ω/2 (e^{-iφ} |a⟩⟨b|_i + h.c.) − δ |b⟩⟨b|_i |t⟩`. -/
def docDrive (c : HamIn K) (β : Basis) (i : Nat) (s t : Nat → Nat) : K :=
  if agreeOff c.n [i] s t then
    (if isSt c.eb (s i) β.a ∧ isSt c.eb (t i) β.b then totalAmp c β i else 0)
    + ((if isSt c.eb (s i) β.b ∧ isSt c.eb (t i) β.a then conj (totalAmp c β i) else 0)
    + (if isSt c.eb (s i) β.b ∧ isSt c.eb (t i) β.b then -(totalDet c β i) else 0))
  else 0

/-- `⟨s| U n_i n_j |t⟩` with `n = |r⟩⟨r|`: both atoms in `r` on both sides, the other atoms
unchanged (with distinct levels this is a diagonal entry, `Properties/C05.lean: vdw_diagonal`). -/
def docVdw (c : HamIn K) (i j : Nat) (s t : Nat → Nat) : K :=
  if agreeOff c.n [i, j] s t
      ∧ (isSt c.eb (s i) .r ∧ isSt c.eb (t i) .r) ∧ (isSt c.eb (s j) .r ∧ isSt c.eb (t j) .r)
    then c.U i j else 0

/-- `⟨s| U (|u⟩⟨d|_i |d⟩⟨u|_j + h.c.) |t⟩`: the exchange term only connects `|..u_i..d_j..⟩`
with `|..d_i..u_j..⟩`. -/
def docXY (c : HamIn K) (i j : Nat) (s t : Nat → Nat) : K :=
  if agreeOff c.n [i, j] s t then
    (if isSt c.eb (s i) .u ∧ isSt c.eb (t i) .d ∧ isSt c.eb (s j) .d ∧ isSt c.eb (t j) .u
      then c.U i j else 0)
    + (if isSt c.eb (s i) .d ∧ isSt c.eb (t i) .u ∧ isSt c.eb (s j) .u ∧ isSt c.eb (t j) .d
      then c.U i j else 0)
  else 0

def docPair (c : HamIn K) (i j : Nat) (s t : Nat → Nat) : K :=
  if c.xy then
    (if c.maskOn && (c.mask i || c.mask j) then 0 else docXY c i j s t)
  else docVdw c i j s t

/-- The documented Hamiltonian between configurations `s` and `t`. -/
def H_docC (c : HamIn K) (s t : Nat → Nat) : K :=
  sumPairs c.n (fun i j => docPair c i j s t)
  + (sumN c.n (fun i => docDrive c .groundRydberg i s t)
    + (sumN c.n (fun i => docDrive c .digital i s t)
      + sumN c.n (fun i => docDrive c .XY i s t)))

/-- … between basis states number `k` and `l` (register tensor order). -/
def H_doc (c : HamIn K) : Mat K :=
  fun k l => H_docC c (fun j => digit c.d c.n j k) (fun j => digit c.d c.n j l)

end Ham

end Ham
end Pulser
