import Proofs.Duration
import Proofs.Timeline
import Proofs.Limits
import Proofs.SeqInv
import Proofs.Layout
import Proofs.Geometry
import Proofs.Atomic
import Proofs.Protocol
