import Proofs.Duration
import Proofs.Timeline
import Proofs.SeqInv
