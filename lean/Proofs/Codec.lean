/-
  Proofs.Codec — helper lemmas for C17 (record codec with optional-field elision).
  The property theorems themselves are in Properties/C17.lean.
-/
import PulserModel.Codec
namespace Pulser
namespace Codec

/-! ### Records -/

theorem Record.get?_nil (k : String) : Record.get? [] k = none := rfl

theorem Record.get?_cons (k' : String) (v : Value) (rest : Record) (k : String) :
    Record.get? ((k', v) :: rest) k = if k' = k then some v else Record.get? rest k := rfl

theorem Record.get?_none_of_not_mem {r : Record} {k : String} (h : k ∉ r.keys) :
    r.get? k = none := by
  induction r with
  | nil => rfl
  | cons a rest ih =>
    obtain ⟨k', v⟩ := a
    simp only [Record.keys, List.map_cons, List.mem_cons, not_or] at h
    rw [Record.get?_cons, if_neg (fun e => h.1 e.symm)]
    exact ih h.2

theorem Record.mem_keys_of_get? {r : Record} {k : String} {v : Value} (h : r.get? k = some v) :
    (k, v) ∈ r := by
  induction r with
  | nil => simp [Record.get?] at h
  | cons a rest ih =>
    obtain ⟨k', v'⟩ := a
    rw [Record.get?_cons] at h
    by_cases e : k' = k
    · rw [if_pos e] at h
      cases h; subst e; exact List.mem_cons_self
    · rw [if_neg e] at h
      exact List.mem_cons_of_mem _ (ih h)

theorem Record.get?_of_mem_nodup {r : Record} (hn : r.keys.Nodup) {k : String} {v : Value}
    (h : (k, v) ∈ r) : r.get? k = some v := by
  induction r with
  | nil => cases h
  | cons a rest ih =>
    obtain ⟨k', v'⟩ := a
    simp only [Record.keys, List.map_cons, List.nodup_cons] at hn
    rw [Record.get?_cons]
    rcases List.mem_cons.mp h with h | h
    · cases h; simp
    · have hk : k ∈ Record.keys rest := List.mem_map.mpr ⟨(k, v), h, rfl⟩
      have : k' ≠ k := fun e => hn.1 (e ▸ hk)
      rw [if_neg this]
      exact ih hn.2 h

theorem Record.get?_append (a b : Record) (k : String) :
    Record.get? (a ++ b) k = match Record.get? a k with
      | some v => some v
      | none => Record.get? b k := by
  induction a with
  | nil => rfl
  | cons x rest ih =>
    obtain ⟨k', v⟩ := x
    simp only [List.cons_append, Record.get?_cons]
    by_cases e : k' = k
    · simp [e]
    · simp only [if_neg e]; exact ih

/-- Looking a key up in a filtered and mapped record. -/
theorem Record.get?_filter_map {r : Record} (hn : r.keys.Nodup) (p : String × Value → Bool)
    (g : String → Value → Value) {k : String} {v : Value} (h : (k, v) ∈ r) :
    Record.get? ((r.filter p).map (fun kv => (kv.1, g kv.1 kv.2))) k =
      if p (k, v) then some (g k v) else none := by
  induction r with
  | nil => cases h
  | cons a rest ih =>
    obtain ⟨k', v'⟩ := a
    simp only [Record.keys, List.map_cons, List.nodup_cons] at hn
    rcases List.mem_cons.mp h with h | h
    · cases h
      have hnot : k ∉ Record.keys ((rest.filter p).map (fun kv => (kv.1, g kv.1 kv.2))) := by
        intro hm
        simp only [Record.keys, List.map_map, List.mem_map, List.mem_filter] at hm
        obtain ⟨kv, ⟨hkv, _⟩, hk⟩ := hm
        exact hn.1 (List.mem_map.mpr ⟨kv, hkv, hk⟩)
      by_cases hp : p (k, v) = true
      · simp [hp, Record.get?_cons]
      · simp only [List.filter_cons, hp]
        simp only [Bool.false_eq_true, if_false]
        exact Record.get?_none_of_not_mem hnot
    · have hk : k ∈ Record.keys rest := List.mem_map.mpr ⟨(k, v), h, rfl⟩
      have hne : k' ≠ k := fun e => hn.1 (e ▸ hk)
      by_cases hp : p (k', v') = true
      · simp only [List.filter_cons, hp, if_true, List.map_cons, Record.get?_cons, if_neg hne]
        exact ih hn.2 h
      · simp only [List.filter_cons, hp]
        simp only [Bool.false_eq_true, if_false]
        exact ih hn.2 h

theorem Record.keys_filter_map_subset (r : Record) (p : String × Value → Bool)
    (g : String → Value → Value) :
    ∀ k ∈ Record.keys ((r.filter p).map (fun kv => (kv.1, g kv.1 kv.2))), k ∈ r.keys := by
  intro k hk
  simp only [Record.keys, List.map_map, List.mem_map, List.mem_filter] at hk ⊢
  obtain ⟨kv, ⟨hkv, _⟩, e⟩ := hk
  exact ⟨kv, hkv, e⟩

/-! ### mapOpt -/

theorem mapOpt_eq_some {α β : Type} (f : α → Option β) :
    ∀ (as : List α) (bs : List β), as.length = bs.length →
      (∀ i (h1 : i < as.length) (h2 : i < bs.length), f as[i] = some bs[i]) →
      mapOpt f as = some bs
  | [], [], _, _ => rfl
  | a :: as, b :: bs, hl, h => by
    have h0 := h 0 (by simp) (by simp)
    simp only [List.getElem_cons_zero] at h0
    have ih := mapOpt_eq_some f as bs (by simpa using hl) (fun i h1 h2 => by
      have := h (i + 1) (by simpa using h1) (by simpa using h2)
      simpa using this)
    simp [mapOpt, h0, ih]
  | [], _ :: _, hl, _ => by simp at hl
  | _ :: _, [], hl, _ => by simp at hl

theorem mapOpt_map_of_forall {α : Type} (enc : α → α) (dec : α → Option α) :
    ∀ (xs : List α), (∀ x ∈ xs, dec (enc x) = some x) → mapOpt dec (xs.map enc) = some xs
  | [], _ => rfl
  | x :: xs, h => by
    have h0 := h x List.mem_cons_self
    have ih := mapOpt_map_of_forall enc dec xs (fun y hy => h y (List.mem_cons_of_mem _ hy))
    simp [mapOpt, h0, ih]

/-! ### Reading the decidable side condition -/

theorem find?_name_of_mem {fs : FieldSpec} :
    ∀ (l : List FieldSpec), (l.map (·.name)).Nodup → fs ∈ l →
      l.find? (fun x => decide (x.name = fs.name)) = some fs
  | [], _, h => by cases h
  | a :: rest, hn, h => by
    simp only [List.map_cons, List.nodup_cons] at hn
    rcases List.mem_cons.mp h with h | h
    · subst h; simp
    · have hm : fs.name ∈ rest.map (·.name) := List.mem_map.mpr ⟨fs, h, rfl⟩
      have : a.name ≠ fs.name := fun e => hn.1 (e ▸ hm)
      simp only [List.find?_cons, this, decide_false]
      exact find?_name_of_mem rest hn.2 h

theorem Tables.spec?_of_mem {T : Tables} (hn : T.names.Nodup) {fs : FieldSpec} (h : fs ∈ T.fields) :
    T.spec? fs.name = some fs :=
  find?_name_of_mem T.fields hn h

theorem Tables.dfltOf_of_mem {T : Tables} (hn : T.names.Nodup) {fs : FieldSpec} (h : fs ∈ T.fields) :
    T.dfltOf fs.name = fs.dflt := by
  unfold Tables.dfltOf; rw [Tables.spec?_of_mem hn h]

/-- The components of `tablesOk` as propositions. -/
structure TablesFacts (T : Tables) (ex : List String) : Prop where
  nodup : T.names.Nodup
  constsDisjoint : ∀ kv ∈ T.consts, kv.1 ∉ T.names
  optional : ∀ f ∈ T.optional, f ∈ ex ∨ optionalOk T f = true
  nonInit : ∀ fs ∈ T.fields, fs.init = false → fs.dflt.isSome = true
  skip : ∀ fs ∈ T.fields, fs.init = true → T.encSkip.contains fs.name = true →
    (T.decDefaultOf fs.name).isSome = true
  required : ∀ fs ∈ T.fields, fs.init = true → T.encSkip.contains fs.name = false →
    (T.decDefaultOf fs.name).isSome = false → T.optional.contains fs.name = false
  emitted : ∀ k ∈ T.emittedKeys, k ∈ T.schemaProps
  schemaReq : ∀ k ∈ T.schemaRequired, k ∈ T.alwaysKeys

theorem tablesFacts {T : Tables} {ex : List String} (h : TablesOk T ex) : TablesFacts T ex := by
  unfold TablesOk tablesOk at h
  simp only [Bool.and_eq_true, decide_eq_true_eq, List.all_eq_true, Bool.or_eq_true,
    Bool.not_eq_true', List.contains_iff_mem] at h
  obtain ⟨⟨⟨⟨⟨⟨⟨⟨⟨h1, h2⟩, h3⟩, _h4⟩, h5⟩, h6⟩, _h7⟩, h8⟩, h9⟩, h10⟩ := h
  refine ⟨h1, ?_, ?_, ?_, ?_, ?_, ?_, ?_⟩
  · intro kv hkv hm
    have := h2 kv hkv
    simp at this
    exact this hm
  · intro f hf
    exact h3 f hf
  · intro fs hfs hi
    rcases h5 fs hfs with h | h
    · rw [hi] at h; cases h
    · exact h
  · intro fs hfs hi hs
    have hs' : fs.name ∈ T.encSkip := by simpa [List.contains_iff_mem] using hs
    have := h6 fs.name hs'
    rw [Tables.spec?_of_mem h1 hfs] at this
    simp only [Bool.or_eq_true, Bool.not_eq_true'] at this
    rcases this with h | h
    · rw [hi] at h; cases h
    · exact h
  · intro fs hfs hi hs hd
    have := h8 fs hfs
    rcases this with ((h | h) | h) | h
    · rw [hi] at h; cases h
    · have : T.encSkip.contains fs.name = true := by simpa [List.contains_iff_mem] using h
      rw [hs] at this; cases this
    · rw [hd] at h; cases h
    · simpa [List.contains_iff_mem] using h
  · intro k hk
    exact h9 k hk
  · intro k hk
    exact h10 k hk

/-! ### The round trip of one record -/

theorem consts_get?_none {T : Tables} {ex : List String} (F : TablesFacts T ex) {k : String}
    (hk : k ∈ T.names) : Record.get? T.consts k = none := by
  apply Record.get?_none_of_not_mem
  intro hm
  obtain ⟨kv, hkv, e⟩ := List.mem_map.mp hm
  exact F.constsDisjoint kv hkv (e ▸ hk)

/-- What the decoder finds under the key of a field in an encoding. -/
theorem encode_get? {T : Tables} {ex : List String} (sub : String → Sub) {r : Record}
    (F : TablesFacts T ex) (W : WellTyped T r) {k : String} {v : Value} (h : (k, v) ∈ r) :
    Record.get? (encode T sub r) k = if kept T (k, v) then some ((sub k).enc v) else none := by
  have hk : k ∈ T.names := by
    rw [← W.keys]; exact List.mem_map.mpr ⟨(k, v), h, rfl⟩
  have hn : r.keys.Nodup := by rw [W.keys]; exact F.nodup
  unfold encode
  rw [Record.get?_append, consts_get?_none F hk]
  exact Record.get?_filter_map hn (kept T) (fun k v => (sub k).enc v) h

theorem decodeField_encode {T : Tables} {ex : List String} (sub : String → Sub) {r : Record}
    (F : TablesFacts T ex) (W : WellTyped T r) (A : AvoidsExempt T ex r) (S : SubOk sub r)
    {fs : FieldSpec} (hfs : fs ∈ T.fields) {v : Value} (h : (fs.name, v) ∈ r) :
    decodeField T sub (encode T sub r) fs = some (fs.name, v) := by
  have hn : r.keys.Nodup := by rw [W.keys]; exact F.nodup
  have hget : r.get? fs.name = some v := Record.get?_of_mem_nodup hn h
  unfold decodeField
  by_cases hi : fs.init = false
  · rw [if_pos hi]
    have := W.nonInit fs hfs hi
    rw [hget] at this
    rw [← this]; rfl
  · rw [if_neg hi]
    have hi' : fs.init = true := by cases hfi : fs.init <;> simp_all
    rw [encode_get? sub F W h]
    by_cases hk : kept T (fs.name, v) = true
    · rw [if_pos hk]
      have := S (fs.name, v) h
      unfold Sub.Good at this
      simp only at this
      simp [this]
    · rw [if_neg hk]
      simp only
      -- not kept: skipped by the encoder, or elided at its default
      unfold kept at hk
      simp only [Bool.and_eq_true, Bool.not_eq_true', not_and, Bool.not_eq_false] at hk
      by_cases hs : T.encSkip.contains fs.name = true
      · have := W.skipped fs hfs hi' hs
        rw [hget] at this
        rw [← this]; rfl
      · have hs' : T.encSkip.contains fs.name = false := by
          cases hc : T.encSkip.contains fs.name <;> simp_all
        have hel : elided T (fs.name, v) = true := hk hs'
        have hel' := hel
        unfold elided at hel
        simp only [Bool.and_eq_true, beq_iff_eq, List.contains_iff_mem] at hel
        obtain ⟨hopt, hd⟩ := hel
        rcases F.optional fs.name hopt with hex | hok
        · have := A (fs.name, v) h (by simpa [List.contains_iff_mem] using hex)
          rw [hel'] at this; cases this
        · unfold optionalOk at hok
          rw [Tables.spec?_of_mem F.nodup hfs] at hok
          simp only [Bool.and_eq_true, beq_iff_eq] at hok
          rw [hok.2, hd]; rfl

/-- **Round trip of a flat record with nested codecs.** -/
theorem roundtrip {T : Tables} {ex : List String} (sub : String → Sub) {r : Record}
    (hT : TablesOk T ex) (W : WellTyped T r) (A : AvoidsExempt T ex r) (S : SubOk sub r) :
    decode T sub (encode T sub r) = some r := by
  have F := tablesFacts hT
  unfold decode
  have hlen : T.fields.length = r.length := by
    have := congrArg List.length W.keys
    simpa [Record.keys, Tables.names] using this.symm
  apply mapOpt_eq_some _ _ _ hlen
  intro i h1 h2
  have hname : (r[i]'h2).1 = (T.fields[i]'h1).name := by
    have h3 : i < r.keys.length := by simpa [Record.keys] using h2
    have := List.getElem_of_eq W.keys h3
    simpa [Record.keys, Tables.names] using this
  have hmem : ((T.fields[i]'h1).name, (r[i]'h2).2) ∈ r := by
    rw [← hname]; exact List.getElem_mem h2
  have := decodeField_encode sub F W A S (List.getElem_mem h1) hmem
  rw [this, ← hname]

/-! ### Key sets of an encoding (schema clause, key level) -/

theorem encode_keys_subset {T : Tables} (sub : String → Sub) {r : Record} (W : WellTyped T r) :
    ∀ k ∈ (encode T sub r).keys, k ∈ T.emittedKeys := by
  intro k hk
  unfold encode at hk
  simp only [Record.keys, List.map_append, List.mem_append] at hk
  unfold Tables.emittedKeys
  rcases hk with hk | hk
  · exact List.mem_append_left _ hk
  · apply List.mem_append_right
    simp only [List.map_map, List.mem_map, List.mem_filter] at hk
    obtain ⟨kv, ⟨hkv, hkept⟩, e⟩ := hk
    simp only [Function.comp] at e
    subst e
    rw [List.mem_filter]
    refine ⟨?_, ?_⟩
    · rw [← W.keys]; exact List.mem_map.mpr ⟨kv, hkv, rfl⟩
    · unfold kept at hkept
      simp only [Bool.and_eq_true] at hkept
      exact hkept.1

theorem always_subset_encode_keys {T : Tables} (sub : String → Sub) {r : Record} (W : WellTyped T r) :
    ∀ k ∈ T.alwaysKeys, k ∈ (encode T sub r).keys := by
  intro k hk
  unfold Tables.alwaysKeys at hk
  unfold encode
  simp only [Record.keys, List.map_append, List.mem_append]
  rcases List.mem_append.mp hk with hk | hk
  · exact Or.inl hk
  · right
    rw [List.mem_filter] at hk
    obtain ⟨hn, hc⟩ := hk
    simp only [Bool.and_eq_true, Bool.not_eq_true'] at hc
    rw [← W.keys] at hn
    obtain ⟨kv, hkv, e⟩ := List.mem_map.mp hn
    simp only [List.map_map, List.mem_map, List.mem_filter]
    refine ⟨kv, ⟨hkv, ?_⟩, e⟩
    unfold kept elided
    rw [e, hc.1, hc.2]
    rfl

/-! ### Nested codecs -/

theorem Sub.id_good (v : Value) : Sub.id.Good v := rfl

theorem subOk_id (r : Record) : SubOk (fun _ => Sub.id) r := fun kv _ => Sub.id_good kv.2

theorem recSub_good {T : Tables} {ex : List String} {sub : String → Sub} {r : Record}
    (hT : TablesOk T ex) (W : WellTyped T r) (A : AvoidsExempt T ex r) (S : SubOk sub r) :
    (recSub T sub).Good (.obj r) := by
  unfold Sub.Good recSub
  simp only
  rw [roundtrip sub hT W A S]; rfl

theorem optSub_null_good (s : Sub) : (optSub s).Good .null := rfl

theorem optSub_good {s : Sub} {v : Value} (hv : v ≠ .null) (he : s.enc v ≠ .null) (hg : s.Good v) :
    (optSub s).Good v := by
  unfold Sub.Good at *
  have e1 : (optSub s).enc v = s.enc v := by
    cases v <;> first | exact absurd rfl hv | rfl
  have e2 : ∀ w, w ≠ .null → (optSub s).dec w = s.dec w := by
    intro w hw; cases w <;> first | exact absurd rfl hw | rfl
  rw [e1, e2 _ he]; exact hg

theorem listSub_good {s : Sub} {xs : List Value} (h : ∀ x ∈ xs, s.Good x) :
    (listSub s).Good (.list xs) := by
  unfold Sub.Good listSub
  simp only
  rw [mapOpt_map_of_forall s.enc s.dec xs h]; rfl

theorem recSub_enc_ne_null (T : Tables) (sub : String → Sub) (r : Record) :
    (recSub T sub).enc (.obj r) ≠ .null := by
  unfold recSub; simp

/-! ### Channel dispatch -/

theorem Record.has_iff_mem_keys (r : Record) (k : String) : r.has k = true ↔ k ∈ r.keys := by
  unfold Record.has
  constructor
  · intro h
    cases hg : r.get? k with
    | none => rw [hg] at h; cases h
    | some v => exact List.mem_map.mpr ⟨(k, v), Record.mem_keys_of_get? hg, rfl⟩
  · intro h
    cases hg : r.get? k with
    | some v => rfl
    | none =>
      exfalso
      induction r with
      | nil => cases h
      | cons a rest ih =>
        obtain ⟨k', v'⟩ := a
        rw [Record.get?_cons] at hg
        by_cases e : k' = k
        · rw [if_pos e] at hg; cases hg
        · rw [if_neg e] at hg
          simp only [Record.keys, List.map_cons, List.mem_cons] at h
          rcases h with h | h
          · exact e h.symm
          · exact ih h hg

theorem encode_get?_const {T : Tables} (sub : String → Sub) (r : Record) {k : String} {c : Value}
    (h : Record.get? T.consts k = some c) : Record.get? (encode T sub r) k = some c := by
  unfold encode
  rw [Record.get?_append, h]

theorem dispatch_encode {T : Tables} (sub : String → Sub) {r : Record} (W : WellTyped T r)
    {b : String} (hb : T.basis? = some b) :
    ∀ (rules : List DispatchRule), dispatchOkFor T b rules = true →
      dispatchClass rules (encode T sub r) = some T.cls := by
  have hbasis : Record.get? (encode T sub r) "basis" = some (.str b) := by
    apply encode_get?_const
    unfold Tables.basis? at hb
    cases hc : Record.get? T.consts "basis" with
    | none => rw [hc] at hb; cases hb
    | some c =>
      rw [hc] at hb
      cases c <;> simp at hb
      rw [hb]
  intro rules
  unfold dispatchClass
  rw [hbasis]
  simp only
  induction rules with
  | nil => intro h; simp [dispatchOkFor] at h
  | cons ru rest ih =>
    intro h
    unfold dispatchOkFor at h
    by_cases hbe : ru.basis = b
    · rw [if_pos hbe] at h
      cases hk : ru.key with
      | none =>
        rw [hk] at h
        simp only [decide_eq_true_eq] at h
        simp [hbe, hk, h]
      | some k =>
        rw [hk] at h
        simp only at h
        by_cases ha : T.alwaysKeys.contains k = true
        · rw [if_pos ha] at h
          simp only [decide_eq_true_eq] at h
          have hhas : (encode T sub r).has k = true :=
            (Record.has_iff_mem_keys _ _).mpr
              (always_subset_encode_keys sub W k (by simpa [List.contains_iff_mem] using ha))
          simp [hbe, hk, hhas, h]
        · rw [if_neg ha] at h
          simp only [Bool.and_eq_true, Bool.not_eq_true'] at h
          have hhas : (encode T sub r).has k = false := by
            cases hh : (encode T sub r).has k with
            | false => rfl
            | true =>
              have := encode_keys_subset sub W k ((Record.has_iff_mem_keys _ _).mp hh)
              have hc : T.emittedKeys.contains k = true := by simpa [List.contains_iff_mem] using this
              rw [h.1] at hc; cases hc
          have := ih h.2
          simp only [List.find?_cons, hbe, hk, hhas, decide_true, Bool.and_false]
          exact this
    · rw [if_neg hbe] at h
      have := ih h
      simp only [List.find?_cons, hbe, decide_false, Bool.false_and]
      exact this

/-- What a channel record must look like: well typed for its class, `eom_config` empty or a
well-typed EOM record. -/
structure ChannelRecOk (C : ChannelTables) (T : Tables) (r : Record) : Prop where
  wt : WellTyped T r
  eom : ∀ v, ("eom_config", v) ∈ r → v = .null ∨ ∃ e, v = .obj e ∧ WellTyped C.eom e

structure ChannelFacts (C : ChannelTables) : Prop where
  classes : ∀ T ∈ C.classes, TablesOk T [] ∧ (∃ b, T.basis? = some b ∧ dispatchOkFor T b C.dispatch = true)
    ∧ C.find? T.cls = some T
  eom : TablesOk C.eom []

theorem channelFacts {C : ChannelTables} (h : channelTablesOk C = true) : ChannelFacts C := by
  unfold channelTablesOk at h
  simp only [Bool.and_eq_true, List.all_eq_true, decide_eq_true_eq, beq_iff_eq] at h
  obtain ⟨⟨h1, h2⟩, h3⟩ := h
  refine ⟨?_, h3⟩
  intro T hT
  obtain ⟨⟨ha, hb⟩, hc⟩ := h1 T hT
  refine ⟨ha, ?_, ?_⟩
  · cases hbb : T.basis? with
    | none => rw [hbb] at hb; cases hb
    | some b => rw [hbb] at hb; exact ⟨b, rfl, hb⟩
  · cases hf : C.find? T.cls with
    | none => rw [hf] at hc; cases hc
    | some T' =>
      -- `find?` returns the first table with this class name; class names are unique, so it is `T`
      rw [hf] at hc
      simp only [Option.map_some, Option.some.injEq] at hc
      unfold ChannelTables.find? at hf
      have hmem := List.mem_of_find?_eq_some hf
      have hnd : (C.classes.map (·.cls)).Nodup := h2
      -- two members with the same class name are equal
      have key : ∀ (l : List Tables), (l.map (·.cls)).Nodup → ∀ a ∈ l, ∀ b ∈ l, a.cls = b.cls → a = b := by
        intro l
        induction l with
        | nil => intro _ a ha; cases ha
        | cons x rest ih =>
          intro hn a ha b hb e
          simp only [List.map_cons, List.nodup_cons] at hn
          rcases List.mem_cons.mp ha with ha | ha
          · rcases List.mem_cons.mp hb with hb | hb
            · rw [ha, hb]
            · have : x.cls ∈ rest.map (·.cls) := List.mem_map.mpr ⟨b, hb, by rw [← e, ha]⟩
              exact absurd this hn.1
          · rcases List.mem_cons.mp hb with hb | hb
            · have : x.cls ∈ rest.map (·.cls) := List.mem_map.mpr ⟨a, ha, by rw [e, hb]⟩
              exact absurd this hn.1
            · exact ih hn.2 a ha b hb e
      rw [key C.classes hnd T' hmem T hT hc]

theorem chanSub_subOk {C : ChannelTables} (F : ChannelFacts C) {T : Tables} {r : Record}
    (R : ChannelRecOk C T r) : SubOk (chanSub C) r := by
  intro kv hkv
  unfold chanSub
  by_cases hk : kv.1 = "eom_config"
  · rw [if_pos hk]
    obtain ⟨k, v⟩ := kv
    simp only at hk
    subst hk
    rcases R.eom v hkv with hv | ⟨e, hv, We⟩
    · rw [hv]; exact optSub_null_good _
    · rw [hv]
      apply optSub_good (by simp) (recSub_enc_ne_null _ _ _)
      exact recSub_good F.eom We (fun _ _ h => by simp at h) (subOk_id e)
  · rw [if_neg hk]; exact Sub.id_good _

/-- **Channels round-trip** (any class, with or without EOM). -/
theorem channelSub_good {C : ChannelTables} (hC : channelTablesOk C = true) {T : Tables}
    (hT : T ∈ C.classes) {r : Record} (R : ChannelRecOk C T r) :
    (channelSub C).Good (.obj ((classKey, .str T.cls) :: r)) := by
  have F := channelFacts hC
  obtain ⟨hok, ⟨b, hb, hd⟩, hfind⟩ := F.classes T hT
  unfold Sub.Good channelSub
  simp only [if_true, hfind]
  rw [dispatch_encode (chanSub C) R.wt hb C.dispatch hd]
  simp only [hfind]
  rw [roundtrip (chanSub C) hok R.wt (fun _ _ h => by simp at h) (chanSub_subOk F R)]
  rfl

/-! ### Devices -/

/-- A list of channel records, each well formed for its class. -/
def ChannelListOk (C : ChannelTables) (v : Value) : Prop :=
  ∃ xs, v = .list xs ∧ ∀ x ∈ xs, ∃ Tc ∈ C.classes, ∃ rc,
    x = .obj ((classKey, .str Tc.cls) :: rc) ∧ ChannelRecOk C Tc rc

/-- What a device record must look like. -/
structure DeviceRecOk (D : DeviceTables) (noise : Sub) (T : Tables) (ex : List String) (r : Record) :
    Prop where
  wt : WellTyped T r
  avoid : AvoidsExempt T ex r
  channels : ∀ v, ("channels", v) ∈ r → ChannelListOk D.chans v
  dmms : ∀ v, ("dmm_objects", v) ∈ r → ChannelListOk D.chans v
  layouts : ∀ v, ("pre_calibrated_layouts", v) ∈ r →
    ∃ xs, v = .list xs ∧ ∀ x ∈ xs, ∃ l, x = .obj l ∧ WellTyped D.layout l
  noise : ∀ v, ("default_noise_model", v) ∈ r →
    v = .null ∨ (v ≠ .null ∧ noise.enc v ≠ .null ∧ noise.Good v)

structure DeviceFacts (D : DeviceTables) (exV : List String) : Prop where
  physical : TablesOk D.physical []
  virtual : TablesOk D.virtual exV
  layout : TablesOk D.layout []
  chans : channelTablesOk D.chans = true
  physConst : Record.get? D.physical.consts "is_virtual" = some (.bool false)
  virtConst : Record.get? D.virtual.consts "is_virtual" = some (.bool true)
  distinct : D.physical.cls ≠ D.virtual.cls

theorem deviceFacts {D : DeviceTables} {exV : List String} (h : deviceTablesOk D exV = true) :
    DeviceFacts D exV := by
  unfold deviceTablesOk at h
  simp only [Bool.and_eq_true, beq_iff_eq, bne_iff_ne, ne_eq] at h
  obtain ⟨⟨⟨⟨⟨⟨h1, h2⟩, h3⟩, h4⟩, h5⟩, h6⟩, h7⟩ := h
  exact ⟨h1, h2, h3, h4, h5, h6, h7⟩

theorem channelList_good {C : ChannelTables} (hC : channelTablesOk C = true) {v : Value}
    (h : ChannelListOk C v) : (listSub (channelSub C)).Good v := by
  obtain ⟨xs, rfl, hx⟩ := h
  apply listSub_good
  intro x hxm
  obtain ⟨Tc, hTc, rc, rfl, R⟩ := hx x hxm
  exact channelSub_good hC hTc R

theorem devSub_subOk {D : DeviceTables} {exV : List String} (F : DeviceFacts D exV) {noise : Sub}
    {T : Tables} {ex : List String} {r : Record} (R : DeviceRecOk D noise T ex r) :
    SubOk (devSub D noise) r := by
  intro kv hkv
  obtain ⟨k, v⟩ := kv
  unfold devSub
  simp only
  by_cases h1 : k = "channels"
  · subst h1; rw [if_pos rfl]; exact channelList_good F.chans (R.channels v hkv)
  rw [if_neg h1]
  by_cases h2 : k = "dmm_objects"
  · subst h2; rw [if_pos rfl]; exact channelList_good F.chans (R.dmms v hkv)
  rw [if_neg h2]
  by_cases h3 : k = "pre_calibrated_layouts"
  · subst h3; rw [if_pos rfl]
    obtain ⟨xs, rfl, hx⟩ := R.layouts v hkv
    apply listSub_good
    intro x hxm
    obtain ⟨l, rfl, Wl⟩ := hx x hxm
    exact recSub_good F.layout Wl (fun _ _ h => by simp at h) (subOk_id l)
  rw [if_neg h3]
  by_cases h4 : k = "default_noise_model"
  · subst h4; rw [if_pos rfl]
    rcases R.noise v hkv with hv | ⟨hv, he, hg⟩
    · rw [hv]; exact optSub_null_good _
    · exact optSub_good hv he hg
  rw [if_neg h4]
  exact Sub.id_good v

/-- **Physical devices round-trip.** -/
theorem deviceSub_good_physical {D : DeviceTables} {exV : List String}
    (hD : deviceTablesOk D exV = true) (noise : Sub) {r : Record}
    (R : DeviceRecOk D noise D.physical [] r) :
    (deviceSub D noise).Good (.obj ((classKey, .str D.physical.cls) :: r)) := by
  have F := deviceFacts hD
  unfold Sub.Good deviceSub
  simp only [if_true, if_neg F.distinct]
  rw [encode_get?_const (devSub D noise) r F.physConst]
  simp only
  rw [roundtrip (devSub D noise) F.physical R.wt R.avoid (devSub_subOk F R)]
  rfl

/-- **Virtual devices round-trip** (outside the exempt fields' elided values). -/
theorem deviceSub_good_virtual {D : DeviceTables} {exV : List String}
    (hD : deviceTablesOk D exV = true) (noise : Sub) {r : Record}
    (R : DeviceRecOk D noise D.virtual exV r) :
    (deviceSub D noise).Good (.obj ((classKey, .str D.virtual.cls) :: r)) := by
  have F := deviceFacts hD
  unfold Sub.Good deviceSub
  simp only [if_true]
  rw [encode_get?_const (devSub D noise) r F.virtConst]
  simp only
  rw [roundtrip (devSub D noise) F.virtual R.wt R.avoid (devSub_subOk F R)]
  rfl

/-! ### Noise model: active types ⇔ parameters set -/

theorem mem_insertSorted (s x : String) : ∀ (l : List String), x ∈ insertSorted s l ↔ x = s ∨ x ∈ l
  | [] => by simp [insertSorted]
  | y :: ys => by
    unfold insertSorted
    by_cases h1 : s < y
    · simp [h1]
    · by_cases h2 : s = y
      · subst h2; simp [h1]
      · simp only [h1, h2, if_false, List.mem_cons, mem_insertSorted s x ys]
        constructor
        · rintro (h | h | h)
          · exact Or.inr (Or.inl h)
          · exact Or.inl h
          · exact Or.inr (Or.inr h)
        · rintro (h | h | h)
          · exact Or.inr (Or.inl h)
          · exact Or.inl h
          · exact Or.inr (Or.inr h)

/-- A type is active iff some argument that maps to it is truthy. -/
theorem mem_activeTypes (N : NoiseTables) (t : String) : ∀ (args : Record),
    t ∈ activeTypes N args ↔
      ∃ kv ∈ args, kv.2.truthy = true ∧ lookupStr N.paramType kv.1 = some t
  | [] => by simp [activeTypes]
  | kv :: rest => by
    have ih := mem_activeTypes N t rest
    unfold activeTypes at ih ⊢
    simp only [List.foldr_cons]
    by_cases htr : kv.2.truthy = true
    · simp only [htr, if_true]
      cases hl : lookupStr N.paramType kv.1 with
      | none =>
        simp only
        rw [ih]
        constructor
        · rintro ⟨kv', hm, h⟩; exact ⟨kv', List.mem_cons_of_mem _ hm, h⟩
        · rintro ⟨kv', hm, h1, h2⟩
          rcases List.mem_cons.mp hm with e | hm
          · subst e; rw [hl] at h2; cases h2
          · exact ⟨kv', hm, h1, h2⟩
      | some t' =>
        simp only
        rw [mem_insertSorted, ih]
        constructor
        · rintro (e | ⟨kv', hm, h⟩)
          · exact ⟨kv, List.mem_cons_self, htr, by rw [hl, e]⟩
          · exact ⟨kv', List.mem_cons_of_mem _ hm, h⟩
        · rintro ⟨kv', hm, h1, h2⟩
          rcases List.mem_cons.mp hm with e | hm
          · subst e; rw [hl] at h2; cases h2; exact Or.inl rfl
          · exact Or.inr ⟨kv', hm, h1, h2⟩
    · simp only [htr]
      simp only [Bool.false_eq_true, if_false]
      rw [ih]
      constructor
      · rintro ⟨kv', hm, h⟩; exact ⟨kv', List.mem_cons_of_mem _ hm, h⟩
      · rintro ⟨kv', hm, h1, h2⟩
        rcases List.mem_cons.mp hm with e | hm
        · subst e; exact absurd h1 htr
        · exact ⟨kv', hm, h1, h2⟩

theorem lookupStr_mem {l : List (String × String)} {k v : String} (h : lookupStr l k = some v) :
    (k, v) ∈ l := by
  induction l with
  | nil => simp [lookupStr] at h
  | cons a rest ih =>
    obtain ⟨a1, a2⟩ := a
    unfold lookupStr at h
    by_cases e : a1 = k
    · rw [if_pos e] at h; cases h; subst e; exact List.mem_cons_self
    · rw [if_neg e] at h; exact List.mem_cons_of_mem _ (ih h)

/-- The components of `noiseTablesOk` as propositions. -/
structure NoiseFacts (N : NoiseTables) : Prop where
  typeOf : ∀ tp ∈ N.typeParams, ∀ p ∈ tp.2, lookupStr N.paramType p = some tp.1
  inType : ∀ pt ∈ N.paramType, pt.1 ∈ N.paramsOf pt.2
  inParams : ∀ pt ∈ N.paramType, pt.1 ∈ N.params
  paramsNodup : N.params.Nodup
  noTypes : "noise_types" ∉ N.params
  leakage : N.paramsOf "leakage" = ["with_leakage"]
  spam : "state_prep_error" ∈ N.paramsOf "SPAM"
  ampSigma : "amp_sigma" ∈ N.paramsOf "amplitude"
  laserWaist : "laser_waist" ∈ N.paramsOf "amplitude"
  wlNotZeroed : N.zeroed.contains "with_leakage" = false
  defaultsFalsy : ∀ kv ∈ N.defaults, kv.2.truthy = false
  ratesParam : "eff_noise_rates" ∈ N.params
  opersParam : "eff_noise_opers" ∈ N.params
  noEffNoise : "eff_noise" ∉ N.params
  ratesNotZeroed : N.zeroed.contains "eff_noise_rates" = false
  opersNotZeroed : N.zeroed.contains "eff_noise_opers" = false
  simInj : ((N.params.filter (· ≠ "with_leakage")).map (simName N)).Nodup
  simNoNoise : "noise" ∉ N.params.map (simName N)

theorem noiseFacts {N : NoiseTables} (h : NoiseTablesOk N) : NoiseFacts N := by
  unfold NoiseTablesOk noiseTablesOk at h
  simp only [Bool.and_eq_true, decide_eq_true_eq, List.all_eq_true, beq_iff_eq,
    Bool.not_eq_true', List.contains_iff_mem] at h
  obtain ⟨⟨⟨⟨⟨⟨⟨⟨⟨⟨⟨⟨⟨⟨⟨⟨⟨⟨_, h2⟩, h3⟩, h4⟩, h5⟩, h6⟩, h7⟩, h8⟩, h9⟩, h10⟩, h11⟩, h12⟩, h15⟩, h16⟩, h17⟩, h18⟩, h19⟩, h13⟩, h14⟩ := h
  refine ⟨?_, ?_, ?_, h5, ?_, h7, ?_, ?_, ?_, h11, ?_, ?_, ?_, ?_, h18, h19, h13, ?_⟩
  · intro tp htp p hp; exact h2 tp htp p hp
  · intro pt hpt; have := h3 pt hpt; simpa [List.contains_iff_mem] using this
  · intro pt hpt; have := h4 pt hpt; simpa [List.contains_iff_mem] using this
  · simpa [List.contains_iff_mem] using h6
  · simpa [List.contains_iff_mem] using h8
  · simpa [List.contains_iff_mem] using h9
  · simpa [List.contains_iff_mem] using h10
  · intro kv hkv; exact h12 kv hkv
  · simpa [List.contains_iff_mem] using h15
  · simpa [List.contains_iff_mem] using h16
  · simpa [List.contains_iff_mem] using h17
  · simpa [List.contains_iff_mem, simName] using h14

theorem paramsOf_spec {N : NoiseTables} {t p : String} (h : p ∈ N.paramsOf t) :
    ∃ tp ∈ N.typeParams, tp.1 = t ∧ p ∈ tp.2 := by
  unfold NoiseTables.paramsOf at h
  cases hf : N.typeParams.find? (fun x => decide (x.1 = t)) with
  | none => rw [hf] at h; cases h
  | some tp =>
    rw [hf] at h
    have h1 := List.mem_of_find?_eq_some hf
    have h2 := List.find?_some hf
    exact ⟨tp, h1, by simpa using h2, h⟩

/-- `_PARAM_TO_NOISE_TYPE[p] = t` iff `p` is listed under `t` in `_NOISE_TYPE_PARAMS`. -/
theorem paramType_iff {N : NoiseTables} (F : NoiseFacts N) (p t : String) :
    lookupStr N.paramType p = some t ↔ p ∈ N.paramsOf t := by
  constructor
  · intro h; exact F.inType (p, t) (lookupStr_mem h)
  · intro h
    obtain ⟨tp, htp, e, hp⟩ := paramsOf_spec h
    rw [← e]; exact F.typeOf tp htp p hp

/-! ### Noise model ⇄ SimConfig -/

theorem get?_map_pair {f : String → Value} : ∀ (l : List String) {p : String}, p ∈ l →
    Record.get? (l.map (fun p => (p, f p))) p = some (f p)
  | [], _, h => by cases h
  | a :: rest, p, h => by
    simp only [List.map_cons, Record.get?_cons]
    by_cases e : a = p
    · rw [if_pos e, e]
    · rw [if_neg e]
      rcases List.mem_cons.mp h with h | h
      · exact absurd h.symm e
      · exact get?_map_pair rest h

theorem get?_map_normParam (N : NoiseTables) : ∀ (args : Record) (p : String),
    Record.get? (args.map (normParam N)) p = (Record.get? args p).map (fun v => (normParam N (p, v)).2)
  | [], _ => rfl
  | (k, v) :: rest, p => by
    have hk : (normParam N (k, v)).1 = k := by unfold normParam; split <;> rfl
    simp only [List.map_cons]
    have : normParam N (k, v) = ((normParam N (k, v)).1, (normParam N (k, v)).2) := rfl
    rw [this, Record.get?_cons, Record.get?_cons, hk]
    by_cases e : k = p
    · rw [if_pos e, if_pos e, e]; rfl
    · rw [if_neg e, if_neg e]; exact get?_map_normParam N rest p

/-- The stored value of a parameter. -/
def normVal (N : NoiseTables) (p : String) (v : Value) : Value := (normParam N (p, v)).2

theorem normVal_truthy (N : NoiseTables) (p : String) (v : Value) :
    (normVal N p v).truthy = v.truthy := by
  unfold normVal normParam
  by_cases h : (N.zeroed.contains p && !v.truthy) = true
  · rw [if_pos h]
    simp only [Bool.and_eq_true, Bool.not_eq_true'] at h
    rw [h.2]; rfl
  · rw [if_neg h]

theorem normVal_idem (N : NoiseTables) (p : String) (v : Value) :
    normVal N p (normVal N p v) = normVal N p v := by
  unfold normVal normParam
  by_cases h : (N.zeroed.contains p && !v.truthy) = true
  · rw [if_pos h]
    simp only [Bool.and_eq_true, Bool.not_eq_true'] at h
    have : (N.zeroed.contains p && !(Value.num 0).truthy) = true := by
      rw [h.1]; rfl
    rw [if_pos this]
  · rw [if_neg h, if_neg h]

theorem truthy_ne_null {v : Value} (h : v.truthy = true) : v ≠ .null := by
  intro e; rw [e] at h; cases h

theorem strList_map_str (ts : List String) : strList (.list (ts.map Value.str)) = ts := by
  unfold strList
  induction ts with
  | nil => rfl
  | cons a rest ih => simp at ih ⊢; exact ih

theorem noiseInit_get?_types (N : NoiseTables) (args : Record) :
    Record.get? (noiseInit N args) "noise_types" = some (.list ((activeTypes N args).map .str)) := by
  unfold noiseInit; rw [Record.get?_cons, if_pos rfl]

theorem noiseInit_get?_param {N : NoiseTables} (F : NoiseFacts N) (vals : String → Value) {p : String}
    (hp : p ∈ N.params) :
    Record.get? (noiseInit N (argsOf N vals)) p = some (normVal N p (vals p)) := by
  unfold noiseInit
  have hne : "noise_types" ≠ p := fun e => F.noTypes (e ▸ hp)
  rw [Record.get?_cons, if_neg hne, get?_map_normParam]
  unfold argsOf
  rw [get?_map_pair N.params hp]; rfl

/-- `isRelevant` only looks at `state_prep_error` / `amp_sigma` when their type is active. -/
theorem isRelevant_congr (N : NoiseTables) (types : List String) {sp sp' as as' : Value} (lw : Value)
    (p : String) (h1 : types.contains "SPAM" = true → sp = sp')
    (h2 : types.contains "amplitude" = true → as = as') :
    isRelevant N types sp as lw p = isRelevant N types sp' as' lw p := by
  unfold isRelevant needsRuns
  cases hs : types.contains "SPAM" <;> cases ha : types.contains "amplitude" <;>
    simp_all

theorem activeTypes_congr (N : NoiseTables) (f g : String → Value) : ∀ (ps : List String),
    (∀ p ∈ ps, ∀ t, lookupStr N.paramType p = some t → (f p).truthy = (g p).truthy) →
    activeTypes N (ps.map (fun p => (p, f p))) = activeTypes N (ps.map (fun p => (p, g p)))
  | [], _ => rfl
  | a :: rest, h => by
    have ih := activeTypes_congr N f g rest (fun p hp => h p (List.mem_cons_of_mem _ hp))
    unfold activeTypes at ih ⊢
    simp only [List.map_cons, List.foldr_cons]
    rw [ih]
    cases hl : lookupStr N.paramType a with
    | none => simp
    | some t => rw [h a List.mem_cons_self t hl]

theorem scaleTemp_roundtrip (p : String) (v : Value) : scaleTemp p false (scaleTemp p true v) = v := by
  unfold scaleTemp
  by_cases h : p = "temperature"
  · simp only [h, if_true]
    cases v <;> simp
    exact Rat.div_mul_cancel (by decide)
  · simp only [h, if_false]

theorem injOn_of_nodup_map {α β : Type} (f : α → β) : ∀ (l : List α), (l.map f).Nodup →
    ∀ a ∈ l, ∀ b ∈ l, f a = f b → a = b
  | [], _ => fun a ha => by cases ha
  | x :: rest, hn => fun a ha b hb e => by
    simp only [List.map_cons, List.nodup_cons] at hn
    rcases List.mem_cons.mp ha with ha | ha
    · rcases List.mem_cons.mp hb with hb | hb
      · rw [ha, hb]
      · exact absurd (List.mem_map.mpr ⟨b, hb, by rw [← e, ha]⟩) hn.1
    · rcases List.mem_cons.mp hb with hb | hb
      · exact absurd (List.mem_map.mpr ⟨a, ha, by rw [e, hb]⟩) hn.1
      · exact injOn_of_nodup_map f rest hn.2 a ha b hb e

theorem get?_map_key {f : String → String} {g : String → Value} : ∀ (l : List String) {p : String},
    p ∈ l → (∀ a ∈ l, f a = f p → a = p) →
    Record.get? (l.map (fun q => (f q, g q))) (f p) = some (g p)
  | [], _, h, _ => by cases h
  | a :: rest, p, h, inj => by
    simp only [List.map_cons, Record.get?_cons]
    by_cases e : f a = f p
    · rw [if_pos e, inj a List.mem_cons_self e]
    · rw [if_neg e]
      rcases List.mem_cons.mp h with h | h
      · rw [h] at e; exact absurd rfl e
      · exact get?_map_key rest h (fun b hb => inj b (List.mem_cons_of_mem _ hb))

theorem get?_map_key_none {f : String → String} {g : String → Value} (l : List String) {k : String}
    (h : ∀ a ∈ l, f a ≠ k) : Record.get? (l.map (fun q => (f q, g q))) k = none := by
  apply Record.get?_none_of_not_mem
  intro hm
  simp only [Record.keys, List.map_map, List.mem_map] at hm
  obtain ⟨a, ha, e⟩ := hm
  exact h a ha e

section Sim
variable {N : NoiseTables} (vals : String → Value)

/-- The types of the noise model built from `vals`. -/
private abbrev typesOf (N : NoiseTables) (vals : String → Value) : List String :=
  activeTypes N (argsOf N vals)

theorem nm_getD_types :
    (noiseInit N (argsOf N vals)).getD "noise_types" (.list []) =
      .list ((typesOf N vals).map .str) := by
  unfold Record.getD; rw [noiseInit_get?_types]; rfl

theorem nm_getD_param (F : NoiseFacts N) {p : String} (hp : p ∈ N.params) (d : Value) :
    (noiseInit N (argsOf N vals)).getD p d = normVal N p (vals p) := by
  unfold Record.getD; rw [noiseInit_get?_param F vals hp]; rfl

theorem typed_mem_params (F : NoiseFacts N) {p t : String} (h : p ∈ N.paramsOf t) : p ∈ N.params :=
  F.inParams (p, t) (lookupStr_mem ((paramType_iff F p t).mpr h))

theorem simName_inj (F : NoiseFacts N) {a b : String} (ha : a ∈ N.params) (ha' : a ≠ "with_leakage")
    (hb : b ∈ N.params) (hb' : b ≠ "with_leakage") (e : simName N a = simName N b) : a = b :=
  injOn_of_nodup_map (simName N) (N.params.filter (· ≠ "with_leakage")) F.simInj
    a (List.mem_filter.mpr ⟨ha, by simpa using ha'⟩)
    b (List.mem_filter.mpr ⟨hb, by simpa using hb'⟩) e

/-- A relevant parameter is found in the SimConfig under its SimConfig name. -/
theorem sim_get?_relevant (F : NoiseFacts N) {p : String} (hp : p ∈ N.params) (hwl : p ≠ "with_leakage")
    (hr : noiseRelevant N (noiseInit N (argsOf N vals)) p = true) :
    Record.get? (simFromNoise N (noiseInit N (argsOf N vals))) (simName N p) =
      some (scaleTemp p true (normVal N p (vals p))) := by
  unfold simFromNoise
  have hne : "noise" ≠ simName N p := fun e => F.simNoNoise (List.mem_map.mpr ⟨p, hp, e.symm⟩)
  rw [Record.get?_cons, if_neg hne]
  have hmem : p ∈ N.params.filter (fun p => noiseRelevant N (noiseInit N (argsOf N vals)) p &&
      p != "with_leakage") := by
    rw [List.mem_filter]; exact ⟨hp, by simp [hr, hwl]⟩
  rw [get?_map_key (f := simName N)
      (g := fun p => scaleTemp p true ((noiseInit N (argsOf N vals)).getD p .null)) _ hmem]
  · simp only [nm_getD_param vals F hp]
  · intro a ha e
    rw [List.mem_filter] at ha
    have ha2 : a ≠ "with_leakage" := by
      have := ha.2; simp only [Bool.and_eq_true, bne_iff_ne, ne_eq] at this; exact this.2
    exact simName_inj F ha.1 ha2 hp hwl e

/-- A parameter that is not relevant is absent from the SimConfig arguments. -/
theorem sim_get?_irrelevant (F : NoiseFacts N) {p : String} (hp : p ∈ N.params) (hwl : p ≠ "with_leakage")
    (hr : noiseRelevant N (noiseInit N (argsOf N vals)) p = false) :
    Record.get? (simFromNoise N (noiseInit N (argsOf N vals))) (simName N p) = none := by
  unfold simFromNoise
  have hne : "noise" ≠ simName N p := fun e => F.simNoNoise (List.mem_map.mpr ⟨p, hp, e.symm⟩)
  rw [Record.get?_cons, if_neg hne]
  apply get?_map_key_none
  intro a ha e
  rw [List.mem_filter] at ha
  have ha2 : noiseRelevant N (noiseInit N (argsOf N vals)) a = true ∧ a ≠ "with_leakage" := by
    have := ha.2; simpa [Bool.and_eq_true, bne_iff_ne, ne_eq] using this
  have := simName_inj F ha.1 ha2.2 hp hwl e
  rw [this, hr] at ha2; cases ha2.1

theorem sim_getD_noise :
    (simFromNoise N (noiseInit N (argsOf N vals))).getD "noise" (.list []) =
      .list ((typesOf N vals).map .str) := by
  unfold simFromNoise
  rw [nm_getD_types]
  unfold Record.getD
  rw [Record.get?_cons, if_pos rfl]; rfl

/-- The stored values `noiseRelevant` looks at. -/
theorem noiseRelevant_eq (p : String) :
    noiseRelevant N (noiseInit N (argsOf N vals)) p =
      isRelevant N (typesOf N vals)
        ((noiseInit N (argsOf N vals)).getD "state_prep_error" (.num 0))
        ((noiseInit N (argsOf N vals)).getD "amp_sigma" (.num 0))
        ((noiseInit N (argsOf N vals)).getD "laser_waist" .null) p := by
  unfold noiseRelevant
  rw [nm_getD_types, strList_map_str]

theorem relevant_of_typed {t p : String} (ht : t ∈ typesOf N vals) (hp : p ∈ N.paramsOf t)
    (hlw : p ≠ "laser_waist") : noiseRelevant N (noiseInit N (argsOf N vals)) p = true := by
  rw [noiseRelevant_eq]
  unfold isRelevant
  have h1 : (typesOf N vals).any (fun t => (N.paramsOf t).contains p) = true := by
    rw [List.any_eq_true]; exact ⟨t, ht, by simpa [List.contains_iff_mem] using hp⟩
  rw [h1]; simp [hlw]

end Sim

section SimBack
variable {N : NoiseTables} (vals : String → Value)

private abbrev nmOf (N : NoiseTables) (vals : String → Value) : Record := noiseInit N (argsOf N vals)
private abbrev scOf (N : NoiseTables) (vals : String → Value) : Record := simFromNoise N (nmOf N vals)

theorem scaleTemp_other {p : String} (h : p ≠ "temperature") (d : Bool) (v : Value) :
    scaleTemp p d v = v := by
  unfold scaleTemp; rw [if_neg h]

theorem sim_getD_relevant (F : NoiseFacts N) {p : String} (hp : p ∈ N.params)
    (hwl : p ≠ "with_leakage") (ht : p ≠ "temperature")
    (hr : noiseRelevant N (nmOf N vals) p = true) (d : Value) :
    (scOf N vals).getD (simName N p) d = (nmOf N vals).getD p d := by
  unfold Record.getD
  rw [sim_get?_relevant vals F hp hwl hr, noiseInit_get?_param F vals hp, scaleTemp_other ht]

/-- `to_noise_model` recomputes the same set of relevant parameters from the SimConfig. -/
theorem sim_rel_eq (F : NoiseFacts N) (p : String) :
    isRelevant N (strList ((scOf N vals).getD "noise" (.list [])))
      ((scOf N vals).getD (simName N "state_prep_error") (.num 0))
      ((scOf N vals).getD (simName N "amp_sigma") (.num 0))
      ((scOf N vals).getD (simName N "laser_waist") .null) p
    = noiseRelevant N (nmOf N vals) p := by
  rw [sim_getD_noise, strList_map_str, noiseRelevant_eq]
  have hsp : (typesOf N vals).contains "SPAM" = true →
      (scOf N vals).getD (simName N "state_prep_error") (.num 0) =
        (nmOf N vals).getD "state_prep_error" (.num 0) := by
    intro h
    have hm : "SPAM" ∈ typesOf N vals := by simpa [List.contains_iff_mem] using h
    exact sim_getD_relevant vals F (typed_mem_params F F.spam) (by decide) (by decide)
      (relevant_of_typed vals hm F.spam (by decide)) _
  have has : (typesOf N vals).contains "amplitude" = true →
      (scOf N vals).getD (simName N "amp_sigma") (.num 0) =
        (nmOf N vals).getD "amp_sigma" (.num 0) := by
    intro h
    have hm : "amplitude" ∈ typesOf N vals := by simpa [List.contains_iff_mem] using h
    exact sim_getD_relevant vals F (typed_mem_params F F.ampSigma) (by decide) (by decide)
      (relevant_of_typed vals hm F.ampSigma (by decide)) _
  rw [isRelevant_congr N (typesOf N vals) _ p hsp has]
  by_cases hp : p = "laser_waist"
  · subst hp
    have hlwp : "laser_waist" ∈ N.params := typed_mem_params F F.laserWaist
    cases hr : noiseRelevant N (nmOf N vals) "laser_waist" with
    | true =>
      rw [sim_getD_relevant vals F hlwp (by decide) (by decide) hr]
    | false =>
      have hnone := sim_get?_irrelevant vals F hlwp (by decide) hr
      have hlw' : (scOf N vals).getD (simName N "laser_waist") .null = .null := by
        unfold Record.getD; rw [hnone]; rfl
      rw [hlw']
      rw [noiseRelevant_eq] at hr
      rw [hr]
      unfold isRelevant
      simp
  · unfold isRelevant
    simp [hp]

/-- The constructor arguments `to_noise_model` ends up passing. -/
def simBackVals (N : NoiseTables) (vals : String → Value) (p : String) : Value :=
  if noiseRelevant N (nmOf N vals) p then
    if p = "with_leakage" then .bool ((typesOf N vals).contains "leakage")
    else scaleTemp p false ((scOf N vals).getD (simName N p) .null)
  else N.dfl p

theorem simToNoise_eq (F : NoiseFacts N) :
    simToNoise N (scOf N vals) = noiseInit N (argsOf N (simBackVals N vals)) := by
  unfold simToNoise argsOf
  simp only
  congr 1
  apply List.map_congr_left
  intro p _
  simp only [sim_rel_eq vals F p, simBackVals]
  rw [sim_getD_noise, strList_map_str]

theorem dfl_falsy (F : NoiseFacts N) (p : String) : (N.dfl p).truthy = false := by
  unfold NoiseTables.dfl
  cases h : Record.get? N.defaults p with
  | none => rfl
  | some v => exact F.defaultsFalsy (p, v) (Record.mem_keys_of_get? h)

/-- `leakage` is active iff `with_leakage` is truthy. -/
theorem leakage_iff (F : NoiseFacts N) (hwlp : "with_leakage" ∈ N.params) :
    "leakage" ∈ typesOf N vals ↔ (vals "with_leakage").truthy = true := by
  rw [mem_activeTypes]
  constructor
  · rintro ⟨kv, hm, htr, hl⟩
    have := (paramType_iff F kv.1 "leakage").mp hl
    rw [F.leakage] at this
    simp only [List.mem_singleton] at this
    unfold argsOf at hm
    obtain ⟨q, _, e⟩ := List.mem_map.mp hm
    rw [← e] at this htr
    simp only at this htr
    rw [this] at htr; exact htr
  · intro h
    refine ⟨("with_leakage", vals "with_leakage"), ?_, h, ?_⟩
    · unfold argsOf; exact List.mem_map.mpr ⟨"with_leakage", hwlp, rfl⟩
    · rw [paramType_iff F, F.leakage]; exact List.mem_singleton.mpr rfl

/-- A typed parameter that is truthy is relevant. -/
theorem relevant_of_truthy (F : NoiseFacts N) {p t : String} (hp : p ∈ N.params)
    (ht : lookupStr N.paramType p = some t) (htr : (vals p).truthy = true) :
    noiseRelevant N (nmOf N vals) p = true := by
  have hact : t ∈ typesOf N vals := by
    rw [mem_activeTypes]
    exact ⟨(p, vals p), by unfold argsOf; exact List.mem_map.mpr ⟨p, hp, rfl⟩, htr, ht⟩
  have hin := (paramType_iff F p t).mp ht
  by_cases hlw : p = "laser_waist"
  · subst hlw
    rw [noiseRelevant_eq]
    unfold isRelevant
    have h1 : (typesOf N vals).any (fun t => (N.paramsOf t).contains "laser_waist") = true := by
      rw [List.any_eq_true]; exact ⟨t, hact, by simpa [List.contains_iff_mem] using hin⟩
    rw [h1, nm_getD_param vals F hp]
    have : normVal N "laser_waist" (vals "laser_waist") ≠ .null :=
      truthy_ne_null (by rw [normVal_truthy]; exact htr)
    simp [this]
  · exact relevant_of_typed vals hact hin hlw

/-- Value read back for a relevant parameter other than `with_leakage`. -/
theorem simBack_relevant (F : NoiseFacts N) {p : String} (hp : p ∈ N.params)
    (hwl : p ≠ "with_leakage") (hr : noiseRelevant N (nmOf N vals) p = true) :
    simBackVals N vals p = normVal N p (vals p) := by
  unfold simBackVals
  rw [hr]
  simp only [if_true, if_neg hwl]
  unfold Record.getD
  rw [sim_get?_relevant vals F hp hwl hr]
  exact scaleTemp_roundtrip p _

end SimBack

section SimFinal
variable {N : NoiseTables} (vals : String → Value)

theorem wl_mem_params (F : NoiseFacts N) : "with_leakage" ∈ N.params :=
  typed_mem_params F (t := "leakage") (by rw [F.leakage]; exact List.mem_singleton.mpr rfl)

/-- If `with_leakage` is relevant then leakage is active (and `with_leakage` is truthy). -/
theorem wl_relevant (F : NoiseFacts N) (hr : noiseRelevant N (nmOf N vals) "with_leakage" = true) :
    "leakage" ∈ typesOf N vals := by
  rw [noiseRelevant_eq] at hr
  unfold isRelevant at hr
  simp only [Bool.and_eq_true, Bool.or_eq_true, List.any_eq_true, List.contains_iff_mem] at hr
  rcases hr.1 with ⟨t, ht, hin⟩ | h
  · have h1 := (paramType_iff F "with_leakage" t).mpr hin
    have h2 := (paramType_iff F "with_leakage" "leakage").mpr
      (by rw [F.leakage]; exact List.mem_singleton.mpr rfl)
    rw [h1] at h2; cases h2; exact ht
  · exfalso
    have := h.1
    simp at this

theorem simBack_truthy (F : NoiseFacts N)
    {p : String} (hp : p ∈ N.params) {t : String} (ht : lookupStr N.paramType p = some t) :
    (simBackVals N vals p).truthy = (vals p).truthy := by
  have hleak := leakage_iff vals F (wl_mem_params F)
  cases htr : (vals p).truthy with
  | true =>
    have hr := relevant_of_truthy vals F hp ht htr
    by_cases hwl : p = "with_leakage"
    · subst hwl
      unfold simBackVals
      rw [hr]
      simp only [if_true]
      have : (typesOf N vals).contains "leakage" = true := by
        simpa [List.contains_iff_mem] using hleak.mpr htr
      rw [this]; rfl
    · rw [simBack_relevant vals F hp hwl hr, normVal_truthy, htr]
  | false =>
    cases hr : noiseRelevant N (nmOf N vals) p with
    | true =>
      by_cases hwl : p = "with_leakage"
      · subst hwl
        have := hleak.mp (wl_relevant vals F hr)
        rw [htr] at this; cases this
      · rw [simBack_relevant vals F hp hwl hr, normVal_truthy, htr]
    | false =>
      unfold simBackVals
      rw [hr]
      simp only [Bool.false_eq_true, if_false]
      exact dfl_falsy F p

/-- **Active noise types survive NoiseModel → SimConfig → NoiseModel.** -/
theorem sim_types_preserved (F : NoiseFacts N) :
    Record.get? (simToNoise N (scOf N vals)) "noise_types" =
      Record.get? (nmOf N vals) "noise_types" := by
  rw [simToNoise_eq vals F, noiseInit_get?_types, noiseInit_get?_types]
  unfold argsOf
  rw [activeTypes_congr N (simBackVals N vals) vals N.params
    (fun p hp t ht => simBack_truthy vals F hp ht)]

/-- **Every relevant parameter survives NoiseModel → SimConfig → NoiseModel.** -/
theorem sim_param_preserved (F : NoiseFacts N) {b : Bool} (hb : vals "with_leakage" = .bool b)
    {p : String} (hp : p ∈ N.params) (hr : noiseRelevant N (nmOf N vals) p = true) :
    Record.get? (simToNoise N (scOf N vals)) p = Record.get? (nmOf N vals) p := by
  rw [simToNoise_eq vals F, noiseInit_get?_param F _ hp, noiseInit_get?_param F _ hp]
  by_cases hwl : p = "with_leakage"
  · subst hwl
    have hl := wl_relevant vals F hr
    have htr := (leakage_iff vals F (wl_mem_params F)).mp hl
    have hbt : b = true := by rw [hb] at htr; exact htr
    have : simBackVals N vals "with_leakage" = vals "with_leakage" := by
      unfold simBackVals
      rw [hr]
      simp only [if_true]
      have hc : (typesOf N vals).contains "leakage" = true := by
        simpa [List.contains_iff_mem] using hl
      rw [hc, hb, hbt]
    rw [this]
  · rw [simBack_relevant vals F hp hwl hr, normVal_idem]

end SimFinal

/-! ### Soundness of the executable hypotheses -/

theorem wellTyped_of_B {T : Tables} {r : Record} (h : wellTypedB T r = true) : WellTyped T r := by
  unfold wellTypedB at h
  simp only [Bool.and_eq_true, beq_iff_eq, List.all_eq_true, Bool.or_eq_true, Bool.not_eq_true'] at h
  obtain ⟨⟨h1, h2⟩, h3⟩ := h
  refine ⟨h1, ?_, ?_⟩
  · intro fs hfs hi
    rcases h2 fs hfs with h | h
    · rw [hi] at h; cases h
    · exact h
  · intro fs hfs hi hs
    rcases h3 fs hfs with (h | h) | h
    · rw [hi] at h; cases h
    · rw [hs] at h; cases h
    · exact h

theorem avoidsExempt_of_B {T : Tables} {ex : List String} {r : Record}
    (h : avoidsExemptB T ex r = true) : AvoidsExempt T ex r := by
  unfold avoidsExemptB at h
  simp only [List.all_eq_true, Bool.or_eq_true, Bool.not_eq_true'] at h
  intro kv hkv hex
  rcases h kv hkv with h | h
  · rw [hex] at h; cases h
  · exact h

theorem channelRecOk_of_B {C : ChannelTables} {T : Tables} {r : Record}
    (h : channelRecOkB C T r = true) : ChannelRecOk C T r := by
  unfold channelRecOkB at h
  simp only [Bool.and_eq_true, List.all_eq_true, Bool.or_eq_true, bne_iff_ne, ne_eq] at h
  refine ⟨wellTyped_of_B h.1, ?_⟩
  intro v hv
  rcases h.2 ("eom_config", v) hv with h' | h'
  · exact absurd rfl h'
  · simp only at h'
    cases v with
    | null => exact Or.inl rfl
    | obj e => exact Or.inr ⟨e, rfl, wellTyped_of_B (by simpa [eomOkB] using h')⟩
    | bool _ => simp [eomOkB] at h'
    | num _ => simp [eomOkB] at h'
    | str _ => simp [eomOkB] at h'
    | list _ => simp [eomOkB] at h'

theorem channelValOk_of_B {C : ChannelTables} {v : Value} (h : channelValOkB C v = true) :
    ∃ Tc ∈ C.classes, ∃ rc, v = .obj ((classKey, .str Tc.cls) :: rc) ∧ ChannelRecOk C Tc rc := by
  unfold channelValOkB at h
  split at h
  · rename_i ck cls rc
    simp only [Bool.and_eq_true, beq_iff_eq] at h
    obtain ⟨hck, hm⟩ := h
    cases hf : C.find? cls with
    | none => rw [hf] at hm; cases hm
    | some T =>
      rw [hf] at hm
      unfold ChannelTables.find? at hf
      have h1 := List.mem_of_find?_eq_some hf
      have h2 : T.cls = cls := by simpa using List.find?_some hf
      exact ⟨T, h1, rc, by rw [hck, h2], channelRecOk_of_B hm⟩
  · cases h

theorem channelListOk_of_B {C : ChannelTables} {v : Value} (h : channelListOkB C v = true) :
    ChannelListOk C v := by
  cases v with
  | list xs =>
    simp only [channelListOkB, List.all_eq_true] at h
    exact ⟨xs, rfl, fun x hx => channelValOk_of_B (h x hx)⟩
  | null => simp [channelListOkB] at h
  | bool _ => simp [channelListOkB] at h
  | num _ => simp [channelListOkB] at h
  | str _ => simp [channelListOkB] at h
  | obj _ => simp [channelListOkB] at h

theorem deviceRecOk_of_B {D : DeviceTables} {noise : Sub} {T : Tables} {ex : List String} {r : Record}
    (h : deviceRecOkB D noise T ex r = true) : DeviceRecOk D noise T ex r := by
  unfold deviceRecOkB at h
  simp only [Bool.and_eq_true, List.all_eq_true] at h
  obtain ⟨⟨h1, h2⟩, h3⟩ := h
  refine ⟨wellTyped_of_B h1, avoidsExempt_of_B h2, ?_, ?_, ?_, ?_⟩
  · intro v hv
    have := h3 ("channels", v) hv
    simp only [if_true] at this
    exact channelListOk_of_B this
  · intro v hv
    have := h3 ("dmm_objects", v) hv
    simp only [if_true, show ("dmm_objects" = "channels") = False by decide, if_false] at this
    exact channelListOk_of_B this
  · intro v hv
    have := h3 ("pre_calibrated_layouts", v) hv
    simp only [if_true, show ("pre_calibrated_layouts" = "channels") = False by decide,
      show ("pre_calibrated_layouts" = "dmm_objects") = False by decide, if_false] at this
    cases v with
    | list xs =>
      simp only [layoutListOkB, List.all_eq_true] at this
      refine ⟨xs, rfl, fun x hx => ?_⟩
      have hx' := this x hx
      cases x with
      | obj l => exact ⟨l, rfl, wellTyped_of_B hx'⟩
      | null => cases hx'
      | bool _ => cases hx'
      | num _ => cases hx'
      | str _ => cases hx'
      | list _ => cases hx'
    | null => simp [layoutListOkB] at this
    | bool _ => simp [layoutListOkB] at this
    | num _ => simp [layoutListOkB] at this
    | str _ => simp [layoutListOkB] at this
    | obj _ => simp [layoutListOkB] at this
  · intro v hv
    have := h3 ("default_noise_model", v) hv
    simp only [if_true, show ("default_noise_model" = "channels") = False by decide,
      show ("default_noise_model" = "dmm_objects") = False by decide,
      show ("default_noise_model" = "pre_calibrated_layouts") = False by decide, if_false] at this
    unfold noiseValOkB at this
    simp only [Bool.or_eq_true, beq_iff_eq, Bool.and_eq_true, bne_iff_ne, ne_eq] at this
    by_cases hn : v = .null
    · exact Or.inl hn
    · rcases this with h | h
      · exact absurd h hn
      · exact Or.inr ⟨hn, h.1, h.2⟩

/-! ### Noise model ⇄ JSON -/

theorem get?_filter_key (q : String → Bool) : ∀ (l : Record) (k : String),
    Record.get? (l.filter (fun kv => q kv.1)) k = if q k then Record.get? l k else none
  | [], k => by simp [Record.get?]
  | (k', v) :: rest, k => by
    have ih := get?_filter_key q rest k
    by_cases hq : q k' = true
    · simp only [List.filter_cons, hq, if_true, Record.get?_cons]
      by_cases e : k' = k
      · subst e; simp [hq]
      · simp only [if_neg e]; exact ih
    · simp only [List.filter_cons, hq]
      simp only [Bool.false_eq_true, if_false, Record.get?_cons]
      by_cases e : k' = k
      · subst e; rw [ih]; simp [hq]
      · simp only [if_neg e]; exact ih

theorem unzip_zip_fst : ∀ (rs os : List Value), rs.length = os.length →
    (List.zipWith (fun a b => Value.list [a, b]) rs os).filterMap pairFst = rs
  | [], [], _ => rfl
  | r :: rs, o :: os, h => by
    simp only [List.zipWith_cons_cons, List.filterMap_cons, pairFst]
    rw [unzip_zip_fst rs os (by simpa using h)]
  | [], _ :: _, h => by simp at h
  | _ :: _, [], h => by simp at h

theorem unzip_zip_snd : ∀ (rs os : List Value), rs.length = os.length →
    (List.zipWith (fun a b => Value.list [a, b]) rs os).filterMap pairSnd = os
  | [], [], _ => rfl
  | r :: rs, o :: os, h => by
    simp only [List.zipWith_cons_cons, List.filterMap_cons, pairSnd]
    rw [unzip_zip_snd rs os (by simpa using h)]
  | [], _ :: _, h => by simp at h
  | _ :: _, [], h => by simp at h

section NoiseJson
variable {N : NoiseTables} (vals : String → Value)

/-- The parameters `_to_abstract_repr` removes from `asdict`. -/
def special (p : String) : Bool := p = "with_leakage" || p = "eff_noise_rates" || p = "eff_noise_opers"

theorem noiseEncode_get?_kept (F : NoiseFacts N) {k : String} (hk : special k = false)
    (hmem : k = "noise_types" ∨ k ∈ N.params) :
    Record.get? (noiseEncode (nmOf N vals)) k = Record.get? (nmOf N vals) k := by
  unfold noiseEncode
  simp only
  rw [Record.get?_append]
  have hq : (fun kv : String × Value => decide (kv.1 ≠ "with_leakage") && decide (kv.1 ≠ "eff_noise_rates") &&
      decide (kv.1 ≠ "eff_noise_opers")) = (fun kv => (fun p => !special p) kv.1) := by
    funext kv; unfold special; simp [Bool.not_or, Bool.and_assoc]
  rw [hq, get?_filter_key (fun p => !special p)]
  simp only [hk, Bool.not_false, if_true]
  cases hg : Record.get? (nmOf N vals) k with
  | some v => rfl
  | none =>
    -- impossible: the key is a field of the instance
    exfalso
    rcases hmem with h | h
    · rw [h, noiseInit_get?_types] at hg; cases hg
    · rw [noiseInit_get?_param F vals h] at hg; cases hg

theorem noiseEncode_get?_eff (F : NoiseFacts N) :
    Record.get? (noiseEncode (nmOf N vals)) "eff_noise" =
      some (.list (List.zipWith (fun a b => Value.list [a, b])
        (match Record.get? (nmOf N vals) "eff_noise_rates" with | some (.list xs) => xs | _ => [])
        (match Record.get? (nmOf N vals) "eff_noise_opers" with | some (.list xs) => xs | _ => []))) := by
  unfold noiseEncode
  simp only
  rw [Record.get?_append]
  have hnone : Record.get? (List.filter (fun kv : String × Value => decide (kv.1 ≠ "with_leakage") &&
      decide (kv.1 ≠ "eff_noise_rates") && decide (kv.1 ≠ "eff_noise_opers")) (nmOf N vals)) "eff_noise"
      = none := by
    apply Record.get?_none_of_not_mem
    intro hm
    simp only [Record.keys, List.mem_map, List.mem_filter] at hm
    obtain ⟨kv, ⟨hkv, _⟩, e⟩ := hm
    have hkv' : kv ∈ noiseInit N (argsOf N vals) := hkv
    unfold noiseInit at hkv'
    rcases List.mem_cons.mp hkv' with h | h
    · rw [h] at e; simp at e
    · obtain ⟨kv', hkv', e'⟩ := List.mem_map.mp h
      unfold argsOf at hkv'
      obtain ⟨p, hp, ep⟩ := List.mem_map.mp hkv'
      have hk1 : (normParam N kv').1 = kv'.1 := by unfold normParam; split <;> rfl
      rw [← e', hk1, ← ep] at e
      simp only at e
      exact F.noEffNoise (e ▸ hp)
  rw [hnone]
  simp only
  rw [Record.get?_cons, if_pos rfl]
  rfl

/-- The arguments `_deserialize_noise_model` hands to the constructor. -/
def jsonBackVals (N : NoiseTables) (vals : String → Value) (rs os : List Value) (p : String) : Value :=
  if p = "eff_noise_rates" then .list rs
  else if p = "eff_noise_opers" then .list os
  else if p = "with_leakage" then .bool ((typesOf N vals).contains "leakage")
  else if noiseRelevant N (nmOf N vals) p then normVal N p (vals p)
  else N.dfl p

end NoiseJson

section NoiseJson2
variable {N : NoiseTables} (vals : String → Value)

theorem normParam_eq (N : NoiseTables) (p : String) (v : Value) : normParam N (p, v) = (p, normVal N p v) := by
  unfold normVal normParam; split <;> rfl

/-- Two argument valuations that are stored alike build the same instance. -/
theorem noiseInit_congr (f g : String → Value)
    (h : ∀ p ∈ N.params, normVal N p (f p) = normVal N p (g p)) :
    noiseInit N (argsOf N f) = noiseInit N (argsOf N g) := by
  unfold noiseInit argsOf
  have hmap : (N.params.map (fun p => (p, f p))).map (normParam N) =
      (N.params.map (fun p => (p, g p))).map (normParam N) := by
    rw [List.map_map, List.map_map]
    apply List.map_congr_left
    intro p hp
    simp only [Function.comp, normParam_eq, h p hp]
  have htypes : activeTypes N (N.params.map (fun p => (p, f p))) =
      activeTypes N (N.params.map (fun p => (p, g p))) := by
    apply activeTypes_congr
    intro p hp t _
    rw [← normVal_truthy N p (f p), ← normVal_truthy N p (g p), h p hp]
  rw [hmap, htypes]

theorem normVal_of_not_zeroed {p : String} (h : N.zeroed.contains p = false) (v : Value) :
    normVal N p v = v := by
  unfold normVal normParam
  show (if (N.zeroed.contains p && !v.truthy) = true then (p, Value.num 0) else (p, v)).2 = v
  rw [h]; rfl

/-- **NoiseModel → JSON → NoiseModel** gives the instance back, provided the effective-noise lists
have equal length and every parameter no active noise type uses is unset (stored like its default). -/
theorem noise_json_roundtrip (F : NoiseFacts N) {b : Bool} (hb : vals "with_leakage" = .bool b)
    {rs os : List Value} (hr : vals "eff_noise_rates" = .list rs) (ho : vals "eff_noise_opers" = .list os)
    (hlen : rs.length = os.length)
    (hclean : ∀ p ∈ N.params, special p = false → noiseRelevant N (nmOf N vals) p = false →
      normVal N p (vals p) = normVal N p (N.dfl p)) :
    noiseDecode N (noiseEncode (nmOf N vals)) = nmOf N vals := by
  -- what the decoder reads
  have hrates : Record.get? (nmOf N vals) "eff_noise_rates" = some (.list rs) := by
    rw [noiseInit_get?_param F vals F.ratesParam, hr, normVal_of_not_zeroed F.ratesNotZeroed]
  have hopers : Record.get? (nmOf N vals) "eff_noise_opers" = some (.list os) := by
    rw [noiseInit_get?_param F vals F.opersParam, ho, normVal_of_not_zeroed F.opersNotZeroed]
  have heff := noiseEncode_get?_eff vals F
  rw [hrates, hopers] at heff
  simp only at heff
  have htypes : (noiseEncode (nmOf N vals)).getD "noise_types" (.list []) =
      .list ((typesOf N vals).map .str) := by
    unfold Record.getD
    rw [noiseEncode_get?_kept vals F (by decide) (Or.inl rfl), noiseInit_get?_types]; rfl
  have hparam : ∀ p, p ∈ N.params → special p = false → ∀ d,
      (noiseEncode (nmOf N vals)).getD p d = normVal N p (vals p) := by
    intro p hp hs d
    unfold Record.getD
    rw [noiseEncode_get?_kept vals F hs (Or.inr hp), noiseInit_get?_param F vals hp]; rfl
  have hsp := hparam "state_prep_error" (typed_mem_params F F.spam) (by decide) (.num 0)
  have has := hparam "amp_sigma" (typed_mem_params F F.ampSigma) (by decide) (.num 0)
  have hlw := hparam "laser_waist" (typed_mem_params F F.laserWaist) (by decide) .null
  have hrel : ∀ p, isRelevant N (typesOf N vals) (normVal N "state_prep_error" (vals "state_prep_error"))
      (normVal N "amp_sigma" (vals "amp_sigma")) (normVal N "laser_waist" (vals "laser_waist")) p =
      noiseRelevant N (nmOf N vals) p := by
    intro p
    rw [noiseRelevant_eq, nm_getD_param vals F (typed_mem_params F F.spam),
      nm_getD_param vals F (typed_mem_params F F.ampSigma),
      nm_getD_param vals F (typed_mem_params F F.laserWaist)]
  -- the decoder's constructor call
  have hdec : noiseDecode N (noiseEncode (nmOf N vals)) =
      noiseInit N (argsOf N (jsonBackVals N vals rs os)) := by
    unfold noiseDecode
    simp only [heff, htypes, strList_map_str, hsp, has, hlw,
      unzip_zip_fst rs os hlen, unzip_zip_snd rs os hlen]
    unfold argsOf
    congr 1
    apply List.map_congr_left
    intro p hp
    unfold jsonBackVals
    by_cases h1 : p = "eff_noise_rates"
    · simp [h1]
    by_cases h2 : p = "eff_noise_opers"
    · simp [h2]
    by_cases h3 : p = "with_leakage"
    · simp [h3]
    have hs : special p = false := by unfold special; simp [h1, h2, h3]
    simp only [if_neg h1, if_neg h2, if_neg h3, hrel p]
    cases hrp : noiseRelevant N (nmOf N vals) p with
    | true => simp only [if_true]; rw [hparam p hp hs]
    | false => simp
  rw [hdec]
  apply noiseInit_congr
  intro p hp
  unfold jsonBackVals
  by_cases h1 : p = "eff_noise_rates"
  · rw [if_pos h1, h1, hr]
  by_cases h2 : p = "eff_noise_opers"
  · rw [if_neg h1, if_pos h2, h2, ho]
  by_cases h3 : p = "with_leakage"
  · rw [if_neg h1, if_neg h2, if_pos h3, h3, hb]
    have hl := leakage_iff vals F (wl_mem_params F)
    rw [hb] at hl
    have : (typesOf N vals).contains "leakage" = b := by
      cases b with
      | true => simpa [List.contains_iff_mem] using hl.mpr rfl
      | false =>
        cases hc : (typesOf N vals).contains "leakage" with
        | false => rfl
        | true =>
          have := hl.mp (by simpa [List.contains_iff_mem] using hc)
          cases this
    rw [this]
  have hs : special p = false := by unfold special; simp [h1, h2, h3]
  rw [if_neg h1, if_neg h2, if_neg h3]
  cases hrp : noiseRelevant N (nmOf N vals) p with
  | true => simp only [if_true]; exact normVal_idem N p _
  | false =>
    simp only [Bool.false_eq_true, if_false]
    exact (hclean p hp hs hrp).symm

end NoiseJson2

end Codec
end Pulser
