/-
  Proofs.Protocol — lemmas about `make_next_pulse_slot` used by C03 / C10.
-/
import PulserModel.Sequence
import Proofs.Timeline
namespace Pulser

/-- The slot computed with `block_over_max_duration=True` (by `add`) is the slot computed
with `False` (by `estimate_added_delay`): the flag only decides between raising and warning. -/
theorem makeNext_blk_indep {ms : Option Nat} {c : ChanState} {others : List ChanState}
    {p : PulseRec} {barriers : List Int} {proto : Protocol} {drift : Option Drift} {slot : Slot}
    (h : makeNextPulseSlot ms c others p barriers proto drift true = .ok slot) :
    makeNextPulseSlot ms c others p barriers proto drift false = .ok slot := by
  unfold makeNextPulseSlot at h ⊢
  cases hl : c.last with
  | error e => simp [hl] at h
  | ok last =>
    simp only [hl] at h ⊢
    split at h
    · cases h
    · rename_i delay hdl
      simp only [Bool.false_eq_true, if_false]
      split at h
      · cases h
      · exact h

/-- The most recent pulse slot of a channel, on the reversed instruction list. -/
def firstPulse : List Slot → Option (Slot × PulseRec)
  | [] => none
  | s :: rest => match s.kind with
    | .pulse p => some (s, p)
    | _ => firstPulse rest

/-- End times are non-increasing along the reversed instruction list. -/
def DescTf : List Slot → Prop
  | [] => True
  | [_] => True
  | a :: b :: rest => b.tf ≤ a.tf ∧ DescTf (b :: rest)

theorem DescTf_tail {a : Slot} {l : List Slot} (h : DescTf (a :: l)) : DescTf l := by
  cases l with
  | nil => trivial
  | cons b rest => exact h.2

theorem DescTf_le {a : Slot} {l : List Slot} (h : DescTf (a :: l)) : ∀ q ∈ l, q.tf ≤ a.tf := by
  induction l generalizing a with
  | nil => intro q hq; cases hq
  | cons b rest ih =>
    intro q hq
    rcases List.mem_cons.mp hq with hq | hq
    · subst hq; exact h.1
    · have := ih h.2 q hq; have := h.1; omega

theorem InvR_DescTf {x : Ctx} {l : List Slot} (h : InvR x l) : DescTf l := by
  induction l with
  | nil => trivial
  | cons a rest ih =>
    cases rest with
    | nil => trivial
    | cons b rest' =>
      obtain ⟨⟨h1, h2, _⟩, h3⟩ := h
      exact ⟨by omega, ih h3⟩

theorem firstPulse_mem {l : List Slot} {q : Slot} {pq : PulseRec} (h : firstPulse l = some (q, pq)) :
    q ∈ l ∧ q.kind = .pulse pq := by
  induction l with
  | nil => cases h
  | cons s rest ih =>
    unfold firstPulse at h
    split at h
    · rename_i p hp
      injection h with h; injection h with h1 h2; subst h1 h2
      exact ⟨List.mem_cons_self, hp⟩
    · have := ih h
      exact ⟨List.mem_cons_of_mem _ this.1, this.2⟩

/-- **The scan of `_find_add_delay` over one other channel never returns before the end
(fall time included) of that channel's most recent pulse, when that pulse shares a target
(or the protocol is 'wait-for-all')** — provided fall times are at most twice the rise time
(hypothesis A1), which is what makes the early `break` on idle slots sound. -/
theorem scan_ge (r2 : Nat) (inEom : Bool) (myT : List Nat) (wa : Bool) :
    ∀ (l : List Slot) (cur : Int), DescTf l →
      (∀ s ∈ l, ∀ p, s.kind = .pulse p → p.fall inEom ≤ r2) →
      ∀ q pq, firstPulse l = some (q, pq) →
        (q.targets.any (myT.contains ·) || wa) = true →
        q.tf + (pq.fall inEom : Nat) ≤ findAddDelayChan r2 inEom myT wa cur l := by
  intro l
  induction l with
  | nil => intro cur _ _ q pq h; cases h
  | cons op rest ih =>
    intro cur hd hA q pq hq hshare
    unfold findAddDelayChan
    unfold firstPulse at hq
    cases hk : op.kind with
    | pulse p =>
      simp only [hk] at hq ⊢
      injection hq with hq; injection hq with h1 h2; subst h1 h2
      by_cases h1 : op.tf + (p.fall inEom : Nat) ≤ cur
      · rw [if_pos h1]; exact h1
      · rw [if_neg h1, if_pos hshare]; exact Int.le_refl _
    | target =>
      simp only [hk] at hq ⊢
      by_cases h1 : op.tf + (r2 : Int) ≤ cur
      · rw [if_pos h1]
        have hm := firstPulse_mem hq
        have h2 := DescTf_le hd q hm.1
        have h3 := hA q (List.mem_cons_of_mem _ hm.1) pq hm.2
        omega
      · rw [if_neg h1]
        exact ih cur (DescTf_tail hd) (fun s hs => hA s (List.mem_cons_of_mem _ hs)) q pq hq hshare
    | delay =>
      simp only [hk] at hq ⊢
      by_cases h1 : op.tf + (r2 : Int) ≤ cur
      · rw [if_pos h1]
        have hm := firstPulse_mem hq
        have h2 := DescTf_le hd q hm.1
        have h3 := hA q (List.mem_cons_of_mem _ hm.1) pq hm.2
        omega
      · rw [if_neg h1]
        exact ih cur (DescTf_tail hd) (fun s hs => hA s (List.mem_cons_of_mem _ hs)) q pq hq hshare

/-- The fold of `_find_add_delay` over all other channels is at least what the scan of any
single one of them returns at the time it is scanned, hence at least any bound `B` that
this scan guarantees from every starting value. -/
theorem findAddDelay_ge_of_chan (others : List ChanState) (myT : List Nat) (wa : Bool) (t0 : Int)
    (ch : ChanState) (hch : ch ∈ others) (B : Int)
    (hB : ∀ cur, B ≤ findAddDelayChan (2 * ch.modeRise) ch.inEomMode myT wa cur ch.slots.reverse) :
    B ≤ findAddDelay others myT wa t0 := by
  unfold findAddDelay
  induction others generalizing t0 with
  | nil => cases hch
  | cons a rest ih =>
    simp only [List.foldl_cons]
    rcases List.mem_cons.mp hch with h | h
    · subst h
      have h1 := hB t0
      have h2 := findAddDelay_ge rest myT wa
        (findAddDelayChan (2 * ch.modeRise) ch.inEomMode myT wa t0 ch.slots.reverse)
      unfold findAddDelay at h2
      omega
    · exact ih _ h

end Pulser
