/-
  Proofs.ConflictInv — the 'last pulse clear' invariant (`LPC`, see Proofs/Conflict.lean) holds in
  every reachable state: a target instruction is appended only after `wait_for_fall`, outside
  EOM mode, and every other scheduler step appends pulses and delays only.

  Oracle hypothesis (A1, standard mode): `fallStd ≤ 2·rise_time` for every pulse of the final
  state — this is what makes the early exit of `get_duration(include_fall_time=True)` sound.
-/
import Proofs.Conflict
import Proofs.SeqInv
namespace Pulser

/-- A1 for the pulses of a channel, standard mode. -/
def FallsOkC (c : ChanState) : Prop :=
  ∀ s ∈ c.slots, ∀ p, s.kind = .pulse p → p.fallStd ≤ 2 * c.cfg.rise

def LPCc (c : ChanState) : Prop := LPC c.slots.reverse

theorem FallsOkC_of_Ext {c c' : ChanState} (h : Ext c c') (hf : FallsOkC c') : FallsOkC c := by
  intro s hs p hp
  have := hf s (h.2.2.1.subset hs) p hp
  rw [h.1] at this; exact this

/-- End of the most recent target instruction on a reversed instruction list (`last_target()`). -/
def lastTargetOf (l : List Slot) : Int :=
  match l.find? Slot.isTarget with
  | some s => s.tf
  | none => 0

/-- Retarget rule: every target instruction but the initial one lasts at least
`fixed_retarget_t` and ends at least `min_retarget_interval` after the end of the target
instruction before it. -/
def RT (cfg : ChanCfg) : List Slot → Prop
  | [] => True
  | s :: rest =>
    (rest ≠ [] → s.isTarget = true →
      (cfg.fixedRetarget : Int) ≤ s.tf - s.ti ∧ (cfg.minRetarget : Int) ≤ s.tf - lastTargetOf rest) ∧
    RT cfg rest

def RTc (c : ChanState) : Prop := RT c.cfg c.slots.reverse

/-- `c'` extends `c` and keeps `LPC` (given A1 on the final instruction list) and the retarget rule. -/
def KG (c c' : ChanState) : Prop :=
  Ext c c' ∧ (FallsOkC c' → LPCc c → LPCc c') ∧ (RTc c → RTc c')

theorem KG.rfl' (c : ChanState) : KG c c := ⟨Ext.refl c, fun _ h => h, fun h => h⟩

theorem KG.trans {a b c : ChanState} (h1 : KG a b) (h2 : KG b c) : KG a c :=
  ⟨h1.1.trans h2.1, fun hf hl => h2.2.1 hf (h1.2.1 (FallsOkC_of_Ext h2.1 hf) hl),
   fun h => h2.2.2 (h1.2.2 h)⟩

/-- Appending non-target instructions keeps `LPC`. -/
theorem LPC_append_nt (new : List Slot) : ∀ (l : List Slot), LPC l.reverse →
    (∀ s ∈ new, s.isTarget = false) → LPC (l ++ new).reverse := by
  induction new with
  | nil => intro l h _; simpa using h
  | cons x rest ih =>
    intro l h hn
    have : l ++ x :: rest = (l ++ [x]) ++ rest := by simp
    rw [this]
    apply ih _ _ (fun s hs => hn s (List.mem_cons_of_mem _ hs))
    rw [List.reverse_append]
    refine ⟨fun ht => ?_, h⟩
    have := hn x List.mem_cons_self
    rw [this] at ht; cases ht

theorem RT_append_nt (cfg : ChanCfg) (new : List Slot) : ∀ (l : List Slot), RT cfg l.reverse →
    (∀ s ∈ new, s.isTarget = false) → RT cfg (l ++ new).reverse := by
  induction new with
  | nil => intro l h _; simpa using h
  | cons x rest ih =>
    intro l h hn
    have : l ++ x :: rest = (l ++ [x]) ++ rest := by simp
    rw [this]
    apply ih _ _ (fun s hs => hn s (List.mem_cons_of_mem _ hs))
    rw [List.reverse_append]
    refine ⟨fun _ ht => ?_, h⟩
    have := hn x List.mem_cons_self
    rw [this] at ht; cases ht

/-- `c'` is `c` with non-target instructions appended (nothing else changed that `Ext` tracks). -/
def NT (c c' : ChanState) : Prop :=
  Ext c c' ∧ ∃ new, c'.slots = c.slots ++ new ∧ ∀ s ∈ new, s.isTarget = false

theorem NT.rfl' (c : ChanState) : NT c c := ⟨Ext.refl c, [], by simp, by simp⟩

theorem NT.trans {a b c : ChanState} (h1 : NT a b) (h2 : NT b c) : NT a c := by
  obtain ⟨e1, n1, s1, t1⟩ := h1
  obtain ⟨e2, n2, s2, t2⟩ := h2
  refine ⟨e1.trans e2, n1 ++ n2, by rw [s2, s1, List.append_assoc], ?_⟩
  intro s hs
  rcases List.mem_append.mp hs with h | h
  · exact t1 s h
  · exact t2 s h

theorem NT.kg {c c' : ChanState} (h : NT c c') : KG c c' := by
  obtain ⟨e, new, hs, ht⟩ := h
  refine ⟨e, fun _ hl => ?_, fun hr => ?_⟩
  · unfold LPCc at *
    rw [hs]; exact LPC_append_nt _ _ hl ht
  · unfold RTc at *
    rw [hs, e.1]; exact RT_append_nt _ _ _ hr ht

theorem NT_snoc (c : ChanState) (x : Slot) (hx : x.isTarget = false) :
    NT c { c with slots := c.slots ++ [x] } :=
  ⟨Ext_snoc c x, [x], rfl, by simpa using hx⟩

theorem NT_of_slots_eq {c c' : ChanState} (h1 : c'.cfg = c.cfg) (h2 : c'.name = c.name)
    (h3 : c'.slots = c.slots) (h4 : c'.maxW = c.maxW) (h5 : c'.sumW = c.sumW) : NT c c' :=
  ⟨⟨h1, h2, by rw [h3]; exact List.prefix_refl _, h4, h5⟩, [], by simp [h3], by simp⟩

/-- What `add_delay` appends: one non-target instruction — a plain delay outside EOM mode. -/
theorem addDelay_nt {ms : Option Nat} {c c' : ChanState} {d : Nat} (hc : 0 < c.cfg.clock)
    (h : addDelay ms c d = .ok c') :
    ∃ (last x : Slot), c.last = .ok last ∧ c'.slots = c.slots ++ [x] ∧ x.isTarget = false ∧
      x.ti = last.tf ∧ (d : Int) ≤ x.tf - last.tf ∧ (c.inEomMode = false → x.kind = .delay) ∧
      c' = { c with slots := c.slots ++ [x] } := by
  unfold addDelay at h
  cases hl : c.last with
  | error e => rw [hl] at h; cases h
  | ok last =>
    cases hv : validateDuration c.cfg d with
    | error e => rw [hl, hv] at h; cases h
    | ok d' =>
      have hd : d ≤ d' := (validateDuration_ok hc hv).2.2.1
      cases hcd : checkDuration ms (last.tf + (d' : Int)) with
      | error e => simp [hl, hv, hcd, bind, Except.bind] at h
      | ok u =>
        simp only [hl, hv, hcd, bind, Except.bind] at h
        cases he : c.eom.getLast? with
        | none =>
          rw [he] at h; simp only at h
          injection h with h; subst h
          exact ⟨last, _, rfl, rfl, rfl, rfl, by simp; omega, fun _ => rfl, rfl⟩
        | some b =>
          rw [he] at h; simp only at h
          by_cases hb : (b.tf.isNone && decide (b.detOff ≠ 0)) = true
          · rw [if_pos hb] at h
            cases hm : mkDetunedDelay c d' b.detOff c.lastPulsePhase with
            | error e => rw [hm] at h; cases h
            | ok p =>
              rw [hm] at h; injection h with h; subst h
              refine ⟨last, _, rfl, rfl, rfl, rfl, by simp; omega, fun hne => ?_, rfl⟩
              unfold ChanState.inEomMode at hne
              simp only [he] at hne
              simp only [Bool.and_eq_true] at hb
              rw [hne] at hb; exact absurd hb.1 (by simp)
          · rw [if_neg hb] at h
            injection h with h; subst h
            exact ⟨last, _, rfl, rfl, rfl, rfl, by simp; omega, fun _ => rfl, rfl⟩

/-- `get_duration(include_fall_time=True)` is at least the end, fall time included, of the most
recent pulse: the early exit on an idle instruction older than `2·rise_time` skips nothing (A1). -/
theorem durFallAux_ge (r2 : Nat) (inEom : Bool) :
    ∀ (l : List Slot) (temp : Int), DescTf l → (∀ s ∈ l, s.tf ≤ temp) →
      (∀ s ∈ l, ∀ p, s.kind = .pulse p → p.fall inEom ≤ r2) →
      ∀ q pq, firstPulse l = some (q, pq) →
        q.tf + (pq.fall inEom : Nat) ≤ ChanState.durFallAux r2 inEom temp l ∧
        temp ≤ ChanState.durFallAux r2 inEom temp l := by
  intro l
  induction l with
  | nil => intro temp _ _ _ q pq h; cases h
  | cons op rest ih =>
    intro temp hd hle hA q pq hq
    unfold ChanState.durFallAux
    unfold firstPulse at hq
    cases hk : op.kind with
    | pulse p =>
      simp only [hk] at hq ⊢
      injection hq with hq; injection hq with h1 h2; subst h1 h2
      constructor <;> omega
    | target =>
      simp only [hk] at hq ⊢
      by_cases hb : temp - op.tf ≥ (r2 : Int)
      · rw [if_pos hb]
        have hm := firstPulse_mem hq
        have h1 := DescTf_le hd q hm.1
        have h2 := hA q (List.mem_cons_of_mem _ hm.1) pq hm.2
        constructor <;> omega
      · rw [if_neg hb]
        exact ih temp (DescTf_tail hd) (fun s hs => hle s (List.mem_cons_of_mem _ hs))
          (fun s hs => hA s (List.mem_cons_of_mem _ hs)) q pq hq
    | delay =>
      simp only [hk] at hq ⊢
      by_cases hb : temp - op.tf ≥ (r2 : Int)
      · rw [if_pos hb]
        have hm := firstPulse_mem hq
        have h1 := DescTf_le hd q hm.1
        have h2 := hA q (List.mem_cons_of_mem _ hm.1) pq hm.2
        constructor <;> omega
      · rw [if_neg hb]
        exact ih temp (DescTf_tail hd) (fun s hs => hle s (List.mem_cons_of_mem _ hs))
          (fun s hs => hA s (List.mem_cons_of_mem _ hs)) q pq hq

theorem modeRise_std {c : ChanState} (h : c.inEomMode = false) : c.modeRise = c.cfg.rise := by
  unfold ChanState.modeRise; rw [h]; rfl

/-- Outside EOM mode the duration with fall time covers the most recent pulse's standard fall. -/
theorem getDuration_true_ge {ms : Option Nat} {c : ChanState} (hi : ChanInv ms c)
    (hne : c.inEomMode = false) (hf : FallsOkC c) {q : Slot} {pq : PulseRec}
    (hq : firstPulse c.slots.reverse = some (q, pq)) :
    q.tf + (pq.fallStd : Nat) ≤ c.getDuration true ∧ c.getDuration false ≤ c.getDuration true := by
  unfold ChanState.getDuration
  cases hr : c.slots.reverse with
  | nil => rw [hr] at hq; cases hq
  | cons op rest =>
    simp only [Bool.not_true, Bool.false_eq_true, if_false, Bool.not_false, if_true]
    have hinv := hi.2; rw [hr] at hinv
    have hd := InvR_DescTf hinv
    rw [hr] at hq
    have hA : ∀ s ∈ op :: rest, ∀ p, s.kind = .pulse p → p.fall c.inEomMode ≤ 2 * c.modeRise := by
      intro s hs p hp
      rw [modeRise_std hne, hne]
      have : s ∈ c.slots := by
        have : s ∈ c.slots.reverse := by rw [hr]; exact hs
        simpa using this
      exact hf s this p hp
    have hle : ∀ s ∈ op :: rest, s.tf ≤ op.tf := by
      intro s hs
      rcases List.mem_cons.mp hs with h | h
      · subst h; exact Int.le_refl _
      · exact DescTf_le hd s h
    have := durFallAux_ge (2 * c.modeRise) c.inEomMode (op :: rest) op.tf hd hle hA q pq hq
    rw [hne] at this ⊢
    exact this

/-- `wait_for_fall` outside EOM mode: only plain delays are appended, and the channel then ends
at or after the former duration-with-fall-time. -/
theorem waitForFall_nt {ms : Option Nat} {c c' : ChanState} (hi : ChanInv ms c)
    (h : waitForFall ms c = .ok c') :
    NT c c' ∧ c'.eom = c.eom ∧
      (c.inEomMode = false → firstPulse c'.slots.reverse = firstPulse c.slots.reverse ∧
        c.getDuration true ≤ c'.getDuration false) := by
  unfold waitForFall at h
  simp only at h
  by_cases hfall : c.getDuration true - c.getDuration false > 0
  · rw [if_pos hfall] at h
    cases ha : c.adjust (c.getDuration true - c.getDuration false).toNat with
    | error e => simp [ha, bind, Except.bind] at h
    | ok d =>
      simp only [ha, bind, Except.bind] at h
      have had := adjustDuration_ok hi.1 ha
      obtain ⟨last, x, hl, hs, hx, hti, hdx, hkind, hc'⟩ := addDelay_nt hi.1 h
      subst hc'
      refine ⟨NT_snoc c x hx, rfl, fun hne => ?_⟩
      have hk := hkind hne
      constructor
      · show firstPulse (c.slots ++ [x]).reverse = _
        rw [List.reverse_append]
        show firstPulse (x :: c.slots.reverse) = _
        rw [firstPulse]; simp [hk]
      · obtain ⟨rest, hr⟩ := last_ok hl
        have h0 : c.getDuration false = last.tf := by
          unfold ChanState.getDuration; rw [hr]; rfl
        have h1 : ({ c with slots := c.slots ++ [x] } : ChanState).getDuration false = x.tf := by
          unfold ChanState.getDuration
          show (match (c.slots ++ [x]).reverse with | [] => (0 : Int) | op :: rest => _) = _
          rw [List.reverse_append]; rfl
        rw [h1]
        have : ((c.getDuration true - c.getDuration false).toNat : Int)
            = c.getDuration true - c.getDuration false := Int.toNat_of_nonneg (by omega)
        have h2 := had.2.1
        omega
  · rw [if_neg hfall] at h
    injection h with h; subst h
    refine ⟨NT.rfl' c, rfl, fun _ => ⟨rfl, by omega⟩⟩

theorem lift_kg {c : ChanState} {e : Except Err ChanState} (h : ∀ c', e = .ok c' → KG c c') :
    KG c (CRes.lift c e).c := by
  unfold CRes.lift
  cases e with
  | error x => exact KG.rfl' c
  | ok c' => exact h c' rfl

theorem lift_nt {c : ChanState} {e : Except Err ChanState} (h : ∀ c', e = .ok c' → NT c c') :
    NT c (CRes.lift c e).c := by
  unfold CRes.lift
  cases e with
  | error x => exact NT.rfl' c
  | ok c' => exact h c' rfl

theorem bind_nt {c : ChanState} {r : CRes} {f : ChanState → CRes} {ms : Option Nat}
    (hr : NT c r.c) (hi : ChanInv ms r.c) (hf : ∀ c1, ChanInv ms c1 → NT c1 (f c1).c) :
    NT c (r.bind f).c := by
  unfold CRes.bind
  cases r.err with
  | none => exact hr.trans (hf _ hi)
  | some e => exact hr

theorem lastTarget_le_last {ms : Option Nat} {c : ChanState} {last : Slot} (hi : ChanInv ms c)
    (hl : c.last = .ok last) : c.lastTarget ≤ last.tf := by
  obtain ⟨rest, hr⟩ := last_ok hl
  have hinv := hi.2; rw [hr] at hinv
  have hd := InvR_DescTf hinv
  have h0 := (InvR_head hinv).2
  unfold ChanState.lastTarget
  rw [hr]
  cases hf : (last :: rest).find? Slot.isTarget with
  | none => exact h0
  | some s =>
    have hm := List.mem_of_find?_eq_some hf
    rcases List.mem_cons.mp hm with h | h
    · subst h; exact Int.le_refl _
    · exact DescTf_le hd s h

/-- The instruction appended by the tail of `add_target`: it starts at the channel end, lasts
at least `fixed_retarget_t` and ends at least `min_retarget_interval` after the previous target
instruction's end. -/
theorem addTargetTail_spec {ms : Option Nat} {c c' : ChanState} {qs : List Nat}
    (hi : ChanInv ms c) (h : addTargetTail ms c qs = .ok c') :
    ∃ (last : Slot) (delta : Nat), c.last = .ok last ∧
      c' = { c with slots := c.slots ++ [⟨.target, last.tf, last.tf + (delta : Int), qs⟩] } ∧
      c.cfg.fixedRetarget ≤ delta ∧ (c.cfg.minRetarget : Int) ≤ last.tf + delta - c.lastTarget := by
  unfold addTargetTail at h
  cases hl : c.last with
  | error e => simp [hl] at h
  | ok last =>
    simp only [hl] at h
    have hlt := lastTarget_le_last hi hl
    split at h
    · cases h
    · rename_i delta hd
      split at h
      · cases h
      · injection h with h
        refine ⟨last, delta, rfl, h.symm, ?_⟩
        have hrd : retargetDelta c last.tf =
            (if c.cfg.fixedRetarget ≠ 0 then
              max (min (max ((c.cfg.minRetarget : Int) - (last.tf - c.lastTarget)) 0) c.cfg.minRetarget)
                (c.cfg.fixedRetarget : Int)
             else min (max ((c.cfg.minRetarget : Int) - (last.tf - c.lastTarget)) 0) c.cfg.minRetarget) := rfl
        by_cases hz : retargetDelta c last.tf ≠ 0
        · rw [if_pos hz] at hd
          have ha := adjustDuration_ok hi.1 hd
          have := ha.2.1
          constructor <;> (split at hrd <;> omega)
        · rw [if_neg hz] at hd
          injection hd with hd
          subst hd
          have hz' : retargetDelta c last.tf = 0 := by omega
          constructor <;> (split at hrd <;> omega)

/-- **`add_target` keeps `LPC`** outside EOM mode (the target instruction is appended after
`wait_for_fall`, i.e. at or after the end, standard fall time included, of the last pulse)
**and the retarget rule** (in any mode). -/
theorem addTarget_kg {ms : Option Nat} {c : ChanState} {qs : List Nat} (hi : ChanInv ms c)
    (hne : c.inEomMode = false) : KG c (addTarget ms c qs).c := by
  refine ⟨(addTarget_inv hi).2, ?_⟩
  unfold addTarget
  by_cases hemp : c.slots.isEmpty = true
  · rw [if_pos hemp]
    have he : c.slots = [] := by simpa using hemp
    unfold CRes.lift
    cases hc : checkDuration ms 0 with
    | error e =>
      simp only [bind, Except.bind]
      exact ⟨fun _ h => h, fun h => h⟩
    | ok u =>
      simp only [bind, Except.bind]
      constructor
      · intro _ _
        unfold LPCc; simp only [he, List.nil_append, List.reverse_cons, List.reverse_nil]
        exact ⟨fun _ q pq h => by simp [firstPulse] at h, trivial⟩
      · intro _
        unfold RTc; simp only [he, List.nil_append, List.reverse_cons, List.reverse_nil]
        exact ⟨fun h => absurd rfl h, trivial⟩
  · rw [if_neg hemp]
    cases hsame : sameTargets c qs with
    | true => simp only [if_true]; exact ⟨fun _ h => h, fun h => h⟩
    | false =>
      simp only [Bool.false_eq_true, if_false]
      cases hw : waitForFall ms c with
      | error e =>
        simp only [CRes.lift, CRes.bind]; exact ⟨fun _ h => h, fun h => h⟩
      | ok c1 =>
        simp only [CRes.lift, CRes.bind]
        obtain ⟨hnt, heom, hfacts⟩ := waitForFall_nt hi hw
        obtain ⟨hfp, hdur⟩ := hfacts hne
        have hi1 : ChanInv ms c1 := (waitForFall_inv hi hw).1
        cases ht : addTargetTail ms c1 qs with
        | error e => exact hnt.kg.2
        | ok c2 =>
          simp only
          obtain ⟨last, delta, hl, hc2, hfix, hmin⟩ := addTargetTail_spec hi1 ht
          subst hc2
          obtain ⟨rest, hr⟩ := last_ok hl
          constructor
          · intro hf hlpc
            have hf1 : FallsOkC c1 := by
              intro s hs p hp
              exact hf s (by show s ∈ c1.slots ++ [_]; exact List.mem_append_left _ hs) p hp
            have hfc : FallsOkC c := FallsOkC_of_Ext hnt.1 hf1
            have hl1 := hnt.kg.2.1 hf1 hlpc
            show LPC (c1.slots ++ [_]).reverse
            rw [List.reverse_append]
            refine ⟨fun _ q pq hq => ?_, hl1⟩
            show q.tf + (pq.fallStd : Nat) ≤ last.tf
            have hq : firstPulse c1.slots.reverse = some (q, pq) := hq
            rw [hfp] at hq
            have h1 := (getDuration_true_ge hi hne hfc hq).1
            have h2 : c1.getDuration false = last.tf := by
              unfold ChanState.getDuration; rw [hr]; rfl
            omega
          · intro hrt
            have hr1 := hnt.kg.2.2 hrt
            show RT c1.cfg (c1.slots ++ [_]).reverse
            rw [List.reverse_append]
            refine ⟨fun _ _ => ?_, hr1⟩
            show (c1.cfg.fixedRetarget : Int) ≤ last.tf + (delta : Int) - last.tf ∧
              (c1.cfg.minRetarget : Int) ≤ last.tf + (delta : Int) - lastTargetOf c1.slots.reverse
            have : lastTargetOf c1.slots.reverse = c1.lastTarget := rfl
            rw [this]
            constructor <;> omega

/-- Good step that appends non-target instructions only. -/
def GN (ms : Option Nat) (c c' : ChanState) : Prop := Good ms c c' ∧ NT c c'

theorem GN.rfl' {ms : Option Nat} {c : ChanState} (h : ChanInv ms c) : GN ms c c := ⟨Good.rfl' h, NT.rfl' c⟩

theorem GN.trans {ms : Option Nat} {a b c : ChanState} (h1 : GN ms a b) (h2 : GN ms b c) : GN ms a c :=
  ⟨h1.1.trans h2.1, h1.2.trans h2.2⟩

theorem lift_gn {ms : Option Nat} {c : ChanState} {e : Except Err ChanState} (hi : ChanInv ms c)
    (h : ∀ c', e = .ok c' → GN ms c c') : GN ms c (CRes.lift c e).c := by
  unfold CRes.lift
  cases e with
  | error x => exact GN.rfl' hi
  | ok c' => exact h c' rfl

theorem bind_gn {ms : Option Nat} {c : ChanState} {r : CRes} {f : ChanState → CRes} (hr : GN ms c r.c)
    (hf : ∀ c1, ChanInv ms c1 → GN ms c1 (f c1).c) : GN ms c (r.bind f).c := by
  unfold CRes.bind
  cases r.err with
  | none => exact hr.trans (hf _ hr.1.1)
  | some e => exact hr

theorem addDelay_gn {ms : Option Nat} {c c' : ChanState} {d : Nat} (hi : ChanInv ms c)
    (h : addDelay ms c d = .ok c') : GN ms c c' := by
  refine ⟨addDelay_inv hi h, ?_⟩
  obtain ⟨last, x, _, _, hx, _, _, _, hc'⟩ := addDelay_nt hi.1 h
  subst hc'; exact NT_snoc c x hx

theorem waitForFall_gn {ms : Option Nat} {c c' : ChanState} (hi : ChanInv ms c)
    (h : waitForFall ms c = .ok c') : GN ms c c' :=
  ⟨waitForFall_inv hi h, (waitForFall_nt hi h).1⟩

theorem addPulse_gn {ms : Option Nat} {c c' : ChanState} {others : List ChanState}
    {p : PulseRec} {barriers : List Int} {proto : Protocol} {drift : Option Drift}
    (hi : ChanInv ms c) (hp : c.cfg.clock ∣ p.dur ∧ c.cfg.minDur ≤ p.dur)
    (hlim : PulseLim c.cfg c.maxW c.sumW p)
    (h : addPulse ms c others p barriers proto drift = .ok c') : GN ms c c' := by
  refine ⟨addPulse_inv hi hp hlim h, ?_⟩
  unfold addPulse at h
  cases hl : c.last with
  | error e => simp [hl, bind, Except.bind] at h
  | ok last =>
    cases hm : makeNextPulseSlot ms c others p barriers proto drift true with
    | error e => simp [hl, hm, bind, Except.bind] at h
    | ok slot =>
      simp only [hl, hm, bind, Except.bind] at h
      obtain ⟨delay, p', _, _, _, h4, _⟩ := makeNextPulseSlot_spec hi.1 hl hm
      have hnt : slot.isTarget = false := by simp [Slot.isTarget, h4]
      by_cases hpos : slot.ti - last.tf > 0
      · simp only [hpos, if_true] at h
        cases had : addDelay ms c (slot.ti - last.tf).toNat with
        | error e => simp [had] at h
        | ok c1 =>
          simp only [had] at h
          injection h with h; subst h
          exact (addDelay_gn hi had).2.trans (NT_snoc c1 slot hnt)
      · simp only [hpos, if_false, pure, Except.pure] at h
        injection h with h; subst h
        exact NT_snoc c slot hnt

theorem GN_of_same {ms : Option Nat} {c c' : ChanState} (hi : ChanInv ms c) (h1 : c'.cfg = c.cfg)
    (h2 : c'.slots = c.slots) (h3 : c'.name = c.name) (h4 : c'.maxW = c.maxW) (h5 : c'.sumW = c.sumW) :
    GN ms c c' := ⟨Good_of_same hi h1 h2 h3 h4 h5, NT_of_slots_eq h1 h3 h2 h4 h5⟩

theorem enableEom_gn {ms : Option Nat} {c : ChanState} {amp detOn detOff : Rat} {sb sw : Bool}
    (hi : ChanInv ms c) : GN ms c (enableEom ms c amp detOn detOff sb sw).c := by
  unfold enableEom
  simp only
  apply bind_gn
  · split
    · apply bind_gn
      · split
        · exact lift_gn hi (fun c' h => waitForFall_gn hi h)
        · exact GN.rfl' hi
      · intro c1 hi1
        apply lift_gn hi1
        intro c' h
        simp only [bind, Except.bind] at h
        split at h
        · cases h
        · rename_i buf ha
          split at h
          · split at h
            · cases h
            · rename_i p hm
              exact addPulse_gn hi1 (mkDetunedDelay_pulseOk hi1.1 ha hm).1 (mkDetunedDelay_pulseOk hi1.1 ha hm).2 h
          · exact addDelay_gn hi1 h
    · exact GN.rfl' hi
  · intro c1 hi1
    apply lift_gn hi1
    intro c' h
    cases hl : c1.last with
    | error e => simp [hl, bind, Except.bind] at h
    | ok last =>
      simp only [hl, bind, Except.bind] at h
      injection h with h; subst h
      exact GN_of_same hi1 rfl rfl rfl rfl rfl

theorem disableEom_gn {ms : Option Nat} {c : ChanState} {sb : Bool}
    (hi : ChanInv ms c) : GN ms c (disableEom ms c sb).c := by
  unfold disableEom
  apply bind_gn
  · apply lift_gn hi
    intro c' h
    cases hl : c.last with
    | error e => simp [hl, bind, Except.bind] at h
    | ok last =>
      simp only [hl, bind, Except.bind] at h
      injection h with h; subst h
      exact GN_of_same hi rfl rfl rfl rfl rfl
  · intro c1 hi1
    split
    · exact GN.rfl' hi1
    · split
      · split
        · apply lift_gn hi1
          intro c' h
          rename_i e _ _
          cases ha : c1.adjust e.bufferTime with
          | error e => simp [ha, bind, Except.bind] at h
          | ok buf =>
            simp only [ha, bind, Except.bind] at h
            exact addDelay_gn hi1 h
        · exact lift_gn hi1 (fun c' h => waitForFall_gn hi1 h)
      · exact lift_gn hi1 (fun c' h => waitForFall_gn hi1 h)

theorem RT_suffix (cfg : ChanCfg) (a b : List Slot) (h : RT cfg (a ++ b)) : RT cfg b := by
  induction a with
  | nil => exact h
  | cons x rest ih => exact ih h.2

theorem LPC_suffix (a b : List Slot) (h : LPC (a ++ b)) : LPC b := by
  induction a with
  | nil => exact h
  | cons x rest ih => exact ih h.2

end Pulser
