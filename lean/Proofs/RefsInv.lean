/-
  Proofs.RefsInv — every phase tracker of every reachable sequence is well formed (C07).
-/
import Proofs.Phase
import PulserModel.Sequence
import Proofs.SeqInv
namespace Pulser

/-- All trackers of all addressed bases are well formed. -/
def RefsOk (s : SeqState) : Prop := ∀ p ∈ s.refs, ∀ r ∈ p.2, TrOk r

/-- `s'` has well-formed trackers whenever `s` has. -/
def KeepsRefs (s : SeqState) (r : Raw) : Prop := RefsOk s → RefsOk r.st

theorem kr_fail (s : SeqState) (e : Err) : KeepsRefs s (fail s e) := fun h => h
theorem kr_orRollback {s : SeqState} {r : Raw} (h : KeepsRefs s r) : KeepsRefs s (r.orRollback s) := by
  rcases Raw.orRollback_cases r s with e | ⟨e, he⟩
  · rw [e]; exact h
  · rw [he]; exact kr_fail _ _
theorem kr_same {s : SeqState} {r : Raw} (h : r.st.refs = s.refs) : KeepsRefs s r := by
  intro hs; unfold RefsOk; rw [h]; exact hs

theorem kr_bind {s : SeqState} {r : Raw} {g : SeqState → Raw} (hr : KeepsRefs s r)
    (hg : ∀ s1, KeepsRefs s1 (g s1)) : KeepsRefs s (r.bind g) := by
  unfold Raw.bind
  cases r.err with
  | none => exact fun h => hg _ (hr h)
  | some e => exact hr

theorem kr_withChan (s : SeqState) (n : ChName) (f : ChanState → CRes) : KeepsRefs s (s.withChan n f) := by
  apply kr_same
  unfold SeqState.withChan
  cases s.getChan n <;> rfl

theorem mapRefs_ok {s : SeqState} (b : Basis) (qs : List Nat) (f : QRef → QRef)
    (hf : ∀ r, TrOk r → TrOk (f r)) (h : RefsOk s) : RefsOk (s.mapRefs b qs f) := by
  unfold SeqState.mapRefs
  cases hg : s.getRefs b with
  | none => exact h
  | some l =>
    simp only
    have hl : ∀ r ∈ l, TrOk r := by
      unfold SeqState.getRefs at hg
      cases hf' : s.refs.find? (·.1 == b) with
      | none => rw [hf'] at hg; cases hg
      | some p =>
        rw [hf'] at hg; injection hg with hg; subst hg
        exact h p (List.mem_of_find?_eq_some hf')
    intro p hp r hr
    unfold SeqState.setRefs at hp
    simp only [List.mem_map] at hp
    obtain ⟨x, hx, hxp⟩ := hp
    split at hxp
    · subst hxp
      simp only [List.mem_map] at hr
      obtain ⟨⟨r0, i⟩, hri, hre⟩ := hr
      have hr0 : r0 ∈ l := by
        have := List.mem_zipIdx hri
        simp only [Nat.sub_zero] at this
        rw [this.2.2]; exact List.getElem_mem _
      simp only at hre
      split at hre
      · subst hre; exact hf r0 (hl r0 hr0)
      · subst hre; exact hl r0 hr0
    · subst hxp; exact h x hx r hr

theorem ensureBasis_ok {s : SeqState} (b : Basis) (h : RefsOk s) : RefsOk (s.ensureBasis b) := by
  unfold SeqState.ensureBasis
  split
  · exact h
  · intro p hp r hr
    simp only [List.mem_append, List.mem_singleton] at hp
    rcases hp with hp | hp
    · exact h p hp r hr
    · subst hp
      simp only [List.mem_replicate] at hr
      rw [hr.2]; exact TrOk_default

theorem kr_phaseShift (s : SeqState) (phi : Rat) (qs : List Nat) (b : Basis) :
    KeepsRefs s (s.phaseShift phi qs b) := by
  unfold SeqState.phaseShift
  by_cases h1 : (s.getRefs b).isNone = true
  · rw [if_pos h1]; exact kr_fail _ _
  · rw [if_neg h1]
    simp only
    generalize (if qs.isEmpty = true then s.allQubits else qs) = qs'
    by_cases h2 : (qs'.any fun x => decide (x ≥ s.nQ)) = true
    · rw [if_pos h2]; exact kr_fail _ _
    · rw [if_neg h2]
      exact fun h => mapRefs_ok b qs' _ (fun r hr => (incrementPhase_spec r phi hr).2.2.2) h

theorem kr_targetCore (s : SeqState) (qs : List Nat) (n : ChName) : KeepsRefs s (targetCore s qs n) := by
  unfold targetCore
  repeat' split
  all_goals first | exact kr_fail _ _ | exact kr_withChan _ _ _

theorem kr_delayCore (s : SeqState) (d : Int) (n : ChName) (atRest : Bool) :
    KeepsRefs s (delayCore s d n atRest) := by
  unfold delayCore
  split
  · exact kr_fail _ _
  · split
    · exact kr_fail _ _
    · apply kr_bind
      · split
        · exact kr_withChan _ _ _
        · exact fun h => h
      · intro s1
        split
        · exact fun h => h
        · exact kr_withChan _ _ _

theorem kr_delayChecked (s : SeqState) (d : Int) (n : ChName) (atRest : Bool) :
    KeepsRefs s (delayChecked s d n atRest) := by
  rcases delayChecked_cases s d n atRest with h | ⟨e, h⟩ <;> rw [h]
  · exact kr_delayCore s d n atRest
  · exact kr_fail s e

theorem kr_alignLoop (tf : Int) (l : List (ChName × Int)) : ∀ s, KeepsRefs s (alignLoop tf l s) := by
  induction l with
  | nil => intro s; exact fun h => h
  | cons a rest ih =>
    intro s
    obtain ⟨n, t⟩ := a
    unfold alignLoop
    simp only
    split
    · exact kr_fail _ _
    · split
      · split
        · exact kr_fail _ _
        · exact kr_bind (kr_delayCore _ _ _ _) (fun s1 => ih s1)
      · exact ih s

theorem kr_addCore (s : SeqState) (p : PulseIn) (n : ChName) (proto : Option Protocol)
    (drift : Option Drift) : KeepsRefs s (addCore s p n proto drift) := by
  unfold addCore
  cases proto with
  | none => exact kr_fail _ _
  | some proto =>
    simp only
    cases s.getChan n with
    | none => exact kr_fail _ _
    | some c =>
      simp only
      cases c.last with
      | error e => exact kr_fail _ _
      | ok last =>
        simp only
        split
        · exact kr_fail _ _
        · generalize (if c.cfg.isDmm = true then none else
            (s.lastPhases c.cfg.basis last.targets).head?) = phaseRef
          cases validateAndAdjust c p phaseRef with
          | error e => exact kr_fail _ _
          | ok pr =>
            simp only
            cases addPulse s.dev.maxSeqDur c (s.others n) pr
                (s.lastTimes c.cfg.basis last.targets) proto drift with
            | error e => exact kr_fail _ _
            | ok c' =>
              simp only
              have h1 : RefsOk s → RefsOk (s.setChan c') := fun h => h
              cases c'.last with
              | error e => exact h1
              | ok newSlot =>
                simp only
                have h2 : RefsOk s → RefsOk ((s.setChan c').mapRefs c.cfg.basis last.targets
                    (·.updateLastUsed newSlot.tf)) :=
                  fun h => mapRefs_ok _ _ _ (fun r hr => (updateLastUsed_spec r _ hr).2.2) (h1 h)
                split
                · exact fun h => kr_phaseShift _ _ _ _ (h2 h)
                · exact h2

theorem addChannel_refs_ok {s : SeqState} (c : ChanState) (h : RefsOk s) : RefsOk (s.addChannel c) := by
  unfold SeqState.addChannel
  simp only
  split <;> exact ensureBasis_ok _ h

theorem kr_store {s : SeqState} {r : Raw} (op : Op) (h : KeepsRefs s r) : KeepsRefs s (store op r) := by
  unfold store
  cases r.err with
  | none => exact h
  | some e => exact h

theorem kr_markNonEmpty {s : SeqState} {r : Raw} (h : KeepsRefs s r) : KeepsRefs s (markNonEmpty r) := by
  unfold markNonEmpty
  cases r.err with
  | none => exact h
  | some e => exact h

/-- Every API call keeps all phase trackers well formed. -/
theorem stepRaw_refs (s : SeqState) (op : Op) : KeepsRefs s (stepRaw s op) := by
  cases op with
  | declare name chId init =>
    simp only [stepRaw]
    repeat' split
    all_goals first
      | exact kr_fail _ _
      | exact kr_store _ (fun h => addChannel_refs_ok _ h)
      | exact kr_store _ (kr_orRollback (fun h => kr_targetCore _ _ _ (addChannel_refs_ok _ h)))
  | configDetMap dmmId maxW sumW =>
    simp only [stepRaw]
    repeat' split
    all_goals first
      | exact kr_fail _ _
      | exact kr_store _ (fun h => addChannel_refs_ok _ h)
  | target qs n => exact kr_store _ (kr_orRollback (kr_targetCore _ _ _))
  | add p n proto =>
    simp only [stepRaw]
    apply kr_store; apply kr_markNonEmpty
    repeat' split
    all_goals first | exact kr_fail _ _ | exact kr_addCore _ _ _ _ _
  | addDmm p n proto =>
    simp only [stepRaw]
    apply kr_store; apply kr_markNonEmpty
    repeat' split
    all_goals first | exact kr_fail _ _ | exact kr_addCore _ _ _ _ _
  | addEom n dur phase post proto corr fs fe ref =>
    simp only [stepRaw]
    apply kr_store; apply kr_markNonEmpty
    repeat' split
    all_goals first | exact kr_fail _ _ | exact kr_addCore _ _ _ _ _
  | delay d n atRest => exact kr_store _ (kr_orRollback (kr_delayChecked _ _ _ _))
  | align chs atRest =>
    simp only [stepRaw]
    apply kr_store
    apply kr_orRollback
    repeat' split
    all_goals first | exact kr_fail _ _ | exact (fun h => h) | exact kr_alignLoop _ _ _
  | phaseShift phi qs b => exact kr_store _ (kr_phaseShift _ _ _ _)
  | enableEom n e =>
    simp only [stepRaw]
    repeat' split
    all_goals first
      | exact kr_fail _ _
      | (apply kr_orRollback
         unfold enableEomCommit
         apply kr_bind (kr_withChan _ _ _)
         intro s1
         apply kr_store
         repeat' split
         all_goals first | exact kr_phaseShift _ _ _ _ | exact kr_fail _ _ | exact (fun h => h))
  | modifyEom n e =>
    simp only [stepRaw]
    repeat' split
    all_goals first
      | exact kr_fail _ _
      | (apply kr_orRollback
         unfold modifyEomCommit
         apply kr_bind (kr_withChan _ _ _)
         intro s1
         split
         · exact kr_fail _ _
         · apply kr_bind (kr_withChan _ _ _)
           intro s2
           apply kr_store
           repeat' split
           all_goals first | exact kr_phaseShift _ _ _ _ | exact kr_fail _ _ | exact (fun h => h))
  | disableEom n corr =>
    simp only [stepRaw]
    apply kr_store
    apply kr_orRollback
    repeat' split
    all_goals first
      | exact kr_fail _ _
      | (apply kr_bind (kr_withChan _ _ _)
         intro s1
         repeat' split
         all_goals first | exact kr_phaseShift _ _ _ _ | exact kr_fail _ _ | exact (fun h => h))
  | measure b =>
    simp only [stepRaw]
    apply kr_store
    repeat' split
    all_goals first | exact kr_fail _ _ | exact (fun h => h)
  | getDuration ch fall =>
    simp only [stepRaw]
    repeat' split
    all_goals first | exact kr_fail _ _ | exact (fun h => h)
  | estimate p n proto =>
    simp only [stepRaw]
    repeat' split
    all_goals first
      | exact kr_fail _ _
      | (intro h; rw [estimateCore_st]; exact h)
  | phaseRef q b =>
    simp only [stepRaw]
    repeat' split
    all_goals first | exact kr_fail _ _ | exact (fun h => h)

end Pulser
