/-
  Proofs.Atomic — helper lemmas for C09 (state after a raising call).
-/
import PulserModel.Sequence
namespace Pulser

theorem replaceChan_self {l : List ChanState} {c : ChanState}
    (h : l.find? (·.name == c.name) = some c) : SeqState.replaceChan c l = l := by
  induction l with
  | nil => rfl
  | cons a rest ih =>
    unfold SeqState.replaceChan
    by_cases ha : (a.name == c.name) = true
    · simp only [List.find?_cons, ha] at h
      injection h with h
      simp [ha, h]
    · simp only [List.find?_cons] at h
      split at h
      · rename_i hh; exact absurd hh ha
      · simp [ha, ih h]

theorem setChan_self {s : SeqState} {n : ChName} {c : ChanState} (h : s.getChan n = some c) :
    s.setChan c = s := by
  have hn : c.name = n := by
    have := List.find?_some h
    simpa using this
  unfold SeqState.setChan
  have : SeqState.replaceChan c s.chans = s.chans := by
    apply replaceChan_self
    rw [hn]; exact h
  rw [this]

/-- A channel-level step that fails atomically leaves the sequence as it was. -/
theorem withChan_lift_err {s : SeqState} {n : ChName} {f : ChanState → Except Err ChanState}
    (h : (s.withChan n fun c => CRes.lift c (f c)).err.isSome = true) :
    (s.withChan n fun c => CRes.lift c (f c)).st = s := by
  unfold SeqState.withChan at h ⊢
  cases hc : s.getChan n with
  | none => rfl
  | some c =>
    simp only [hc] at h ⊢
    unfold CRes.lift at h ⊢
    cases hf : f c with
    | error e => simp only; exact setChan_self hc
    | ok c' => simp [hf] at h

end Pulser

namespace Pulser

/-- Errors that the duration/length checks of the scheduler can raise. -/
def Err.isSched : Err → Bool
  | .durTooShort | .durTooLong | .overMaxSeq | .noTarget | .oracleMiss .. => true
  | _ => false

theorem validateDuration_err {c : ChanCfg} {d : Nat} {e : Err} (h : validateDuration c d = .error e) :
    e.isSched = true := by
  unfold validateDuration at h
  repeat' split at h
  all_goals first | (cases h; rfl) | cases h

theorem checkDuration_err {m : Option Nat} {t : Int} {e : Err} (h : checkDuration m t = .error e) :
    e.isSched = true := by
  unfold checkDuration at h
  repeat' split at h
  all_goals first | (cases h; rfl) | cases h

theorem last_err {c : ChanState} {e : Err} (h : c.last = .error e) : e.isSched = true := by
  unfold ChanState.last at h
  split at h
  · cases h
  · injection h with h; subst h; rfl

theorem mkDetunedDelay_err {c : ChanState} {d : Nat} {x y : Rat} {e : Err}
    (h : mkDetunedDelay c d x y = .error e) : e.isSched = true := by
  unfold mkDetunedDelay at h
  split at h
  · injection h with h; subst h; rfl
  · cases h

theorem addDelay_err {ms : Option Nat} {c : ChanState} {d : Nat} {e : Err}
    (h : addDelay ms c d = .error e) : e.isSched = true := by
  unfold addDelay at h
  cases hl : c.last with
  | error e1 => simp [hl, bind, Except.bind] at h; subst h; exact last_err hl
  | ok last =>
    cases hv : validateDuration c.cfg d with
    | error e1 => simp [hl, hv, bind, Except.bind] at h; subst h; exact validateDuration_err hv
    | ok d' =>
      cases hc : checkDuration ms (last.tf + (d' : Int)) with
      | error e1 => simp [hl, hv, hc, bind, Except.bind] at h; subst h; exact checkDuration_err hc
      | ok u =>
        simp only [hl, hv, hc, bind, Except.bind] at h
        split at h
        · split at h
          · rename_i b _ _
            cases hm : mkDetunedDelay c d' b.detOff c.lastPulsePhase with
            | error e1 => rw [hm] at h; injection h with h; subst h; exact mkDetunedDelay_err hm
            | ok p => rw [hm] at h; cases h
          · cases h
        · cases h

theorem adjust_err {c : ChanState} {d : Nat} {e : Err} (h : c.adjust d = .error e) :
    e.isSched = true := validateDuration_err h

theorem waitForFall_err {ms : Option Nat} {c : ChanState} {e : Err}
    (h : waitForFall ms c = .error e) : e.isSched = true := by
  unfold waitForFall at h
  simp only at h
  split at h
  · cases ha : c.adjust (c.getDuration true - c.getDuration false).toNat with
    | error e1 => simp [ha, bind, Except.bind] at h; subst h; exact adjust_err ha
    | ok d => simp only [ha, bind, Except.bind] at h; exact addDelay_err h
  · cases h

theorem lift_err {c : ChanState} {x : Except Err ChanState} {e : Err}
    (h : (CRes.lift c x).err = some e) : x = .error e := by
  unfold CRes.lift at h
  cases x with
  | error e1 => simp at h; rw [h]
  | ok c' => simp at h

theorem addTarget_err {ms : Option Nat} {c : ChanState} {qs : List Nat} {e : Err}
    (h : (addTarget ms c qs).err = some e) : e.isSched = true := by
  unfold addTarget at h
  split at h
  · have := lift_err h
    cases hc : checkDuration ms 0 with
    | error e1 => simp [hc, bind, Except.bind] at this; subst this; exact checkDuration_err hc
    | ok u => simp [hc, bind, Except.bind] at this
  · split at h
    · simp at h
    · unfold CRes.bind at h
      split at h
      · have := lift_err h
        generalize (CRes.lift c (waitForFall ms c)).c = c1 at this
        unfold addTargetTail at this
        split at this
        · rename_i e1 hl; injection this with this; subst this; exact last_err hl
        · simp only at this
          split at this
          · rename_i e1 hadj
            injection this with this; subst this
            split at hadj
            · exact adjust_err hadj
            · cases hadj
          · split at this
            · rename_i e1 hc; injection this with this; subst this; exact checkDuration_err hc
            · cases this
      · exact waitForFall_err (lift_err h)

end Pulser

namespace Pulser

theorem phaseShift_atomic {s : SeqState} {phi : Rat} {qs : List Nat} {b : Basis} {e : Err}
    (h : (s.phaseShift phi qs b).err = some e) :
    (s.phaseShift phi qs b).st = s ∧ (e = .noBasis ∨ e = .unknownQubit) := by
  unfold SeqState.phaseShift at h ⊢
  by_cases h1 : (s.getRefs b).isNone = true
  · rw [if_pos h1] at h ⊢
    simp only [fail] at h ⊢
    injection h with h
    exact ⟨by first | rfl | trivial, .inl h.symm⟩
  · rw [if_neg h1] at h ⊢
    simp only at h ⊢
    generalize (if qs.isEmpty = true then s.allQubits else qs) = qs' at h ⊢
    by_cases h2 : (qs'.any fun x => decide (x ≥ s.nQ)) = true
    · rw [if_pos h2] at h ⊢
      simp only [fail] at h ⊢
      injection h with h
      exact ⟨by first | rfl | trivial, .inr h.symm⟩
    · rw [if_neg h2] at h
      simp only [done] at h
      cases h

theorem addPulse_last_ok {ms : Option Nat} {c c' : ChanState} {o : List ChanState} {p : PulseRec}
    {b : List Int} {pr : Protocol} {d : Option Drift} (h : addPulse ms c o p b pr d = .ok c') :
    ∃ sl, c'.last = .ok sl := by
  unfold addPulse at h
  cases hl : c.last with
  | error e => simp [hl, bind, Except.bind] at h
  | ok last =>
    cases hm : makeNextPulseSlot ms c o p b pr d true with
    | error e => simp [hl, hm, bind, Except.bind] at h
    | ok slot =>
      simp only [hl, hm, bind, Except.bind] at h
      split at h
      · cases had : addDelay ms c (slot.ti - last.tf).toNat with
        | error e => simp [had] at h
        | ok c1 =>
          simp only [had] at h
          injection h with h; subst h
          exact ⟨slot, by unfold ChanState.last; simp⟩
      · simp only [pure, Except.pure] at h
        injection h with h; subst h
        exact ⟨slot, by unfold ChanState.last; simp⟩

/-- `_add` is atomic: whatever it raises, nothing has been changed (the only errors that
could follow the append, `noBasis` / `unknownQubit` from the post-phase-shift, are excluded). -/
theorem addCore_atomic {s : SeqState} {p : PulseIn} {n : ChName} {proto : Option Protocol}
    {drift : Option Drift} {e : Err} (h : (addCore s p n proto drift).err = some e)
    (h1 : e ≠ .noBasis) (h2 : e ≠ .unknownQubit) : (addCore s p n proto drift).st = s := by
  unfold addCore at h ⊢
  cases proto with
  | none => rfl
  | some proto =>
    simp only at h ⊢
    cases hc : s.getChan n with
    | none => rfl
    | some c =>
      simp only [hc] at h ⊢
      cases hl : c.last with
      | error e1 => rfl
      | ok last =>
        simp only [hl] at h ⊢
        split
        · rfl
        · rename_i hph
          simp only [hph, if_false] at h
          generalize (if c.cfg.isDmm = true then none else
            (s.lastPhases c.cfg.basis last.targets).head?) = phaseRef at h ⊢
          cases hpr : validateAndAdjust c p phaseRef with
          | error e1 => rfl
          | ok pr =>
            simp only [hpr] at h ⊢
            cases hadd : addPulse s.dev.maxSeqDur c (s.others n) pr
                (s.lastTimes c.cfg.basis last.targets) proto drift with
            | error e1 => rfl
            | ok c' =>
              simp only [hadd] at h ⊢
              obtain ⟨sl, hsl⟩ := addPulse_last_ok hadd
              simp only [hsl] at h ⊢
              generalize totalShift pr.post drift sl.ti = total at h ⊢
              by_cases ht : total ≠ 0
              · rw [if_pos ht] at h
                rcases (phaseShift_atomic h).2 with hx | hx
                · exact absurd hx h1
                · exact absurd hx h2
              · rw [if_neg ht] at h
                simp only [done] at h; cases h

theorem withChan_err_sched {s : SeqState} {n : ChName} {f : ChanState → CRes} {e : Err}
    (hf : ∀ c e, (f c).err = some e → e.isSched = true)
    (h : (s.withChan n f).err = some e) : e = .notDeclared ∨ e.isSched = true := by
  unfold SeqState.withChan at h
  cases hc : s.getChan n with
  | none => simp [hc, fail] at h; exact .inl h.symm
  | some c => simp only [hc] at h; exact .inr (hf c e h)

/-- `_target` is atomic for every error raised by its validation (everything except the
duration / sequence-length errors of the retarget itself). -/
theorem targetCore_atomic {s : SeqState} {qs : List Nat} {n : ChName} {e : Err}
    (h : (targetCore s qs n).err = some e) (he : e.isSched = false) : (targetCore s qs n).st = s := by
  unfold targetCore at h ⊢
  by_cases g0 : s.measured.isSome = true
  · rw [if_pos g0]; rfl
  · rw [if_neg g0] at h ⊢
    cases hc : s.validateChannel n true with
    | error e1 => rfl
    | ok c =>
      simp only [hc] at h ⊢
      by_cases g1 : qs.isEmpty = true
      · rw [if_pos g1]; rfl
      · rw [if_neg g1] at h ⊢
        by_cases g2 : (!c.cfg.isLocal) = true
        · rw [if_pos g2]; rfl
        · rw [if_neg g2] at h ⊢
          by_cases g3 : overNat c.cfg.maxTargets qs.length = true
          · rw [if_pos g3]; rfl
          · rw [if_neg g3] at h ⊢
            by_cases g4 : (qs.any fun x => decide (x ≥ s.nQ)) = true
            · rw [if_pos g4]; rfl
            · rw [if_neg g4] at h ⊢
              by_cases g5 : (!allSame (s.lastPhases c.cfg.basis qs)) = true
              · rw [if_pos g5]; rfl
              · rw [if_neg g5] at h ⊢
                have hcd : s.getChan n = some c := by
                  unfold SeqState.validateChannel at hc
                  cases hg : s.getChan n with
                  | none => simp [hg] at hc
                  | some c0 =>
                    simp only [hg] at hc
                    split at hc
                    · cases hc
                    · injection hc with hc; rw [hc]
                rcases withChan_err_sched (fun c e he => addTarget_err he) h with hx | hx
                · subst hx
                  unfold SeqState.withChan at h
                  simp only [hcd] at h
                  have := addTarget_err h
                  simp [Err.isSched] at this
                · rw [hx] at he; cases he

end Pulser
