/-
  Proofs.Phase — phase reduction and the phase tracker (C07).
-/
import PulserModel.PhaseRef
import Mathlib.Tactic.Linarith
import Mathlib.Algebra.Order.Field.Rat
import Mathlib.Tactic.FieldSimp
namespace Pulser

theorem twoPi_pos : (0 : Rat) < twoPi := by unfold twoPi; norm_num

/-- `phi % (2π)` lies in `[0, 2π)`. -/
theorem fmtPhase_range (x : Rat) : 0 ≤ fmtPhase x ∧ fmtPhase x < twoPi := by
  unfold fmtPhase
  have hT := twoPi_pos
  have h1 := Rat.floor_le (x / twoPi)
  have h2 := Rat.lt_floor_add_one (x / twoPi)
  have e : x = (x / twoPi) * twoPi := by field_simp
  constructor
  · have : ((x / twoPi).floor : Rat) * twoPi ≤ (x / twoPi) * twoPi :=
      mul_le_mul_of_nonneg_right h1 hT.le
    linarith
  · have : (x / twoPi) * twoPi < (((x / twoPi).floor + 1 : Int) : Rat) * twoPi :=
      mul_lt_mul_of_pos_right h2 hT
    push_cast at this
    linarith

/-- Reduction changes a phase by a whole number of turns only. -/
theorem fmtPhase_eq_mod (x : Rat) : ∃ k : Int, fmtPhase x = x - k * twoPi :=
  ⟨(x / twoPi).floor, rfl⟩

/-- A phase already in `[0, 2π)` is left alone. -/
theorem fmtPhase_of_range {x : Rat} (h0 : 0 ≤ x) (h1 : x < twoPi) : fmtPhase x = x := by
  unfold fmtPhase
  have hT := twoPi_pos
  have hf : (x / twoPi).floor = 0 := by
    have a : (0 : Rat) ≤ x / twoPi := div_nonneg h0 hT.le
    have b : x / twoPi < 1 := by
      have : x / twoPi < twoPi / twoPi := div_lt_div_of_pos_right h1 hT
      rwa [div_self (ne_of_gt hT)] at this
    have c1 : (0 : Int) ≤ (x / twoPi).floor := Rat.le_floor_iff.mpr (by simpa using a)
    have c2 : (x / twoPi).floor < 1 := Rat.floor_lt_iff.mpr (by simpa using b)
    omega
  rw [hf]; simp

theorem fmtPhase_idem (x : Rat) : fmtPhase (fmtPhase x) = fmtPhase x :=
  fmtPhase_of_range (fmtPhase_range x).1 (fmtPhase_range x).2

/-- Well-formed tracker: non-empty, times strictly increasing, nothing after `lastUsed`. -/
def TrOk (q : QRef) : Prop :=
  q.tr ≠ [] ∧ q.tr.Pairwise (fun a b => a.1 < b.1) ∧ ∀ e ∈ q.tr, e.1 ≤ q.lastUsed

theorem TrOk_default : TrOk ({} : QRef) := by
  refine ⟨by simp, by simp, ?_⟩
  intro e he; simp at he; subst he; simp

theorem getLast?_getD_mem {l : List (Int × Rat)} (h : l ≠ []) : l.getLast?.getD (0, 0) ∈ l := by
  cases hl : l.getLast? with
  | none => simp at hl; exact absurd hl h
  | some x => simp [List.mem_of_getLast? hl]

/-- replacing/inserting at a time `t` that is ≥ every recorded time touches only the end -/
theorem set_at_end (l : List (Int × Rat)) (t : Int) (ph : Rat) (hne : l ≠ [])
    (hs : l.Pairwise (fun a b => a.1 < b.1)) (hle : ∀ e ∈ l, e.1 ≤ t) :
    let l' := if l.any (·.1 == t) then QRef.replaceFirst t ph l else QRef.insertSorted t ph l
    l'.getLast? = some (t, ph) ∧ l' ≠ [] ∧ l'.Pairwise (fun a b => a.1 < b.1) ∧ (∀ e ∈ l', e.1 ≤ t) := by
  induction l with
  | nil => exact absurd rfl hne
  | cons a rest ih =>
    simp only
    have hs' := List.pairwise_cons.mp hs
    cases rest with
    | nil =>
      by_cases hat : a.1 = t
      · simp [QRef.replaceFirst, hat]
      · have hlt : a.1 < t := by have := hle a (by simp); omega
        have hle' : a.1 ≤ t := by omega
        simp [QRef.insertSorted, hat, hle']
        exact hlt
    | cons b rest' =>
      have hab : a.1 < b.1 := hs'.1 b (by simp)
      have hbt : b.1 ≤ t := hle b (by simp)
      have hat : ¬ a.1 = t := by omega
      have ih' := ih (by simp) hs'.2 (fun e he => hle e (List.mem_cons_of_mem _ he))
      simp only at ih'
      by_cases hany : (b :: rest').any (·.1 == t) = true
      · have hany2 : (a :: b :: rest').any (·.1 == t) = true := by
          simp only [List.any_cons] at hany ⊢; simp [hany]
        rw [if_pos hany] at ih'
        rw [if_pos hany2]
        have hr : QRef.replaceFirst t ph (a :: b :: rest') = a :: QRef.replaceFirst t ph (b :: rest') := by
          simp [QRef.replaceFirst, hat]
        rw [hr]
        obtain ⟨i1, i2, i3, i4⟩ := ih'
        refine ⟨by rw [List.getLast?_cons_of_ne_nil i2]; exact i1, by simp, ?_, ?_⟩
        · refine List.pairwise_cons.mpr ⟨?_, i3⟩
          intro e he
          -- every entry of the replaced tail has time ≥ b.1 > a.1 : it keeps times except (t, ph)
          have : ∀ (l : List (Int × Rat)), (∀ x ∈ l, a.1 < x.1) → a.1 < t →
              ∀ x ∈ QRef.replaceFirst t ph l, a.1 < x.1 := by
            intro l
            induction l with
            | nil => intro _ _ x hx; simp [QRef.replaceFirst] at hx
            | cons y ys ihy =>
              intro hl hat' x hx
              unfold QRef.replaceFirst at hx
              split at hx
              · rcases List.mem_cons.mp hx with h | h
                · subst h; exact hat'
                · exact hl x (List.mem_cons_of_mem _ h)
              · rcases List.mem_cons.mp hx with h | h
                · subst h; exact hl _ (by simp)
                · exact ihy (fun z hz => hl z (List.mem_cons_of_mem _ hz)) hat' x h
          exact this (b :: rest') hs'.1 (by omega) e he
        · intro e he
          rcases List.mem_cons.mp he with h | h
          · subst h; omega
          · exact i4 e h
      · have hany2 : ¬ (a :: b :: rest').any (·.1 == t) = true := by
          simp only [List.any_cons, Bool.or_eq_true, not_or] at hany ⊢
          exact ⟨by simpa using hat, hany⟩
        rw [if_neg hany] at ih'
        rw [if_neg hany2]
        have hr : QRef.insertSorted t ph (a :: b :: rest') = a :: QRef.insertSorted t ph (b :: rest') := by
          have : a.1 ≤ t := by omega
          simp [QRef.insertSorted, this]
        rw [hr]
        obtain ⟨i1, i2, i3, i4⟩ := ih'
        refine ⟨by rw [List.getLast?_cons_of_ne_nil i2]; exact i1, by simp, ?_, ?_⟩
        · refine List.pairwise_cons.mpr ⟨?_, i3⟩
          intro e he
          have : ∀ (l : List (Int × Rat)), (∀ x ∈ l, a.1 < x.1) → a.1 < t →
              ∀ x ∈ QRef.insertSorted t ph l, a.1 < x.1 := by
            intro l
            induction l with
            | nil => intro _ hat' x hx; simp [QRef.insertSorted] at hx; subst hx; exact hat'
            | cons y ys ihy =>
              intro hl hat' x hx
              unfold QRef.insertSorted at hx
              split at hx
              · rcases List.mem_cons.mp hx with h | h
                · subst h; exact hl _ (by simp)
                · exact ihy (fun z hz => hl z (List.mem_cons_of_mem _ hz)) hat' x h
              · rcases List.mem_cons.mp hx with h | h
                · subst h; exact hat'
                · exact hl x h
          exact this (b :: rest') hs'.1 (by omega) e he
        · intro e he
          rcases List.mem_cons.mp he with h | h
          · subst h; omega
          · exact i4 e h

/-- **`increment_phase` adds to the current reference**: the new current reference is the old
one plus `phi`, reduced; it is recorded at `last_used`, which becomes the latest time. -/
theorem incrementPhase_spec (q : QRef) (phi : Rat) (h : TrOk q) :
    (q.incrementPhase phi).lastPhase = fmtPhase (q.lastPhase + phi) ∧
    (q.incrementPhase phi).lastTime = q.lastUsed ∧
    (q.incrementPhase phi).lastUsed = q.lastUsed ∧ TrOk (q.incrementPhase phi) := by
  obtain ⟨h1, h2, h3⟩ := h
  have key := set_at_end q.tr q.lastUsed (fmtPhase (q.lastPhase + phi)) h1 h2 h3
  simp only at key
  unfold QRef.incrementPhase QRef.setItem
  split
  · rename_i hany
    rw [if_pos hany] at key
    obtain ⟨k1, k2, k3, k4⟩ := key
    refine ⟨by show ((QRef.replaceFirst _ _ _).getLast?.getD (0, 0)).2 = _; rw [k1]; rfl,
      by show ((QRef.replaceFirst _ _ _).getLast?.getD (0, 0)).1 = _; rw [k1]; rfl, rfl, k2, k3, k4⟩
  · rename_i hany
    rw [if_neg hany] at key
    obtain ⟨k1, k2, k3, k4⟩ := key
    refine ⟨by show ((QRef.insertSorted _ _ _).getLast?.getD (0, 0)).2 = _; rw [k1]; rfl,
      by show ((QRef.insertSorted _ _ _).getLast?.getD (0, 0)).1 = _; rw [k1]; rfl, rfl, k2, k3, k4⟩

theorem updateLastUsed_spec (q : QRef) (t : Int) (h : TrOk q) :
    (q.updateLastUsed t).lastPhase = q.lastPhase ∧ (q.updateLastUsed t).lastTime = q.lastTime ∧
    TrOk (q.updateLastUsed t) := by
  refine ⟨rfl, rfl, h.1, h.2.1, ?_⟩
  intro e he
  have := h.2.2 e he
  show e.1 ≤ max q.lastUsed t
  omega

/-- In a well-formed tracker the latest entry is the one with the greatest time. -/
theorem lastTime_is_max (q : QRef) (h : TrOk q) : ∀ e ∈ q.tr, e.1 ≤ q.lastTime := by
  obtain ⟨h1, h2, _⟩ := h
  unfold QRef.lastTime
  intro e he
  have key : ∀ (l : List (Int × Rat)), l.Pairwise (fun a b => a.1 < b.1) → ∀ x ∈ l,
      x.1 ≤ (l.getLast?.getD (0, 0)).1 := by
    intro l
    induction l with
    | nil => intro _ x hx; cases hx
    | cons a rest ih =>
      intro hp x hx
      have hp' := List.pairwise_cons.mp hp
      cases rest with
      | nil => simp at hx; subst hx; simp
      | cons b r =>
        have := ih hp'.2
        rw [List.getLast?_cons_of_ne_nil (by simp)]
        rcases List.mem_cons.mp hx with hh | hh
        · subst hh
          have hb := hp'.1 b (by simp)
          have := this b (by simp)
          omega
        · exact this x hh
  exact key q.tr h2 e he

end Pulser
