/-
  Proofs.BasesInv — in every state reached by API calls the phase references of the basis of every
  declared channel exist (`BasesOk`): a channel declaration creates them, no call removes them, no
  call changes a channel's configuration.
-/
import Proofs.KeysInv
import Proofs.ParamStore
namespace Pulser
open Keys Param

/-- The basis of every declared channel is addressed. -/
def BasesOk (s : SeqState) : Prop := ∀ c ∈ s.chans, HasB c.cfg.basis s

theorem hasB_of_bases {b : Basis} {s s' : SeqState} (h : s'.refs.map (·.1) = s.refs.map (·.1))
    (hb : HasB b s) : HasB b s' := by
  unfold HasB at *
  have e : ∀ l : List (Basis × List QRef), l.any (·.1 == b) = (l.map (·.1)).any (· == b) := by
    intro l; rw [List.any_map]; rfl
  rw [e] at hb ⊢
  rw [h]; exact hb

theorem BasesOk_of_sameX {s s' : SeqState} (h : SameX s s') (hb : BasesOk s) : BasesOk s' := by
  intro c' hc'
  have hm : sigX c' ∈ s'.chans.map sigX := List.mem_map_of_mem hc'
  rw [h.chans] at hm
  obtain ⟨c, hc, hsig⟩ := List.mem_map.mp hm
  have hcfg : c.cfg = c'.cfg := by
    have := congrArg (fun x => x.2.1) hsig
    simpa [sigX] using this
  rw [← hcfg]
  exact hasB_of_bases h.bases (hb c hc)

theorem BasesOk_of_same {s s' : SeqState} (h : Same s s') (hb : BasesOk s) : BasesOk s' :=
  BasesOk_of_sameX h.toX hb

theorem BasesOk_of_eq {s s' : SeqState} (h1 : s'.chans = s.chans) (h2 : s'.refs = s.refs)
    (hb : BasesOk s) : BasesOk s' := by
  intro c hc
  rw [h1] at hc
  have := hb c hc
  unfold HasB at *
  rw [h2]; exact this

theorem addChannel_chans (s : SeqState) (c : ChanState) : (s.addChannel c).chans = s.chans ++ [c] := by
  unfold SeqState.addChannel
  simp only
  split
  · exact (ensureBasis_chans _ _).1
  · exact (ensureBasis_chans _ _).1

theorem BasesOk_addChannel {s : SeqState} (c : ChanState) (hb : BasesOk s) : BasesOk (s.addChannel c) := by
  intro x hx
  rw [addChannel_chans] at hx
  rcases List.mem_append.mp hx with hx | hx
  · exact addChannel_hasB c (hb x hx)
  · simp at hx; subst hx; exact addChannel_has s x

theorem BasesOk_store {r : Raw} (op : Op) (h : BasesOk r.st) : BasesOk (store op r).st := by
  unfold store
  cases r.err with
  | none => exact BasesOk_of_eq rfl rfl h
  | some e => exact h

theorem BasesOk_orRollback {s : SeqState} {r : Raw} (hs : BasesOk s) (h : BasesOk r.st) :
    BasesOk (r.orRollback s).st := by
  rcases Raw.orRollback_cases r s with e | ⟨e, he⟩
  · rw [e]; exact h
  · rw [he]; exact hs

/-- **Every API call keeps `BasesOk`** (successful or refused). -/
theorem stepRaw_bases (s : SeqState) (op : Op) (hb : BasesOk s) : BasesOk (stepRaw s op).st := by
  by_cases hso : slotsOnly op = true
  · exact BasesOk_of_same (stepRaw_same hso) hb
  · cases op with
    | declare name chId init =>
      simp only [stepRaw]
      repeat' split
      all_goals first
        | exact hb
        | (apply BasesOk_store
           apply BasesOk_orRollback hb
           exact BasesOk_of_same (SameR_targetCore _ _ _) (BasesOk_addChannel _ hb))
        | exact BasesOk_store _ (BasesOk_addChannel _ hb)
    | configDetMap dmmId w1 w2 =>
      simp only [stepRaw]
      repeat' split
      all_goals first
        | exact hb
        | exact BasesOk_store _ (BasesOk_addChannel _ hb)
    | enableEom n e =>
      cases herr : (stepRaw s (.enableEom n e)).err with
      | none => exact BasesOk_of_sameX (enableEom_step herr).1 hb
      | some er =>
        -- refused: nothing was changed
        have : (stepRaw s (.enableEom n e)).st = s := by
          simp only [stepRaw] at herr ⊢
          repeat' split
          all_goals first
            | rfl
            | (apply Raw.orRollback_st_of_err (e := er); simp_all)
        rw [this]; exact hb
    | modifyEom n e =>
      cases herr : (stepRaw s (.modifyEom n e)).err with
      | none => exact BasesOk_of_sameX (modifyEom_step herr).1 hb
      | some er =>
        have : (stepRaw s (.modifyEom n e)).st = s := by
          simp only [stepRaw] at herr ⊢
          repeat' split
          all_goals first
            | rfl
            | (apply Raw.orRollback_st_of_err (e := er); simp_all)
        rw [this]; exact hb
    | disableEom n corr =>
      cases herr : (stepRaw s (.disableEom n corr)).err with
      | none => exact BasesOk_of_sameX (disableEom_step herr).1 hb
      | some er =>
        have : (stepRaw s (.disableEom n corr)).st = s := by
          simp only [stepRaw] at herr ⊢
          unfold store at herr ⊢
          split
          · rename_i h0; rw [h0] at herr; cases herr
          · rename_i e0 h0
            exact Raw.orRollback_st_of_err h0
        rw [this]; exact hb
    | measure b =>
      simp only [stepRaw]
      apply BasesOk_store
      repeat' split
      all_goals first | exact hb | exact BasesOk_of_eq (s := s) rfl rfl hb
    | getDuration ch fall =>
      simp only [stepRaw]
      repeat' split
      all_goals exact hb
    | estimate p n proto =>
      simp only [stepRaw]
      repeat' split
      all_goals first
        | exact hb
        | (show BasesOk (estimateCore s _ _ _).st; rw [estimateCore_st]; exact hb)
    | phaseRef q b =>
      simp only [stepRaw]
      repeat' split
      all_goals exact hb
    | target _ _ => simp [slotsOnly] at hso
    | add _ _ _ => simp [slotsOnly] at hso
    | addDmm _ _ _ => simp [slotsOnly] at hso
    | addEom n dur phase post proto corr fs fe ref => simp [slotsOnly] at hso
    | delay _ _ _ => simp [slotsOnly] at hso
    | align _ _ => simp [slotsOnly] at hso
    | phaseShift _ _ _ => simp [slotsOnly] at hso

theorem injectOracle_bases (s : SeqState) (n : ChName) (d : Rat) (du fs fe : Nat) (hb : BasesOk s) :
    BasesOk (s.injectOracle n d du fs fe) := by
  intro c hc
  simp only [SeqState.injectOracle, List.mem_map] at hc
  obtain ⟨c0, hc0, rfl⟩ := hc
  have h := hb c0 hc0
  by_cases hn : (c0.name == n) = true
  · rw [if_pos hn]; exact h
  · rw [if_neg hn]; exact h

theorem runEv_bases (s : SeqState) (evs : List Ev) (hb : BasesOk s) : BasesOk (runEv s evs) := by
  induction evs generalizing s with
  | nil => exact hb
  | cons ev rest ih =>
    apply ih
    cases ev with
    | call op => exact stepRaw_bases s op hb
    | oracle n d du fs fe => exact injectOracle_bases s n d du fs fe hb

end Pulser
