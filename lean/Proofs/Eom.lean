/-
  Proofs.Eom — the `argmin` choice of the EOM off-detuning.
-/
import PulserModel.Sequence
import Mathlib.Algebra.Order.Field.Rat
import Mathlib.Tactic.Linarith
namespace Pulser

def absd (o x : Rat) : Rat := if o - x < 0 then x - o else o - x

/-- Invariant of the `argmin` scan. -/
theorem go_spec (x : Rat) (l : List Rat) :
    ∀ (best : Nat) (bestD : Rat) (i : Nat),
      let r := closestIdx.go x best bestD i l
      (r = best ∧ ∀ k (hk : k < l.length), bestD ≤ absd l[k] x) ∨
      (∃ k, ∃ hk : k < l.length, r = i + k ∧ absd l[k] x < bestD ∧
        (∀ k' (hk' : k' < l.length), absd l[k] x ≤ absd l[k'] x) ∧
        (∀ k' (hk' : k' < l.length), k' < k → absd l[k] x < absd l[k'] x)) := by
  induction l with
  | nil => intro best bestD i; left; exact ⟨rfl, fun k hk => absurd hk (by simp)⟩
  | cons o rest ih =>
    intro best bestD i
    simp only [closestIdx.go]
    have hd : (if o - x < 0 then x - o else o - x) = absd o x := rfl
    rw [hd]
    by_cases hlt : absd o x < bestD
    · rw [if_pos hlt]
      rcases ih i (absd o x) (i + 1) with ⟨h1, h2⟩ | ⟨k, hk, h1, h2, h3, h4⟩
      · right
        refine ⟨0, by simp, by simpa using h1, by simpa using hlt, ?_, ?_⟩
        · intro k' hk'
          cases k' with
          | zero => simp
          | succ j => simpa using h2 j (by simpa using hk')
        · intro k' _ hlt0; omega
      · right
        refine ⟨k + 1, by simpa using hk, by rw [h1]; omega, ?_, ?_, ?_⟩
        · simp only [List.getElem_cons_succ]; exact lt_trans h2 hlt
        · intro k' hk'
          cases k' with
          | zero => simp only [List.getElem_cons_succ, List.getElem_cons_zero]; exact le_of_lt h2
          | succ j => simpa using h3 j (by simpa using hk')
        · intro k' hk' hlt'
          cases k' with
          | zero => simp only [List.getElem_cons_succ, List.getElem_cons_zero]; exact h2
          | succ j => simpa using h4 j (by simpa using hk') (by omega)
    · rw [if_neg hlt]
      have hge : bestD ≤ absd o x := not_lt.mp hlt
      rcases ih best bestD (i + 1) with ⟨h1, h2⟩ | ⟨k, hk, h1, h2, h3, h4⟩
      · left
        refine ⟨h1, ?_⟩
        intro k hk
        cases k with
        | zero => simpa using hge
        | succ j => simpa using h2 j (by simpa using hk)
      · right
        refine ⟨k + 1, by simpa using hk, by rw [h1]; omega, by simpa using h2, ?_, ?_⟩
        · intro k' hk'
          cases k' with
          | zero =>
            simp only [List.getElem_cons_succ, List.getElem_cons_zero]
            exact le_of_lt (lt_of_lt_of_le h2 hge)
          | succ j => simpa using h3 j (by simpa using hk')
        · intro k' hk' hlt'
          cases k' with
          | zero =>
            simp only [List.getElem_cons_succ, List.getElem_cons_zero]
            exact lt_of_lt_of_le h2 hge
          | succ j => simpa using h4 j (by simpa using hk') (by omega)

/-- **The off-detuning is the allowed value closest to the requested optimum** (the first
one on ties, as `argmin`): `closestIdx` returns a valid index whose distance to the
optimum is minimal, and strictly smaller than that of every earlier option. -/
theorem closest_option (opts : List Rat) (x : Rat) (i : Nat) (h : closestIdx opts x = some i) :
    ∃ hi : i < opts.length,
      (∀ j (hj : j < opts.length), absd opts[i] x ≤ absd opts[j] x) ∧
      (∀ j (hj : j < opts.length), j < i → absd opts[i] x < absd opts[j] x) := by
  unfold closestIdx at h
  cases opts with
  | nil => cases h
  | cons o rest =>
    simp only at h
    injection h with h
    have hd : (if o - x < 0 then x - o else o - x) = absd o x := rfl
    rw [hd] at h
    rcases go_spec x rest 0 (absd o x) 1 with ⟨h1, h2⟩ | ⟨k, hk, h1, h2, h3, h4⟩
    · have hi0 : i = 0 := by rw [← h, h1]
      subst hi0
      refine ⟨by simp, ?_, fun j _ hj => absurd hj (by omega)⟩
      intro j hj
      cases j with
      | zero => simp
      | succ m => simpa using h2 m (by simpa using hj)
    · have hik : i = 1 + k := by rw [← h, h1]
      subst hik
      have e : 1 + k = k + 1 := by omega
      refine ⟨by simp; omega, ?_, ?_⟩
      · intro j hj
        simp only [e, List.getElem_cons_succ]
        cases j with
        | zero => simpa using le_of_lt h2
        | succ m => simpa using h3 m (by simpa using hj)
      · intro j hj hlt
        simp only [e, List.getElem_cons_succ]
        cases j with
        | zero => simpa using h2
        | succ m => simpa using h4 m (by simpa using hj) (by omega)


theorem absd_nonneg (o x : Rat) : 0 ≤ absd o x := by
  unfold absd
  split
  · rename_i h; linarith
  · rename_i h; linarith

theorem absd_self (x : Rat) : absd x x = 0 := by unfold absd; simp

theorem absd_eq_zero {o x : Rat} (h : absd o x = 0) : o = x := by
  unfold absd at h
  split at h
  · linarith
  · linarith

/-- Asking for an allowed value returns (an index of) that value: the stored
`optimal_detuning_off` of a replayed `enable_eom_mode` picks the same off-detuning. -/
theorem closestIdx_of_mem (opts : List Rat) (i : Nat) (hi : i < opts.length) :
    ∃ j, closestIdx opts opts[i] = some j ∧ ∃ hj : j < opts.length, opts[j] = opts[i] := by
  cases hc : closestIdx opts opts[i] with
  | none =>
    unfold closestIdx at hc
    cases opts with
    | nil => simp at hi
    | cons o r => simp at hc
  | some j =>
    obtain ⟨hj, h1, _⟩ := closest_option opts opts[i] j hc
    refine ⟨j, rfl, hj, ?_⟩
    have := h1 i hi
    rw [absd_self] at this
    exact absd_eq_zero (le_antisymm this (absd_nonneg _ _))

end Pulser
