/-
  Proofs.Modulation — helper lemmas for C14 (output modulation).
  Model: PulserModel/Modulation.lean.
-/
import Mathlib.Algebra.BigOperators.Fin
import Mathlib.Algebra.Field.GeomSum
import Mathlib.Algebra.Group.Fin.Basic
import Mathlib.Algebra.Order.BigOperators.Ring.Finset
import Mathlib.Tactic.Ring
import Mathlib.Tactic.Linarith
import Mathlib.Tactic.FieldSimp
import PulserModel.Modulation
import Proofs.Waveform
namespace Pulser
namespace Mod
open Finset

/-! ## The filter as finite sums -/

section Algebra
variable {R : Type} [CommSemiring R]

theorem sumFin_eq {n : Nat} (f : Fin n → R) : sumFin f = ∑ i, f i := by
  unfold sumFin
  rw [← List.ofFn_eq_map, List.sum_ofFn]

theorem circConv_apply {n : Nat} (h x : Fin n → R) (i : Fin n) :
    circConv h x i = ∑ j, h (i - j) * x j := by
  unfold circConv; rw [sumFin_eq]

theorem circConv_linear {n : Nat} (h x y : Fin n → R) (a b : R) (i : Fin n) :
    circConv h (fun j => a * x j + b * y j) i = a * circConv h x i + b * circConv h y i := by
  simp only [circConv_apply, mul_add, Finset.sum_add_distrib, Finset.mul_sum]
  congr 1 <;> (apply Finset.sum_congr rfl; intro j _; ring)

theorem dftWith_apply {n : Nat} (pw : Nat → R) (x : Fin n → R) (k : Fin n) :
    dftWith pw x k = ∑ j, x j * pw (j.val * k.val % n) := by
  unfold dftWith; rw [sumFin_eq]

theorem dftWith_linear {n : Nat} (pw : Nat → R) (x y : Fin n → R) (a b : R) (k : Fin n) :
    dftWith pw (fun j => a * x j + b * y j) k = a * dftWith pw x k + b * dftWith pw y k := by
  simp only [dftWith_apply, add_mul, Finset.sum_add_distrib, Finset.mul_sum]
  congr 1 <;> (apply Finset.sum_congr rfl; intro j _; ring)

theorem modulateDft_linear {n : Nat} (pw pwInv : Nat → R) (ninv : R) (m x y : Fin n → R)
    (a b : R) (i : Fin n) :
    modulateDft pw pwInv ninv m (fun j => a * x j + b * y j) i =
      a * modulateDft pw pwInv ninv m x i + b * modulateDft pw pwInv ninv m y i := by
  unfold modulateDft
  have : (fun k => dftWith pw (fun j => a * x j + b * y j) k * m k) =
      fun k => a * (dftWith pw x k * m k) + b * (dftWith pw y k * m k) := by
    funext k; rw [dftWith_linear]; ring
  rw [this, dftWith_linear]; ring

end Algebra

section Ring
variable {R : Type} [CommRing R]

theorem circConv_sum {n : Nat} [NeZero n] (h x : Fin n → R) :
    ∑ i, circConv h x i = (∑ k, h k) * ∑ j, x j := by
  simp only [circConv_apply]
  rw [Finset.sum_comm, Finset.mul_sum]
  apply Finset.sum_congr rfl
  intro j _
  rw [← Finset.sum_mul]
  congr 1
  exact Equiv.sum_comp (Equiv.subRight j) h

end Ring

section Field
variable {K : Type} [Field K]

theorem geom_root_sum {n : Nat} (y : K) (hy : y ^ n = 1) (hne : y ≠ 1) :
    ∑ i : Fin n, y ^ (i : Nat) = 0 := by
  rw [Fin.sum_univ_eq_sum_range (fun i => y ^ i) n, geom_sum_eq hne, hy]; simp

/-- DC gain of `ifft(fft(x)·m)`: the output sums to `m 0 · Σ x`. -/
theorem modulateDft_sum {n : Nat} [NeZero n] (ω ωi ninv : K) (hω : ω ^ n = 1) (hinv : ω * ωi = 1)
    (hprim : ∀ k, 0 < k → k < n → ωi ^ k ≠ 1) (hn : ninv * (n : K) = 1) (m x : Fin n → K) :
    ∑ i, modulateDft (fun t => ω ^ t) (fun t => ωi ^ t) ninv m x i = m 0 * ∑ j, x j := by
  have hωi : ωi ^ n = 1 := by
    have : (ω * ωi) ^ n = 1 := by rw [hinv]; simp
    rw [mul_pow, hω, one_mul] at this; exact this
  unfold modulateDft
  simp only [dftWith_apply]
  rw [← Finset.mul_sum, Finset.sum_comm]
  have inner : ∀ k : Fin n, ∑ i : Fin n, ωi ^ ((k : Nat) * (i : Nat) % n) =
      if k = 0 then (n : K) else 0 := by
    intro k
    have e : ∀ i : Fin n, ωi ^ ((k : Nat) * (i : Nat) % n) = (ωi ^ (k : Nat)) ^ (i : Nat) := by
      intro i; rw [← pow_mul]; exact (pow_eq_pow_mod _ hωi).symm
    simp only [e]
    by_cases hk : k = 0
    · subst hk; simp
    · rw [if_neg hk]
      apply geom_root_sum
      · rw [← pow_mul, mul_comm, pow_mul, hωi, one_pow]
      · apply hprim _ _ k.isLt
        exact Nat.pos_of_ne_zero (fun h0 => hk (Fin.ext (by simpa using h0)))
  have step : ∀ k : Fin n,
      ∑ i : Fin n, (∑ j, x j * ω ^ ((j : Nat) * (k : Nat) % n)) * m k * ωi ^ ((k : Nat) * (i : Nat) % n)
        = (∑ j, x j * ω ^ ((j : Nat) * (k : Nat) % n)) * m k * (if k = 0 then (n : K) else 0) := by
    intro k; rw [← Finset.mul_sum, inner k]
  simp only [step]
  rw [Finset.sum_eq_single (0 : Fin n)]
  · simp only [if_true, Fin.val_zero, Nat.mul_zero, Nat.zero_mod, pow_zero, mul_one]
    calc ninv * ((∑ j, x j) * m 0 * (n : K)) = (ninv * (n : K)) * (m 0 * ∑ j, x j) := by ring
      _ = m 0 * ∑ j, x j := by rw [hn, one_mul]
  · intro k _ hk; rw [if_neg hk, mul_zero]
  · intro h; exact absurd (Finset.mem_univ _) h

end Field

section Conv
variable {K : Type} [Field K]

theorem pow_fin_sub {n : Nat} (a b : K) (hab : a * b = 1) (ha : a ^ n = 1) (i j : Fin n) :
    a ^ ((i - j : Fin n) : Nat) = b ^ (j : Nat) * a ^ (i : Nat) := by
  have hj : (j : Nat) ≤ n := Nat.le_of_lt j.isLt
  have h1 : a ^ (n - (j : Nat)) * a ^ (j : Nat) = 1 := by
    rw [← pow_add, Nat.sub_add_cancel hj, ha]
  have h2 : a ^ (j : Nat) * b ^ (j : Nat) = 1 := by rw [← mul_pow, hab, one_pow]
  have h3 : a ^ (n - (j : Nat)) = b ^ (j : Nat) := by
    calc a ^ (n - (j : Nat)) = a ^ (n - (j : Nat)) * (a ^ (j : Nat) * b ^ (j : Nat)) := by rw [h2, mul_one]
      _ = (a ^ (n - (j : Nat)) * a ^ (j : Nat)) * b ^ (j : Nat) := by ring
      _ = b ^ (j : Nat) := by rw [h1, one_mul]
  rw [Fin.sub_def]
  simp only
  rw [← pow_eq_pow_mod _ ha, pow_add, h3]

/-- Convolution theorem for the filter as coded. -/
theorem modulateDft_eq_circConv {n : Nat} (ω ωi ninv : K) (hω : ω ^ n = 1) (hinv : ω * ωi = 1)
    (m x : Fin n → K) (i : Fin n) :
    modulateDft (fun t => ω ^ t) (fun t => ωi ^ t) ninv m x i =
      circConv (kernelOf (fun t => ωi ^ t) ninv m) x i := by
  have hωi : ωi ^ n = 1 := by
    have : (ω * ωi) ^ n = 1 := by rw [hinv]; simp
    rw [mul_pow, hω, one_mul] at this; exact this
  unfold modulateDft kernelOf
  rw [circConv_apply]
  simp only [dftWith_apply]
  have e1 : ∀ (j k : Fin n), ω ^ ((j : Nat) * (k : Nat) % n) = (ω ^ (k : Nat)) ^ (j : Nat) := by
    intro j k; rw [← pow_eq_pow_mod _ hω, mul_comm, pow_mul]
  have e2 : ∀ (k i : Fin n), ωi ^ ((k : Nat) * (i : Nat) % n) = (ωi ^ (k : Nat)) ^ (i : Nat) := by
    intro k i; rw [← pow_eq_pow_mod _ hωi, pow_mul]
  simp only [e1, e2]
  have e4 : ∀ (k j : Fin n), (ωi ^ (k : Nat)) ^ ((i - j : Fin n) : Nat) =
      (ω ^ (k : Nat)) ^ (j : Nat) * (ωi ^ (k : Nat)) ^ (i : Nat) := by
    intro k j
    apply pow_fin_sub
    · rw [← mul_pow, mul_comm, hinv, one_pow]
    · rw [← pow_mul, mul_comm, pow_mul, hωi, one_pow]
  simp only [e4]
  simp only [Finset.mul_sum, Finset.sum_mul]
  rw [Finset.sum_comm]
  apply Finset.sum_congr rfl; intro j _
  apply Finset.sum_congr rfl; intro k _
  ring

end Conv

section Ordered
variable {K : Type} [CommRing K] [LinearOrder K] [IsStrictOrderedRing K]

/-- A non-negative kernel maps non-negative input to non-negative output. -/
theorem circConv_nonneg {n : Nat} (h x : Fin n → K) (hh : ∀ k, 0 ≤ h k) (hx : ∀ j, 0 ≤ x j)
    (i : Fin n) : 0 ≤ circConv h x i := by
  rw [circConv_apply]
  exact Finset.sum_nonneg fun j _ => mul_nonneg (hh _) (hx _)

/-- A non-negative kernel of unit sum never exceeds a bound of the input. -/
theorem circConv_le_bound {n : Nat} [NeZero n] (h x : Fin n → K) (hh : ∀ k, 0 ≤ h k)
    (h1 : ∑ k, h k = 1) (M : K) (hx : ∀ j, x j ≤ M) (i : Fin n) : circConv h x i ≤ M := by
  rw [circConv_apply]
  calc ∑ j, h (i - j) * x j ≤ ∑ j, h (i - j) * M :=
        Finset.sum_le_sum fun j _ => mul_le_mul_of_nonneg_left (hx j) (hh _)
    _ = (∑ j, h (i - j)) * M := by rw [Finset.sum_mul]
    _ = (∑ k, h k) * M := by
        congr 1
        exact Equiv.sum_comp ((Equiv.subLeft i)) h
    _ = M := by rw [h1, one_mul]

end Ordered

/-! ## Padding, slicing, lengths -/

section Lengths
variable {α : Type}

theorem filterList_length [Add α] [Mul α] [Zero α] (F : (n : Nat) → (Fin n → α) → Fin n → α)
    (l : List α) : (filterList F l).length = l.length := by
  unfold filterList; simp

theorem padZero_length [Zero α] (x : List α) (k : Nat) : (padZero x k).length = x.length + 2 * k := by
  unfold padZero; simp; omega

theorem padEdge_length {x y : List α} {k : Nat} (h : padEdge x k = some y) :
    y.length = x.length + 2 * k := by
  unfold padEdge at h
  cases x with
  | nil =>
    simp at h
    obtain ⟨hk, rfl⟩ := h; simp [hk]
  | cons a rest =>
    have : (a :: rest).getLast? = some ((a :: rest).getLast (by simp)) := List.getLast?_eq_some_getLast _
    simp only [List.head?_cons, this, Option.some.injEq] at h
    subst h; simp; omega

theorem padEdge_none_iff (x : List α) (k : Nat) : padEdge x k = none ↔ x = [] ∧ 0 < k := by
  unfold padEdge
  cases x with
  | nil => simp
  | cons a rest =>
    have : (a :: rest).getLast? = some ((a :: rest).getLast (by simp)) := List.getLast?_eq_some_getLast _
    simp [this]

theorem padEdgeRight_length {x y : List α} {k : Nat} (h : padEdgeRight x k = some y) :
    y.length = x.length + k := by
  unfold padEdgeRight at h
  cases x with
  | nil =>
    simp at h
    obtain ⟨hk, rfl⟩ := h; simp [hk]
  | cons a rest =>
    have : (a :: rest).getLast? = some ((a :: rest).getLast (by simp)) := List.getLast?_eq_some_getLast _
    simp only [this, Option.some.injEq] at h
    subst h; simp; omega

theorem padEdgeRight_none_iff (x : List α) (k : Nat) : padEdgeRight x k = none ↔ x = [] ∧ 0 < k := by
  unfold padEdgeRight
  cases x with
  | nil => simp
  | cons a rest =>
    have : (a :: rest).getLast? = some ((a :: rest).getLast (by simp)) := List.getLast?_eq_some_getLast _
    simp [this]

/-- Length of a Python slice `l[a:b]`. -/
theorem pySlice_length (l : List α) (a b : Int) :
    ((pySlice l a b).length : Int) =
      max 0 (Wave.pyAdjust l.length (some b) l.length - Wave.pyAdjust l.length (some a) 0) := by
  have hA := Wave.pyAdjust_range l.length (some a) 0 ⟨by omega, by omega⟩
  have hB := Wave.pyAdjust_range l.length (some b) l.length ⟨by omega, by omega⟩
  unfold pySlice
  simp only [List.length_take, List.length_drop]
  omega

/-- `l[r : -r]` on a list of length `L ≥ 2r`, `r ≥ 1`, has length `L − 2r`. -/
theorem pySlice_trim_length (l : List α) (r : Nat) (hr : 1 ≤ r) (hl : 2 * r ≤ l.length) :
    (pySlice l (r : Int) (-(r : Int))).length = l.length - 2 * r := by
  have h := pySlice_length l (r : Int) (-(r : Int))
  unfold Wave.pyAdjust at h
  simp only at h
  split at h <;> split at h <;> (try split at h) <;> (try split at h) <;> omega

/-- The `-0` pitfall: with `r = 0`, `l[0 : -0]` is `l[0:0]`, the empty list. -/
theorem pySlice_zero_empty (l : List α) : pySlice l 0 (-(0 : Int)) = [] := by
  have h := pySlice_length l 0 (-(0 : Int))
  unfold Wave.pyAdjust at h
  simp only at h
  have : (pySlice l 0 (-(0 : Int))).length = 0 := by
    split at h <;> (try split at h) <;> (try split at h) <;> omega
  exact List.eq_nil_of_length_eq_zero this

end Lengths

/-! ## `Channel.modulate`, `ChannelSamples.modulate`, `sample` -/

section Modulate
variable {α : Type} [Zero α]

theorem padKeep_length (x : List α) (k : Nat) : (padKeep x k).length = x.length + 2 * k := by
  unfold padKeep
  cases h : padEdge x k with
  | some y => exact padEdge_length h
  | none =>
    have := ((padEdge_none_iff x k).mp h).1
    subst this; simp; omega

theorem padKeepRight_length (x : List α) (k : Nat) : (padKeepRight x k).length = x.length + k := by
  unfold padKeepRight
  cases h : padEdgeRight x k with
  | some y => exact padEdgeRight_length h
  | none =>
    have := ((padEdgeRight_none_iff x k).mp h).1
    subst this; simp

theorem channelModulate_nofilter (filt : List α → List α) (c : ModCfg) (hc : c.filters = false)
    (x : List α) (k : Bool) : channelModulate filt c x k = x := by
  unfold channelModulate; simp [hc]

theorem channelModulate_plain (filt : List α → List α) (hf : ∀ l, (filt l).length = l.length)
    (c : ModCfg) (hc : c.filters = true) (x : List α) :
    (channelModulate filt c x false).length = x.length + 2 * c.pad := by
  simp only [channelModulate, hc]
  simp [hf, padZero_length]

theorem channelModulate_keep (filt : List α → List α) (hf : ∀ l, (filt l).length = l.length)
    (c : ModCfg) (hc : c.filters = true) (hr : 1 ≤ c.rise) (x : List α) :
    (channelModulate filt c x true).length = x.length + 2 * c.pad := by
  simp only [channelModulate, hc]
  simp only [Bool.not_true, Bool.false_eq_true, if_false, if_true]
  have hl := padKeep_length x (c.pad + c.rise)
  rw [pySlice_trim_length _ _ hr (by rw [hf, hl]; omega), hf, hl]; omega

theorem channelModulate_keep_zero_rise (filt : List α → List α) (c : ModCfg) (hc : c.filters = true)
    (hr : c.rise = 0) (x : List α) : channelModulate filt c x true = [] := by
  simp only [channelModulate, hc, hr]
  have := pySlice_zero_empty (filt (padKeep x (c.pad + 0)))
  simp only [Int.neg_zero] at this
  simpa using this

/-- The old, unguarded `Channel.modulate(keep_ends=True)` on an empty input (F14). -/
theorem channelModulateOld_keep_empty (filt : List α → List α) (c : ModCfg) (hc : c.filters = true)
    (hk : 0 < c.pad + c.rise) : channelModulateOld filt c ([] : List α) true = none := by
  have : padEdge ([] : List α) (c.pad + c.rise) = none := (padEdge_none_iff _ _).mpr ⟨rfl, hk⟩
  simp [channelModulateOld, hc, this]

/-- Away from the empty input the old and the repaired `Channel.modulate` agree. -/
theorem channelModulateOld_eq (filt : List α → List α) (c : ModCfg) (x : List α) (k : Bool)
    (hx : x ≠ [] ∨ k = false) : channelModulateOld filt c x k = some (channelModulate filt c x k) := by
  unfold channelModulateOld channelModulate
  cases hc : c.filters <;> simp only [Bool.not_true, Bool.not_false, if_true, if_false, Bool.false_eq_true]
  cases k
  · simp
  · simp only [if_true]
    rcases hx with hx | hx
    · cases hp : padEdge x (c.pad + c.rise) with
      | none => exact absurd ((padEdge_none_iff x _).mp hp).1 hx
      | some y => simp [padKeep, hp]
    · cases hx

omit [Zero α] in
theorem trimModulated_length (mod : List α) (n tr start stop : Nat) (hm : mod.length = n + 2 * tr)
    (hs : start ≤ tr) (he : stop ≤ tr) : (trimModulated mod tr start stop).length = n + start + stop := by
  have h := pySlice_length mod ((tr : Int) - start) ((mod.length : Int) - tr + stop)
  unfold trimModulated
  unfold Wave.pyAdjust at h
  simp only at h
  split at h <;> (try split at h) <;> (try split at h) <;> (try split at h) <;> omega

theorem csModulate_lengths (filt : List α → List α) (hf : ∀ l, (filt l).length = l.length)
    (c : ModCfg) (hc : c.filters = true) (hr : 1 ≤ c.rise) (s : CS α) (n m : Nat)
    (ha : s.amp.length = n) (hd : s.det.length = n) (hp : s.phase.length = n)
    (hm : m ≤ n + 2 * c.pad) (hm0 : n = 0 → m = 0) :
    (csModulate filt c s (some m)).amp.length = m ∧ (csModulate filt c s (some m)).det.length = m ∧
      (csModulate filt c s (some m)).phase.length = m := by
  have l1 := channelModulate_plain filt hf c hc s.amp
  have l2 := channelModulate_keep filt hf c hc hr s.det
  have l3 := padKeepRight_length s.phase ((channelModulate filt c s.amp false).length - s.phase.length)
  unfold csModulate
  by_cases h0 : s.amp.length = 0
  · rw [if_pos h0]
    have := hm0 (by omega)
    omega
  · rw [if_neg h0]
    simp only [List.length_take]
    omega

theorem csModulate_nofilter_lengths (filt : List α → List α) (c : ModCfg) (hc : c.filters = false)
    (s : CS α) (n m : Nat) (ha : s.amp.length = n) (hd : s.det.length = n) (hp : s.phase.length = n)
    (hm : m ≤ n) :
    (csModulate filt c s (some m)).amp.length = m ∧ (csModulate filt c s (some m)).det.length = m ∧
      (csModulate filt c s (some m)).phase.length = m := by
  have l3 := padKeepRight_length s.phase ((channelModulate filt c s.amp false).length - s.phase.length)
  unfold csModulate
  by_cases h0 : s.amp.length = 0
  · rw [if_pos h0]; omega
  · rw [if_neg h0]
    simp only [channelModulate_nofilter filt c hc, List.length_take] at l3 ⊢
    omega

end Modulate

end Mod
end Pulser
