/-
  Proofs.Limits — `validate_pulse` accepts exactly the pulses inside every limit (C01).
-/
import Proofs.Timeline
namespace Pulser

theorem overRat_false {m : Option Rat} {x : Rat} : overRat m x = false ↔ ∀ y, m = some y → x ≤ y := by
  unfold overRat
  cases m with
  | none => simp
  | some y => simp [Rat.not_lt]

theorem underRat_false {m : Option Rat} {x : Rat} : underRat m x = false ↔ ∀ y, m = some y → y ≤ x := by
  unfold underRat
  cases m with
  | none => simp
  | some y => simp [Rat.not_lt]

/-- `Channel.validate_pulse` / `DMM.validate_pulse` succeed exactly on the pulses
inside every limit; undefined limits constrain nothing (they do not occur in
`WithinLimits` when `none`). -/
theorem validatePulse_iff (c : ChanState) (σ : PulseSummary) :
    validatePulse c σ = .ok () ↔ WithinLimits c.cfg c.maxW c.sumW σ := by
  constructor
  · intro h
    unfold validatePulse at h
    split at h
    · cases h
    · rename_i h0
      have h0' : σ.finite = true := by simpa using h0
      split at h
      · cases h
      · rename_i h1
        split at h
        · cases h
        · rename_i h2
          split at h
          · cases h
          · rename_i h3
            have h1' := overRat_false.mp (by simpa using h1)
            have h2' := overRat_false.mp (by simpa using h2)
            split at h
            · rename_i h4
              exact ⟨h0', h1', h2', h3, fun hd => by simp [hd] at h4⟩
            · split at h
              · cases h
              · rename_i h5
                split at h
                · cases h
                · rename_i h6
                  split at h
                  · cases h
                  · rename_i h7
                    exact ⟨h0', h1', h2', h3, fun _ => ⟨Rat.not_lt.mp h5,
                      underRat_false.mp (by simpa using h6), underRat_false.mp (by simpa using h7)⟩⟩
  · intro ⟨h0, h1, h2, h3, h4⟩
    unfold validatePulse
    rw [h0, overRat_false.mpr h1, overRat_false.mpr h2]
    rw [if_neg (by simp), if_neg (by simp), if_neg (by simp), if_neg h3]
    cases hd : c.cfg.isDmm with
    | false => rfl
    | true =>
      obtain ⟨h5, h6, h7⟩ := h4 hd
      rw [if_neg (by simp), if_neg (Rat.not_lt.mpr h5), underRat_false.mpr h6, underRat_false.mpr h7]
      rfl

end Pulser
