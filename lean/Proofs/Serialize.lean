/-
  Proofs.Serialize — helper lemmas for C04: flags elided at a default and re-inserted,
  the canonical form of a call log, expression trees through the abstract JSON shape,
  and the decidable side-conditions over the GENERATED table.
-/
import PulserModel.Serialize
namespace Pulser
namespace Serialize
open Generated.AbstractOps

/-! ### Decidable obligations over the generated table -/

/-- One row is consistent: see `C04.defaults_agree` for the clauses. -/
def rowOk (r : OpRow) : Bool :=
  -- (1) every key elided at value v is re-inserted by the decoder with the same v
  r.elided.all (fun kv => r.decOptional.contains kv)
  -- (2) every key the decoder reads without default is always emitted
  && r.decRequired.all (r.emitted.contains ·)
  -- (3) the decoder supplies a default only for keys the encoder knows
  && r.decOptional.all (fun kv => r.emitted.contains kv.1 || r.elided.any (·.1 == kv.1))
  -- (4) every emitted key is permitted by the schema, which is closed
  && (r.emitted ++ r.elided.map (·.1)).all (r.schemaProps.contains ·) && r.schemaClosed
  -- (5) every key the schema requires is always emitted
  && r.schemaRequired.all (r.emitted.contains ·)
  -- (6) every emitted key is read by the decoder (nothing is dropped)
  && (r.emitted ++ r.elided.map (·.1)).all
      (fun k => r.decRequired.contains k || r.decOptional.any (·.1 == k))
  -- (7) when decoder and encoder speak about the same method: a key carries the same argument
  --     on both sides, and it is elided at that method's own (live) default
  && (if r.calls.contains r.method then
        r.encParam.all (r.decParam.contains ·) && r.elided.all (r.methodDefaults.contains ·)
      else true)
  -- (8) the operation is known to the decoder and to the schema
  && r.method != "" && r.schemaDef != ""

def tableOk (T : List OpRow) : Bool := T.all rowOk

/-- The top-level keys of the document. -/
def topOk : Bool :=
  topSchemaRequired.all (topAlways.contains ·)
  && (topAlways ++ topConditional).all (topSchemaProps.contains ·)
  && topDecRequired.all (topAlways.contains ·)
  && topConditional.all (fun k => topDecConditional.contains k || topDecRequired.contains k)
  && topDecConditional.all (fun k => topConditional.contains k || topAlways.contains k)
  && topSchemaRequiredAny.all (fun k => topAlways.contains k || topConditional.contains k)

/-- Every stored call is handled by the encoder, every operation of the decoder / schema
can be produced. -/
def coverageOk : Bool := uncoveredCalls.isEmpty && orphanDecoderOps.isEmpty && orphanSchemaOps.isEmpty

/-- Operators of parametrized objects: what they serialise to is accepted by the decoder
and allowed by the schema — except the methods listed in `knownBroken` (empty since the repair of
finding F-C04-1). -/
def exprOk (knownBroken : List String) : Bool :=
  exprOps.all fun me =>
    knownBroken.contains me.1 ||
      (decoderExprs.contains me.2 && (schemaUnary.contains me.2 || schemaBinary.contains me.2))

/-! ### Flags -/

/-- The boolean argument `key` of operation `op` survives elision + re-insertion. -/
def flagOk (T : List OpRow) (op key : String) : Bool :=
  match encElide T op op key with
  | none => true
  | some d => decDefault T op op key == some d

theorem flag_roundtrip {T : List OpRow} {op key : String} (h : flagOk T op key = true) (v : Bool) :
    decFlag T op op key (encFlag T op op key v) = some v := by
  unfold flagOk at h
  unfold encFlag decFlag
  cases he : encElide T op op key with
  | none => rfl
  | some d =>
    rw [he] at h
    simp only at h ⊢
    by_cases hv : v = d
    · simp only [hv, if_true]
      simpa using h
    · simp only [hv, if_false]

/-- The six optional booleans of the model's op language. -/
def flagsOk (T : List OpRow) : Bool :=
  flagOk T "align" "at_rest" && flagOk T "delay" "at_rest"
  && flagOk T "add_eom_pulse" "correct_phase_drift" && flagOk T "enable_eom_mode" "correct_phase_drift"
  && flagOk T "modify_eom_setpoint" "correct_phase_drift"
  && flagOk T "disable_eom_mode" "correct_phase_drift"

/-! ### Operations -/

theorem decodeOps_append (T : List OpRow) (a b : List AbsOp) :
    decodeOps T (a ++ b) =
      match decodeOps T a, decodeOps T b with
      | some x, some y => some (x ++ y)
      | _, _ => none := by
  induction a with
  | nil => simp only [List.nil_append, decodeOps]; cases decodeOps T b <;> rfl
  | cons x rest ih =>
    simp only [List.cons_append, decodeOps, ih]
    cases decodeOp T x <;> cases decodeOps T rest <;> cases decodeOps T b <;> rfl

theorem eom_corr_restore (e : EomIn) : ({ ({ e with corr := false } : EomIn) with corr := e.corr } : EomIn) = e := by
  cases e; rfl

theorem decode_encodeOp {T : List OpRow} (h : flagsOk T = true) (op : Op) :
    decodeOps T (encodeOp T op) = some (bodyOf op) := by
  simp only [flagsOk, Bool.and_eq_true] at h
  obtain ⟨⟨⟨⟨⟨h1, h2⟩, h3⟩, h4⟩, h5⟩, h6⟩ := h
  cases op with
  | declare n id init => cases init <;> rfl
  | configDetMap id w s => rfl
  | target qs n => rfl
  | add p n proto => rfl
  | addDmm p n proto => rfl
  | addEom n dur ph po proto corr fs fe ref =>
    simp only [encodeOp, decodeOps, decodeOp, flag_roundtrip h3, Option.map_some, bodyOf]
  | delay d n atRest =>
    simp only [encodeOp, decodeOps, decodeOp, flag_roundtrip h2, Option.map_some, bodyOf]
  | align chs atRest =>
    simp only [encodeOp, decodeOps, decodeOp, flag_roundtrip h1, Option.map_some, bodyOf]
  | phaseShift phi qs b => rfl
  | enableEom n e =>
    simp only [encodeOp, decodeOps, decodeOp, flag_roundtrip h4, Option.map_some, bodyOf]
  | modifyEom n e =>
    simp only [encodeOp, decodeOps, decodeOp, flag_roundtrip h5, Option.map_some, bodyOf]
  | disableEom n corr =>
    simp only [encodeOp, decodeOps, decodeOp, flag_roundtrip h6, Option.map_some, bodyOf]
  | measure b => rfl
  | getDuration _ _ => rfl
  | estimate _ _ _ => rfl
  | phaseRef _ _ => rfl

theorem decode_encode_ops {T : List OpRow} (h : flagsOk T = true) (log : List Op) :
    decodeOps T (log.flatMap (encodeOp T)) = some (log.flatMap bodyOf) := by
  induction log with
  | nil => rfl
  | cons op rest ih =>
    simp only [List.flatMap_cons, decodeOps_append, decode_encodeOp h op, ih]

theorem channels_decl (log : List Op) :
    (log.filterMap channelOf).map (fun (x : ChName × Nat) => Op.declare x.1 x.2 none)
      = log.filterMap declOf := by
  induction log with
  | nil => rfl
  | cons op rest ih =>
    cases op <;> simp [channelOf, declOf, List.filterMap_cons, ih]

/-! ### Canonical form -/

/-- An op that is its own body (not a declaration, a measurement or a query). -/
def plain : Op → Bool
  | .declare .. | .measure .. | .getDuration .. | .estimate .. | .phaseRef .. => false
  | _ => true

theorem bodyOf_plain (op : Op) : ∀ o ∈ bodyOf op, plain o = true := by
  cases op with
  | declare n id init => cases init <;> simp [bodyOf, plain]
  | _ => simp [bodyOf, plain]

theorem flatMap_body_plain {l : List Op} (h : ∀ o ∈ l, plain o = true) : l.flatMap bodyOf = l := by
  induction l with
  | nil => rfl
  | cons o rest ih =>
    have ho := h o List.mem_cons_self
    have : bodyOf o = [o] := by cases o <;> simp [plain] at ho <;> rfl
    simp only [List.flatMap_cons, this, ih (fun x hx => h x (List.mem_cons_of_mem _ hx))]
    rfl

theorem filterMap_decl_plain {l : List Op} (h : ∀ o ∈ l, plain o = true) : l.filterMap declOf = [] := by
  induction l with
  | nil => rfl
  | cons o rest ih =>
    have ho := h o List.mem_cons_self
    have : declOf o = none := by cases o <;> simp [plain] at ho <;> rfl
    simp only [List.filterMap_cons, this, ih (fun x hx => h x (List.mem_cons_of_mem _ hx))]

theorem measOf_foldl_plain {l : List Op} (h : ∀ o ∈ l, plain o = true) (acc : Option Basis) :
    l.foldl measStep acc = acc := by
  induction l generalizing acc with
  | nil => rfl
  | cons o rest ih =>
    have ho := h o List.mem_cons_self
    simp only [List.foldl_cons]
    have : measStep acc o = acc := by
      cases o <;> simp [plain] at ho <;> rfl
    rw [this]
    exact ih (fun x hx => h x (List.mem_cons_of_mem _ hx)) acc

/-- Declarations without initial target. -/
def bareDecl : Op → Bool
  | .declare _ _ none => true
  | _ => false

theorem declOf_bare (l : List Op) : ∀ o ∈ l.filterMap declOf, bareDecl o = true := by
  intro o ho
  rw [List.mem_filterMap] at ho
  obtain ⟨x, _, hx⟩ := ho
  cases x <;> simp [declOf] at hx
  subst hx; rfl

theorem filterMap_decl_bare {l : List Op} (h : ∀ o ∈ l, bareDecl o = true) : l.filterMap declOf = l := by
  induction l with
  | nil => rfl
  | cons o rest ih =>
    have ho := h o List.mem_cons_self
    have : declOf o = some o := by
      cases o with
      | declare n id init => cases init <;> simp [bareDecl] at ho <;> rfl
      | _ => simp [bareDecl] at ho
    simp only [List.filterMap_cons, this, ih (fun x hx => h x (List.mem_cons_of_mem _ hx))]

theorem flatMap_body_bare {l : List Op} (h : ∀ o ∈ l, bareDecl o = true) : l.flatMap bodyOf = [] := by
  induction l with
  | nil => rfl
  | cons o rest ih =>
    have ho := h o List.mem_cons_self
    have : bodyOf o = [] := by
      cases o with
      | declare n id init => cases init <;> simp [bareDecl] at ho <;> rfl
      | _ => simp [bareDecl] at ho
    simp only [List.flatMap_cons, this, ih (fun x hx => h x (List.mem_cons_of_mem _ hx))]
    rfl

theorem measOf_foldl_bare {l : List Op} (h : ∀ o ∈ l, bareDecl o = true) (acc : Option Basis) :
    l.foldl measStep acc = acc := by
  induction l generalizing acc with
  | nil => rfl
  | cons o rest ih =>
    have ho := h o List.mem_cons_self
    simp only [List.foldl_cons]
    have : measStep acc o = acc := by
      cases o <;> simp [bareDecl] at ho <;> rfl
    rw [this]
    exact ih (fun x hx => h x (List.mem_cons_of_mem _ hx)) acc

theorem flatMap_body_all_plain (l : List Op) : ∀ o ∈ l.flatMap bodyOf, plain o = true := by
  intro o ho
  rw [List.mem_flatMap] at ho
  obtain ⟨x, _, hx⟩ := ho
  exact bodyOf_plain x o hx

def measTail : Option Basis → List Op
  | some b => [.measure b]
  | none => []

theorem canon_eq (log : List Op) :
    canon log = log.filterMap declOf ++ log.flatMap bodyOf ++ measTail (measOf log) := by
  unfold canon measTail
  cases measOf log <;> rfl

theorem canon_of_parts {D B : List Op} (m : Option Basis) (hb : ∀ o ∈ D, bareDecl o = true)
    (hp : ∀ o ∈ B, plain o = true) : canon (D ++ B ++ measTail m) = D ++ B ++ measTail m := by
  have hm : measOf (D ++ B ++ measTail m) = m := by
    unfold measOf
    simp only [List.foldl_append]
    rw [measOf_foldl_bare hb, measOf_foldl_plain hp]
    cases m <;> rfl
  rw [canon_eq, hm]
  cases m with
  | none =>
    simp only [measTail, List.append_nil, List.filterMap_append, List.flatMap_append,
      filterMap_decl_bare hb, filterMap_decl_plain hp, flatMap_body_bare hb, flatMap_body_plain hp,
      List.nil_append]
  | some b =>
    simp only [measTail, List.filterMap_append, List.flatMap_append,
      filterMap_decl_bare hb, filterMap_decl_plain hp, flatMap_body_bare hb, flatMap_body_plain hp,
      List.nil_append, List.append_nil, List.filterMap_cons, List.filterMap_nil, List.flatMap_cons,
      List.flatMap_nil, declOf, bodyOf]

theorem canon_idem (log : List Op) : canon (canon log) = canon log := by
  rw [canon_eq log]
  exact canon_of_parts _ (declOf_bare log) (flatMap_body_all_plain log)

/-! ### Expressions -/

/-- Function names are distinct, none is `"neg"` (which the decoder maps to negation). -/
def NamesOk (names : FnNames) : Prop :=
  (names.map (·.2)).Nodup ∧ (∀ p ∈ names, p.2 ≠ "neg")

theorem mem_of_lookup {l : List (Nat × String)} {f : Nat} {nm : String} (h : l.lookup f = some nm) :
    (f, nm) ∈ l := by
  induction l with
  | nil => simp at h
  | cons p rest ih =>
    obtain ⟨g, m⟩ := p
    simp only [List.lookup_cons] at h
    by_cases hfg : f = g
    · subst hfg
      simp only [beq_self_eq_true] at h
      injection h with h
      subst h
      exact List.mem_cons_self
    · have : (f == g) = false := by simpa using hfg
      rw [this] at h
      exact List.mem_cons_of_mem _ (ih h)

theorem fnOfName_lookup {names : FnNames} (hn : (names.map (·.2)).Nodup) {f : Nat} {nm : String}
    (h : names.lookup f = some nm) : fnOfName names nm = some f := by
  unfold fnOfName
  induction names with
  | nil => simp at h
  | cons p rest ih =>
    obtain ⟨g, m⟩ := p
    simp only [List.map_cons, List.nodup_cons] at hn
    simp only [List.lookup_cons] at h
    by_cases hfg : f = g
    · subst hfg
      simp only [beq_self_eq_true] at h
      injection h with h
      subst h
      simp
    · have : (f == g) = false := by simpa using hfg
      rw [this] at h
      have hin : nm ∈ rest.map (·.2) := List.mem_map.mpr ⟨(f, nm), mem_of_lookup h, rfl⟩
      have hne : m ≠ nm := fun e => hn.1 (e ▸ hin)
      have : ((g, m).2 == nm) = false := by simpa using hne
      simp only [List.find?_cons, this]
      exact ih hn.2 h

theorem expr_roundtrip {names : FnNames} (hn : NamesOk names) (e : Param.Expr) (a : AExpr)
    (h : encExpr names e = some a) : decExpr names a = some e := by
  induction e generalizing a with
  | const q => simp [encExpr] at h; subst h; rfl
  | var n i => simp [encExpr] at h; subst h; rfl
  | add x y ihx ihy | sub x y ihx ihy | mul x y ihx ihy | div x y ihx ihy =>
    simp only [encExpr] at h
    cases hx : encExpr names x with
    | none => rw [hx] at h; simp at h
    | some ax =>
      cases hy : encExpr names y with
      | none => rw [hx, hy] at h; simp at h
      | some ay =>
        rw [hx, hy] at h
        simp only [Option.some.injEq] at h
        subst h
        simp [decExpr, ihx ax hx, ihy ay hy]
  | neg x ih =>
    simp only [encExpr] at h
    cases hx : encExpr names x with
    | none => rw [hx] at h; simp at h
    | some ax =>
      rw [hx] at h
      simp only [Option.map_some, Option.some.injEq] at h
      subst h
      simp [decExpr, ih ax hx]
  | fn f x ih =>
    simp only [encExpr] at h
    cases hl : names.lookup f with
    | none => rw [hl] at h; simp at h
    | some nm =>
      cases hx : encExpr names x with
      | none => rw [hl, hx] at h; simp at h
      | some ax =>
        rw [hl, hx] at h
        simp only [Option.some.injEq] at h
        subst h
        have hne : nm ≠ "neg" := hn.2 (f, nm) (mem_of_lookup hl)
        simp [decExpr, hne, fnOfName_lookup hn.1 hl, ih ax hx]

end Serialize
end Pulser
