/-
  Proofs.TargetsInv — every instruction of every channel of a reachable sequence acts on atoms of
  the register, and the phase references of every declared channel's basis exist.  Consequence
  (Properties/C09.lean): the post-phase-shift of an `add` cannot fail on a reachable state, so a
  refused call leaves a reachable sequence untouched whatever the error.

  Channel level: every primitive of the scheduler appends instructions that copy the target list of
  an earlier instruction (`TSub`), except `add_target`, which brings the validated list `qs`.
-/
import Proofs.EomSeq
namespace Pulser

/-- The target lists of a channel's instructions. -/
def tgts (c : ChanState) : List (List Nat) := c.slots.map (·.targets)

/-- All targets are atoms of a register of `nQ` atoms. -/
def TgtOk (nQ : Nat) (c : ChanState) : Prop := ∀ t ∈ tgts c, ∀ q ∈ t, q < nQ

/-- Every instruction of `c'` acts on a target list an instruction of `c` already has, or on `qs`. -/
def TSub (qs : List Nat) (c c' : ChanState) : Prop := ∀ t ∈ tgts c', t ∈ tgts c ∨ t = qs

theorem TSub.rfl' (qs : List Nat) (c : ChanState) : TSub qs c c := fun _ h => .inl h

theorem TSub.trans {qs : List Nat} {a b c : ChanState} (h1 : TSub qs a b) (h2 : TSub qs b c) :
    TSub qs a c := by
  intro t ht
  rcases h2 t ht with h | h
  · exact h1 t h
  · exact .inr h

theorem TSub.ok {qs : List Nat} {nQ : Nat} {c c' : ChanState} (h : TSub qs c c')
    (hq : ∀ q ∈ qs, q < nQ) (hc : TgtOk nQ c) : TgtOk nQ c' := by
  intro t ht q hqt
  rcases h t ht with h1 | h1
  · exact hc t h1 q hqt
  · subst h1; exact hq q hqt

theorem last_tgts {c : ChanState} {l : Slot} (h : c.last = .ok l) : l.targets ∈ tgts c := by
  unfold ChanState.last at h
  split at h
  · rename_i s hs
    injection h with h; subst h
    exact List.mem_map_of_mem (List.mem_of_getLast? hs)
  · cases h

/-- Appending an instruction that copies an existing target list (or acts on `qs`). -/
theorem TSub_snoc {qs : List Nat} {c c' : ChanState} {sl : Slot}
    (hs : c'.slots = c.slots ++ [sl]) (ht : sl.targets ∈ tgts c ∨ sl.targets = qs) : TSub qs c c' := by
  intro t h
  unfold tgts at h
  rw [hs, List.map_append] at h
  rcases List.mem_append.mp h with h | h
  · exact .inl h
  · simp at h; subst h; exact ht

theorem TSub_slots_eq {qs : List Nat} {c c' : ChanState} (hs : c'.slots = c.slots) : TSub qs c c' := by
  intro t h
  unfold tgts at h ⊢
  rw [hs] at h
  exact .inl h

theorem addDelay_tsub {qs : List Nat} {ms : Option Nat} {c c' : ChanState} {d : Nat}
    (h : addDelay ms c d = .ok c') : TSub qs c c' := by
  unfold addDelay at h
  cases hl : c.last with
  | error e1 => simp [hl, bind, Except.bind] at h
  | ok last =>
    have hm := last_tgts hl
    cases hv : validateDuration c.cfg d with
    | error e1 => simp [hl, hv, bind, Except.bind] at h
    | ok d' =>
      cases hc : checkDuration ms (last.tf + (d' : Int)) with
      | error e1 => simp [hl, hv, hc, bind, Except.bind] at h
      | ok u =>
        simp only [hl, hv, hc, bind, Except.bind] at h
        split at h
        · split at h
          · rename_i b _ _
            cases hmk : mkDetunedDelay c d' b.detOff c.lastPulsePhase with
            | error e1 => rw [hmk] at h; cases h
            | ok p =>
              rw [hmk] at h
              injection h with h; subst h
              exact TSub_snoc rfl (.inl hm)
          · injection h with h; subst h
            exact TSub_snoc rfl (.inl hm)
        · injection h with h; subst h
          exact TSub_snoc rfl (.inl hm)

theorem addDelay_prefix {ms : Option Nat} {c c' : ChanState} {d : Nat}
    (h : addDelay ms c d = .ok c') : ∃ l2, c'.slots = c.slots ++ l2 := by
  unfold addDelay at h
  cases hl : c.last with
  | error e1 => simp [hl, bind, Except.bind] at h
  | ok last =>
    cases hv : validateDuration c.cfg d with
    | error e1 => simp [hl, hv, bind, Except.bind] at h
    | ok d' =>
      cases hc : checkDuration ms (last.tf + (d' : Int)) with
      | error e1 => simp [hl, hv, hc, bind, Except.bind] at h
      | ok u =>
        simp only [hl, hv, hc, bind, Except.bind] at h
        split at h
        · split at h
          · rename_i b _ _
            cases hmk : mkDetunedDelay c d' b.detOff c.lastPulsePhase with
            | error e1 => rw [hmk] at h; cases h
            | ok p =>
              rw [hmk] at h
              injection h with h; subst h
              exact ⟨_, rfl⟩
          · injection h with h; subst h
            exact ⟨_, rfl⟩
        · injection h with h; subst h
          exact ⟨_, rfl⟩

theorem waitForFall_tsub {qs : List Nat} {ms : Option Nat} {c c' : ChanState}
    (h : waitForFall ms c = .ok c') : TSub qs c c' := by
  unfold waitForFall at h
  simp only at h
  split at h
  · cases ha : c.adjust (c.getDuration true - c.getDuration false).toNat with
    | error e1 => simp [ha, bind, Except.bind] at h
    | ok d => simp only [ha, bind, Except.bind] at h; exact addDelay_tsub h
  · injection h with h; subst h; exact TSub.rfl' qs c

theorem makeNextPulseSlot_targets {ms : Option Nat} {c : ChanState} {o : List ChanState}
    {p : PulseRec} {b : List Int} {pr : Protocol} {d : Option Drift} {blk : Bool} {slot last : Slot}
    (hl : c.last = .ok last) (h : makeNextPulseSlot ms c o p b pr d blk = .ok slot) :
    slot.targets = last.targets := by
  unfold makeNextPulseSlot at h
  rw [hl] at h
  simp only at h
  split at h
  · cases h
  · split at h
    · cases h
    · injection h with h; subst h; rfl

theorem addPulse_tsub {qs : List Nat} {ms : Option Nat} {c c' : ChanState} {o : List ChanState}
    {p : PulseRec} {b : List Int} {pr : Protocol} {d : Option Drift}
    (h : addPulse ms c o p b pr d = .ok c') : TSub qs c c' := by
  unfold addPulse at h
  cases hl : c.last with
  | error e => simp [hl, bind, Except.bind] at h
  | ok last =>
    have hm := last_tgts hl
    cases hmk : makeNextPulseSlot ms c o p b pr d true with
    | error e => simp [hl, hmk, bind, Except.bind] at h
    | ok slot =>
      have hst := makeNextPulseSlot_targets hl hmk
      simp only [hl, hmk, bind, Except.bind] at h
      split at h
      · cases had : addDelay ms c (slot.ti - last.tf).toNat with
        | error e => simp [had] at h
        | ok c1 =>
          simp only [had] at h
          injection h with h; subst h
          have h1 : TSub qs c c1 := addDelay_tsub had
          refine TSub.trans h1 (TSub_snoc rfl ?_)
          -- the new pulse copies the targets of the last instruction of `c`, which `c1` still has
          left
          unfold tgts
          obtain ⟨l2, hl2⟩ := addDelay_prefix had
          rw [hl2, List.map_append, hst]
          exact List.mem_append_left _ hm
      · simp only [pure, Except.pure] at h
        injection h with h; subst h
        exact TSub_snoc rfl (.inl (by rw [hst]; exact hm))

theorem lift_tsub {qs : List Nat} {c : ChanState} {e : Except Err ChanState}
    (h : ∀ c', e = .ok c' → TSub qs c c') : TSub qs c (CRes.lift c e).c := by
  unfold CRes.lift
  cases e with
  | error x => exact TSub.rfl' qs c
  | ok c' => exact h c' rfl

theorem bind_tsub {qs : List Nat} {c : ChanState} {r : CRes} {f : ChanState → CRes}
    (hr : TSub qs c r.c) (hf : ∀ c1, TSub qs c1 (f c1).c) : TSub qs c (r.bind f).c := by
  unfold CRes.bind
  cases r.err with
  | none => exact hr.trans (hf _)
  | some e => exact hr

theorem addTargetTail_tsub {qs : List Nat} {ms : Option Nat} {c c' : ChanState}
    (h : addTargetTail ms c qs = .ok c') : TSub qs c c' := by
  unfold addTargetTail at h
  split at h
  · cases h
  · simp only at h
    split at h
    · cases h
    · split at h
      · cases h
      · injection h with h; subst h; exact TSub_snoc rfl (.inr rfl)

theorem addTarget_tsub {qs : List Nat} {ms : Option Nat} (c : ChanState) :
    TSub qs c (addTarget ms c qs).c := by
  unfold addTarget
  split
  · apply lift_tsub
    intro c' h
    simp only [bind, Except.bind] at h
    split at h
    · cases h
    · injection h with h; subst h; exact TSub_snoc rfl (.inr rfl)
  · split
    · exact TSub.rfl' qs c
    · exact bind_tsub (lift_tsub fun c' h => waitForFall_tsub h)
        (fun c1 => lift_tsub fun c' h => addTargetTail_tsub h)

theorem enableEom_tsub {qs : List Nat} {ms : Option Nat} (c : ChanState) (amp detOn detOff : Rat)
    (sb sw : Bool) : TSub qs c (enableEom ms c amp detOn detOff sb sw).c := by
  unfold enableEom
  simp only
  apply bind_tsub
  · split
    · apply bind_tsub
      · split
        · exact lift_tsub fun c' h => waitForFall_tsub h
        · exact TSub.rfl' qs c
      · intro c1
        apply lift_tsub
        intro c' h
        simp only [bind, Except.bind] at h
        split at h
        · cases h
        · split at h
          · split at h
            · cases h
            · exact addPulse_tsub h
          · exact addDelay_tsub h
    · exact TSub.rfl' qs c
  · intro c1
    apply lift_tsub
    intro c' h
    simp only [bind, Except.bind] at h
    split at h
    · cases h
    · injection h with h; subst h; exact TSub_slots_eq rfl

theorem disableEom_tsub {qs : List Nat} {ms : Option Nat} (c : ChanState) (sb : Bool) :
    TSub qs c (disableEom ms c sb).c := by
  unfold disableEom
  apply bind_tsub
  · apply lift_tsub
    intro c' h
    simp only [bind, Except.bind] at h
    split at h
    · cases h
    · injection h with h; subst h; exact TSub_slots_eq rfl
  · intro c1
    split
    · exact TSub.rfl' qs c1
    · split
      · split
        · apply lift_tsub
          intro c' h
          simp only [bind, Except.bind] at h
          split at h
          · cases h
          · exact addDelay_tsub h
        · exact lift_tsub fun c' h => waitForFall_tsub h
      · exact lift_tsub fun c' h => waitForFall_tsub h

/-! ### Sequence level -/

/-- The relation of the pass: targets stay inside the register. -/
def XT (nQ : Nat) : CRel where
  R := fun c c' => TgtOk nQ c → TgtOk nQ c'
  N := TgtOk nQ
  refl := fun _ h => h
  trans := fun h1 h2 h => h2 (h1 h)
  step := fun hn hr => hr hn

theorem XT_of_tsub {nQ : Nat} {qs : List Nat} {c c' : ChanState} (h : TSub qs c c')
    (hq : ∀ q ∈ qs, q < nQ) : (XT nQ).R c c' := fun hc => h.ok hq hc

variable {nQ : Nat}

/-- any list of atoms works as the `qs` of a primitive that only copies target lists -/
theorem XT_copy {c c' : ChanState} (h : TSub [] c c') : (XT nQ).R c c' :=
  XT_of_tsub h (fun _ hq => by cases hq)

theorem RT_targetCore {s : SeqState} (hi : SeqInv s) (hq : s.nQ = nQ) (qs : List Nat) (n : ChName) :
    RX (XT nQ) s (targetCore s qs n) := by
  unfold targetCore
  by_cases g0 : s.measured.isSome = true
  · rw [if_pos g0]; exact RX_fail hi _
  · rw [if_neg g0]
    cases hv : s.validateChannel n true with
    | error e => exact RX_fail hi _
    | ok c =>
      simp only
      by_cases g1 : qs.isEmpty = true
      · rw [if_pos g1]; exact RX_fail hi _
      · rw [if_neg g1]
        by_cases g2 : (!c.cfg.isLocal) = true
        · rw [if_pos g2]; exact RX_fail hi _
        · rw [if_neg g2]
          by_cases g3 : overNat c.cfg.maxTargets qs.length = true
          · rw [if_pos g3]; exact RX_fail hi _
          · rw [if_neg g3]
            by_cases g4 : qs.any (· ≥ s.nQ) = true
            · rw [if_pos g4]; exact RX_fail hi _
            · rw [if_neg g4]
              have hb : ∀ q ∈ qs, q < nQ := by
                intro q hqm
                have : ¬ (q ≥ s.nQ) := by
                  intro hge
                  exact g4 (List.any_eq_true.mpr ⟨q, hqm, by simpa using hge⟩)
                omega
              repeat' split
              all_goals first
                | exact RX_fail hi _
                | exact RX_withChan hi (fun c _ hc => ⟨addTarget_inv hc, XT_of_tsub (addTarget_tsub c) hb⟩)

theorem RT_delayCore {s : SeqState} (hi : SeqInv s) (d : Int) (n : ChName) (atRest : Bool) :
    RX (XT nQ) s (delayCore s d n atRest) := by
  unfold delayCore
  split
  · exact RX_fail hi _
  · split
    · exact RX_fail hi _
    · apply RX_bind
      · split
        · exact RX_withChan hi (fun c _ hc =>
            ⟨lift_good hc (fun c' h => waitForFall_inv hc h), XT_copy (lift_tsub fun c' h => waitForFall_tsub h)⟩)
        · exact RX_done (SX.rfl' hi)
      · intro s1 hi1 _
        split
        · exact RX_done (SX.rfl' hi1)
        · apply RX_withChan hi1
          intro c _ hc
          refine ⟨?_, XT_copy (lift_tsub ?_)⟩
          · apply lift_good hc
            intro c' h
            split at h
            · cases hl : c.last with
              | error e => simp [hl, bind, Except.bind] at h
              | ok l => simp [hl, bind, Except.bind] at h
            · exact addDelay_inv hc h
          · intro c' h
            split at h
            · cases hl : c.last with
              | error e => simp [hl, bind, Except.bind] at h
              | ok l => simp [hl, bind, Except.bind] at h
            · exact addDelay_tsub h

theorem RT_delayChecked {s : SeqState} (hi : SeqInv s) (d : Int) (n : ChName) (atRest : Bool) :
    RX (XT nQ) s (delayChecked s d n atRest) := by
  rcases delayChecked_cases s d n atRest with h | ⟨e, h⟩ <;> rw [h]
  · exact RT_delayCore hi d n atRest
  · exact RX_fail hi e

theorem RT_alignLoop {s : SeqState} (hi : SeqInv s) (tf : Int) (l : List (ChName × Int)) :
    RX (XT nQ) s (alignLoop tf l s) := by
  induction l generalizing s with
  | nil => exact RX_done (SX.rfl' hi)
  | cons a rest ih =>
    obtain ⟨n, t⟩ := a
    unfold alignLoop
    simp only
    split
    · exact RX_fail hi _
    · split
      · split
        · exact RX_fail hi _
        · exact RX_bind (RT_delayCore hi _ _ _) (fun s1 hi1 _ => ih hi1)
      · exact ih hi

theorem RT_addCore {s : SeqState} (hi : SeqInv s) (p : PulseIn) (n : ChName)
    (proto : Option Protocol) (drift : Option Drift) : RX (XT nQ) s (addCore s p n proto drift) := by
  unfold addCore
  cases proto with
  | none => exact RX_fail hi _
  | some proto =>
    simp only
    cases hc : s.getChan n with
    | none => exact RX_fail hi _
    | some c =>
      simp only
      have hcm := getChan_mem hc
      cases hl : c.last with
      | error e => exact RX_fail hi _
      | ok last =>
        simp only
        split
        · exact RX_fail hi _
        · generalize (if c.cfg.isDmm = true then none else
            (s.lastPhases c.cfg.basis last.targets).head?) = phaseRef
          cases hpr : validateAndAdjust c p phaseRef with
          | error e => exact RX_fail hi _
          | ok pr =>
            simp only
            cases hadd : addPulse s.dev.maxSeqDur c (s.others n) pr
                (s.lastTimes c.cfg.basis last.targets) proto drift with
            | error e => exact RX_fail hi _
            | ok c' =>
              simp only
              have hva := validateAndAdjust_ok (hi c hcm.1).1 hpr
              have hg := addPulse_inv (hi c hcm.1) hva.1 hva.2.1 hadd
              have h1 : SX (XT nQ) s (s.setChan c') := setChan_SX hi hc hg (XT_copy (addPulse_tsub hadd))
              cases hl' : c'.last with
              | error e => exact h1
              | ok newSlot =>
                simp only
                have hm := mapRefs_chans (s.setChan c') c.cfg.basis last.targets
                  (·.updateLastUsed newSlot.tf)
                have h2 : SX (XT nQ) (s.setChan c') _ := SX_of_chans_eq h1.1.1 hm.1 hm.2.1 hm.2.2
                split
                · exact SX.trans h1 (SX.trans h2 (RX_phaseShift h2.1.1 _ _ _))
                · exact SX.trans h1 h2

theorem freshChan_tg {name : ChName} {chId : Nat} {cfg : ChanCfg} {w : Bool} {a b : Rat} (n : Nat) :
    TgtOk n (SeqState.freshChan name chId cfg (List.range n) w a b) := by
  intro t ht q hq
  unfold tgts SeqState.freshChan at ht
  simp only at ht
  split at ht
  · simp at ht; subst ht; exact List.mem_range.mp hq
  · simp at ht

/-- Every API call — successful or raising — keeps all targets inside the register. -/
theorem stepRaw_RT {s : SeqState} (hd : DevOk s.dev) (hi : SeqInv s) (hq : s.nQ = nQ) (op : Op) :
    RX (XT nQ) s (stepRaw s op) := by
  cases op with
  | declare name chId init =>
    simp only [stepRaw]
    split
    · exact RX_fail hi _
    · split
      · exact RX_fail hi _
      · split
        · exact RX_fail hi _
        · split
          · exact RX_fail hi _
          · rename_i cfg hcfg
            split
            · repeat' split
              all_goals exact RX_fail hi _
            · apply RX_store
              have hmem : cfg ∈ s.dev.chans := List.mem_of_getElem? hcfg
              have hfc := fun nm => freshChan_inv (name := nm) (chId := chId) (qs := s.allQubits)
                (w := !cfg.isLocal) (a := 1) (b := 1) (ms := s.dev.maxSeqDur) (hd.1 cfg hmem)
              have hft : ∀ nm, TgtOk nQ (SeqState.freshChan nm chId cfg s.allQubits (!cfg.isLocal) 1 1) := by
                intro nm; rw [← hq]; exact freshChan_tg s.nQ
              split
              · exact addChannel_SX hi (hfc _) (hft _)
              · split
                · refine RX_orRollback hi (SX.trans (addChannel_SX hi (hfc _) (hft _))
                    (RT_targetCore (addChannel_SG hi (hfc _)).1 ?_ _ _))
                  rw [(addChannel_SG hi (hfc _)).2.2.1]; exact hq
                · exact addChannel_SX hi (hfc _) (hft _)
  | configDetMap dmmId maxW sumW =>
    simp only [stepRaw]
    split
    · exact RX_fail hi _
    · split
      · exact RX_fail hi _
      · rename_i cfg hcfg
        split
        · exact RX_fail hi _
        · split
          · exact RX_fail hi _
          · apply RX_store
            have hmem : cfg ∈ s.dev.dmms := List.mem_of_getElem? hcfg
            refine addChannel_SX hi (freshChan_inv (hd.2 cfg hmem)) ?_
            rw [← hq]; exact freshChan_tg s.nQ
  | target qs n => exact RX_store _ (RX_orRollback hi (RT_targetCore hi hq _ _))
  | add p n proto =>
    simp only [stepRaw]
    apply RX_store; apply RX_markNonEmpty
    repeat' split
    all_goals first | exact RX_fail hi _ | exact RT_addCore hi _ _ _ _
  | addDmm p n proto =>
    simp only [stepRaw]
    apply RX_store; apply RX_markNonEmpty
    repeat' split
    all_goals first | exact RX_fail hi _ | exact RT_addCore hi _ _ _ _
  | addEom n dur phase post proto corr fs fe ref =>
    simp only [stepRaw]
    apply RX_store; apply RX_markNonEmpty
    repeat' split
    all_goals first | exact RX_fail hi _ | exact RT_addCore hi _ _ _ _
  | delay d n atRest => exact RX_store _ (RX_orRollback hi (RT_delayChecked hi _ _ _))
  | align chs atRest =>
    simp only [stepRaw]
    apply RX_store
    apply RX_orRollback hi
    repeat' split
    all_goals first | exact RX_fail hi _ | exact RX_done (SX.rfl' hi) | exact RT_alignLoop hi _ _
  | phaseShift phi qs b => exact RX_store _ (RX_phaseShift hi _ _ _)
  | enableEom n e =>
    simp only [stepRaw]
    split
    · exact RX_fail hi _
    · split
      · exact RX_fail hi _
      · split
        · exact RX_fail hi _
        · split
          · exact RX_fail hi _
          · split
            · exact RX_fail hi _
            · apply RX_orRollback hi
              unfold enableEomCommit
              apply RX_bind (RX_withChan hi (fun c _ hc => ⟨enableEom_inv hc, XT_copy (enableEom_tsub c _ _ _ _ _)⟩))
              intro s1 hi1 _
              apply RX_store
              repeat' split
              all_goals first
                | exact RX_phaseShift hi1 _ _ _ | exact RX_fail hi1 _ | exact RX_done (SX.rfl' hi1)
  | modifyEom n e =>
    simp only [stepRaw]
    split
    · exact RX_fail hi _
    · split
      · exact RX_fail hi _
      · split
        · exact RX_fail hi _
        · split
          · exact RX_fail hi _
          · apply RX_orRollback hi
            unfold modifyEomCommit
            apply RX_bind (RX_withChan hi (fun c _ hc => ⟨disableEom_inv hc, XT_copy (disableEom_tsub c _)⟩))
            intro s1 hi1 hd1
            split
            · exact RX_fail hi1 _
            · apply RX_bind
              · rw [← hd1]
                exact RX_withChan hi1 (fun c _ hc => ⟨enableEom_inv hc, XT_copy (enableEom_tsub c _ _ _ _ _)⟩)
              · intro s2 hi2 _
                apply RX_store
                repeat' split
                all_goals first
                  | exact RX_phaseShift hi2 _ _ _ | exact RX_fail hi2 _ | exact RX_done (SX.rfl' hi2)
  | disableEom n corr =>
    simp only [stepRaw]
    apply RX_store
    apply RX_orRollback hi
    split
    · exact RX_fail hi _
    · split
      · exact RX_fail hi _
      · split
        · exact RX_fail hi _
        · apply RX_bind (RX_withChan hi (fun c _ hc => ⟨disableEom_inv hc, XT_copy (disableEom_tsub c _)⟩))
          intro s1 hi1 _
          repeat' split
          all_goals first
            | exact RX_phaseShift hi1 _ _ _ | exact RX_fail hi1 _ | exact RX_done (SX.rfl' hi1)
  | measure b =>
    simp only [stepRaw]
    apply RX_store
    repeat' split
    all_goals first | exact RX_fail hi _ | exact RX_done (SX_of_chans_eq hi rfl rfl rfl)
  | getDuration ch fall =>
    simp only [stepRaw]
    repeat' split
    all_goals first | exact RX_fail hi _ | exact SX.rfl' hi
  | estimate p n proto =>
    simp only [stepRaw]
    repeat' split
    all_goals first
      | exact RX_fail hi _
      | (show SX (XT nQ) s (estimateCore s _ _ _).st; rw [estimateCore_st]; exact SX.rfl' hi)
  | phaseRef q b =>
    simp only [stepRaw]
    repeat' split
    all_goals first | exact RX_fail hi _ | exact SX.rfl' hi

theorem injectOracle_ST {s : SeqState} (hi : SeqInv s) (n : ChName) (d : Rat) (du fs fe : Nat) :
    SX (XT nQ) s (s.injectOracle n d du fs fe) := by
  refine ⟨injectOracle_SG hi n d du fs fe, ?_, ?_⟩
  · intro i c hc
    simp only [SeqState.injectOracle, List.getElem?_map, hc, Option.map_some]
    by_cases h : (c.name == n) = true
    · rw [if_pos h]; exact ⟨_, rfl, XT_copy (TSub_slots_eq rfl)⟩
    · rw [if_neg h]; exact ⟨_, rfl, fun h => h⟩
  · intro i c' hi' hc'
    have := (List.getElem?_eq_some_iff.mp hc').1
    simp [SeqState.injectOracle] at this
    omega

theorem stepEv_ST {s : SeqState} (hd : DevOk s.dev) (hi : SeqInv s) (hq : s.nQ = nQ) (ev : Ev) :
    SX (XT nQ) s (stepEv s ev) := by
  cases ev with
  | call op => exact stepRaw_RT hd hi hq op
  | oracle n d du fs fe => exact injectOracle_ST hi n d du fs fe

/-- All targets stay inside the register along whole histories. -/
theorem runEv_TG {s : SeqState} (hd : DevOk s.dev) (hi : SeqInv s) (hq : s.nQ = nQ)
    (hl : ∀ c ∈ s.chans, TgtOk nQ c) (evs : List Ev) : ∀ c ∈ (runEv s evs).chans, TgtOk nQ c := by
  induction evs generalizing s with
  | nil => exact hl
  | cons ev rest ih =>
    have h1 := stepEv_ST hd hi hq ev
    exact ih (by rw [h1.1.2.1]; exact hd) h1.1.1 (by rw [h1.1.2.2.1]; exact hq) (h1.keeps hl)

theorem runEv_nQ {s : SeqState} (hd : DevOk s.dev) (hi : SeqInv s) (evs : List Ev) :
    (runEv s evs).nQ = s.nQ := by
  induction evs generalizing s with
  | nil => rfl
  | cons ev rest ih =>
    have h1 := stepEv_ST (nQ := s.nQ) hd hi rfl ev
    have := ih (s := stepEv s ev) (by rw [h1.1.2.1]; exact hd) h1.1.1
    exact this.trans h1.1.2.2.1

end Pulser
