/-
  Proofs.Switch — lemmas for property C18.

  Main result: *erasing the limits is a simulation*.  `erase` removes from a sequence state every
  field that is not in `Switch.timingFields` (maximal durations, amplitude / detuning limits,
  target limits, DMM bottoms, the device's maximal sequence duration and channel reusability) and
  normalises `min_retarget_interval` to what `add_target` can see of it.  `stepRaw_erase`: a call
  that is accepted is also accepted on the erased state, and yields the erased result.  Hence two
  devices that agree on the timing fields give the same timeline for every history of accepted
  calls (`Properties.C18.timing_congr`).
-/
import PulserModel.Switch
namespace Pulser
namespace Switch

/-! ### the erased configuration -/

@[simp] theorem timing_isDmm (c : ChanCfg) : (timing c).isDmm = c.isDmm := rfl
@[simp] theorem timing_basis (c : ChanCfg) : (timing c).basis = c.basis := rfl
@[simp] theorem timing_isLocal (c : ChanCfg) : (timing c).isLocal = c.isLocal := rfl
@[simp] theorem timing_clock (c : ChanCfg) : (timing c).clock = c.clock := rfl
@[simp] theorem timing_minDur (c : ChanCfg) : (timing c).minDur = c.minDur := rfl
@[simp] theorem timing_maxDur (c : ChanCfg) : (timing c).maxDur = none := rfl
@[simp] theorem timing_rise (c : ChanCfg) : (timing c).rise = c.rise := rfl
@[simp] theorem timing_pjt (c : ChanCfg) : (timing c).pjt = c.pjt := rfl
@[simp] theorem timing_minRetarget (c : ChanCfg) : (timing c).minRetarget = effMinRetarget c := rfl
@[simp] theorem timing_fixedRetarget (c : ChanCfg) : (timing c).fixedRetarget = c.fixedRetarget := rfl
@[simp] theorem timing_maxTargets (c : ChanCfg) : (timing c).maxTargets = none := rfl
@[simp] theorem timing_eom (c : ChanCfg) : (timing c).eom = c.eom := rfl
@[simp] theorem timing_maxAmp (c : ChanCfg) : (timing c).maxAmp = none := rfl
@[simp] theorem timing_maxAbsDet (c : ChanCfg) : (timing c).maxAbsDet = none := rfl
@[simp] theorem timing_minAvgAmp (c : ChanCfg) : (timing c).minAvgAmp = 0 := rfl
@[simp] theorem timing_bottom (c : ChanCfg) : (timing c).bottom = none := rfl
@[simp] theorem timing_totalBottom (c : ChanCfg) : (timing c).totalBottom = none := rfl

@[simp] theorem eraseChan_cfg (c : ChanState) : (eraseChan c).cfg = timing c.cfg := rfl
@[simp] theorem eraseChan_name (c : ChanState) : (eraseChan c).name = c.name := rfl
@[simp] theorem eraseChan_chId (c : ChanState) : (eraseChan c).chId = c.chId := rfl
@[simp] theorem eraseChan_slots (c : ChanState) : (eraseChan c).slots = c.slots := rfl
@[simp] theorem eraseChan_eom (c : ChanState) : (eraseChan c).eom = c.eom := rfl
@[simp] theorem eraseChan_maxW (c : ChanState) : (eraseChan c).maxW = c.maxW := rfl
@[simp] theorem eraseChan_sumW (c : ChanState) : (eraseChan c).sumW = c.sumW := rfl
@[simp] theorem eraseChan_ddOracle (c : ChanState) : (eraseChan c).ddOracle = c.ddOracle := rfl
@[simp] theorem eraseChan_last (c : ChanState) : (eraseChan c).last = c.last := rfl
@[simp] theorem eraseChan_inEomMode (c : ChanState) : (eraseChan c).inEomMode = c.inEomMode := rfl
@[simp] theorem eraseChan_lastTarget (c : ChanState) : (eraseChan c).lastTarget = c.lastTarget := rfl
@[simp] theorem eraseChan_lastPulseSlot (c : ChanState) (b : Bool) :
    (eraseChan c).lastPulseSlot b = c.lastPulseSlot b := rfl
@[simp] theorem eraseChan_lastPulsePhase (c : ChanState) : (eraseChan c).lastPulsePhase = c.lastPulsePhase := rfl
@[simp] theorem eraseChan_getDuration (c : ChanState) (b : Bool) :
    (eraseChan c).getDuration b = c.getDuration b := rfl
@[simp] theorem eraseChan_lookupDD (c : ChanState) (x : Rat) (d : Nat) :
    (eraseChan c).lookupDD x d = c.lookupDD x d := rfl
@[simp] theorem eraseChan_withSlots (c : ChanState) (l : List Slot) :
    eraseChan { c with slots := l } = { eraseChan c with slots := l } := rfl
@[simp] theorem eraseChan_withEom (c : ChanState) (l : List EomBlock) :
    eraseChan { c with eom := l } = { eraseChan c with eom := l } := rfl

/-! ### durations -/

theorem validateDuration_erase {c : ChanCfg} {d r : Nat} (h : validateDuration c d = .ok r) :
    validateDuration (timing c) d = .ok r := by
  unfold validateDuration at h ⊢
  simp only [timing_minDur, timing_maxDur, timing_clock, overNat]
  repeat' split at h
  all_goals first
    | (cases h; done)
    | (cases h; simp_all)

theorem adjust_erase {c : ChanState} {d r : Nat} (h : c.adjust d = .ok r) :
    (eraseChan c).adjust d = .ok r := by
  unfold ChanState.adjust adjustDuration at h ⊢
  simpa using validateDuration_erase h

theorem checkDuration_none (t : Int) : checkDuration none t = .ok () := rfl

theorem mkDetunedDelay_erase (c : ChanState) (d : Nat) (x y : Rat) :
    mkDetunedDelay (eraseChan c) d x y = mkDetunedDelay c d x y := rfl

theorem addDelay_erase {m : Option Nat} {c c' : ChanState} {d : Nat} (h : addDelay m c d = .ok c') :
    addDelay none (eraseChan c) d = .ok (eraseChan c') := by
  unfold addDelay at h ⊢
  cases hl : c.last with
  | error e => simp [hl, bind, Except.bind] at h
  | ok last =>
    cases hv : validateDuration c.cfg d with
    | error e => simp [hl, hv, bind, Except.bind] at h
    | ok d' =>
      cases hc : checkDuration m (last.tf + (d' : Int)) with
      | error e => simp [hl, hv, hc, bind, Except.bind] at h
      | ok u =>
        have hv' := validateDuration_erase hv
        simp only [hl, hv, hc, bind, Except.bind] at h
        simp only [eraseChan_last, eraseChan_cfg, hl, hv', checkDuration_none, bind, Except.bind,
          eraseChan_eom, eraseChan_lastPulsePhase, mkDetunedDelay_erase, eraseChan_slots]
        cases he : c.eom.getLast? with
        | none =>
          simp only [he] at h ⊢
          cases h; rfl
        | some b =>
          simp only [he] at h ⊢
          split at h
          · rename_i hcond
            rw [if_pos hcond]
            cases hm : mkDetunedDelay c d' b.detOff c.lastPulsePhase with
            | error e => rw [hm] at h; cases h
            | ok p => rw [hm] at h; cases h; rfl
          · rename_i hcond
            rw [if_neg hcond]
            cases h; rfl

theorem waitForFall_erase {m : Option Nat} {c c' : ChanState} (h : waitForFall m c = .ok c') :
    waitForFall none (eraseChan c) = .ok (eraseChan c') := by
  unfold waitForFall at h ⊢
  simp only at h ⊢
  by_cases hpos : c.getDuration true - c.getDuration false > 0
  · have hpos' : (eraseChan c).getDuration true - (eraseChan c).getDuration false > 0 := hpos
    rw [if_pos hpos] at h
    rw [if_pos hpos']
    cases ha : c.adjust (c.getDuration true - c.getDuration false).toNat with
    | error e => simp [ha, bind, Except.bind] at h
    | ok d =>
      simp only [ha, bind, Except.bind] at h
      have ha' : (eraseChan c).adjust ((eraseChan c).getDuration true - (eraseChan c).getDuration false).toNat
          = .ok d := adjust_erase ha
      simp only [ha', bind, Except.bind]
      exact addDelay_erase h
  · have hpos' : ¬ (eraseChan c).getDuration true - (eraseChan c).getDuration false > 0 := hpos
    rw [if_neg hpos] at h
    rw [if_neg hpos']
    cases h; rfl

/-! ### CRes plumbing -/

theorem lift_ok {c : ChanState} {x : Except Err ChanState} (h : (CRes.lift c x).err = none) :
    x = .ok (CRes.lift c x).c := by
  cases x with
  | error e => simp [CRes.lift] at h
  | ok c' => rfl

theorem lift_of_ok {c c' : ChanState} {x : Except Err ChanState} (h : x = .ok c') :
    CRes.lift c x = ⟨c', none⟩ := by subst h; rfl

/-- The erased result of a channel-level operation. -/
def eraseCRes (r : CRes) : CRes := ⟨eraseChan r.c, r.err⟩

theorem bind_ok {r : CRes} {f : ChanState → CRes} (h : (r.bind f).err = none) :
    r.err = none ∧ (f r.c).err = none ∧ r.bind f = f r.c := by
  unfold CRes.bind at h ⊢
  cases hr : r.err with
  | none => simp only [hr] at h ⊢; exact ⟨trivial, h, trivial⟩
  | some e => simp [hr] at h

/-! ### retargeting -/

theorem retargetDelta_eff (c : ChanState) (ti : Int) :
    retargetDelta (eraseChan c) ti = retargetDelta c ti := by
  unfold retargetDelta
  simp only [eraseChan_cfg, timing_minRetarget, timing_fixedRetarget, eraseChan_lastTarget, effMinRetarget]
  by_cases hle : c.cfg.minRetarget ≤ c.cfg.fixedRetarget
  · rw [if_pos hle]
    by_cases hf : c.cfg.fixedRetarget = 0
    · have : c.cfg.minRetarget = 0 := by omega
      simp [hf, this]
    · simp only [hf, ne_eq, not_false_eq_true, if_true]
      have h1 : ((c.cfg.minRetarget : Nat) : Int) ≤ (c.cfg.fixedRetarget : Int) := by exact_mod_cast hle
      omega
  · simp [hle]

theorem sameTargets_erase (c : ChanState) (qs : List Nat) : sameTargets (eraseChan c) qs = sameTargets c qs := rfl

theorem addTarget_erase {m : Option Nat} {c : ChanState} {qs : List Nat}
    (h : (addTarget m c qs).err = none) :
    addTarget none (eraseChan c) qs = eraseCRes (addTarget m c qs) := by
  unfold addTarget at h ⊢
  by_cases he : c.slots.isEmpty = true
  · -- first target slot
    have he' : (eraseChan c).slots.isEmpty = true := he
    rw [if_pos he] at h
    rw [if_pos he', if_pos he]
    have hx := lift_ok h
    cases hc : checkDuration m 0 with
    | error e => simp [hc, bind, Except.bind] at hx
    | ok u =>
      simp only [checkDuration_none, bind, Except.bind]
      rfl
  · have he' : ¬ (eraseChan c).slots.isEmpty = true := he
    rw [if_neg he] at h
    rw [if_neg he', if_neg he]
    by_cases hst : sameTargets c qs = true
    · have hst' : sameTargets (eraseChan c) qs = true := hst
      rw [if_pos hst', if_pos hst]; rfl
    · have hst' : ¬ sameTargets (eraseChan c) qs = true := hst
      rw [if_neg hst] at h
      rw [if_neg hst', if_neg hst]
      obtain ⟨h1, h2, h3⟩ := bind_ok h
      rw [h3]
      have hw := lift_ok h1
      generalize (CRes.lift c (waitForFall m c)).c = c1 at hw h2
      have hw' := waitForFall_erase hw
      unfold CRes.bind
      rw [lift_of_ok hw']
      simp only
      have hx := lift_ok h2
      generalize (CRes.lift c1 _).c = c2 at hx
      rw [lift_of_ok hx]
      -- replay the inner computation on the erased channel
      unfold addTargetTail at hx ⊢
      cases hl : c1.last with
      | error e => simp [hl] at hx
      | ok last =>
        simp only [hl, eraseChan_last, retargetDelta_eff] at hx ⊢
        split at hx
        · cases hx
        · rename_i delta hadj
          have hadj' : (if retargetDelta c1 last.tf ≠ 0 then
              (eraseChan c1).adjust (retargetDelta c1 last.tf).toNat else Except.ok 0) = .ok delta := by
            split at hadj
            · rename_i hd; rw [if_pos hd]; exact adjust_erase hadj
            · rename_i hd; rw [if_neg hd]; exact hadj
          rw [hadj']
          simp only [checkDuration_none]
          split at hx
          · cases hx
          · cases hx
            rfl

/-! ### adding pulses -/

theorem findAddDelay_erase (others : List ChanState) (tg : List Nat) (w : Bool) (t0 : Int) :
    findAddDelay (others.map eraseChan) tg w t0 = findAddDelay others tg w t0 := by
  unfold findAddDelay
  induction others generalizing t0 with
  | nil => rfl
  | cons o rest ih => simp only [List.map_cons, List.foldl_cons]; exact ih _

theorem curMaxOf_erase (others : List ChanState) (last : Slot) (b : List Int) (p : Protocol) :
    curMaxOf (others.map eraseChan) last b p = curMaxOf others last b p := by
  unfold curMaxOf
  split
  · exact findAddDelay_erase _ _ _ _
  · rfl

theorem phaseJumpBuffer_erase (c : ChanState) (t0 : Int) (ph : Rat) (p : Protocol) :
    phaseJumpBuffer (eraseChan c) t0 ph p = phaseJumpBuffer c t0 ph p := rfl

theorem makeNextPulseSlot_erase {m : Option Nat} {c : ChanState} {others : List ChanState} {p : PulseRec}
    {b : List Int} {proto : Protocol} {drift : Option Drift} {blk : Bool} {sl : Slot}
    (h : makeNextPulseSlot m c others p b proto drift blk = .ok sl) :
    makeNextPulseSlot none (eraseChan c) (others.map eraseChan) p b proto drift blk = .ok sl := by
  unfold makeNextPulseSlot at h ⊢
  simp only [eraseChan_last]
  cases hl : c.last with
  | error e => simp [hl] at h
  | ok last =>
    simp only [hl, curMaxOf_erase, phaseJumpBuffer_erase] at h ⊢
    split at h
    · cases h
    · rename_i delay hadj
      have hadj' : (if max (curMaxOf others last b proto - last.tf)
            (phaseJumpBuffer c last.tf (fmtPhase (correctedPhase p drift (curMaxOf others last b proto))) proto) > 0
          then (eraseChan c).adjust (max (curMaxOf others last b proto - last.tf)
            (phaseJumpBuffer c last.tf (fmtPhase (correctedPhase p drift (curMaxOf others last b proto))) proto)).toNat
          else Except.ok 0) = .ok delay := by
        split at hadj
        · rename_i hd; rw [if_pos hd]; exact adjust_erase hadj
        · rename_i hd; rw [if_neg hd]; exact hadj
      rw [hadj']
      simp only
      split at h
      · cases h
      · have : (if blk = true then checkDuration none (last.tf + ↑delay + ↑p.dur) else Except.ok ()) = .ok () := by
          split <;> rfl
        rw [this]
        exact h

theorem addPulse_erase {m : Option Nat} {c c' : ChanState} {others : List ChanState} {p : PulseRec}
    {b : List Int} {proto : Protocol} {drift : Option Drift}
    (h : addPulse m c others p b proto drift = .ok c') :
    addPulse none (eraseChan c) (others.map eraseChan) p b proto drift = .ok (eraseChan c') := by
  unfold addPulse at h ⊢
  simp only [eraseChan_last]
  cases hl : c.last with
  | error e => simp [hl, bind, Except.bind] at h
  | ok last =>
    cases hs : makeNextPulseSlot m c others p b proto drift true with
    | error e => simp [hl, hs, bind, Except.bind] at h
    | ok slot =>
      simp only [hl, hs, makeNextPulseSlot_erase hs, bind, Except.bind] at h ⊢
      by_cases hd : slot.ti - last.tf > 0
      · rw [if_pos hd] at h ⊢
        cases ha : addDelay m c (slot.ti - last.tf).toNat with
        | error e => simp [ha] at h
        | ok c1 =>
          simp only [ha, addDelay_erase ha] at h ⊢
          cases h; rfl
      · rw [if_neg hd] at h ⊢
        simp only [pure, Except.pure] at h ⊢
        cases h; rfl

/-! ### simulation combinators for channel-level operations -/

/-- `G` on the erased channel reproduces every success of `F`. -/
def SimE (F G : ChanState → Except Err ChanState) : Prop :=
  ∀ c c', F c = .ok c' → G (eraseChan c) = .ok (eraseChan c')

def Sim (f g : ChanState → CRes) : Prop :=
  ∀ c, (f c).err = none → g (eraseChan c) = eraseCRes (f c)

theorem Sim.lift {F G : ChanState → Except Err ChanState} (h : SimE F G) :
    Sim (fun c => CRes.lift c (F c)) (fun c => CRes.lift c (G c)) := by
  intro c hc
  have hx := lift_ok hc
  simp only
  rw [lift_of_ok (h _ _ hx), lift_of_ok hx]; rfl

theorem Sim.id : Sim (fun c => ⟨c, none⟩) (fun c => ⟨c, none⟩) := fun _ _ => rfl

theorem Sim.bind {f g f' g' : ChanState → CRes} (h1 : Sim f g) (h2 : Sim f' g') :
    Sim (fun c => (f c).bind f') (fun c => (g c).bind g') := by
  intro c hc
  obtain ⟨a1, a2, a3⟩ := bind_ok hc
  simp only at a3 ⊢
  rw [a3, h1 c a1]
  unfold CRes.bind
  simp only [eraseCRes, a1]
  exact h2 _ a2

/-- Run `f` only when `b`. -/
def condC (b : Bool) (f : ChanState → CRes) : ChanState → CRes := fun c => if b = true then f c else ⟨c, none⟩

theorem Sim.cond (b : Bool) {f g : ChanState → CRes} (h : Sim f g) : Sim (condC b f) (condC b g) := by
  intro c hc
  unfold condC at hc ⊢
  cases b with
  | true => simpa using h c (by simpa using hc)
  | false => rfl

theorem sim_waitForFall (m : Option Nat) :
    Sim (fun c => CRes.lift c (waitForFall m c)) (fun c => CRes.lift c (waitForFall none c)) :=
  Sim.lift fun _ _ h => waitForFall_erase h

/-! ### EOM mode -/

/-- The buffer stage of `enable_eom`. -/
def eomBuffer (m : Option Nat) (detOff : Rat) : ChanState → CRes := fun c =>
  CRes.lift c (do
    let buf ← c.adjust (match c.cfg.eom with | some e => e.bufferTime | none => 0)
    if detOff ≠ 0 then
      let p ← mkDetunedDelay c buf detOff c.lastPulsePhase
      addPulse m c [] p [0] .noDelay none
    else addDelay m c buf)

/-- The stage of `enable_eom` that opens the block. -/
def eomOpen (amp detOn detOff : Rat) : ChanState → CRes := fun c =>
  CRes.lift c (do
    let last ← c.last
    .ok { c with eom := c.eom ++ [⟨last.tf, none, amp, detOn, detOff⟩] })

theorem sim_eomBuffer (m : Option Nat) (detOff : Rat) : Sim (eomBuffer m detOff) (eomBuffer none detOff) := by
  apply Sim.lift
  intro c c' hx
  cases ha : c.adjust (match c.cfg.eom with | some e => e.bufferTime | none => 0) with
  | error e => simp [ha, bind, Except.bind] at hx
  | ok buf =>
    have ha' : (eraseChan c).adjust (match (eraseChan c).cfg.eom with | some e => e.bufferTime | none => 0)
        = .ok buf := adjust_erase ha
    simp only [ha, bind, Except.bind] at hx
    simp only [ha', bind, Except.bind]
    by_cases hd : detOff ≠ 0
    · rw [if_pos hd] at hx ⊢
      simp only [mkDetunedDelay_erase, eraseChan_lastPulsePhase]
      cases hm : mkDetunedDelay c buf detOff c.lastPulsePhase with
      | error e => simp [hm] at hx
      | ok p =>
        simp only [hm] at hx ⊢
        have := addPulse_erase hx
        simpa using this
    · rw [if_neg hd] at hx ⊢
      exact addDelay_erase hx

theorem sim_eomOpen (amp detOn detOff : Rat) : Sim (eomOpen amp detOn detOff) (eomOpen amp detOn detOff) := by
  apply Sim.lift
  intro c c' hx
  simp only [eraseChan_last]
  cases hl : c.last with
  | error e => simp [hl, bind, Except.bind] at hx
  | ok last =>
    simp only [hl, bind, Except.bind] at hx ⊢
    cases hx; rfl

theorem enableEom_erase {m : Option Nat} {c : ChanState} {amp detOn detOff : Rat} {skipB skipW : Bool}
    (h : (enableEom m c amp detOn detOff skipB skipW).err = none) :
    enableEom none (eraseChan c) amp detOn detOff skipB skipW
      = eraseCRes (enableEom m c amp detOn detOff skipB skipW) := by
  let F : Option Nat → ChanState → CRes := fun m c0 =>
    (condC (!skipB && decide (c.getDuration false ≠ 0))
      (fun c1 => (condC (!skipW) (fun c2 => CRes.lift c2 (waitForFall m c2)) c1).bind (eomBuffer m detOff)) c0).bind
      (eomOpen amp detOn detOff)
  have e1 : enableEom m c amp detOn detOff skipB skipW = F m c := rfl
  have e2 : enableEom none (eraseChan c) amp detOn detOff skipB skipW = F none (eraseChan c) := rfl
  have sim : Sim (F m) (F none) :=
    Sim.bind (Sim.cond _ (Sim.bind (Sim.cond _ (sim_waitForFall m)) (sim_eomBuffer m detOff)))
      (sim_eomOpen amp detOn detOff)
  rw [e1] at h ⊢
  rw [e2]
  exact sim c h

/-- The closing stage of `disable_eom`. -/
def eomClose : ChanState → CRes := fun c =>
  CRes.lift c (do
    let last ← c.last
    .ok { c with eom := closeLastBlock c.eom last.tf })

/-- The buffer stage of `disable_eom`. -/
def eomEndBuffer (m : Option Nat) (skip : Bool) : ChanState → CRes := fun c =>
  if skip then ⟨c, none⟩
  else
    match c.cfg.eom with
    | some e =>
      if e.customBuffer then
        CRes.lift c (do
          let buf ← c.adjust e.bufferTime
          addDelay m c buf)
      else CRes.lift c (waitForFall m c)
    | none => CRes.lift c (waitForFall m c)

theorem sim_eomClose : Sim eomClose eomClose := by
  apply Sim.lift
  intro c c' hx
  simp only [eraseChan_last]
  cases hl : c.last with
  | error e => simp [hl, bind, Except.bind] at hx
  | ok last =>
    simp only [hl, bind, Except.bind] at hx ⊢
    cases hx; rfl

theorem sim_eomEndBuffer (m : Option Nat) (skip : Bool) : Sim (eomEndBuffer m skip) (eomEndBuffer none skip) := by
  intro c hc
  unfold eomEndBuffer at hc ⊢
  cases skip with
  | true => rfl
  | false =>
    simp only [Bool.false_eq_true, if_false, eraseChan_cfg, timing_eom] at hc ⊢
    cases he : c.cfg.eom with
    | none =>
      simp only [he] at hc ⊢
      exact sim_waitForFall m c hc
    | some e =>
      simp only [he] at hc ⊢
      by_cases hb : e.customBuffer = true
      · simp only [hb, ↓reduceIte] at hc ⊢
        have hx := lift_ok hc
        generalize (CRes.lift c _).c = c2 at hx
        rw [lift_of_ok hx]
        cases ha : c.adjust e.bufferTime with
        | error er => simp [ha, bind, Except.bind] at hx
        | ok buf =>
          simp only [ha, bind, Except.bind] at hx
          simp only [adjust_erase ha, bind, Except.bind]
          rw [lift_of_ok (addDelay_erase hx)]; rfl
      · simp only [hb] at hc ⊢
        exact sim_waitForFall m c hc

theorem disableEom_erase {m : Option Nat} {c : ChanState} {skip : Bool}
    (h : (disableEom m c skip).err = none) :
    disableEom none (eraseChan c) skip = eraseCRes (disableEom m c skip) :=
  (Sim.bind sim_eomClose (sim_eomEndBuffer m skip)) c h

/-! ### pulse validation -/

theorem validatePulse_erase {c : ChanState} {σ : PulseSummary} (h : validatePulse c σ = .ok ()) :
    validatePulse (eraseChan c) σ = .ok () := by
  unfold validatePulse at h ⊢
  simp only [eraseChan_cfg, timing_maxAmp, timing_maxAbsDet, timing_minAvgAmp, timing_isDmm, timing_bottom,
    timing_totalBottom, overRat, underRat]
  repeat' split at h
  all_goals first
    | (cases h; done)
    | (have : ¬ (0 < σ.avgAmp ∧ σ.avgAmp < 0) := fun ⟨a, b⟩ => absurd b (Rat.not_lt.mpr (Rat.le_of_lt a))
       simp_all)

theorem validateAndAdjust_erase {c : ChanState} {p : PulseIn} {r : Option Rat} {pr : PulseRec}
    (h : validateAndAdjust c p r = .ok pr) : validateAndAdjust (eraseChan c) p r = .ok pr := by
  unfold validateAndAdjust at h ⊢
  cases hv : validatePulse c p.sum with
  | error e => simp [hv] at h
  | ok u =>
    cases u
    simp only [hv, validatePulse_erase hv] at h ⊢
    cases hd : validateDuration c.cfg p.dur with
    | error e => simp [hd] at h
    | ok d =>
      simp only [hd, eraseChan_cfg, validateDuration_erase hd] at h ⊢
      by_cases hres : (d ≠ p.dur ∧ (!p.resizable) = true)
      · rw [if_pos hres] at h; cases h
      · rw [if_neg hres] at h ⊢
        by_cases hdd : d ≠ p.dur
        · rw [if_pos hdd] at h ⊢
          cases hv2 : validatePulse c p.sumAdj with
          | error e => simp [hv2] at h
          | ok u2 =>
            cases u2
            simp only [hv2, validatePulse_erase hv2] at h ⊢
            exact h
        · rw [if_neg hdd] at h ⊢
          exact h

theorem processEomParams_erase {c : ChanState} {e : EomIn} {x : Rat} (h : processEomParams c e = .ok x) :
    processEomParams (eraseChan c) e = .ok x := by
  unfold processEomParams at h ⊢
  split at h
  · cases h
  · rename_i hamp
    rw [if_neg hamp]
    cases hv : validatePulse c e.onSum with
    | error er => simp [hv] at h
    | ok u =>
      cases u
      simp only [hv, validatePulse_erase hv] at h ⊢
      cases hi : closestIdx e.opts e.optimal with
      | none => simp [hi] at h
      | some i =>
        simp only [hi] at h ⊢
        cases h1 : e.opts[i]? with
        | none => simp [h1] at h
        | some detOff =>
          cases h2 : e.offSums[i]? with
          | none => simp [h1, h2] at h
          | some σ =>
            simp only [h1, h2] at h ⊢
            cases hv2 : validatePulse c σ with
            | error er => simp [hv2] at h
            | ok u2 =>
              cases u2
              simp only [hv2, validatePulse_erase hv2] at h ⊢
              exact h

/-! ### the sequence state -/

def eraseRaw (r : Raw) : Raw := ⟨erase r.st, r.err, r.out⟩

/-- A successful call is not rolled back, on either side of the erasure. -/
theorem orRollback_erase_of_ok {r r' : Raw} {s : SeqState} (h : (r.orRollback s).err = none)
    (hr : r' = eraseRaw r) : r'.orRollback (erase s) = eraseRaw (r.orRollback s) := by
  have h0 : r.err = none := by rw [Raw.orRollback_err] at h; exact h
  rw [Raw.orRollback_ok h]
  subst hr
  exact Raw.orRollback_ok (by rw [Raw.orRollback_err]; exact h0)

@[simp] theorem erase_dev (s : SeqState) : (erase s).dev = eraseDev s.dev := rfl
@[simp] theorem erase_chans (s : SeqState) : (erase s).chans = s.chans.map eraseChan := rfl
@[simp] theorem erase_nQ (s : SeqState) : (erase s).nQ = s.nQ := rfl
@[simp] theorem erase_refs (s : SeqState) : (erase s).refs = s.refs := rfl
@[simp] theorem erase_inXY (s : SeqState) : (erase s).inXY = s.inXY := rfl
@[simp] theorem erase_inIsing (s : SeqState) : (erase s).inIsing = s.inIsing := rfl
@[simp] theorem erase_empty (s : SeqState) : (erase s).empty = s.empty := rfl
@[simp] theorem erase_measured (s : SeqState) : (erase s).measured = s.measured := rfl
@[simp] theorem erase_calls (s : SeqState) : (erase s).calls = s.calls := rfl
@[simp] theorem eraseDev_maxSeqDur (d : Device) : (eraseDev d).maxSeqDur = none := rfl
@[simp] theorem eraseDev_reusable (d : Device) : (eraseDev d).reusable = true := rfl
@[simp] theorem eraseDev_chans (d : Device) : (eraseDev d).chans = d.chans.map timing := rfl
@[simp] theorem eraseDev_dmms (d : Device) : (eraseDev d).dmms = d.dmms.map timing := rfl
@[simp] theorem erase_allQubits (s : SeqState) : (erase s).allQubits = s.allQubits := rfl
@[simp] theorem erase_getRefs (s : SeqState) (b : Basis) : (erase s).getRefs b = s.getRefs b := rfl
@[simp] theorem erase_lastPhases (s : SeqState) (b : Basis) (qs : List Nat) :
    (erase s).lastPhases b qs = s.lastPhases b qs := rfl
@[simp] theorem erase_lastTimes (s : SeqState) (b : Basis) (qs : List Nat) :
    (erase s).lastTimes b qs = s.lastTimes b qs := rfl

theorem getChan_erase (s : SeqState) (n : ChName) : (erase s).getChan n = (s.getChan n).map eraseChan := by
  unfold SeqState.getChan
  simp only [erase_chans, List.find?_map]
  rfl

theorem replaceChan_erase (c : ChanState) (l : List ChanState) :
    SeqState.replaceChan (eraseChan c) (l.map eraseChan) = (SeqState.replaceChan c l).map eraseChan := by
  induction l with
  | nil => rfl
  | cons x rest ih =>
    by_cases hx : (x.name == c.name) = true
    · simp [SeqState.replaceChan, hx]
    · simp [SeqState.replaceChan, hx, ih]

theorem setChan_erase (s : SeqState) (c : ChanState) : (erase s).setChan (eraseChan c) = erase (s.setChan c) := by
  unfold SeqState.setChan
  simp only [erase, replaceChan_erase]

theorem others_erase (s : SeqState) (n : ChName) : (erase s).others n = (s.others n).map eraseChan := by
  unfold SeqState.others
  simp only [erase_chans, List.filter_map]
  rfl

theorem setRefs_erase (s : SeqState) (b : Basis) (l : List QRef) : (erase s).setRefs b l = erase (s.setRefs b l) := rfl

theorem mapRefs_erase (s : SeqState) (b : Basis) (qs : List Nat) (f : QRef → QRef) :
    (erase s).mapRefs b qs f = erase (s.mapRefs b qs f) := by
  unfold SeqState.mapRefs
  simp only [erase_getRefs]
  cases s.getRefs b <;> rfl

theorem ensureBasis_erase (s : SeqState) (b : Basis) : (erase s).ensureBasis b = erase (s.ensureBasis b) := by
  unfold SeqState.ensureBasis
  simp only [erase_refs, erase_nQ]
  by_cases h : (s.refs.any (·.1 == b)) = true
  · simp only [h, if_true]
  · simp only [h]; rfl

theorem phaseShift_erase (s : SeqState) (phi : Rat) (qs : List Nat) (b : Basis) :
    (erase s).phaseShift phi qs b = eraseRaw (s.phaseShift phi qs b) := by
  unfold SeqState.phaseShift
  by_cases h1 : (s.getRefs b).isNone = true
  · have h1' : ((erase s).getRefs b).isNone = true := h1
    rw [if_pos h1', if_pos h1]; rfl
  · have h1' : ¬ ((erase s).getRefs b).isNone = true := h1
    rw [if_neg h1', if_neg h1]
    simp only
    by_cases h2 : ((if qs.isEmpty = true then s.allQubits else qs).any fun x => decide (x ≥ s.nQ)) = true
    · have h2' : ((if qs.isEmpty = true then (erase s).allQubits else qs).any
          fun x => decide (x ≥ (erase s).nQ)) = true := h2
      rw [if_pos h2', if_pos h2]; rfl
    · have h2' : ¬ ((if qs.isEmpty = true then (erase s).allQubits else qs).any
          fun x => decide (x ≥ (erase s).nQ)) = true := h2
      rw [if_neg h2', if_neg h2]
      simp only [erase_allQubits, mapRefs_erase]; rfl

theorem validateChannel_erase {s : SeqState} {n : ChName} {b : Bool} {c : ChanState}
    (h : s.validateChannel n b = .ok c) : (erase s).validateChannel n b = .ok (eraseChan c) := by
  unfold SeqState.validateChannel at h ⊢
  rw [getChan_erase]
  cases hg : s.getChan n with
  | none => simp [hg] at h
  | some c0 =>
    simp only [hg, Option.map_some] at h ⊢
    by_cases hc : (b && c0.inEomMode) = true
    · rw [if_pos hc] at h; cases h
    · have hc' : ¬ (b && (eraseChan c0).inEomMode) = true := hc
      rw [if_neg hc] at h
      rw [if_neg hc']
      cases h; rfl

theorem withChan_erase {s : SeqState} {n : ChName} {f g : ChanState → CRes} (hs : Sim f g)
    (h : (s.withChan n f).err = none) : (erase s).withChan n g = eraseRaw (s.withChan n f) := by
  unfold SeqState.withChan at h ⊢
  rw [getChan_erase]
  cases hg : s.getChan n with
  | none => simp [hg, fail] at h
  | some c =>
    simp only [hg, Option.map_some] at h ⊢
    rw [hs c h]
    simp only [eraseCRes, setChan_erase]
    rfl

/-! ### Raw plumbing -/

def SimR (f g : SeqState → Raw) : Prop := ∀ s, (f s).err = none → g (erase s) = eraseRaw (f s)

theorem rbind_ok {r : Raw} {f : SeqState → Raw} (h : (r.bind f).err = none) :
    r.err = none ∧ (f r.st).err = none ∧ r.bind f = f r.st := by
  unfold Raw.bind at h ⊢
  cases hr : r.err with
  | none => simp only [hr] at h ⊢; exact ⟨trivial, h, trivial⟩
  | some e => simp [hr] at h

theorem rbind_none {r : Raw} {f : SeqState → Raw} (h : r.err = none) : r.bind f = f r.st := by
  unfold Raw.bind; simp [h]

theorem eraseRaw_bind {r : Raw} {f g : SeqState → Raw} (hr : r.err = none) (hs : SimR f g)
    (h : (f r.st).err = none) : (eraseRaw r).bind g = eraseRaw (r.bind f) := by
  unfold Raw.bind
  simp only [eraseRaw, hr]
  exact hs _ h

theorem store_erase (op : Op) (r : Raw) : store op (eraseRaw r) = eraseRaw (store op r) := by
  obtain ⟨st, err, out⟩ := r
  cases err <;> rfl

theorem markNonEmpty_erase (r : Raw) : markNonEmpty (eraseRaw r) = eraseRaw (markNonEmpty r) := by
  obtain ⟨st, err, out⟩ := r
  cases err <;> rfl

theorem store_err (op : Op) (r : Raw) : (store op r).err = r.err := by
  unfold store; cases h : r.err <;> simp [h]

theorem markNonEmpty_err (r : Raw) : (markNonEmpty r).err = r.err := by
  unfold markNonEmpty; cases h : r.err <;> simp [h]

theorem eraseRaw_fail (s : SeqState) (e : Err) : eraseRaw (fail s e) = fail (erase s) e := rfl
theorem eraseRaw_done (s : SeqState) : eraseRaw (done s) = done (erase s) := rfl

/-! ### the building calls -/

theorem addCore_erase {s : SeqState} {p : PulseIn} {n : ChName} {proto : Option Protocol}
    {drift : Option Drift} (h : (addCore s p n proto drift).err = none) :
    addCore (erase s) p n proto drift = eraseRaw (addCore s p n proto drift) := by
  unfold addCore at h ⊢
  cases proto with
  | none => simp [fail] at h
  | some proto =>
    simp only at h ⊢
    rw [getChan_erase]
    cases hg : s.getChan n with
    | none => simp [hg, fail] at h
    | some c =>
      simp only [hg, Option.map_some] at h ⊢
      have hle : (eraseChan c).last = c.last := rfl
      cases hl : c.last with
      | error e => simp [hl, fail] at h
      | ok last =>
        rw [hl] at hle
        simp only [hl, hle] at h ⊢
        by_cases hc : (!c.cfg.isDmm && !allSame (s.lastPhases c.cfg.basis last.targets)) = true
        · rw [if_pos hc] at h; simp [fail] at h
        · have hc' : ¬ (!(eraseChan c).cfg.isDmm &&
              !allSame ((erase s).lastPhases (eraseChan c).cfg.basis last.targets)) = true := hc
          rw [if_neg hc] at h
          rw [if_neg hc', if_neg hc]
          cases hv : validateAndAdjust c p (if c.cfg.isDmm = true then none
              else (s.lastPhases c.cfg.basis last.targets).head?) with
          | error e => simp [hv, fail] at h
          | ok pr =>
            have hv' : validateAndAdjust (eraseChan c) p (if (eraseChan c).cfg.isDmm = true then none
              else ((erase s).lastPhases (eraseChan c).cfg.basis last.targets).head?) = .ok pr :=
              validateAndAdjust_erase hv
            simp only [hv, hv'] at h ⊢
            cases ha : addPulse s.dev.maxSeqDur c (s.others n) pr (s.lastTimes c.cfg.basis last.targets) proto drift with
            | error e => simp [ha, fail] at h
            | ok c' =>
              have ha' : addPulse (erase s).dev.maxSeqDur (eraseChan c) ((erase s).others n) pr
                  ((erase s).lastTimes (eraseChan c).cfg.basis last.targets) proto drift = .ok (eraseChan c') := by
                rw [others_erase]; exact addPulse_erase ha
              simp only [ha, ha'] at h ⊢
              have hle2 : (eraseChan c').last = c'.last := rfl
              cases hl2 : c'.last with
              | error e => simp [hl2, fail] at h
              | ok newSlot =>
                rw [hl2] at hle2
                simp only [hl2, hle2] at h ⊢
                by_cases ht : totalShift pr.post drift newSlot.ti ≠ 0
                · rw [if_pos ht] at h
                  rw [if_pos ht, if_pos ht]
                  simp only [setChan_erase, eraseChan_cfg, timing_basis, mapRefs_erase]
                  exact phaseShift_erase _ _ _ _
                · rw [if_neg ht] at h
                  rw [if_neg ht, if_neg ht]
                  simp only [setChan_erase, eraseChan_cfg, timing_basis, mapRefs_erase]
                  rfl

theorem targetCore_erase {s : SeqState} {qs : List Nat} {n : ChName} (h : (targetCore s qs n).err = none) :
    targetCore (erase s) qs n = eraseRaw (targetCore s qs n) := by
  unfold targetCore at h ⊢
  by_cases hm : s.measured.isSome = true
  · rw [if_pos hm] at h; simp [fail] at h
  · have hm' : ¬ (erase s).measured.isSome = true := hm
    rw [if_neg hm] at h
    rw [if_neg hm', if_neg hm]
    cases hv : s.validateChannel n true with
    | error e => simp [hv, fail] at h
    | ok c =>
      simp only [hv, validateChannel_erase hv] at h ⊢
      by_cases h1 : qs.isEmpty = true
      · rw [if_pos h1] at h; simp [fail] at h
      · rw [if_neg h1] at h
        rw [if_neg h1, if_neg h1]
        by_cases h2 : (!c.cfg.isLocal) = true
        · rw [if_pos h2] at h; simp [fail] at h
        · have h2' : ¬ (!(eraseChan c).cfg.isLocal) = true := h2
          rw [if_neg h2] at h
          rw [if_neg h2', if_neg h2]
          by_cases h3 : overNat c.cfg.maxTargets qs.length = true
          · rw [if_pos h3] at h; simp [fail] at h
          · have h3' : ¬ overNat (eraseChan c).cfg.maxTargets qs.length = true := by
              simp [overNat]
            rw [if_neg h3] at h
            rw [if_neg h3', if_neg h3]
            by_cases h4 : (qs.any (· ≥ s.nQ)) = true
            · rw [if_pos h4] at h; simp [fail] at h
            · have h4' : ¬ (qs.any (· ≥ (erase s).nQ)) = true := h4
              rw [if_neg h4] at h
              rw [if_neg h4', if_neg h4]
              by_cases h5 : (!allSame (s.lastPhases c.cfg.basis qs)) = true
              · rw [if_pos h5] at h; simp [fail] at h
              · have h5' : ¬ (!allSame ((erase s).lastPhases (eraseChan c).cfg.basis qs)) = true := h5
                rw [if_neg h5] at h
                rw [if_neg h5', if_neg h5]
                exact withChan_erase (fun c hc => addTarget_erase hc) h

theorem SimR.bind {f g f' g' : SeqState → Raw} (h1 : SimR f g) (h2 : SimR f' g') :
    SimR (fun s => (f s).bind f') (fun s => (g s).bind g') := by
  intro s hs
  obtain ⟨a1, a2, a3⟩ := rbind_ok hs
  simp only at a3 ⊢
  rw [a3, h1 s a1]
  unfold Raw.bind
  simp only [eraseRaw, a1]
  exact h2 _ a2

/-- First stage of `_delay`: the optional wait for the fall time. -/
def delayWait (n : ChName) (atRest : Bool) : SeqState → Raw := fun s =>
  if atRest then s.withChan n fun c => CRes.lift c (waitForFall s.dev.maxSeqDur c) else done s

/-- Second stage of `_delay`: the delay itself. -/
def delayAdd (d : Int) (n : ChName) : SeqState → Raw := fun s =>
  if d = 0 then done s
  else s.withChan n fun c =>
    CRes.lift c (if d < 0 then (do let _ ← c.last; .error .durTooShort)
                 else addDelay s.dev.maxSeqDur c d.toNat)

theorem sim_delayWait (n : ChName) (atRest : Bool) : SimR (delayWait n atRest) (delayWait n atRest) := by
  intro s h
  unfold delayWait at h ⊢
  cases atRest with
  | false => rfl
  | true =>
    simp only [if_true] at h ⊢
    exact withChan_erase (sim_waitForFall s.dev.maxSeqDur) h

theorem sim_delayAdd (d : Int) (n : ChName) : SimR (delayAdd d n) (delayAdd d n) := by
  intro s h
  unfold delayAdd at h ⊢
  by_cases hd : d = 0
  · rw [if_pos hd, if_pos hd]; rfl
  · rw [if_neg hd] at h
    rw [if_neg hd, if_neg hd]
    refine withChan_erase (f := fun c => CRes.lift c (if d < 0 then (do let _ ← c.last; .error .durTooShort)
                 else addDelay s.dev.maxSeqDur c d.toNat)) ?_ h
    apply Sim.lift
    intro c c' hx
    simp only at hx ⊢
    by_cases hn : d < 0
    · rw [if_pos hn] at hx
      cases hl : c.last <;> simp [hl, bind, Except.bind] at hx
    · rw [if_neg hn] at hx ⊢
      exact addDelay_erase hx

theorem delayCore_erase {s : SeqState} {d : Int} {n : ChName} {atRest : Bool}
    (h : (delayCore s d n atRest).err = none) :
    delayCore (erase s) d n atRest = eraseRaw (delayCore s d n atRest) := by
  unfold delayCore at h ⊢
  by_cases hm : s.measured.isSome = true
  · rw [if_pos hm] at h; simp [fail] at h
  · have hm' : ¬ (erase s).measured.isSome = true := hm
    rw [if_neg hm] at h
    rw [if_neg hm', if_neg hm]
    cases hv : s.validateChannel n false with
    | error e => simp [hv, fail] at h
    | ok c =>
      simp only [hv, validateChannel_erase hv] at h ⊢
      exact (SimR.bind (sim_delayWait n atRest) (sim_delayAdd d n)) s h

theorem delayChecked_erase {s : SeqState} {d : Int} {n : ChName} {atRest : Bool}
    (h : (delayChecked s d n atRest).err = none) :
    delayChecked (erase s) d n atRest = eraseRaw (delayChecked s d n atRest) := by
  unfold delayChecked at h ⊢
  rw [erase_measured]
  by_cases hg : (atRest && decide (d ≠ 0) && s.measured.isNone) = true
  · rw [if_pos hg] at h
    rw [if_pos hg, if_pos hg]
    cases hv : s.validateChannel n false with
    | error e =>
      -- the unchecked call reports the error itself: the call failed, contradiction
      rw [hv] at h
      simp only at h
      unfold delayCore at h
      by_cases hm : s.measured.isSome = true
      · rw [if_pos hm] at h; simp [fail] at h
      · rw [if_neg hm, hv] at h; simp [fail] at h
    | ok c =>
      rw [hv] at h
      simp only [validateChannel_erase hv] at h ⊢
      by_cases hneg : d < 0
      · rw [if_pos hneg] at h; simp [fail] at h
      · rw [if_neg hneg] at h
        rw [if_neg hneg, if_neg hneg]
        cases hd : validateDuration c.cfg d.toNat with
        | error e => rw [hd] at h; simp [fail] at h
        | ok r =>
          rw [hd] at h
          simp only [eraseChan_cfg, validateDuration_erase hd] at h ⊢
          exact delayCore_erase h
  · rw [if_neg hg] at h
    rw [if_neg hg, if_neg hg]
    exact delayCore_erase h

theorem sim_delayCore (d : Int) (n : ChName) (atRest : Bool) :
    SimR (fun s => delayCore s d n atRest) (fun s => delayCore s d n atRest) :=
  fun _ h => delayCore_erase h

theorem sim_alignLoop (tf : Int) (l : List (ChName × Int)) : SimR (alignLoop tf l) (alignLoop tf l) := by
  induction l with
  | nil => intro s _; rfl
  | cons x rest ih =>
    intro s h
    obtain ⟨n, t⟩ := x
    unfold alignLoop at h ⊢
    rw [getChan_erase]
    cases hg : s.getChan n with
    | none => simp [hg, fail] at h
    | some c =>
      simp only [hg, Option.map_some] at h ⊢
      by_cases hd : tf - c.getDuration false > 0
      · have hd' : tf - (eraseChan c).getDuration false > 0 := hd
        rw [if_pos hd] at h
        rw [if_pos hd', if_pos hd]
        cases ha : c.adjust (tf - c.getDuration false).toNat with
        | error e => simp [ha, fail] at h
        | ok dd =>
          have ha' : (eraseChan c).adjust (tf - (eraseChan c).getDuration false).toNat = .ok dd := adjust_erase ha
          simp only [ha, ha'] at h ⊢
          exact (SimR.bind (sim_delayCore dd n false) ih) s h
      · have hd' : ¬ tf - (eraseChan c).getDuration false > 0 := hd
        rw [if_neg hd] at h
        rw [if_neg hd', if_neg hd]
        exact ih s h

/-! ### declarations -/

theorem occupied_erase (s : SeqState) (b : Bool) (id : Nat) : (erase s).occupied b id = s.occupied b id := by
  unfold SeqState.occupied
  simp only [erase_chans, List.any_map]
  rfl

theorem available_erase {s : SeqState} {b : Bool} {id : Nat} {cfg : ChanCfg}
    (h : s.available b id cfg = true) : (erase s).available b id (timing cfg) = true := by
  unfold SeqState.available at h ⊢
  show (if (!s.inXY && !s.inIsing) = true then true
        else (!((erase s).occupied b id) || true) &&
          (if s.inXY = true then cfg.basis == Basis.xy || b else cfg.basis != Basis.xy)) = true
  by_cases h0 : (!s.inXY && !s.inIsing) = true
  · rw [if_pos h0]
  · rw [if_neg h0] at h ⊢
    simp only [Bool.and_eq_true] at h
    simp [h.2]

theorem freshChan_erase (name : ChName) (id : Nat) (cfg : ChanCfg) (qs : List Nat) (w : Bool) (a b : Rat) :
    SeqState.freshChan name id (timing cfg) qs w a b = eraseChan (SeqState.freshChan name id cfg qs w a b) := rfl

theorem addChannel_erase (s : SeqState) (c : ChanState) :
    (erase s).addChannel (eraseChan c) = erase (s.addChannel c) := by
  unfold SeqState.addChannel
  by_cases hb : (c.cfg.basis == Basis.xy) = true
  · have hb' : ((eraseChan c).cfg.basis == Basis.xy) = true := hb
    rw [if_pos hb', if_pos hb]
    simp only
    rw [← ensureBasis_erase]
    congr 1
    simp [erase]
  · have hb' : ¬ ((eraseChan c).cfg.basis == Basis.xy) = true := hb
    rw [if_neg hb', if_neg hb]
    simp only
    rw [← ensureBasis_erase]
    congr 1
    simp [erase]

theorem measBasisOk_erase (s : SeqState) (b : Basis) : measBasisOk (erase s) b = measBasisOk s b := by
  unfold measBasisOk
  have : (erase s).dev.chans.any (·.basis == b) = s.dev.chans.any (·.basis == b) := by
    simp only [erase_dev, eraseDev_chans, List.any_map]; rfl
  by_cases hx : s.inXY = true
  · have hx' : (erase s).inXY = true := hx
    rw [if_pos hx', if_pos hx]
  · have hx' : ¬ (erase s).inXY = true := hx
    rw [if_neg hx', if_neg hx, this]

theorem filter_len_erase (l : List ChanState) (p : ChanState → Bool) (hp : ∀ c, p (eraseChan c) = p c) :
    ((l.map eraseChan).filter p).length = (l.filter p).length := by
  induction l with
  | nil => rfl
  | cons x rest ih =>
    simp only [List.map_cons, List.filter_cons, hp]
    split <;> simp [ih]

theorem getLast_erase (s : SeqState) (n : ChName) :
    ((erase s).getChan n).bind (·.slots.getLast?) = (s.getChan n).bind (·.slots.getLast?) := by
  rw [getChan_erase]
  cases s.getChan n <;> rfl

/-! ### one API call -/

theorem step_declare_erase {s : SeqState} {name : ChName} {chId : Nat} {init : Option (List Nat)}
    (h : (stepRaw s (.declare name chId init)).err = none) :
    stepRaw (erase s) (.declare name chId init) = eraseRaw (stepRaw s (.declare name chId init)) := by
  simp only [stepRaw] at h ⊢
  by_cases hm : s.measured.isSome = true
  · rw [if_pos hm] at h; simp [fail] at h
  · have hm' : ¬ (erase s).measured.isSome = true := hm
    rw [if_neg hm] at h
    rw [if_neg hm', if_neg hm]
    cases name with
    | dmm a b => simp [fail] at h
    | user u =>
      simp only at h ⊢
      by_cases hg : (s.getChan (.user u)).isSome = true
      · rw [if_pos hg] at h; simp [fail] at h
      · have hg' : ¬ ((erase s).getChan (.user u)).isSome = true := by
          rw [getChan_erase]; simpa using hg
        rw [if_neg hg] at h
        rw [if_neg hg', if_neg hg]
        cases hc : s.dev.chans[chId]? with
        | none => simp [hc, fail] at h
        | some cfg =>
          have hc' : (erase s).dev.chans[chId]? = some (timing cfg) := by simp [hc]
          simp only [hc, hc'] at h ⊢
          by_cases ha : (!s.available false chId cfg) = true
          · rw [if_pos ha] at h
            repeat' split at h
            all_goals simp [fail] at h
          · have ha' : ¬ (!(erase s).available false chId (timing cfg)) = true := by
              have : s.available false chId cfg = true := by simpa using ha
              simp [available_erase this]
            rw [if_neg ha] at h
            rw [if_neg ha', if_neg ha]
            rw [store_err] at h
            have e3 : (erase s).addChannel (SeqState.freshChan (.user u) chId (timing cfg) (erase s).allQubits
                (!(timing cfg).isLocal) 1 1)
                = erase (s.addChannel (SeqState.freshChan (.user u) chId cfg s.allQubits (!cfg.isLocal) 1 1)) := by
              rw [← addChannel_erase]; rfl
            rw [e3]
            by_cases hl : (!cfg.isLocal) = true
            · have hl' : (!(timing cfg).isLocal) = true := hl
              rw [if_pos hl', if_pos hl, ← eraseRaw_done, store_erase]
            · have hl' : ¬ (!(timing cfg).isLocal) = true := hl
              rw [if_neg hl] at h
              rw [if_neg hl', if_neg hl]
              cases init with
              | none => simp only; rw [← eraseRaw_done, store_erase]
              | some qs =>
                simp only at h ⊢
                rw [Raw.orRollback_err] at h
                have e1 := Raw.orRollback_ok (s := s) (by rw [Raw.orRollback_err]; exact h)
                have e2 : (targetCore (erase (s.addChannel (SeqState.freshChan (.user u) chId cfg s.allQubits
                    (!cfg.isLocal) 1 1))) qs (.user u)).orRollback (erase s) = _ :=
                  Raw.orRollback_ok (by rw [Raw.orRollback_err, targetCore_erase h]; exact h)
                rw [e1, e2, targetCore_erase h, store_erase]

theorem step_configDetMap_erase {s : SeqState} {dmmId : Nat} {w1 w2 : Rat}
    (h : (stepRaw s (.configDetMap dmmId w1 w2)).err = none) :
    stepRaw (erase s) (.configDetMap dmmId w1 w2) = eraseRaw (stepRaw s (.configDetMap dmmId w1 w2)) := by
  simp only [stepRaw] at h ⊢
  by_cases hm : s.measured.isSome = true
  · rw [if_pos hm] at h; simp [fail] at h
  · have hm' : ¬ (erase s).measured.isSome = true := hm
    rw [if_neg hm] at h
    rw [if_neg hm', if_neg hm]
    cases hc : s.dev.dmms[dmmId]? with
    | none => simp [hc, fail] at h
    | some cfg =>
      have hc' : (erase s).dev.dmms[dmmId]? = some (timing cfg) := by simp [hc]
      simp only [hc, hc'] at h ⊢
      by_cases hx : s.inXY = true
      · rw [if_pos hx] at h; simp [fail] at h
      · have hx' : ¬ (erase s).inXY = true := hx
        rw [if_neg hx] at h
        rw [if_neg hx', if_neg hx]
        by_cases ha : (!s.available true dmmId cfg) = true
        · rw [if_pos ha] at h; simp [fail] at h
        · have ha' : ¬ (!(erase s).available true dmmId (timing cfg)) = true := by
            have : s.available true dmmId cfg = true := by simpa using ha
            simp [available_erase this]
          rw [if_neg ha', if_neg ha]
          simp only [erase_chans]
          rw [filter_len_erase _ _ (fun c => rfl)]
          rw [← store_erase, eraseRaw_done, ← addChannel_erase]
          rfl

theorem step_target_erase {s : SeqState} {qs : List Nat} {n : ChName}
    (h : (stepRaw s (.target qs n)).err = none) :
    stepRaw (erase s) (.target qs n) = eraseRaw (stepRaw s (.target qs n)) := by
  simp only [stepRaw] at h ⊢
  rw [store_err] at h
  have h0 : (targetCore s qs n).err = none := by rw [Raw.orRollback_err] at h; exact h
  rw [orRollback_erase_of_ok h (targetCore_erase h0), store_erase]

theorem step_add_erase {s : SeqState} {p : PulseIn} {n : ChName} {proto : Option Protocol}
    (h : (stepRaw s (.add p n proto)).err = none) :
    stepRaw (erase s) (.add p n proto) = eraseRaw (stepRaw s (.add p n proto)) := by
  simp only [stepRaw] at h ⊢
  rw [store_err, markNonEmpty_err] at h
  rw [← store_erase, ← markNonEmpty_erase]
  congr 2
  by_cases hm : s.measured.isSome = true
  · rw [if_pos hm] at h; simp [fail] at h
  · have hm' : ¬ (erase s).measured.isSome = true := hm
    rw [if_neg hm] at h
    rw [if_neg hm', if_neg hm]
    cases hv : s.validateChannel n true with
    | error e => simp [hv, fail] at h
    | ok c =>
      simp only [hv, validateChannel_erase hv] at h ⊢
      by_cases hd : c.cfg.isDmm = true
      · rw [if_pos hd] at h; simp [fail] at h
      · have hd' : ¬ (eraseChan c).cfg.isDmm = true := hd
        rw [if_neg hd] at h
        rw [if_neg hd', if_neg hd]
        exact addCore_erase h

theorem step_addDmm_erase {s : SeqState} {p : PulseIn} {n : ChName} {proto : Option Protocol}
    (h : (stepRaw s (.addDmm p n proto)).err = none) :
    stepRaw (erase s) (.addDmm p n proto) = eraseRaw (stepRaw s (.addDmm p n proto)) := by
  simp only [stepRaw] at h ⊢
  rw [store_err, markNonEmpty_err] at h
  rw [← store_erase, ← markNonEmpty_erase]
  congr 2
  by_cases hm : s.measured.isSome = true
  · rw [if_pos hm] at h; simp [fail] at h
  · have hm' : ¬ (erase s).measured.isSome = true := hm
    rw [if_neg hm] at h
    rw [if_neg hm', if_neg hm]
    cases hv : s.validateChannel n false with
    | error e => simp [hv, fail] at h
    | ok c =>
      simp only [hv, validateChannel_erase hv] at h ⊢
      by_cases hd : (!c.cfg.isDmm) = true
      · rw [if_pos hd] at h; simp [fail] at h
      · have hd' : ¬ (!(eraseChan c).cfg.isDmm) = true := hd
        rw [if_neg hd] at h
        rw [if_neg hd', if_neg hd]
        exact addCore_erase h

theorem step_addEom_erase {s : SeqState} {n : ChName} {dur : Nat} {phase post : Rat} {proto : Option Protocol}
    {corr : Bool} {fs fe ref : Nat}
    (h : (stepRaw s (.addEom n dur phase post proto corr fs fe ref)).err = none) :
    stepRaw (erase s) (.addEom n dur phase post proto corr fs fe ref)
      = eraseRaw (stepRaw s (.addEom n dur phase post proto corr fs fe ref)) := by
  simp only [stepRaw] at h ⊢
  rw [store_err, markNonEmpty_err] at h
  rw [← store_erase, ← markNonEmpty_erase]
  congr 2
  by_cases hm : s.measured.isSome = true
  · rw [if_pos hm] at h; simp [fail] at h
  · have hm' : ¬ (erase s).measured.isSome = true := hm
    rw [if_neg hm] at h
    rw [if_neg hm', if_neg hm]
    cases hv : s.validateChannel n false with
    | error e => simp [hv, fail] at h
    | ok c =>
      simp only [hv, validateChannel_erase hv, eraseChan_eom] at h ⊢
      cases hb : c.eom.getLast? with
      | none => simp [hb, fail] at h
      | some b =>
        simp only [hb] at h ⊢
        by_cases ht : b.tf.isSome = true
        · rw [if_pos ht] at h; simp [fail] at h
        · rw [if_neg ht] at h
          rw [if_neg ht, if_neg ht]
          exact addCore_erase h

theorem step_delay_erase {s : SeqState} {d : Int} {n : ChName} {atRest : Bool}
    (h : (stepRaw s (.delay d n atRest)).err = none) :
    stepRaw (erase s) (.delay d n atRest) = eraseRaw (stepRaw s (.delay d n atRest)) := by
  simp only [stepRaw] at h ⊢
  rw [store_err] at h
  have h0 : (delayChecked s d n atRest).err = none := by rw [Raw.orRollback_err] at h; exact h
  rw [orRollback_erase_of_ok h (delayChecked_erase h0), store_erase]

theorem step_phaseShift_erase {s : SeqState} {phi : Rat} {qs : List Nat} {b : Basis} :
    stepRaw (erase s) (.phaseShift phi qs b) = eraseRaw (stepRaw s (.phaseShift phi qs b)) := by
  simp only [stepRaw]
  rw [phaseShift_erase, store_erase]

theorem step_measure_erase {s : SeqState} {b : Basis} :
    stepRaw (erase s) (.measure b) = eraseRaw (stepRaw s (.measure b)) := by
  simp only [stepRaw]
  rw [← store_erase]
  congr 1
  by_cases hm : s.measured.isSome = true
  · have hm' : (erase s).measured.isSome = true := hm
    rw [if_pos hm', if_pos hm]; rfl
  · have hm' : ¬ (erase s).measured.isSome = true := hm
    rw [if_neg hm', if_neg hm]
    by_cases hb : (!measBasisOk s b) = true
    · have hb' : (!measBasisOk (erase s) b) = true := by rw [measBasisOk_erase]; exact hb
      rw [if_pos hb', if_pos hb]; rfl
    · have hb' : ¬ (!measBasisOk (erase s) b) = true := by rw [measBasisOk_erase]; exact hb
      rw [if_neg hb', if_neg hb]; rfl

theorem step_align_erase {s : SeqState} {chs : List ChName} {atRest : Bool}
    (h : (stepRaw s (.align chs atRest)).err = none) :
    stepRaw (erase s) (.align chs atRest) = eraseRaw (stepRaw s (.align chs atRest)) := by
  simp only [stepRaw] at h ⊢
  rw [store_err] at h
  rw [← store_erase]
  congr 1
  apply orRollback_erase_of_ok h
  rw [Raw.orRollback_err] at h
  have hany : (chs.any fun n => ((erase s).getChan n).isNone) = (chs.any fun n => (s.getChan n).isNone) := by
    congr 1; funext n; rw [getChan_erase]; cases s.getChan n <;> rfl
  have hmap : (chs.filterMap fun n => ((erase s).getChan n).map fun c => (n, c.getDuration atRest))
      = (chs.filterMap fun n => (s.getChan n).map fun c => (n, c.getDuration atRest)) := by
    congr 1; funext n; rw [getChan_erase]; cases s.getChan n <;> rfl
  by_cases hm : s.measured.isSome = true
  · rw [if_pos hm] at h; simp [fail] at h
  · have hm' : ¬ (erase s).measured.isSome = true := hm
    rw [if_neg hm] at h
    rw [if_neg hm', if_neg hm]
    by_cases h1 : (chs.any fun n => (s.getChan n).isNone) = true
    · rw [if_pos h1] at h; simp [fail] at h
    · have h1' : ¬ (chs.any fun n => ((erase s).getChan n).isNone) = true := by rw [hany]; exact h1
      rw [if_neg h1] at h
      rw [if_neg h1', if_neg h1]
      by_cases h2 : chs.eraseDups.length ≠ chs.length
      · rw [if_pos h2] at h; simp [fail] at h
      · rw [if_neg h2] at h
        rw [if_neg h2, if_neg h2]
        by_cases h3 : chs.length < 2
        · rw [if_pos h3] at h; simp [fail] at h
        · rw [if_neg h3] at h
          rw [if_neg h3, if_neg h3]
          simp only [hmap] at h ⊢
          generalize (chs.filterMap fun n => (s.getChan n).map fun c => (n, c.getDuration atRest)) = lt at h ⊢
          cases lt with
          | nil => rfl
          | cons x rest =>
            obtain ⟨n0, t0⟩ := x
            simp only at h ⊢
            exact sim_alignLoop _ _ s h

theorem sim_enableEom (m : Option Nat) (amp detOn detOff : Rat) (sb sw : Bool) :
    Sim (fun c => enableEom m c amp detOn detOff sb sw) (fun c => enableEom none c amp detOn detOff sb sw) :=
  fun _ h => enableEom_erase h

theorem sim_disableEom (m : Option Nat) (sk : Bool) :
    Sim (fun c => disableEom m c sk) (fun c => disableEom none c sk) :=
  fun _ h => disableEom_erase h

theorem step_enableEom_erase {s : SeqState} {n : ChName} {e : EomIn}
    (h : (stepRaw s (.enableEom n e)).err = none) :
    stepRaw (erase s) (.enableEom n e) = eraseRaw (stepRaw s (.enableEom n e)) := by
  simp only [stepRaw] at h ⊢
  by_cases hm : s.measured.isSome = true
  · rw [if_pos hm] at h; simp [fail] at h
  · have hm' : ¬ (erase s).measured.isSome = true := hm
    rw [if_neg hm] at h
    rw [if_neg hm', if_neg hm]
    cases hv : s.validateChannel n false with
    | error er => simp [hv, fail] at h
    | ok c =>
      simp only [hv, validateChannel_erase hv] at h ⊢
      by_cases h1 : c.inEomMode = true
      · rw [if_pos h1] at h; simp [fail] at h
      · have h1' : ¬ (eraseChan c).inEomMode = true := h1
        rw [if_neg h1] at h
        rw [if_neg h1', if_neg h1]
        by_cases h2 : c.cfg.eom.isNone = true
        · rw [if_pos h2] at h; simp [fail] at h
        · have h2' : ¬ (eraseChan c).cfg.eom.isNone = true := h2
          rw [if_neg h2] at h
          rw [if_neg h2', if_neg h2]
          cases hp : processEomParams c e with
          | error er => simp [hp, fail] at h
          | ok detOff =>
            simp only [hp, processEomParams_erase hp] at h ⊢
            apply orRollback_erase_of_ok h
            rw [Raw.orRollback_err] at h
            unfold enableEomCommit at h ⊢
            simp only at h ⊢
            obtain ⟨a1, a2, a3⟩ := rbind_ok h
            rw [a3]
            have e1 := withChan_erase (sim_enableEom s.dev.maxSeqDur e.amp e.detOn detOff false false) a1
            have e1' : (erase s).withChan n (fun c => enableEom (erase s).dev.maxSeqDur c e.amp e.detOn detOff false false)
                = eraseRaw (s.withChan n fun c => enableEom s.dev.maxSeqDur c e.amp e.detOn detOff false false) := e1
            rw [e1']
            generalize (s.withChan n fun c => enableEom s.dev.maxSeqDur c e.amp e.detOn detOff false false) = r1
              at a1 a2 ⊢
            have ea : (eraseRaw r1).err = none := a1
            have est : (eraseRaw r1).st = erase r1.st := rfl
            unfold Raw.bind
            simp only [ea, est]
            rw [store_err] at a2
            rw [← store_erase]
            congr 1
            by_cases hc : e.corr = true
            · rw [if_pos hc] at a2
              rw [if_pos hc, if_pos hc, getLast_erase]
              cases hb : (r1.st.getChan n).bind (·.slots.getLast?) with
              | none => simp [hb, fail] at a2
              | some buf =>
                simp only
                exact phaseShift_erase _ _ _ _
            · rw [if_neg hc, if_neg hc]; rfl

theorem step_disableEom_erase {s : SeqState} {n : ChName} {corr : Bool}
    (h : (stepRaw s (.disableEom n corr)).err = none) :
    stepRaw (erase s) (.disableEom n corr) = eraseRaw (stepRaw s (.disableEom n corr)) := by
  simp only [stepRaw] at h ⊢
  rw [store_err] at h
  rw [← store_erase]
  congr 1
  apply orRollback_erase_of_ok h
  rw [Raw.orRollback_err] at h
  by_cases hm : s.measured.isSome = true
  · rw [if_pos hm] at h; simp [fail] at h
  · have hm' : ¬ (erase s).measured.isSome = true := hm
    rw [if_neg hm] at h
    rw [if_neg hm', if_neg hm]
    cases hv : s.validateChannel n false with
    | error er => simp [hv, fail] at h
    | ok c =>
      simp only [hv, validateChannel_erase hv] at h ⊢
      by_cases h1 : (!c.inEomMode) = true
      · rw [if_pos h1] at h; simp [fail] at h
      · have h1' : ¬ (!(eraseChan c).inEomMode) = true := h1
        rw [if_neg h1] at h
        rw [if_neg h1', if_neg h1]
        obtain ⟨a1, a2, a3⟩ := rbind_ok h
        rw [a3]
        have e1' : (erase s).withChan n (fun c => disableEom (erase s).dev.maxSeqDur c false)
            = eraseRaw (s.withChan n fun c => disableEom s.dev.maxSeqDur c false) :=
          withChan_erase (sim_disableEom s.dev.maxSeqDur false) a1
        rw [e1']
        generalize (s.withChan n fun c => disableEom s.dev.maxSeqDur c false) = r1 at a1 a2 ⊢
        have ea : (eraseRaw r1).err = none := a1
        have est : (eraseRaw r1).st = erase r1.st := rfl
        unfold Raw.bind
        simp only [ea, est]
        by_cases hc : corr = true
        · rw [if_pos hc] at a2
          rw [if_pos hc, if_pos hc, getChan_erase]
          cases hg : r1.st.getChan n with
          | none => simp [hg, fail] at a2
          | some c1 =>
            simp only [hg, Option.map_some, eraseChan_eom, eraseChan_slots] at a2 ⊢
            cases hl : c1.slots.getLast? with
            | none => simp [hl, fail] at a2
            | some l =>
              simp only
              exact phaseShift_erase _ _ _ _
        · rw [if_neg hc, if_neg hc]; rfl

theorem step_modifyEom_erase {s : SeqState} {n : ChName} {e : EomIn}
    (h : (stepRaw s (.modifyEom n e)).err = none) :
    stepRaw (erase s) (.modifyEom n e) = eraseRaw (stepRaw s (.modifyEom n e)) := by
  simp only [stepRaw] at h ⊢
  by_cases hm : s.measured.isSome = true
  · rw [if_pos hm] at h; simp [fail] at h
  · have hm' : ¬ (erase s).measured.isSome = true := hm
    rw [if_neg hm] at h
    rw [if_neg hm', if_neg hm]
    cases hv : s.validateChannel n false with
    | error er => simp [hv, fail] at h
    | ok c =>
      simp only [hv, validateChannel_erase hv] at h ⊢
      by_cases h1 : (!c.inEomMode) = true
      · rw [if_pos h1] at h; simp [fail] at h
      · have h1' : ¬ (!(eraseChan c).inEomMode) = true := h1
        rw [if_neg h1] at h
        rw [if_neg h1', if_neg h1]
        cases hp : processEomParams c e with
        | error er => simp [hp, fail] at h
        | ok detOff =>
          simp only [hp, processEomParams_erase hp] at h ⊢
          apply orRollback_erase_of_ok h
          rw [Raw.orRollback_err] at h
          unfold modifyEomCommit at h ⊢
          simp only at h ⊢
          obtain ⟨a1, a2, a3⟩ := rbind_ok h
          rw [a3]
          have e1' : (erase s).withChan n (fun c => disableEom (erase s).dev.maxSeqDur c true)
              = eraseRaw (s.withChan n fun c => disableEom s.dev.maxSeqDur c true) :=
            withChan_erase (sim_disableEom s.dev.maxSeqDur true) a1
          rw [e1']
          generalize (s.withChan n fun c => disableEom s.dev.maxSeqDur c true) = r1 at a1 a2 ⊢
          have ea : (eraseRaw r1).err = none := a1
          have est : (eraseRaw r1).st = erase r1.st := rfl
          rw [rbind_none ea, est]
          rw [getChan_erase]
          cases hg : r1.st.getChan n with
          | none => simp [hg, fail] at a2
          | some c1 =>
            simp only [hg, Option.map_some] at a2 ⊢
            obtain ⟨b1, b2, b3⟩ := rbind_ok a2
            rw [b3]
            have e2' : (erase r1.st).withChan n
                  (fun c => enableEom (erase s).dev.maxSeqDur c e.amp e.detOn detOff false true)
                = eraseRaw (r1.st.withChan n fun c => enableEom s.dev.maxSeqDur c e.amp e.detOn detOff false true) :=
              withChan_erase (sim_enableEom s.dev.maxSeqDur e.amp e.detOn detOff false true) b1
            rw [e2']
            generalize (r1.st.withChan n fun c => enableEom s.dev.maxSeqDur c e.amp e.detOn detOff false true) = r2
              at b1 b2 ⊢
            have eb : (eraseRaw r2).err = none := b1
            have est2 : (eraseRaw r2).st = erase r2.st := rfl
            rw [rbind_none eb, est2]
            rw [store_err] at b2
            rw [← store_erase]
            congr 1
            by_cases hc : e.corr = true
            · rw [if_pos hc] at b2
              rw [if_pos hc, if_pos hc, getLast_erase]
              cases hb : (r2.st.getChan n).bind (·.slots.getLast?) with
              | none => simp [hb, fail] at b2
              | some buf =>
                simp only
                exact phaseShift_erase _ _ _ _
            · rw [if_neg hc, if_neg hc]; rfl

theorem estimateCore_erase {s : SeqState} {p : PulseIn} {c : ChanState} {proto : Protocol}
    (hn : (erase s).others (eraseChan c).name = (s.others c.name).map eraseChan)
    (h : (estimateCore s p c proto).err = none) :
    estimateCore (erase s) p (eraseChan c) proto = eraseRaw (estimateCore s p c proto) := by
  unfold estimateCore at h ⊢
  have hle : (eraseChan c).last = c.last := rfl
  cases hl : c.last with
  | error e => simp [hl, fail] at h
  | ok last =>
    rw [hl] at hle
    simp only [hl, hle] at h ⊢
    by_cases hc : (!c.cfg.isDmm && !allSame (s.lastPhases c.cfg.basis last.targets)) = true
    · rw [if_pos hc] at h; simp [fail] at h
    · have hc' : ¬ (!(eraseChan c).cfg.isDmm &&
          !allSame ((erase s).lastPhases (eraseChan c).cfg.basis last.targets)) = true := hc
      rw [if_neg hc] at h
      rw [if_neg hc', if_neg hc]
      cases hv : validateAndAdjust c p (if c.cfg.isDmm = true then none
          else (s.lastPhases c.cfg.basis last.targets).head?) with
      | error e => simp [hv, fail] at h
      | ok pr =>
        have hv' : validateAndAdjust (eraseChan c) p (if (eraseChan c).cfg.isDmm = true then none
          else ((erase s).lastPhases (eraseChan c).cfg.basis last.targets).head?) = .ok pr :=
          validateAndAdjust_erase hv
        simp only [hv, hv'] at h ⊢
        cases hs : makeNextPulseSlot s.dev.maxSeqDur c (s.others c.name) pr
            (s.lastTimes c.cfg.basis last.targets) proto none false with
        | error e => simp [hs, fail] at h
        | ok slot =>
          have hs' : makeNextPulseSlot (erase s).dev.maxSeqDur (eraseChan c) ((erase s).others (eraseChan c).name) pr
              ((erase s).lastTimes (eraseChan c).cfg.basis last.targets) proto none false = .ok slot := by
            rw [hn]; exact makeNextPulseSlot_erase hs
          simp only [hs']
          rfl

theorem step_query_erase {s : SeqState} {op : Op}
    (hq : match op with | .getDuration .. | .estimate .. | .phaseRef .. => True | _ => False)
    (h : (stepRaw s op).err = none) : stepRaw (erase s) op = eraseRaw (stepRaw s op) := by
  cases op <;> simp only at hq
  · -- getDuration
    rename_i ch fall
    simp only [stepRaw] at h ⊢
    cases ch with
    | none =>
      simp only [erase_chans, List.map_map]
      rfl
    | some n =>
      simp only at h ⊢
      rw [getChan_erase]
      cases hg : s.getChan n with
      | none => simp [hg, fail] at h
      | some c => rfl
  · -- estimate
    rename_i p n proto
    simp only [stepRaw] at h ⊢
    cases hv : s.validateChannel n false with
    | error e => simp [hv, fail] at h
    | ok c =>
      simp only [hv, validateChannel_erase hv] at h ⊢
      cases proto with
      | none => simp [fail] at h
      | some pr =>
        simp only at h ⊢
        exact estimateCore_erase (others_erase s c.name) h
  · -- phaseRef
    rename_i q b
    simp only [stepRaw] at h ⊢
    by_cases hq : q ≥ s.nQ
    · rw [if_pos hq] at h; simp [fail] at h
    · have hq' : ¬ q ≥ (erase s).nQ := hq
      rw [if_neg hq', if_neg hq]
      have : (erase s).getRefs b = s.getRefs b := rfl
      rw [this]
      cases s.getRefs b <;> rfl

/-- **Erasing the limits is a simulation**: a call that is accepted on `s` is accepted on the
limit-free state `erase s` and leaves it in the erased post-state, with the same returned value. -/
theorem stepRaw_erase (s : SeqState) (op : Op) (h : (stepRaw s op).err = none) :
    stepRaw (erase s) op = eraseRaw (stepRaw s op) := by
  cases op with
  | declare name chId init => exact step_declare_erase h
  | configDetMap d a b => exact step_configDetMap_erase h
  | target qs n => exact step_target_erase h
  | add p n pr => exact step_add_erase h
  | addDmm p n pr => exact step_addDmm_erase h
  | addEom n d ph po pr c fs fe r => exact step_addEom_erase h
  | delay d n a => exact step_delay_erase h
  | align chs a => exact step_align_erase h
  | phaseShift phi qs b => exact step_phaseShift_erase
  | enableEom n e => exact step_enableEom_erase h
  | modifyEom n e => exact step_modifyEom_erase h
  | disableEom n c => exact step_disableEom_erase h
  | measure b => exact step_measure_erase
  | getDuration ch f => exact step_query_erase trivial h
  | estimate p n pr => exact step_query_erase trivial h
  | phaseRef q b => exact step_query_erase trivial h

/-- Histories of accepted calls commute with erasure. -/
theorem run_erase (s : SeqState) (ops : List Op) (h : allOk s ops = true) :
    run (erase s) ops = erase (run s ops) := by
  induction ops generalizing s with
  | nil => rfl
  | cons op rest ih =>
    simp only [allOk, Bool.and_eq_true, Option.isNone_iff_eq_none] at h
    have e := stepRaw_erase s op h.1
    simp only [run, List.foldl_cons] at ih ⊢
    rw [e]
    exact ih _ h.2

/-! ### the field tables -/

theorem eom_ext {x y : Option EomCfg}
    (h0 : x.isSome = y.isSome)
    (h1 : x.map (·.rise) = y.map (·.rise)) (h2 : x.map (·.bufferTime) = y.map (·.bufferTime))
    (h3 : (x.map fun e => if e.customBuffer then 1 else 0) = (y.map fun e => if e.customBuffer then (1 : Nat) else 0)) :
    x = y := by
  cases x with
  | none => cases y with
    | none => rfl
    | some b => simp at h0
  | some a => cases y with
    | none => simp at h0
    | some b =>
      obtain ⟨r1, b1, c1⟩ := a
      obtain ⟨r2, b2, c2⟩ := b
      simp only [Option.map_some, Option.some.injEq] at h1 h2 h3
      subst h1 h2
      cases c1 <;> cases c2 <;> simp_all

/-- Agreement on the timing fields gives the same erased configuration. -/
theorem timing_eq_of_agree {a b : ChanCfg} (h : agreeOn timingFields a b = true) : timing a = timing b := by
  simp only [agreeOn, timingFields, List.all_cons, List.all_nil, Bool.and_true, Bool.and_eq_true, beq_iff_eq,
    get] at h
  simp only [String.reduceEq, if_true, if_false, FVal.ty.injEq, FVal.basis.injEq, FVal.bool.injEq,
    FVal.nat.injEq, FVal.onat.injEq] at h
  obtain ⟨⟨t1, t2⟩, hb, hl, hc, hmd, hr, hp, hmr, hfr, he0, he1, he2, he3⟩ := h
  have he := eom_ext he0 he1 he2 he3
  cases a; cases b
  simp only [timing, effMinRetarget] at *
  simp_all

/-- The two tables name every field of `ChanCfg`: agreement on all of them is equality. -/
theorem eq_of_agree_all {a b : ChanCfg} (h : agreeOn (timingFields ++ limitFields) a b = true) : a = b := by
  simp only [agreeOn, timingFields, limitFields, List.cons_append, List.nil_append, List.all_cons, List.all_nil,
    Bool.and_true, Bool.and_eq_true, beq_iff_eq, get] at h
  simp only [String.reduceEq, if_true, if_false, FVal.ty.injEq, FVal.basis.injEq, FVal.bool.injEq,
    FVal.nat.injEq, FVal.onat.injEq, FVal.orat.injEq, FVal.rat.injEq] at h
  obtain ⟨⟨t1, t2⟩, hb, hl, hc, hmd, hr, hp, hmr, hfr, he0, he1, he2, he3, l1, l2, l3, l4, l5, l6, l7⟩ := h
  have he := eom_ext he0 he1 he2 he3
  cases a; cases b
  simp_all

theorem map_timing_of_agree : ∀ {l₁ l₂ : List ChanCfg}, chansAgree l₁ l₂ = true → l₁.map timing = l₂.map timing
  | [], [], _ => rfl
  | [], _ :: _, h => by simp [chansAgree] at h
  | _ :: _, [], h => by simp [chansAgree] at h
  | a :: l₁, b :: l₂, h => by
    simp only [chansAgree, List.length_cons, List.zip_cons_cons, List.all_cons, Bool.and_eq_true, beq_iff_eq,
      Nat.add_right_cancel_iff] at h
    have ih : l₁.map timing = l₂.map timing :=
      map_timing_of_agree (by simp only [chansAgree, Bool.and_eq_true, beq_iff_eq]; exact ⟨h.1, h.2.2⟩)
    simp only [List.map_cons, timing_eq_of_agree h.2.1, ih]

theorem eraseDev_eq_of_agree {d₁ d₂ : Device} (h : devicesAgree d₁ d₂ = true) : eraseDev d₁ = eraseDev d₂ := by
  simp only [devicesAgree, Bool.and_eq_true] at h
  simp only [eraseDev, map_timing_of_agree h.1, map_timing_of_agree h.2]

/-! ### soundness of a complete strict comparison -/

theorem strictMatch_mem {params : List String} {eom : Bool} {a b : ChanCfg} {f : String}
    (hm : strictMatch params eom a b = true) (hf : f ∈ params) (hg : guardHolds f eom a b = true) :
    paramEq f a b = true := by
  unfold strictMatch at hm
  have := List.all_eq_true.mp hm f hf
  simpa [hg] using this

/-- The part of the erased configuration that does not depend on the EOM. -/
theorem strictMatch_core {params : List String}
    (hcov : ∀ f ∈ timingFields, f ∉ dynamicFields → f ∈ params) {eom : Bool} {a b : ChanCfg}
    (wa : retargetWF a = true) (wb : retargetWF b = true) (hm : strictMatch params eom a b = true) :
    timing (noEom a) = timing (noEom b) := by
  have g : ∀ f, f ∈ timingFields → f ∉ dynamicFields → guardHolds f eom a b = true → paramEq f a b = true :=
    fun f h1 h2 h3 => strictMatch_mem hm (hcov f h1 h2) h3
  have e1 := g "type" (by decide) (by decide) (by simp [guardHolds])
  have e2 := g "basis" (by decide) (by decide) (by simp [guardHolds])
  have e3 := g "addressing" (by decide) (by decide) (by simp [guardHolds])
  have e4 := g "clock_period" (by decide) (by decide) (by simp [guardHolds])
  have e5 := g "min_duration" (by decide) (by decide) (by simp [guardHolds])
  have e6 := g "mod_bandwidth" (by decide) (by decide) (by simp [guardHolds])
  have e7 := g "phase_jump_time" (by decide) (by decide) (by simp [guardHolds])
  have e8 := g "fixed_retarget_t" (by decide) (by decide) (by simp [guardHolds])
  have e9 := g "min_retarget_interval" (by decide) (by decide)
  simp only [paramEq, get, String.reduceEq, if_false, if_true, beq_iff_eq, FVal.ty.injEq, FVal.basis.injEq,
    FVal.bool.injEq, FVal.nat.injEq] at e1 e2 e3 e4 e5 e6 e7 e8
  simp only [paramEq, get, guardHolds, String.reduceEq, if_false, if_true, beq_iff_eq, FVal.nat.injEq,
    or_self, Bool.or_eq_true, checkRetarget, Bool.and_eq_true, decide_eq_true_eq] at e9
  simp only [retargetWF, Bool.or_eq_true, decide_eq_true_eq] at wa wb
  have hmr : effMinRetarget a = effMinRetarget b := by
    unfold effMinRetarget
    by_cases hg : (a.isLocal = true ∧ a.fixedRetarget < a.minRetarget) ∨ (b.isLocal = true ∧ b.fixedRetarget < b.minRetarget)
    · have := e9 hg
      rw [this, e8]
    · have ha : a.minRetarget ≤ a.fixedRetarget := by
        rcases wa with w | w
        · by_cases hh : a.fixedRetarget < a.minRetarget
          · exact absurd (Or.inl ⟨w, hh⟩) hg
          · omega
        · exact w
      have hb : b.minRetarget ≤ b.fixedRetarget := by
        rcases wb with w | w
        · by_cases hh : b.fixedRetarget < b.minRetarget
          · exact absurd (Or.inr ⟨w, hh⟩) hg
          · omega
        · exact w
      rw [if_pos ha, if_pos hb]
  have e1 := e1.1
  clear g hm hcov wa wb e9
  cases a; cases b
  simp only at e1 e2 e3 e4 e5 e6 e7 e8
  subst e1 e2 e3 e4 e5 e6 e7 e8
  simp only [timing, noEom, ChanCfg.mk.injEq, true_and, and_true]
  exact hmr

/-- **A strict comparison that covers every static timing parameter is sound** for a channel whose
EOM mode is never enabled: the two configurations have the same erased form. -/
theorem strictMatch_sound {params : List String}
    (hcov : ∀ f ∈ timingFields, f ∉ dynamicFields → f ∈ params) {a b : ChanCfg}
    (wa : retargetWF a = true) (wb : retargetWF b = true) (hm : strictMatch params false a b = true) :
    timing (noEom a) = timing (noEom b) := strictMatch_core hcov wa wb hm

/-- … and for a channel whose EOM mode is used, given the two EOM buffer parameters that only the
post-replay sample comparison covers. -/
theorem strictMatch_sound_eom {params : List String}
    (hcov : ∀ f ∈ timingFields, f ∉ dynamicFields → f ∈ params) {a b : ChanCfg}
    (wa : retargetWF a = true) (wb : retargetWF b = true) (hm : strictMatch params true a b = true)
    (hae : a.eom.isSome = true) (hdyn : agreeOn dynamicFields a b = true) :
    timing a = timing b := by
  have core := strictMatch_core hcov wa wb hm
  have g : ∀ f, f ∈ timingFields → f ∉ dynamicFields → guardHolds f true a b = true → paramEq f a b = true :=
    fun f h1 h2 h3 => strictMatch_mem hm (hcov f h1 h2) h3
  have e1 := g "eom_config" (by decide) (by decide) (by simp [guardHolds])
  have e2 := g "eom_config.mod_bandwidth" (by decide) (by decide) (by simp [guardHolds])
  simp only [paramEq, get, String.reduceEq, if_false, if_true, beq_iff_eq, FVal.onat.injEq] at e1 e2
  simp only [agreeOn, dynamicFields, List.all_cons, List.all_nil, Bool.and_true, Bool.and_eq_true, beq_iff_eq,
    get, String.reduceEq, if_false, if_true, FVal.onat.injEq] at hdyn
  have he : a.eom = b.eom := eom_ext (by rw [hae, e1]) e2 hdyn.1 hdyn.2
  clear g hm hcov wa wb e1 e2 hdyn hae
  cases a; cases b
  simp only at he
  subst he
  simp only [timing, noEom, effMinRetarget, ChanCfg.mk.injEq, true_and, and_true] at core ⊢
  exact core

theorem covers_of_missing_nil {params samples : List String} (h : strictMissing params samples = []) :
    ∀ f ∈ timingFields, f ∉ dynamicFields → f ∈ params := by
  intro f hf hd
  unfold strictMissing at h
  have := List.filter_eq_nil_iff.mp h f hf
  by_cases hp : params.contains f = true
  · simpa using hp
  · exfalso
    apply this
    simp only [Bool.and_eq_true, Bool.not_eq_eq_eq_not, Bool.not_true, Bool.and_eq_false_imp]
    refine ⟨by simpa using hp, ?_⟩
    intro hc
    exact absurd (by simpa using hc) hd

theorem all_ite_singleton (c : Bool) (x : String) (f : String → Bool) :
    (if c = true then [x] else []).all f = (!c || f x) := by cases c <;> simp

/-- `check_channels_match(strict=True)` in statement order is the table-driven comparison over
`modelStrictParams`. -/
theorem checkChannelsMatch_ok_iff (old new : ChanCfg) (eom : Bool) :
    checkChannelsMatch old new eom true = .ok ↔ strictMatch modelStrictParams eom old new = true := by
  unfold checkChannelsMatch strictMatch modelStrictParams paramsToCheck
  simp only [List.all_cons, List.all_nil, Bool.and_true, guardHolds, paramEq, String.reduceEq, if_false,
    if_true, or_false, or_true, or_self, List.all_append, Bool.not_true, Bool.false_eq_true,
    all_ite_singleton]
  generalize (get old "type" == get new "type") = a1
  generalize (get old "basis" == get new "basis") = a2
  generalize (get old "addressing" == get new "addressing") = a3
  generalize (get old "eom_config.mod_bandwidth" == get new "eom_config.mod_bandwidth") = a4
  generalize (get old "mod_bandwidth" == get new "mod_bandwidth") = a5
  generalize (get old "fixed_retarget_t" == get new "fixed_retarget_t") = a6
  generalize (get old "clock_period" == get new "clock_period") = a7
  generalize (get old "min_retarget_interval" == get new "min_retarget_interval") = a8
  generalize (get old "min_duration" == get new "min_duration") = a10
  generalize (get old "phase_jump_time" == get new "phase_jump_time") = a11
  generalize new.eom.isSome = a9
  generalize (checkRetarget old || checkRetarget new) = g
  cases eom <;> cases a1 <;> cases a2 <;> cases a3 <;> cases a4 <;> cases a5 <;> cases a6 <;> cases a7 <;>
    cases a8 <;> cases a9 <;> cases a10 <;> cases a11 <;> cases g <;> decide

/-! ### device-level consequences -/

theorem timeline_erase (s : SeqState) : timeline (erase s) = timeline s := by
  unfold timeline
  simp only [erase_chans, List.map_map, erase_refs, erase_measured]
  rfl


/-- A pair of channels that a complete strict comparison accepts. -/
def pairOk (params : List String) (a b : ChanCfg) : Bool :=
  retargetWF a && retargetWF b &&
    ((a.eom.isNone && b.eom.isNone && strictMatch params false a b) ||
     (a.eom.isSome && strictMatch params true a b && agreeOn dynamicFields a b))

def listOk (params : List String) (l₁ l₂ : List ChanCfg) : Bool :=
  l₁.length == l₂.length && (l₁.zip l₂).all fun (a, b) => pairOk params a b

theorem timing_of_pairOk {params samples : List String} (h : strictMissing params samples = [])
    {a b : ChanCfg} (hp : pairOk params a b = true) : timing a = timing b := by
  simp only [pairOk, Bool.and_eq_true, Bool.or_eq_true] at hp
  obtain ⟨⟨wa, wb⟩, hc⟩ := hp
  rcases hc with ⟨⟨ha, hb⟩, hm⟩ | ⟨⟨ha, hm⟩, hd⟩
  · have := strictMatch_sound (covers_of_missing_nil h) wa wb hm
    have ea : noEom a = a := by
      cases a
      simp only [noEom, ChanCfg.mk.injEq, true_and, and_true]
      simp only [Option.isNone_iff_eq_none] at ha
      exact ha.symm
    have eb : noEom b = b := by
      cases b
      simp only [noEom, ChanCfg.mk.injEq, true_and, and_true]
      simp only [Option.isNone_iff_eq_none] at hb
      exact hb.symm
    rwa [ea, eb] at this
  · exact strictMatch_sound_eom (covers_of_missing_nil h) wa wb hm ha hd

theorem map_timing_of_listOk {params samples : List String} (h : strictMissing params samples = []) :
    ∀ {l₁ l₂ : List ChanCfg}, listOk params l₁ l₂ = true → l₁.map timing = l₂.map timing
  | [], [], _ => rfl
  | [], _ :: _, hl => by simp [listOk] at hl
  | _ :: _, [], hl => by simp [listOk] at hl
  | a :: l₁, b :: l₂, hl => by
    simp only [listOk, List.length_cons, List.zip_cons_cons, List.all_cons, Bool.and_eq_true, beq_iff_eq,
      Nat.add_right_cancel_iff] at hl
    have ih : l₁.map timing = l₂.map timing :=
      map_timing_of_listOk h (by simp only [listOk, Bool.and_eq_true, beq_iff_eq]; exact ⟨hl.1, hl.2.2⟩)
    simp only [List.map_cons, timing_of_pairOk h hl.2.1, ih]

end Switch
end Pulser
