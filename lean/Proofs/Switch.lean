/-
  Proofs.Switch — lemmas for property C18.

  Main result: *erasing the limits is a simulation*.  `erase` removes from a sequence state every
  field that is not in `Switch.timingFields` (maximal durations, amplitude / detuning limits,
  target limits, DMM bottoms, the device's maximal sequence duration and channel reusability) and
  normalises `min_retarget_interval` to what `add_target` can see of it.  `stepRaw_erase`: a call
  that is accepted is also accepted on the erased state, and yields the erased result.  Hence two
  devices that agree on the timing fields give the same timeline for every history of accepted
  calls (`Properties.C18.timing_congr`).
-/
import PulserModel.Switch
namespace Pulser
namespace Switch

/-! ### the erased configuration -/

@[simp] theorem timing_isDmm (c : ChanCfg) : (timing c).isDmm = c.isDmm := rfl
@[simp] theorem timing_basis (c : ChanCfg) : (timing c).basis = c.basis := rfl
@[simp] theorem timing_isLocal (c : ChanCfg) : (timing c).isLocal = c.isLocal := rfl
@[simp] theorem timing_clock (c : ChanCfg) : (timing c).clock = c.clock := rfl
@[simp] theorem timing_minDur (c : ChanCfg) : (timing c).minDur = c.minDur := rfl
@[simp] theorem timing_maxDur (c : ChanCfg) : (timing c).maxDur = none := rfl
@[simp] theorem timing_rise (c : ChanCfg) : (timing c).rise = c.rise := rfl
@[simp] theorem timing_pjt (c : ChanCfg) : (timing c).pjt = c.pjt := rfl
@[simp] theorem timing_minRetarget (c : ChanCfg) : (timing c).minRetarget = effMinRetarget c := rfl
@[simp] theorem timing_fixedRetarget (c : ChanCfg) : (timing c).fixedRetarget = c.fixedRetarget := rfl
@[simp] theorem timing_maxTargets (c : ChanCfg) : (timing c).maxTargets = none := rfl
@[simp] theorem timing_eom (c : ChanCfg) : (timing c).eom = c.eom := rfl
@[simp] theorem timing_maxAmp (c : ChanCfg) : (timing c).maxAmp = none := rfl
@[simp] theorem timing_maxAbsDet (c : ChanCfg) : (timing c).maxAbsDet = none := rfl
@[simp] theorem timing_minAvgAmp (c : ChanCfg) : (timing c).minAvgAmp = 0 := rfl
@[simp] theorem timing_bottom (c : ChanCfg) : (timing c).bottom = none := rfl
@[simp] theorem timing_totalBottom (c : ChanCfg) : (timing c).totalBottom = none := rfl

@[simp] theorem eraseChan_cfg (c : ChanState) : (eraseChan c).cfg = timing c.cfg := rfl
@[simp] theorem eraseChan_name (c : ChanState) : (eraseChan c).name = c.name := rfl
@[simp] theorem eraseChan_chId (c : ChanState) : (eraseChan c).chId = c.chId := rfl
@[simp] theorem eraseChan_slots (c : ChanState) : (eraseChan c).slots = c.slots := rfl
@[simp] theorem eraseChan_eom (c : ChanState) : (eraseChan c).eom = c.eom := rfl
@[simp] theorem eraseChan_maxW (c : ChanState) : (eraseChan c).maxW = c.maxW := rfl
@[simp] theorem eraseChan_sumW (c : ChanState) : (eraseChan c).sumW = c.sumW := rfl
@[simp] theorem eraseChan_ddOracle (c : ChanState) : (eraseChan c).ddOracle = c.ddOracle := rfl
@[simp] theorem eraseChan_last (c : ChanState) : (eraseChan c).last = c.last := rfl
@[simp] theorem eraseChan_inEomMode (c : ChanState) : (eraseChan c).inEomMode = c.inEomMode := rfl
@[simp] theorem eraseChan_lastTarget (c : ChanState) : (eraseChan c).lastTarget = c.lastTarget := rfl
@[simp] theorem eraseChan_lastPulseSlot (c : ChanState) (b : Bool) :
    (eraseChan c).lastPulseSlot b = c.lastPulseSlot b := rfl
@[simp] theorem eraseChan_lastPulsePhase (c : ChanState) : (eraseChan c).lastPulsePhase = c.lastPulsePhase := rfl
@[simp] theorem eraseChan_getDuration (c : ChanState) (b : Bool) :
    (eraseChan c).getDuration b = c.getDuration b := rfl
@[simp] theorem eraseChan_lookupDD (c : ChanState) (x : Rat) (d : Nat) :
    (eraseChan c).lookupDD x d = c.lookupDD x d := rfl
@[simp] theorem eraseChan_withSlots (c : ChanState) (l : List Slot) :
    eraseChan { c with slots := l } = { eraseChan c with slots := l } := rfl
@[simp] theorem eraseChan_withEom (c : ChanState) (l : List EomBlock) :
    eraseChan { c with eom := l } = { eraseChan c with eom := l } := rfl

/-! ### durations -/

theorem validateDuration_erase {c : ChanCfg} {d r : Nat} (h : validateDuration c d = .ok r) :
    validateDuration (timing c) d = .ok r := by
  unfold validateDuration at h ⊢
  simp only [timing_minDur, timing_maxDur, timing_clock, overNat]
  repeat' split at h
  all_goals first
    | (cases h; done)
    | (cases h; simp_all)

theorem adjust_erase {c : ChanState} {d r : Nat} (h : c.adjust d = .ok r) :
    (eraseChan c).adjust d = .ok r := by
  unfold ChanState.adjust adjustDuration at h ⊢
  simpa using validateDuration_erase h

theorem checkDuration_none (t : Int) : checkDuration none t = .ok () := rfl

theorem mkDetunedDelay_erase (c : ChanState) (d : Nat) (x y : Rat) :
    mkDetunedDelay (eraseChan c) d x y = mkDetunedDelay c d x y := rfl

theorem addDelay_erase {m : Option Nat} {c c' : ChanState} {d : Nat} (h : addDelay m c d = .ok c') :
    addDelay none (eraseChan c) d = .ok (eraseChan c') := by
  unfold addDelay at h ⊢
  cases hl : c.last with
  | error e => simp [hl, bind, Except.bind] at h
  | ok last =>
    cases hv : validateDuration c.cfg d with
    | error e => simp [hl, hv, bind, Except.bind] at h
    | ok d' =>
      cases hc : checkDuration m (last.tf + (d' : Int)) with
      | error e => simp [hl, hv, hc, bind, Except.bind] at h
      | ok u =>
        have hv' := validateDuration_erase hv
        simp only [hl, hv, hc, bind, Except.bind] at h
        simp only [eraseChan_last, eraseChan_cfg, hl, hv', checkDuration_none, bind, Except.bind,
          eraseChan_eom, eraseChan_lastPulsePhase, mkDetunedDelay_erase, eraseChan_slots]
        cases he : c.eom.getLast? with
        | none =>
          simp only [he] at h ⊢
          cases h; rfl
        | some b =>
          simp only [he] at h ⊢
          split at h
          · rename_i hcond
            rw [if_pos hcond]
            cases hm : mkDetunedDelay c d' b.detOff c.lastPulsePhase with
            | error e => rw [hm] at h; cases h
            | ok p => rw [hm] at h; cases h; rfl
          · rename_i hcond
            rw [if_neg hcond]
            cases h; rfl

theorem waitForFall_erase {m : Option Nat} {c c' : ChanState} (h : waitForFall m c = .ok c') :
    waitForFall none (eraseChan c) = .ok (eraseChan c') := by
  unfold waitForFall at h ⊢
  simp only at h ⊢
  by_cases hpos : c.getDuration true - c.getDuration false > 0
  · have hpos' : (eraseChan c).getDuration true - (eraseChan c).getDuration false > 0 := hpos
    rw [if_pos hpos] at h
    rw [if_pos hpos']
    cases ha : c.adjust (c.getDuration true - c.getDuration false).toNat with
    | error e => simp [ha, bind, Except.bind] at h
    | ok d =>
      simp only [ha, bind, Except.bind] at h
      have ha' : (eraseChan c).adjust ((eraseChan c).getDuration true - (eraseChan c).getDuration false).toNat
          = .ok d := adjust_erase ha
      simp only [ha', bind, Except.bind]
      exact addDelay_erase h
  · have hpos' : ¬ (eraseChan c).getDuration true - (eraseChan c).getDuration false > 0 := hpos
    rw [if_neg hpos] at h
    rw [if_neg hpos']
    cases h; rfl

/-! ### CRes plumbing -/

theorem lift_ok {c : ChanState} {x : Except Err ChanState} (h : (CRes.lift c x).err = none) :
    x = .ok (CRes.lift c x).c := by
  cases x with
  | error e => simp [CRes.lift] at h
  | ok c' => rfl

theorem lift_of_ok {c c' : ChanState} {x : Except Err ChanState} (h : x = .ok c') :
    CRes.lift c x = ⟨c', none⟩ := by subst h; rfl

/-- The erased result of a channel-level operation. -/
def eraseCRes (r : CRes) : CRes := ⟨eraseChan r.c, r.err⟩

theorem bind_ok {r : CRes} {f : ChanState → CRes} (h : (r.bind f).err = none) :
    r.err = none ∧ (f r.c).err = none ∧ r.bind f = f r.c := by
  unfold CRes.bind at h ⊢
  cases hr : r.err with
  | none => simp only [hr] at h ⊢; exact ⟨trivial, h, trivial⟩
  | some e => simp [hr] at h

/-! ### retargeting -/

theorem retargetDelta_eff (c : ChanState) (ti : Int) :
    retargetDelta (eraseChan c) ti = retargetDelta c ti := by
  unfold retargetDelta
  simp only [eraseChan_cfg, timing_minRetarget, timing_fixedRetarget, eraseChan_lastTarget, effMinRetarget]
  by_cases hle : c.cfg.minRetarget ≤ c.cfg.fixedRetarget
  · rw [if_pos hle]
    by_cases hf : c.cfg.fixedRetarget = 0
    · have : c.cfg.minRetarget = 0 := by omega
      simp [hf, this]
    · simp only [hf, ne_eq, not_false_eq_true, if_true]
      have h1 : ((c.cfg.minRetarget : Nat) : Int) ≤ (c.cfg.fixedRetarget : Int) := by exact_mod_cast hle
      omega
  · simp [hle]

theorem sameTargets_erase (c : ChanState) (qs : List Nat) : sameTargets (eraseChan c) qs = sameTargets c qs := rfl

theorem addTarget_erase {m : Option Nat} {c : ChanState} {qs : List Nat}
    (h : (addTarget m c qs).err = none) :
    addTarget none (eraseChan c) qs = eraseCRes (addTarget m c qs) := by
  unfold addTarget at h ⊢
  by_cases he : c.slots.isEmpty = true
  · -- first target slot
    have he' : (eraseChan c).slots.isEmpty = true := he
    rw [if_pos he] at h
    rw [if_pos he', if_pos he]
    have hx := lift_ok h
    cases hc : checkDuration m 0 with
    | error e => simp [hc, bind, Except.bind] at hx
    | ok u =>
      simp only [checkDuration_none, bind, Except.bind]
      rfl
  · have he' : ¬ (eraseChan c).slots.isEmpty = true := he
    rw [if_neg he] at h
    rw [if_neg he', if_neg he]
    by_cases hst : sameTargets c qs = true
    · have hst' : sameTargets (eraseChan c) qs = true := hst
      rw [if_pos hst', if_pos hst]; rfl
    · have hst' : ¬ sameTargets (eraseChan c) qs = true := hst
      rw [if_neg hst] at h
      rw [if_neg hst', if_neg hst]
      obtain ⟨h1, h2, h3⟩ := bind_ok h
      rw [h3]
      have hw := lift_ok h1
      generalize (CRes.lift c (waitForFall m c)).c = c1 at hw h2
      have hw' := waitForFall_erase hw
      unfold CRes.bind
      rw [lift_of_ok hw']
      simp only
      have hx := lift_ok h2
      generalize (CRes.lift c1 _).c = c2 at hx
      rw [lift_of_ok hx]
      -- replay the inner computation on the erased channel
      cases hl : c1.last with
      | error e => simp [hl] at hx
      | ok last =>
        simp only [hl, eraseChan_last, retargetDelta_eff] at hx ⊢
        split at hx
        · cases hx
        · rename_i delta hadj
          have hadj' : (if retargetDelta c1 last.tf ≠ 0 then
              (eraseChan c1).adjust (retargetDelta c1 last.tf).toNat else Except.ok 0) = .ok delta := by
            split at hadj
            · rename_i hd; rw [if_pos hd]; exact adjust_erase hadj
            · rename_i hd; rw [if_neg hd]; exact hadj
          rw [hadj']
          simp only [checkDuration_none]
          split at hx
          · cases hx
          · cases hx
            rfl

/-! ### adding pulses -/

theorem findAddDelay_erase (others : List ChanState) (tg : List Nat) (w : Bool) (t0 : Int) :
    findAddDelay (others.map eraseChan) tg w t0 = findAddDelay others tg w t0 := by
  unfold findAddDelay
  induction others generalizing t0 with
  | nil => rfl
  | cons o rest ih => simp only [List.map_cons, List.foldl_cons]; exact ih _

theorem curMaxOf_erase (others : List ChanState) (last : Slot) (b : List Int) (p : Protocol) :
    curMaxOf (others.map eraseChan) last b p = curMaxOf others last b p := by
  unfold curMaxOf
  split
  · exact findAddDelay_erase _ _ _ _
  · rfl

theorem phaseJumpBuffer_erase (c : ChanState) (t0 : Int) (ph : Rat) (p : Protocol) :
    phaseJumpBuffer (eraseChan c) t0 ph p = phaseJumpBuffer c t0 ph p := rfl

theorem makeNextPulseSlot_erase {m : Option Nat} {c : ChanState} {others : List ChanState} {p : PulseRec}
    {b : List Int} {proto : Protocol} {drift : Option Drift} {blk : Bool} {sl : Slot}
    (h : makeNextPulseSlot m c others p b proto drift blk = .ok sl) :
    makeNextPulseSlot none (eraseChan c) (others.map eraseChan) p b proto drift blk = .ok sl := by
  unfold makeNextPulseSlot at h ⊢
  simp only [eraseChan_last]
  cases hl : c.last with
  | error e => simp [hl] at h
  | ok last =>
    simp only [hl, curMaxOf_erase, phaseJumpBuffer_erase] at h ⊢
    split at h
    · cases h
    · rename_i delay hadj
      have hadj' : (if max (curMaxOf others last b proto - last.tf)
            (phaseJumpBuffer c last.tf (fmtPhase (correctedPhase p drift (curMaxOf others last b proto))) proto) > 0
          then (eraseChan c).adjust (max (curMaxOf others last b proto - last.tf)
            (phaseJumpBuffer c last.tf (fmtPhase (correctedPhase p drift (curMaxOf others last b proto))) proto)).toNat
          else Except.ok 0) = .ok delay := by
        split at hadj
        · rename_i hd; rw [if_pos hd]; exact adjust_erase hadj
        · rename_i hd; rw [if_neg hd]; exact hadj
      rw [hadj']
      simp only
      split at h
      · cases h
      · have : (if blk = true then checkDuration none (last.tf + ↑delay + ↑p.dur) else Except.ok ()) = .ok () := by
          split <;> rfl
        rw [this]
        exact h

theorem addPulse_erase {m : Option Nat} {c c' : ChanState} {others : List ChanState} {p : PulseRec}
    {b : List Int} {proto : Protocol} {drift : Option Drift}
    (h : addPulse m c others p b proto drift = .ok c') :
    addPulse none (eraseChan c) (others.map eraseChan) p b proto drift = .ok (eraseChan c') := by
  unfold addPulse at h ⊢
  simp only [eraseChan_last]
  cases hl : c.last with
  | error e => simp [hl, bind, Except.bind] at h
  | ok last =>
    cases hs : makeNextPulseSlot m c others p b proto drift true with
    | error e => simp [hl, hs, bind, Except.bind] at h
    | ok slot =>
      simp only [hl, hs, makeNextPulseSlot_erase hs, bind, Except.bind] at h ⊢
      by_cases hd : slot.ti - last.tf > 0
      · rw [if_pos hd] at h ⊢
        cases ha : addDelay m c (slot.ti - last.tf).toNat with
        | error e => simp [ha] at h
        | ok c1 =>
          simp only [ha, addDelay_erase ha] at h ⊢
          cases h; rfl
      · rw [if_neg hd] at h ⊢
        simp only [pure, Except.pure] at h ⊢
        cases h; rfl

/-! ### simulation combinators for channel-level operations -/

/-- `G` on the erased channel reproduces every success of `F`. -/
def SimE (F G : ChanState → Except Err ChanState) : Prop :=
  ∀ c c', F c = .ok c' → G (eraseChan c) = .ok (eraseChan c')

def Sim (f g : ChanState → CRes) : Prop :=
  ∀ c, (f c).err = none → g (eraseChan c) = eraseCRes (f c)

theorem Sim.lift {F G : ChanState → Except Err ChanState} (h : SimE F G) :
    Sim (fun c => CRes.lift c (F c)) (fun c => CRes.lift c (G c)) := by
  intro c hc
  have hx := lift_ok hc
  simp only
  rw [lift_of_ok (h _ _ hx), lift_of_ok hx]; rfl

theorem Sim.id : Sim (fun c => ⟨c, none⟩) (fun c => ⟨c, none⟩) := fun _ _ => rfl

theorem Sim.bind {f g f' g' : ChanState → CRes} (h1 : Sim f g) (h2 : Sim f' g') :
    Sim (fun c => (f c).bind f') (fun c => (g c).bind g') := by
  intro c hc
  obtain ⟨a1, a2, a3⟩ := bind_ok hc
  simp only at a3 ⊢
  rw [a3, h1 c a1]
  unfold CRes.bind
  simp only [eraseCRes, a1]
  exact h2 _ a2

/-- Run `f` only when `b`. -/
def condC (b : Bool) (f : ChanState → CRes) : ChanState → CRes := fun c => if b = true then f c else ⟨c, none⟩

theorem Sim.cond (b : Bool) {f g : ChanState → CRes} (h : Sim f g) : Sim (condC b f) (condC b g) := by
  intro c hc
  unfold condC at hc ⊢
  cases b with
  | true => simpa using h c (by simpa using hc)
  | false => rfl

theorem sim_waitForFall (m : Option Nat) :
    Sim (fun c => CRes.lift c (waitForFall m c)) (fun c => CRes.lift c (waitForFall none c)) :=
  Sim.lift fun _ _ h => waitForFall_erase h

/-! ### EOM mode -/

/-- The buffer stage of `enable_eom`. -/
def eomBuffer (m : Option Nat) (detOff : Rat) : ChanState → CRes := fun c =>
  CRes.lift c (do
    let buf ← c.adjust (match c.cfg.eom with | some e => e.bufferTime | none => 0)
    if detOff ≠ 0 then
      let p ← mkDetunedDelay c buf detOff c.lastPulsePhase
      addPulse m c [] p [0] .noDelay none
    else addDelay m c buf)

/-- The stage of `enable_eom` that opens the block. -/
def eomOpen (amp detOn detOff : Rat) : ChanState → CRes := fun c =>
  CRes.lift c (do
    let last ← c.last
    .ok { c with eom := c.eom ++ [⟨last.tf, none, amp, detOn, detOff⟩] })

theorem sim_eomBuffer (m : Option Nat) (detOff : Rat) : Sim (eomBuffer m detOff) (eomBuffer none detOff) := by
  apply Sim.lift
  intro c c' hx
  cases ha : c.adjust (match c.cfg.eom with | some e => e.bufferTime | none => 0) with
  | error e => simp [ha, bind, Except.bind] at hx
  | ok buf =>
    have ha' : (eraseChan c).adjust (match (eraseChan c).cfg.eom with | some e => e.bufferTime | none => 0)
        = .ok buf := adjust_erase ha
    simp only [ha, bind, Except.bind] at hx
    simp only [ha', bind, Except.bind]
    by_cases hd : detOff ≠ 0
    · rw [if_pos hd] at hx ⊢
      simp only [mkDetunedDelay_erase, eraseChan_lastPulsePhase]
      cases hm : mkDetunedDelay c buf detOff c.lastPulsePhase with
      | error e => simp [hm] at hx
      | ok p =>
        simp only [hm] at hx ⊢
        have := addPulse_erase hx
        simpa using this
    · rw [if_neg hd] at hx ⊢
      exact addDelay_erase hx

theorem sim_eomOpen (amp detOn detOff : Rat) : Sim (eomOpen amp detOn detOff) (eomOpen amp detOn detOff) := by
  apply Sim.lift
  intro c c' hx
  simp only [eraseChan_last]
  cases hl : c.last with
  | error e => simp [hl, bind, Except.bind] at hx
  | ok last =>
    simp only [hl, bind, Except.bind] at hx ⊢
    cases hx; rfl

theorem enableEom_erase {m : Option Nat} {c : ChanState} {amp detOn detOff : Rat} {skipB skipW : Bool}
    (h : (enableEom m c amp detOn detOff skipB skipW).err = none) :
    enableEom none (eraseChan c) amp detOn detOff skipB skipW
      = eraseCRes (enableEom m c amp detOn detOff skipB skipW) := by
  let F : Option Nat → ChanState → CRes := fun m c0 =>
    (condC (!skipB && decide (c.getDuration false ≠ 0))
      (fun c1 => (condC (!skipW) (fun c2 => CRes.lift c2 (waitForFall m c2)) c1).bind (eomBuffer m detOff)) c0).bind
      (eomOpen amp detOn detOff)
  have e1 : enableEom m c amp detOn detOff skipB skipW = F m c := rfl
  have e2 : enableEom none (eraseChan c) amp detOn detOff skipB skipW = F none (eraseChan c) := rfl
  have sim : Sim (F m) (F none) :=
    Sim.bind (Sim.cond _ (Sim.bind (Sim.cond _ (sim_waitForFall m)) (sim_eomBuffer m detOff)))
      (sim_eomOpen amp detOn detOff)
  rw [e1] at h ⊢
  rw [e2]
  exact sim c h

/-- The closing stage of `disable_eom`. -/
def eomClose : ChanState → CRes := fun c =>
  CRes.lift c (do
    let last ← c.last
    .ok { c with eom := closeLastBlock c.eom last.tf })

/-- The buffer stage of `disable_eom`. -/
def eomEndBuffer (m : Option Nat) (skip : Bool) : ChanState → CRes := fun c =>
  if skip then ⟨c, none⟩
  else
    match c.cfg.eom with
    | some e =>
      if e.customBuffer then
        CRes.lift c (do
          let buf ← c.adjust e.bufferTime
          addDelay m c buf)
      else CRes.lift c (waitForFall m c)
    | none => CRes.lift c (waitForFall m c)

theorem sim_eomClose : Sim eomClose eomClose := by
  apply Sim.lift
  intro c c' hx
  simp only [eraseChan_last]
  cases hl : c.last with
  | error e => simp [hl, bind, Except.bind] at hx
  | ok last =>
    simp only [hl, bind, Except.bind] at hx ⊢
    cases hx; rfl

theorem sim_eomEndBuffer (m : Option Nat) (skip : Bool) : Sim (eomEndBuffer m skip) (eomEndBuffer none skip) := by
  intro c hc
  unfold eomEndBuffer at hc ⊢
  cases skip with
  | true => rfl
  | false =>
    simp only [Bool.false_eq_true, if_false, eraseChan_cfg, timing_eom] at hc ⊢
    cases he : c.cfg.eom with
    | none =>
      simp only [he] at hc ⊢
      exact sim_waitForFall m c hc
    | some e =>
      simp only [he] at hc ⊢
      by_cases hb : e.customBuffer = true
      · simp only [hb, ↓reduceIte] at hc ⊢
        have hx := lift_ok hc
        generalize (CRes.lift c _).c = c2 at hx
        rw [lift_of_ok hx]
        cases ha : c.adjust e.bufferTime with
        | error er => simp [ha, bind, Except.bind] at hx
        | ok buf =>
          simp only [ha, bind, Except.bind] at hx
          simp only [adjust_erase ha, bind, Except.bind]
          rw [lift_of_ok (addDelay_erase hx)]; rfl
      · simp only [hb] at hc ⊢
        exact sim_waitForFall m c hc

theorem disableEom_erase {m : Option Nat} {c : ChanState} {skip : Bool}
    (h : (disableEom m c skip).err = none) :
    disableEom none (eraseChan c) skip = eraseCRes (disableEom m c skip) :=
  (Sim.bind sim_eomClose (sim_eomEndBuffer m skip)) c h

/-! ### pulse validation -/

theorem validatePulse_erase {c : ChanState} {σ : PulseSummary} (h : validatePulse c σ = .ok ()) :
    validatePulse (eraseChan c) σ = .ok () := by
  unfold validatePulse at h ⊢
  simp only [eraseChan_cfg, timing_maxAmp, timing_maxAbsDet, timing_minAvgAmp, timing_isDmm, timing_bottom,
    timing_totalBottom, overRat, underRat]
  repeat' split at h
  all_goals first
    | (cases h; done)
    | (have : ¬ (0 < σ.avgAmp ∧ σ.avgAmp < 0) := fun ⟨a, b⟩ => absurd b (Rat.not_lt.mpr (Rat.le_of_lt a))
       simp_all)

theorem validateAndAdjust_erase {c : ChanState} {p : PulseIn} {r : Option Rat} {pr : PulseRec}
    (h : validateAndAdjust c p r = .ok pr) : validateAndAdjust (eraseChan c) p r = .ok pr := by
  unfold validateAndAdjust at h ⊢
  cases hv : validatePulse c p.sum with
  | error e => simp [hv] at h
  | ok u =>
    cases u
    simp only [hv, validatePulse_erase hv] at h ⊢
    cases hd : validateDuration c.cfg p.dur with
    | error e => simp [hd] at h
    | ok d =>
      simp only [hd, eraseChan_cfg, validateDuration_erase hd] at h ⊢
      exact h

theorem processEomParams_erase {c : ChanState} {e : EomIn} {x : Rat} (h : processEomParams c e = .ok x) :
    processEomParams (eraseChan c) e = .ok x := by
  unfold processEomParams at h ⊢
  split at h
  · cases h
  · rename_i hamp
    rw [if_neg hamp]
    cases hv : validatePulse c e.onSum with
    | error er => simp [hv] at h
    | ok u =>
      cases u
      simp only [hv, validatePulse_erase hv] at h ⊢
      cases hi : closestIdx e.opts e.optimal with
      | none => simp [hi] at h
      | some i =>
        simp only [hi] at h ⊢
        cases h1 : e.opts[i]? with
        | none => simp [h1] at h
        | some detOff =>
          cases h2 : e.offSums[i]? with
          | none => simp [h1, h2] at h
          | some σ =>
            simp only [h1, h2] at h ⊢
            cases hv2 : validatePulse c σ with
            | error er => simp [hv2] at h
            | ok u2 =>
              cases u2
              simp only [hv2, validatePulse_erase hv2] at h ⊢
              exact h

/-! ### the sequence state -/

def eraseRaw (r : Raw) : Raw := ⟨erase r.st, r.err, r.out⟩

@[simp] theorem erase_dev (s : SeqState) : (erase s).dev = eraseDev s.dev := rfl
@[simp] theorem erase_chans (s : SeqState) : (erase s).chans = s.chans.map eraseChan := rfl
@[simp] theorem erase_nQ (s : SeqState) : (erase s).nQ = s.nQ := rfl
@[simp] theorem erase_refs (s : SeqState) : (erase s).refs = s.refs := rfl
@[simp] theorem erase_inXY (s : SeqState) : (erase s).inXY = s.inXY := rfl
@[simp] theorem erase_inIsing (s : SeqState) : (erase s).inIsing = s.inIsing := rfl
@[simp] theorem erase_empty (s : SeqState) : (erase s).empty = s.empty := rfl
@[simp] theorem erase_measured (s : SeqState) : (erase s).measured = s.measured := rfl
@[simp] theorem erase_calls (s : SeqState) : (erase s).calls = s.calls := rfl
@[simp] theorem eraseDev_maxSeqDur (d : Device) : (eraseDev d).maxSeqDur = none := rfl
@[simp] theorem eraseDev_reusable (d : Device) : (eraseDev d).reusable = true := rfl
@[simp] theorem eraseDev_chans (d : Device) : (eraseDev d).chans = d.chans.map timing := rfl
@[simp] theorem eraseDev_dmms (d : Device) : (eraseDev d).dmms = d.dmms.map timing := rfl
@[simp] theorem erase_allQubits (s : SeqState) : (erase s).allQubits = s.allQubits := rfl
@[simp] theorem erase_getRefs (s : SeqState) (b : Basis) : (erase s).getRefs b = s.getRefs b := rfl
@[simp] theorem erase_lastPhases (s : SeqState) (b : Basis) (qs : List Nat) :
    (erase s).lastPhases b qs = s.lastPhases b qs := rfl
@[simp] theorem erase_lastTimes (s : SeqState) (b : Basis) (qs : List Nat) :
    (erase s).lastTimes b qs = s.lastTimes b qs := rfl

theorem getChan_erase (s : SeqState) (n : ChName) : (erase s).getChan n = (s.getChan n).map eraseChan := by
  unfold SeqState.getChan
  simp only [erase_chans, List.find?_map]
  rfl

theorem replaceChan_erase (c : ChanState) (l : List ChanState) :
    SeqState.replaceChan (eraseChan c) (l.map eraseChan) = (SeqState.replaceChan c l).map eraseChan := by
  induction l with
  | nil => rfl
  | cons x rest ih =>
    by_cases hx : (x.name == c.name) = true
    · simp [SeqState.replaceChan, hx]
    · simp [SeqState.replaceChan, hx, ih]

theorem setChan_erase (s : SeqState) (c : ChanState) : (erase s).setChan (eraseChan c) = erase (s.setChan c) := by
  unfold SeqState.setChan
  simp only [erase, replaceChan_erase]

theorem others_erase (s : SeqState) (n : ChName) : (erase s).others n = (s.others n).map eraseChan := by
  unfold SeqState.others
  simp only [erase_chans, List.filter_map]
  rfl

theorem setRefs_erase (s : SeqState) (b : Basis) (l : List QRef) : (erase s).setRefs b l = erase (s.setRefs b l) := rfl

theorem mapRefs_erase (s : SeqState) (b : Basis) (qs : List Nat) (f : QRef → QRef) :
    (erase s).mapRefs b qs f = erase (s.mapRefs b qs f) := by
  unfold SeqState.mapRefs
  simp only [erase_getRefs]
  cases s.getRefs b <;> rfl

theorem ensureBasis_erase (s : SeqState) (b : Basis) : (erase s).ensureBasis b = erase (s.ensureBasis b) := by
  unfold SeqState.ensureBasis
  simp only [erase_refs, erase_nQ]
  by_cases h : (s.refs.any (·.1 == b)) = true
  · simp only [h, ↓reduceIte]
  · simp only [h, ↓reduceIte]; rfl

theorem phaseShift_erase (s : SeqState) (phi : Rat) (qs : List Nat) (b : Basis) :
    (erase s).phaseShift phi qs b = eraseRaw (s.phaseShift phi qs b) := by
  unfold SeqState.phaseShift
  simp only [erase_getRefs, erase_allQubits, erase_nQ]
  by_cases h1 : (s.getRefs b).isNone = true
  · simp only [h1, ↓reduceIte]; rfl
  · simp only [h1, ↓reduceIte]
    by_cases h2 : ((if qs.isEmpty = true then s.allQubits else qs).any fun x => decide (x ≥ s.nQ)) = true
    · simp only [h2, ↓reduceIte]; rfl
    · simp only [h2, ↓reduceIte, mapRefs_erase]; rfl

theorem validateChannel_erase {s : SeqState} {n : ChName} {b : Bool} {c : ChanState}
    (h : s.validateChannel n b = .ok c) : (erase s).validateChannel n b = .ok (eraseChan c) := by
  unfold SeqState.validateChannel at h ⊢
  rw [getChan_erase]
  cases hg : s.getChan n with
  | none => simp [hg] at h
  | some c0 =>
    simp only [hg, Option.map_some, eraseChan_inEomMode] at h ⊢
    split at h
    · cases h
    · rename_i hc; rw [if_neg hc]; cases h; rfl

theorem withChan_erase {s : SeqState} {n : ChName} {f g : ChanState → CRes} (hs : Sim f g)
    (h : (s.withChan n f).err = none) : (erase s).withChan n g = eraseRaw (s.withChan n f) := by
  unfold SeqState.withChan at h ⊢
  rw [getChan_erase]
  cases hg : s.getChan n with
  | none => simp [hg, fail] at h
  | some c =>
    simp only [hg, Option.map_some] at h ⊢
    rw [hs c h]
    simp only [eraseCRes, setChan_erase]
    rfl

/-! ### Raw plumbing -/

def SimR (f g : SeqState → Raw) : Prop := ∀ s, (f s).err = none → g (erase s) = eraseRaw (f s)

theorem rbind_ok {r : Raw} {f : SeqState → Raw} (h : (r.bind f).err = none) :
    r.err = none ∧ (f r.st).err = none ∧ r.bind f = f r.st := by
  unfold Raw.bind at h ⊢
  cases hr : r.err with
  | none => simp only [hr] at h ⊢; exact ⟨trivial, h, trivial⟩
  | some e => simp [hr] at h

theorem eraseRaw_bind {r : Raw} {f g : SeqState → Raw} (hr : r.err = none) (hs : SimR f g)
    (h : (f r.st).err = none) : (eraseRaw r).bind g = eraseRaw (r.bind f) := by
  unfold Raw.bind
  simp only [eraseRaw, hr]
  exact hs _ h

theorem store_erase (op : Op) (r : Raw) : store op (eraseRaw r) = eraseRaw (store op r) := by
  unfold store eraseRaw
  cases r.err <;> rfl

theorem markNonEmpty_erase (r : Raw) : markNonEmpty (eraseRaw r) = eraseRaw (markNonEmpty r) := by
  unfold markNonEmpty eraseRaw
  cases r.err <;> rfl

theorem store_err (op : Op) (r : Raw) : (store op r).err = r.err := by
  unfold store; cases h : r.err <;> simp [h]

theorem markNonEmpty_err (r : Raw) : (markNonEmpty r).err = r.err := by
  unfold markNonEmpty; cases h : r.err <;> simp [h]

theorem eraseRaw_fail (s : SeqState) (e : Err) : eraseRaw (fail s e) = fail (erase s) e := rfl
theorem eraseRaw_done (s : SeqState) : eraseRaw (done s) = done (erase s) := rfl

end Switch
end Pulser
