/-
  Proofs.Align — what `Sequence.align` does to the ends of the aligned channels (C03).
-/
import Proofs.SeqInv
import Proofs.Protocol
namespace Pulser

theorem replaceChan_find_same {l : List ChanState} {c c' : ChanState} {n : ChName}
    (h : l.find? (·.name == n) = some c) (hn : c'.name = n) :
    (SeqState.replaceChan c' l).find? (·.name == n) = some c' := by
  induction l with
  | nil => cases h
  | cons a rest ih =>
    unfold SeqState.replaceChan
    by_cases ha : (a.name == c'.name) = true
    · rw [if_pos ha]; simp [hn]
    · rw [if_neg ha]
      have ha' : (a.name == n) = false := by rw [← hn]; simpa using ha
      simp only [List.find?_cons, ha'] at h ⊢
      exact ih h

theorem replaceChan_find_other {l : List ChanState} {c' : ChanState} {m : ChName} (hm : m ≠ c'.name) :
    (SeqState.replaceChan c' l).find? (·.name == m) = l.find? (·.name == m) := by
  induction l with
  | nil => rfl
  | cons a rest ih =>
    unfold SeqState.replaceChan
    by_cases ha : (a.name == c'.name) = true
    · rw [if_pos ha]
      have hac : a.name = c'.name := by simpa using ha
      have h1 : (c'.name == m) = false := by simpa using (Ne.symm hm)
      have h2 : (a.name == m) = false := by rw [hac]; exact h1
      simp only [List.find?_cons, h1, h2]
    · rw [if_neg ha]
      simp only [List.find?_cons]
      split
      · rfl
      · exact ih

theorem getChan_setChan_same {s : SeqState} {n : ChName} {c c' : ChanState}
    (h : s.getChan n = some c) (hn : c'.name = n) : (s.setChan c').getChan n = some c' :=
  replaceChan_find_same h hn

theorem getChan_setChan_other {s : SeqState} {m : ChName} {c' : ChanState} (hm : m ≠ c'.name) :
    (s.setChan c').getChan m = s.getChan m :=
  replaceChan_find_other hm

theorem addDelay_name {ms : Option Nat} {c c' : ChanState} {d : Nat} (h : addDelay ms c d = .ok c') :
    c'.name = c.name ∧ c'.cfg = c.cfg := by
  unfold addDelay at h
  cases hl : c.last with
  | error e => simp [hl, bind, Except.bind] at h
  | ok last =>
    cases hv : validateDuration c.cfg d with
    | error e => simp [hl, hv, bind, Except.bind] at h
    | ok d' =>
      cases hc : checkDuration ms (last.tf + (d' : Int)) with
      | error e => simp [hl, hv, hc, bind, Except.bind] at h
      | ok u =>
        simp only [hl, hv, hc, bind, Except.bind] at h
        split at h
        · split at h
          · split at h
            · cases h
            · injection h with h; subst h; exact ⟨rfl, rfl⟩
          · injection h with h; subst h; exact ⟨rfl, rfl⟩
        · injection h with h; subst h; exact ⟨rfl, rfl⟩

/-- What `add_delay` does to the end of a channel. -/
theorem addDelay_end {ms : Option Nat} {c c' : ChanState} {d : Nat} (hc : 0 < c.cfg.clock)
    (h : addDelay ms c d = .ok c') :
    ∃ d' : Nat, c'.getDuration false = c.getDuration false + d' ∧ d ≤ d' ∧ d' < d + c.cfg.clock ∧
      c.cfg.clock ∣ d' := by
  have hlast : ∃ last, c.last = .ok last := by
    cases hl : c.last with
    | ok last => exact ⟨last, rfl⟩
    | error e => unfold addDelay at h; simp [hl, bind, Except.bind] at h
  obtain ⟨last, hl⟩ := hlast
  obtain ⟨x, d', e1, _, e3, _, e5, e6, e7⟩ := addDelay_last hc hl h
  have h0 : c.getDuration false = last.tf := by
    obtain ⟨rest, hr⟩ := last_ok hl
    unfold ChanState.getDuration; rw [hr]; rfl
  have h1 : c'.getDuration false = x.tf := by
    have hx : c'.last = .ok x := last_snoc c' _ x e1
    obtain ⟨rest, hr⟩ := last_ok hx
    unfold ChanState.getDuration; rw [hr]; rfl
  exact ⟨d', by rw [h1, h0, e3], e5, e6, e7⟩

/-- A successful plain delay (not at rest, positive duration) on channel `n`: that channel is
extended by `add_delay`, every other channel and the measurement flag are untouched. -/
theorem delayCore_spec {s : SeqState} {n : ChName} {d : Nat} {c : ChanState} (hd : 0 < d)
    (hc : s.getChan n = some c) (hok : (delayCore s d n false).err = none) :
    ∃ c', addDelay s.dev.maxSeqDur c d = .ok c' ∧ (delayCore s d n false).st.getChan n = some c' ∧
      (∀ m, m ≠ n → (delayCore s d n false).st.getChan m = s.getChan m) ∧
      (delayCore s d n false).st.measured = s.measured ∧ (delayCore s d n false).st.dev = s.dev := by
  unfold delayCore at hok ⊢
  by_cases g0 : s.measured.isSome = true
  · rw [if_pos g0] at hok; simp [fail] at hok
  · rw [if_neg g0] at hok ⊢
    have hv : s.validateChannel n false = .ok c := by
      unfold SeqState.validateChannel; rw [hc]; simp
    simp only [hv] at hok ⊢
    have hd0 : ¬ ((d : Int) = 0) := by omega
    have hdn : ¬ ((d : Int) < 0) := by omega
    simp only [Bool.false_eq_true, if_false, Raw.bind, done, hd0, hdn] at hok ⊢
    unfold SeqState.withChan at hok ⊢
    simp only [hc] at hok ⊢
    unfold CRes.lift at hok ⊢
    simp only [Int.toNat_natCast] at hok ⊢
    cases ha : addDelay s.dev.maxSeqDur c d with
    | error e => simp [ha] at hok
    | ok c' =>
      simp only [ha] at hok ⊢
      have hnm := (addDelay_name ha).1
      have hcn : c.name = n := (getChan_mem hc).2
      refine ⟨c', rfl, getChan_setChan_same hc (hnm.trans hcn), ?_, rfl, rfl⟩
      intro m hm
      exact getChan_setChan_other (by rw [hnm, hcn]; exact hm)

/-- **`align`, channel by channel.**  If the loop of `Sequence.align` succeeds on distinct
channels, every aligned channel `n` ends at `end(n) + g` where `g = 0` if it already ends at
or after the target instant `T`, and otherwise `g` is an executable delay (at least the
minimum duration, a clock multiple — the adjusted value, least by `adjust_least` of C03)
covering `T − end(n)`; channels not in the list are untouched. -/
theorem alignLoop_spec (T : Int) :
    ∀ (l : List (ChName × Int)) (s : SeqState), (l.map (·.1)).Nodup → SeqInv s →
      (alignLoop T l s).err = none →
      (∀ n ∈ l.map (·.1), ∀ c, s.getChan n = some c →
        ∃ c', (alignLoop T l s).st.getChan n = some c' ∧
          ((T ≤ c.getDuration false ∧ c'.getDuration false = c.getDuration false) ∨
           (c.getDuration false < T ∧ ∃ g : Nat, c'.getDuration false = c.getDuration false + g ∧
              T ≤ c.getDuration false + g ∧ c.cfg.minDur ≤ g ∧ c.cfg.clock ∣ g))) ∧
      (∀ m, m ∉ l.map (·.1) → (alignLoop T l s).st.getChan m = s.getChan m) := by
  intro l
  induction l with
  | nil =>
    intro s _ _ _
    exact ⟨fun n hn => by simp at hn, fun m _ => rfl⟩
  | cons a rest ih =>
    intro s hnd hi hok
    obtain ⟨n, t⟩ := a
    have hnd' := List.nodup_cons.mp hnd
    have hnr : n ∉ rest.map (·.1) := hnd'.1
    unfold alignLoop at hok ⊢
    simp only at hok ⊢
    cases hc : s.getChan n with
    | none => simp [hc, fail] at hok
    | some c =>
      simp only [hc] at hok ⊢
      have hcm := getChan_mem hc
      have hck := (hi c hcm.1).1
      by_cases hpos : T - c.getDuration false > 0
      · rw [if_pos hpos] at hok ⊢
        cases ha : c.adjust (T - c.getDuration false).toNat with
        | error e => simp [ha, fail] at hok
        | ok d =>
          simp only [ha] at hok ⊢
          have had := adjustDuration_ok hck ha
          have hdpos : 0 < d := by
            have : 0 < (T - c.getDuration false).toNat := by omega
            omega
          unfold Raw.bind at hok ⊢
          cases hde : (delayCore s (d : Int) n false).err with
          | some e => simp [hde] at hok
          | none =>
            simp only [hde] at hok ⊢
            obtain ⟨c', hadd, hget, hoth, _, _⟩ := delayCore_spec hdpos hc hde
            have hi1 : SeqInv (delayCore s (d : Int) n false).st := (RG_delayCore hi _ _ _).1
            generalize (delayCore s (d : Int) n false).st = s1 at hok hget hoth hi1 ⊢
            obtain ⟨ihA, ihB⟩ := ih s1 hnd'.2 hi1 hok
            obtain ⟨d', e1, e2, _, e4⟩ := addDelay_end hck hadd
            refine ⟨?_, ?_⟩
            · intro n' hn' c0 hc0
              rcases List.mem_cons.mp (show n' ∈ n :: rest.map (·.1) from by simpa using hn') with hh | hh
              · -- the head channel
                have : n' = n := hh
                subst this
                rw [hc] at hc0; injection hc0 with hc0; subst hc0
                refine ⟨c', by rw [ihB n' hnr]; exact hget, .inr ⟨by omega, d', e1, by omega, by omega, e4⟩⟩
              · have hne : n' ≠ n := fun e => hnr (by rw [← e]; exact hh)
                exact ihA n' hh c0 (by rw [hoth n' hne]; exact hc0)
            · intro m hm
              have hm1 : m ≠ n := fun e => hm (by simp [e])
              have hm2 : m ∉ rest.map (·.1) := fun e => hm (by simp at e ⊢; exact .inr e)
              rw [ihB m hm2, hoth m hm1]
      · rw [if_neg hpos] at hok ⊢
        obtain ⟨ihA, ihB⟩ := ih s hnd'.2 hi hok
        refine ⟨?_, ?_⟩
        · intro n' hn' c0 hc0
          rcases List.mem_cons.mp (show n' ∈ n :: rest.map (·.1) from by simpa using hn') with hh | hh
          · have : n' = n := hh
            subst this
            rw [hc] at hc0; injection hc0 with hc0; subst hc0
            exact ⟨c, by rw [ihB n' hnr]; exact hc, .inl ⟨by omega, rfl⟩⟩
          · exact ihA n' hh c0 hc0
        · intro m hm
          have hm2 : m ∉ rest.map (·.1) := fun e => hm (by simp at e ⊢; exact .inr e)
          exact ihB m hm2

end Pulser
