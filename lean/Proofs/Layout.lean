/-
  Proofs.Layout — helper lemmas for C19 (trap numbering, look-ups, weight maps).
  Core Lean only.
-/
import PulserModel.Layout
namespace Pulser
namespace Layout

/-! ### The lexicographic order is a strict total order -/

theorem lexLt_irrefl (a : Coord) : lexLt a a = false := by
  induction a with
  | nil => rfl
  | cons x xs ih => simp [lexLt, ih]

theorem lexLt_trans {a b c : Coord} (h₁ : lexLt a b = true) (h₂ : lexLt b c = true) :
    lexLt a c = true := by
  induction a generalizing b c with
  | nil =>
    cases b with
    | nil => simp [lexLt] at h₁
    | cons y ys =>
      cases c with
      | nil => simp [lexLt] at h₂
      | cons z zs => simp [lexLt]
  | cons x xs ih =>
    cases b with
    | nil => simp [lexLt] at h₁
    | cons y ys =>
      cases c with
      | nil => simp [lexLt] at h₂
      | cons z zs =>
        simp only [lexLt, Bool.or_eq_true, Bool.and_eq_true, decide_eq_true_eq, beq_iff_eq]
          at h₁ h₂ ⊢
        rcases h₁ with h₁ | ⟨e₁, h₁⟩ <;> rcases h₂ with h₂ | ⟨e₂, h₂⟩
        · left; omega
        · left; omega
        · left; omega
        · right; exact ⟨by omega, ih h₁ h₂⟩

theorem lexLt_asymm {a b : Coord} (h : lexLt a b = true) : lexLt b a = false := by
  cases hb : lexLt b a with
  | false => rfl
  | true =>
    have := lexLt_trans h hb
    rw [lexLt_irrefl] at this
    exact absurd this (by simp)

/-- Trichotomy: two coordinates neither of which is below the other are equal. -/
theorem eq_of_not_lexLt {a b : Coord} (h₁ : lexLt a b = false) (h₂ : lexLt b a = false) :
    a = b := by
  induction a generalizing b with
  | nil =>
    cases b with
    | nil => rfl
    | cons y ys => simp [lexLt] at h₁
  | cons x xs ih =>
    cases b with
    | nil => simp [lexLt] at h₂
    | cons y ys =>
      have hx : x = y := by
        by_cases hxy : x < y
        · simp [lexLt, hxy] at h₁
        · by_cases hyx : y < x
          · simp [lexLt, hyx] at h₂
          · omega
      subst hx
      simp [lexLt] at h₁ h₂
      rw [ih h₁ h₂]

theorem lexLe_total (a b : Coord) : lexLe a b = true ∨ lexLe b a = true := by
  unfold lexLe
  cases h : lexLt b a with
  | false => left; rfl
  | true => right; rw [lexLt_asymm h]; rfl

theorem lexLe_antisymm {a b : Coord} (h₁ : lexLe a b = true) (h₂ : lexLe b a = true) : a = b := by
  unfold lexLe at h₁ h₂
  exact eq_of_not_lexLt (by simpa using h₂) (by simpa using h₁)

theorem lexLe_trans {a b c : Coord} (h₁ : lexLe a b = true) (h₂ : lexLe b c = true) :
    lexLe a c = true := by
  unfold lexLe at *
  have h₁' : lexLt b a = false := by simpa using h₁
  have h₂' : lexLt c b = false := by simpa using h₂
  cases hca : lexLt c a with
  | false => rfl
  | true =>
    exfalso
    cases hab : lexLt a b with
    | true =>
      have := lexLt_trans hca hab
      rw [h₂'] at this; exact absurd this (by simp)
    | false =>
      have : a = b := eq_of_not_lexLt hab h₁'
      subst this
      rw [h₂'] at hca; exact absurd hca (by simp)

/-- Not-before is strict-after for different coordinates. -/
theorem lexLt_of_lexLe_of_ne {a b : Coord} (h : lexLe a b = true) (hne : a ≠ b) :
    lexLt a b = true := by
  cases hab : lexLt a b with
  | true => rfl
  | false =>
    unfold lexLe at h
    exact absurd (eq_of_not_lexLt hab (by simpa using h)) hne

theorem keyLe_total {β : Type} (p q : Coord × β) : keyLe p q = true ∨ keyLe q p = true :=
  lexLe_total p.1 q.1

theorem keyLe_trans {β : Type} (p q r : Coord × β) (h₁ : keyLe p q = true) (h₂ : keyLe q r = true) :
    keyLe p r = true := lexLe_trans (a := p.1) (b := q.1) (c := r.1) h₁ h₂

/-! ### Stable insertion sort: permutation, sortedness, uniqueness -/

section SortSec
variable {α : Type} (le : α → α → Bool)

theorem insertBy_perm (a : α) (l : List α) : (insertBy le a l).Perm (a :: l) := by
  induction l with
  | nil => exact .refl _
  | cons b bs ih =>
    unfold insertBy
    split
    · exact .refl _
    · exact (List.Perm.cons b ih).trans (List.Perm.swap a b bs)

theorem sortBy_perm (l : List α) : (sortBy le l).Perm l := by
  induction l with
  | nil => exact .refl _
  | cons a l ih => exact (insertBy_perm le a _).trans (ih.cons a)

theorem insertBy_sorted (total : ∀ a b, le a b = true ∨ le b a = true)
    (trans : ∀ a b c, le a b = true → le b c = true → le a c = true)
    (a : α) (l : List α) (h : l.Pairwise (fun x y => le x y = true)) :
    (insertBy le a l).Pairwise (fun x y => le x y = true) := by
  induction l with
  | nil => simp [insertBy]
  | cons b bs ih =>
    rw [List.pairwise_cons] at h
    unfold insertBy
    split
    · rename_i hab
      rw [List.pairwise_cons]
      refine ⟨?_, List.pairwise_cons.mpr h⟩
      intro c hc
      rcases List.mem_cons.mp hc with rfl | hc
      · exact hab
      · exact trans _ _ _ hab (h.1 c hc)
    · rename_i hab
      have hba : le b a = true := by
        rcases total a b with h' | h'
        · exact absurd h' hab
        · exact h'
      rw [List.pairwise_cons]
      refine ⟨?_, ih h.2⟩
      intro c hc
      have := (insertBy_perm le a bs).mem_iff.mp hc
      rcases List.mem_cons.mp this with rfl | hc
      · exact hba
      · exact h.1 c hc

theorem sortBy_sorted (total : ∀ a b, le a b = true ∨ le b a = true)
    (trans : ∀ a b c, le a b = true → le b c = true → le a c = true) (l : List α) :
    (sortBy le l).Pairwise (fun x y => le x y = true) := by
  induction l with
  | nil => simp [sortBy]
  | cons a l ih => exact insertBy_sorted le total trans a _ ih

/-- A sorted list is determined by its elements as soon as the order is antisymmetric on them. -/
theorem sortBy_eq_of_perm (total : ∀ a b, le a b = true ∨ le b a = true)
    (trans : ∀ a b c, le a b = true → le b c = true → le a c = true)
    {l₁ l₂ : List α} (hp : l₁.Perm l₂)
    (antisymm : ∀ a b, a ∈ l₁ → b ∈ l₁ → le a b = true → le b a = true → a = b) :
    sortBy le l₁ = sortBy le l₂ := by
  apply List.Perm.eq_of_pairwise (le := fun x y => le x y = true)
  · intro a b ha hb
    exact antisymm a b ((sortBy_perm le l₁).mem_iff.mp ha)
      (hp.mem_iff.mpr ((sortBy_perm le l₂).mem_iff.mp hb))
  · exact sortBy_sorted le total trans l₁
  · exact sortBy_sorted le total trans l₂
  · exact (sortBy_perm le l₁).trans (hp.trans (sortBy_perm le l₂).symm)

end SortSec

theorem sortLex_perm (l : List Coord) : (sortLex l).Perm l := sortBy_perm lexLe l

theorem sortLex_sorted (l : List Coord) : (sortLex l).Pairwise (fun a b => lexLe a b = true) :=
  sortBy_sorted lexLe lexLe_total (fun _ _ _ => lexLe_trans) l

theorem sortLex_length (l : List Coord) : (sortLex l).length = l.length :=
  (sortLex_perm l).length_eq

theorem sortLex_nodup {l : List Coord} (h : l.Nodup) : (sortLex l).Nodup :=
  (sortLex_perm l).nodup_iff.mpr h

/-- With distinct coordinates the order of the trap ids is strict. -/
theorem sortLex_strict {l : List Coord} (h : l.Nodup) :
    (sortLex l).Pairwise (fun a b => lexLt a b = true) := by
  have h1 := sortLex_sorted l
  have h2 : (sortLex l).Pairwise (fun a b => a ≠ b) := sortLex_nodup h
  exact (h1.and h2).imp (fun ⟨hle, hne⟩ => lexLt_of_lexLe_of_ne hle hne)

theorem sortLex_eq_of_perm {l₁ l₂ : List Coord} (hp : l₁.Perm l₂) : sortLex l₁ = sortLex l₂ :=
  sortBy_eq_of_perm lexLe lexLe_total (fun _ _ _ => lexLe_trans) hp
    (fun _ _ _ _ h₁ h₂ => lexLe_antisymm h₁ h₂)

/-! ### Sorting coordinates with a payload -/

theorem map_fst_insertBy {β : Type} (p : Coord × β) (l : List (Coord × β)) :
    (insertBy keyLe p l).map (·.1) = insertBy lexLe p.1 (l.map (·.1)) := by
  induction l with
  | nil => rfl
  | cons q qs ih =>
    by_cases h : lexLe p.1 q.1 = true
    · simp [insertBy, keyLe, h]
    · simp [insertBy, keyLe, h, ih]

theorem map_fst_sortPairs {β : Type} (l : List (Coord × β)) :
    (sortPairs l).map (·.1) = sortLex (l.map (·.1)) := by
  induction l with
  | nil => rfl
  | cons p ps ih =>
    show (insertBy keyLe p (sortBy keyLe ps)).map (·.1) = insertBy lexLe p.1 (sortBy lexLe (ps.map (·.1)))
    rw [map_fst_insertBy]
    exact congrArg _ ih

theorem sortPairs_perm {β : Type} (l : List (Coord × β)) : (sortPairs l).Perm l :=
  sortBy_perm keyLe l

/-- With distinct keys, an entry is determined by its key. -/
theorem eq_of_fst_eq {β : Type} {l : List (Coord × β)} (h : (l.map (·.1)).Nodup)
    {a b : Coord × β} (ha : a ∈ l) (hb : b ∈ l) (e : a.1 = b.1) : a = b := by
  induction l with
  | nil => cases ha
  | cons c cs ih =>
    simp only [List.map_cons, List.nodup_cons, List.mem_map, not_exists, not_and] at h
    rcases List.mem_cons.mp ha with rfl | ha' <;> rcases List.mem_cons.mp hb with rfl | hb'
    · rfl
    · exact absurd e.symm (h.1 b hb')
    · exact absurd e (h.1 a ha')
    · exact ih h.2 ha' hb'

theorem sortPairs_eq_of_perm {β : Type} {l₁ l₂ : List (Coord × β)} (hp : l₁.Perm l₂)
    (hn : (l₁.map (·.1)).Nodup) : sortPairs l₁ = sortPairs l₂ :=
  sortBy_eq_of_perm keyLe keyLe_total keyLe_trans hp
    (fun _ _ ha hb h₁ h₂ => eq_of_fst_eq hn ha hb (lexLe_antisymm h₁ h₂))

/-! ### Look-up -/

theorem lookupLast_eq_none {c : Coord} {l : List Coord} (h : c ∉ l) : lookupLast c l = none := by
  induction l with
  | nil => rfl
  | cons d ds ih =>
    simp only [List.mem_cons, not_or] at h
    have hd : (d == c) = false := by simpa using fun e => h.1 e.symm
    simp [lookupLast, ih h.2, hd]

theorem lookupLast_getElem {l : List Coord} (hn : l.Nodup) (k : Nat) (hk : k < l.length) :
    lookupLast l[k] l = some k := by
  induction l generalizing k with
  | nil => simp at hk
  | cons d ds ih =>
    rw [List.nodup_cons] at hn
    cases k with
    | zero => simp [lookupLast, lookupLast_eq_none hn.1]
    | succ k =>
      have hk' : k < ds.length := by simpa using hk
      simp [lookupLast, ih hn.2 k hk']

theorem trapCoord_eq (L : Layout) {i : Nat} (h : i < L.sorted.length) :
    L.trapCoord i = L.sorted[i] := by
  simp [Layout.trapCoord, List.getD, List.getElem?_eq_getElem h]

theorem sorted_length (L : Layout) : L.sorted.length = L.nTraps := sortLex_length _

theorem trapsFromCoords_map (L : Layout) (hn : L.sorted.Nodup) (ids : List Nat)
    (hb : ∀ i ∈ ids, i < L.nTraps) : trapsFromCoords L (ids.map L.trapCoord) = .ok ids := by
  induction ids with
  | nil => rfl
  | cons i is ih =>
    have hi : i < L.sorted.length := by rw [sorted_length]; exact hb i (List.mem_cons_self)
    have := ih (fun j hj => hb j (List.mem_cons_of_mem _ hj))
    simp [trapsFromCoords, trapCoord_eq L hi, lookupLast_getElem hn i hi, this]

/-! ### `define_register` -/

theorem defaultIds_length (n : Nat) : (defaultIds n).length = n := by simp [defaultIds]

theorem place_ok {L : Layout} {ids : List Nat} {qs : List QId} {r : Reg}
    (hl : qs.length = ids.length) (h : place L ids qs = .ok r) :
    ids ≠ [] ∧ r.dim = L.dim ∧ r.trapIds = ids ∧ r.qubits = qs.zip (ids.map L.trapCoord) := by
  unfold place at h
  simp only at h
  split at h
  · cases h
  · rename_i hne
    split at h
    · cases h
    · cases h
      refine ⟨?_, rfl, rfl, rfl⟩
      rintro rfl
      simp at hne

/-- Everything a successful `define_register` establishes. -/
theorem defineRegister_ok {L : Layout} {ids : List Nat} {qids : Option (List QId)} {r : Reg}
    (h : defineRegister L ids qids = .ok r) :
    ids.Nodup ∧ (∀ i ∈ ids, i < L.nTraps) ∧ ids ≠ [] ∧ r.dim = L.dim ∧ r.trapIds = ids ∧
    r.qubits.map (·.2) = ids.map L.trapCoord ∧
    r.qubits.map (·.1) = (match truthy qids with
      | some qs => qs
      | none => defaultIds ids.length) := by
  unfold defineRegister at h
  split at h
  · cases h
  · rename_i hnd
    split at h
    · cases h
    · rename_i hall
      have hnd' : ids.Nodup := by simpa using hnd
      have hall' : ∀ i ∈ ids, i < L.nTraps := by simpa using hall
      split at h
      · rename_i qs hq
        split at h
        · cases h
        · split at h
          · cases h
          · rename_i hlen
            have hlen' : qs.length = ids.length := by simpa using hlen
            obtain ⟨h1, h2, h3, h4⟩ := place_ok hlen' h
            refine ⟨hnd', hall', h1, h2, h3, ?_, ?_⟩
            · have hle : (ids.map L.trapCoord).length ≤ qs.length := by
                rw [List.length_map]; omega
              rw [h4]; exact List.map_snd_zip hle
            · have hle : qs.length ≤ (ids.map L.trapCoord).length := by
                rw [List.length_map]; omega
              rw [h4, hq]; exact List.map_fst_zip hle
      · rename_i hq
        have hlen' : (defaultIds ids.length).length = ids.length := defaultIds_length _
        obtain ⟨h1, h2, h3, h4⟩ := place_ok hlen' h
        refine ⟨hnd', hall', h1, h2, h3, ?_, ?_⟩
        · have hle : (ids.map L.trapCoord).length ≤ (defaultIds ids.length).length := by
            rw [List.length_map]; omega
          rw [h4]; exact List.map_snd_zip hle
        · have hle : (defaultIds ids.length).length ≤ (ids.map L.trapCoord).length := by
            rw [List.length_map]; omega
          rw [h4, hq]; exact List.map_fst_zip hle

/-! ### Mappable registers -/

theorem filter_ne_of_not_mem {a : QId} {l : List QId} (h : a ∉ l) :
    l.filter (fun b => b != a) = l := by
  rw [List.filter_eq_self]
  intro b hb
  have : b ≠ a := fun e => h (e ▸ hb)
  simpa using this

theorem dedup_of_nodup {l : List QId} (h : l.Nodup) : dedup l = l := by
  induction l with
  | nil => rfl
  | cons a l ih =>
    rw [List.nodup_cons] at h
    simp [dedup, ih h.2, filter_ne_of_not_mem h.1]

theorem filter_mem_take_of_nodup {l : List QId} (hn : l.Nodup) (n : Nat) :
    l.filter (fun q => (l.take n).contains q) = l.take n := by
  induction l generalizing n with
  | nil => simp
  | cons a l ih =>
    rw [List.nodup_cons] at hn
    cases n with
    | zero => simp
    | succ n =>
      have hc : ∀ q ∈ l, ((a :: l.take n).contains q) = ((l.take n).contains q) := by
        intro q hq
        have : q ≠ a := fun e => hn.1 (e ▸ hq)
        simp [this]
      have h1 : (a :: l).filter (fun q => ((a :: l).take (n + 1)).contains q)
          = a :: l.filter (fun q => (a :: l.take n).contains q) := by
        simp
      rw [h1, List.take_succ_cons, List.filter_congr hc, ih hn.2 n]

theorem lookup_of_mem_nodup {l : List (QId × Nat)} (hn : (l.map (·.1)).Nodup) {q : QId} {t : Nat}
    (h : (q, t) ∈ l) : l.lookup q = some t := by
  induction l with
  | nil => cases h
  | cons a l ih =>
    obtain ⟨q', t'⟩ := a
    simp only [List.map_cons, List.nodup_cons, List.mem_map, not_exists, not_and] at hn
    rcases List.mem_cons.mp h with e | h'
    · cases e; simp [List.lookup]
    · have : q ≠ q' := fun e => hn.1 (q, t) h' e
      have hb : (q == q') = false := by simpa using this
      simp [List.lookup, hb, ih hn.2 h']

/-! ### Weights -/

theorem sum_perm {l₁ l₂ : List Rat} (h : l₁.Perm l₂) : l₁.sum = l₂.sum := by
  induction h with
  | nil => rfl
  | cons x _ ih => simp [ih]
  | swap x y l => simp [Rat.add_left_comm]
  | trans _ _ ih₁ ih₂ => exact ih₁.trans ih₂

theorem closeTo_self (x : Int) : closeTo x x = true := by simp [closeTo]

theorem closeCoord_self (c : Coord) : closeCoord c c = true := by
  simp [closeCoord, closeTo_self]

theorem weightOf_eq_unsorted (m : WeightMap) (p : Coord) :
    m.weightOf p = ((m.traps.filter fun tw => closeCoord tw.1 p).map (·.2)).sum :=
  sum_perm (((sortPairs_perm m.traps).filter _).map _)

theorem filter_eq_singleton {α : Type} {p : α → Bool} {l : List α} {a : α} (hn : l.Nodup)
    (ha : a ∈ l) (hp : p a = true) (hu : ∀ x ∈ l, p x = true → x = a) : l.filter p = [a] := by
  induction l with
  | nil => cases ha
  | cons b bs ih =>
    rw [List.nodup_cons] at hn
    rcases List.mem_cons.mp ha with rfl | ha'
    · have : bs.filter p = [] := by
        rw [List.filter_eq_nil_iff]
        intro x hx hpx
        have := hu x (List.mem_cons_of_mem _ hx) (by simpa using hpx)
        exact hn.1 (this ▸ hx)
      simp [hp, this]
    · have hb : p b = false := by
        cases hpb : p b with
        | false => rfl
        | true =>
          have := hu b List.mem_cons_self hpb
          exact absurd (this ▸ ha') hn.1
      simp [hb, ih hn.2 ha' (fun x hx => hu x (List.mem_cons_of_mem _ hx))]

theorem nodup_of_nodup_map_fst {β : Type} {l : List (Coord × β)} (h : (l.map (·.1)).Nodup) :
    l.Nodup := by
  induction l with
  | nil => exact List.nodup_nil
  | cons a l ih =>
    simp only [List.map_cons, List.nodup_cons, List.mem_map, not_exists, not_and] at h
    rw [List.nodup_cons]
    exact ⟨fun hm => h.1 a hm rfl, ih h.2⟩

/-! ### further helpers used by Properties/C19 -/

theorem all_zip_trapCoord (L : Layout) (qs : List QId) (ids : List Nat) :
    ((qs.zip (ids.map L.trapCoord)).zip ids).all (fun qt => qt.1.2 == L.trapCoord qt.2) = true := by
  induction qs generalizing ids with
  | nil => simp
  | cons q qs ih =>
    cases ids with
    | nil => simp
    | cons i is => simpa using ih is

theorem lookupLast_some {c : Coord} {l : List Coord} {i : Nat} (h : lookupLast c l = some i) :
    l[i]? = some c := by
  induction l generalizing i with
  | nil => simp [lookupLast] at h
  | cons d ds ih =>
    unfold lookupLast at h
    split at h
    · rename_i j hj
      cases h
      simpa using ih hj
    · split at h
      · rename_i hd
        cases h
        simpa using hd
      · cases h

theorem sameSet_contains {a b : List QId} (h : sameSet a b = true) (q : QId) :
    a.contains q = b.contains q := by
  simp only [sameSet, Bool.and_eq_true, List.all_eq_true] at h
  rw [Bool.eq_iff_iff]
  constructor
  · intro hq; exact h.1 q (by simpa using hq)
  · intro hq; exact h.2 q (by simpa using hq)

theorem mem_zip_map_self {α β : Type} (f : α → β) {q : α} {l : List α} (h : q ∈ l) :
    (q, f q) ∈ l.zip (l.map f) := by
  induction l with
  | nil => cases h
  | cons a l ih =>
    rcases List.mem_cons.mp h with rfl | h'
    · simp
    · simp only [List.map_cons, List.zip_cons_cons, List.mem_cons]
      exact .inr (ih h')

/-! ### registers constructed directly with layout / trap ids -/

theorem allOnTraps_spec (L : Layout) (qs : List (QId × RPos)) (ids : List Nat)
    (hl : ids.length = qs.length) (h : allOnTraps L qs ids = true) :
    qs.map (·.2) = ids.map (fun t => (L.trapCoord t).map (fun (z : Int) => (z : Rat))) := by
  induction qs generalizing ids with
  | nil =>
    cases ids with
    | nil => rfl
    | cons i is => simp at hl
  | cons q qs ih =>
    cases ids with
    | nil => simp at hl
    | cons i is =>
      simp only [allOnTraps, Bool.and_eq_true, onTrap, beq_iff_eq] at h
      simp only [List.map_cons, h.1, ih is (by simpa using hl) h.2]

/-- Everything a successful direct construction establishes. -/
theorem mkRegisterDirect_ok {L : Layout} {dim : Nat} {qs : List (QId × RPos)} {ids : List Nat}
    {r : Reg} (h : mkRegisterDirect L dim qs ids = .ok r) :
    qs ≠ [] ∧ L.dim = dim ∧ ids.Nodup ∧ ids.length = qs.length ∧ (∀ i ∈ ids, i < L.nTraps) ∧
    allOnTraps L qs ids = true ∧
    r = { dim := dim, qubits := (qs.map (·.1)).zip (ids.map L.trapCoord), trapIds := ids } := by
  unfold mkRegisterDirect at h
  by_cases h1 : qs.isEmpty = true
  · rw [if_pos h1] at h; cases h
  · rw [if_neg h1] at h
    by_cases h2 : L.dim ≠ dim
    · rw [if_pos h2] at h; cases h
    · rw [if_neg h2] at h
      by_cases h3 : ¬ ids.Nodup
      · rw [if_pos h3] at h; cases h
      · rw [if_neg h3] at h
        by_cases h5 : ¬ (ids.all fun i => decide (i < L.nTraps)) = true
        · rw [if_pos h5] at h; cases h
        · rw [if_neg h5] at h
          by_cases h4 : ids.length ≠ qs.length
          · rw [if_pos h4] at h; cases h
          · rw [if_neg h4] at h
            by_cases h6 : ¬ allOnTraps L qs ids = true
            · rw [if_pos h6] at h; cases h
            · rw [if_neg h6] at h
              cases h
              refine ⟨?_, by simpa using h2, by simpa using h3, by simpa using h4, ?_,
                by simpa using h6, rfl⟩
              · intro e; rw [e] at h1; exact h1 rfl
              · simpa using h5

theorem mkRegisterDirect_accepts {L : Layout} {dim : Nat} {qs : List (QId × RPos)} {ids : List Nat}
    (h1 : qs ≠ []) (h2 : L.dim = dim) (h3 : ids.Nodup) (h4 : ids.length = qs.length)
    (h5 : ∀ i ∈ ids, i < L.nTraps) (h6 : allOnTraps L qs ids = true) :
    mkRegisterDirect L dim qs ids =
      .ok { dim := dim, qubits := (qs.map (·.1)).zip (ids.map L.trapCoord), trapIds := ids } := by
  have e1 : qs.isEmpty = false := by
    cases qs with
    | nil => exact absurd rfl h1
    | cons _ _ => rfl
  have e5 : (ids.all fun i => decide (i < L.nTraps)) = true := by simpa using h5
  simp [mkRegisterDirect, e1, h2, h3, h4, e5, h6]

end Layout
end Pulser
